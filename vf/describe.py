"""python3 -m vf.describe  — markdown table of the registry (jobs and budgets per property), for DESIGN.md"""
from .props import PROPS

print("| id | level | monitor / build (quick cases, thorough cases) | floor q/t |")
print("|----|-------|-----------------------------------------------|-----------|")
for pid in sorted(PROPS):
    p = PROPS[pid]
    jobs = []
    for j in p["jobs"]:
        c = j["cases"]
        q, t = (c["quick"], c["thorough"]) if isinstance(c, dict) else (c, c)
        mode = ""
        a = j.get("args", [])
        if "--mode" in a:
            mode = ":" + a[a.index("--mode") + 1]
        jobs.append("%s%s/%s (%s, %s)" % (j["mon"], mode, j["cfg"], q, t))
    fl = p.get("floor", {})
    print("| %s | %s | %s | %s/%s |" % (pid, p["level"], "; ".join(jobs), fl.get("quick", "-"), fl.get("thorough", "-")))
