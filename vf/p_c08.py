"""C08 registry entry (see DESIGN.md section 3, C08)."""
from ._util import q as _q

ID = "C08"
PROP = {
    "level": "exploration",
    "level_text": ("Exploration: every run executes RectClip on hundreds of thousands (quick) to millions (thorough) of generated "
                   "polygon/rectangle pairs (lattice polygons touching, running along and passing through the corners of the "
                   "rectangle, enclosing polygons, spirals winding round it, general polygons up to 2^40) and judges each result, "
                   "polygon by polygon, against an exact winding-number oracle at margin-filtered sample points (all lattice cell "
                   "centres for lattice scenes), exact vertex-provenance, orientation, verbatim/vanish and path-by-path checks. "
                   "Exhaustive only over the cell centres of each generated lattice scene; the property quantifies over all "
                   "inputs, so this is sampling evidence, not proof."),
    "level_note": ("trusted base: __int128 orientation/winding oracle, the exact 'simple' and 'edge along a side' filters, g++; "
                   "errors within 2 units of the input path or within 2 units of the rectangle boundary are not observable; "
                   "self-intersecting polygons with an edge along a side are executed but only the unconditional claims are judged; "
                   "orientation is judged on the total signed area of a simple polygon's result (slivers inside the one-unit band skipped)"),
    "technique": "runtime monitoring: exact winding-number reference oracle per input polygon over generated executions",
    "rule": ("cases = one rectangle and 1-4 polygons; 55% lattice scenes (3-14 vertices on a <=10x10 lattice scaled by an even "
             "factor 2..2^36, rectangle on lattice lines, 9 polygon kinds incl. rectilinear walks, boundary-heavy, enclosing, "
             "spirals, U-notches exactly as wide as the rectangle, polygons through all four corners), 5% adversarial corner scenes (an edge whose line passes through a rectangle corner exactly or misses it by a "
             "sub-unit offset built from the Bezout vector of its direction, magnitudes 2^12..2^40, where the library's "
             "double-precision cross products are dominated by rounding), 10% star-shaped polygons enclosing the rectangle, 10% spirals winding round it up to 4 times, 20% general "
             "polygons (star-shaped, random, star polygons, vertices snapped to sides/corners) at magnitudes 2^6..2^40; every "
             "polygon is clipped alone and judged, multi-polygon cases also in one call (path-by-path clause); a case is "
             "non-trivial iff at least one polygon is not decided by the bounding-box shortcuts (its bounds neither inside nor "
             "disjoint from the rectangle) and at least 10 sample points cleared the margins and were judged; distinct by hash "
             "of rectangle+polygons"),
    "assumptions": ["exact __int128 orientation/winding oracle in harness/common/geom.h is correct",
                    "sample points within 2 units of the input path, or within 2 units of the rectangle boundary, are not judged"],
    "floor": _q(100000, 2500000),
    "must_count": _q(["samples_judged_inside", "samples_judged_outside", "polygons_simple", "polygons_selfint_parity_judged",
                      "inside_touching_checked", "outside_checked", "orientation_checked", "multi_path_calls"],
                     ["samples_judged_inside", "samples_judged_outside", "polygons_simple", "polygons_selfint_parity_judged",
                      "inside_touching_checked", "outside_checked", "orientation_checked", "multi_path_calls"]),
    "timeout": _q(150, 3600),
    "jobs": [
        # address-space cap and a short watchdog: a defect in the clip loop that allocates without bound must end as a
        # crash/timeout report, not take the machine down (the monitors themselves need < 100 MB)
        {"mon": "mon_c08", "cfg": "plain", "cases": _q(250000, 6000000), "prefix": ["prlimit", "--as=4000000000"]},
    ],
}
