"""C12 registry entry (DESIGN.md section 3, C12)."""
from ._util import q as _q


def _nseq(a, maxlen):
    return sum(a ** k for k in range(1, maxlen + 1))


def _post(x):
    """bit-identical repeated runs: jobs tagged 'twin' ran the same cases in two processes; their hashes must agree"""
    twins = {}
    for w in x["workers"]:
        t = w.job.get("twin")
        if not t:
            continue
        h = [r["value"] for r in w.all_records if r.get("t") == "info" and r.get("key") == "run_hash"]
        twins.setdefault((t, w.shard), []).append(h[-1] if h else None)
    n = 0
    for (t, shard), hs in sorted(twins.items()):
        if len(hs) == 2 and None not in hs:
            n += 1
            if hs[0] != hs[1]:
                x["report"]("C12.not_reproducible", ["process_twin_differs"], "",
                            "two processes running the same cases (twin %s shard %d) computed different results: %s vs %s" % (t, shard, hs[0], hs[1]))
    x["counters"]["process_twins_compared"] = n


ID = "C12"
PROP = {
    "level": "exploration",
    "level_text": ("Exploration of histories, exhaustive over a bounded space: all operation sequences of length <= 4 (quick) / <= 5 "
                   "(thorough) over a 14-symbol alphabet for Clipper64 and ClipperD (adds, option toggles, four real Execute forms, Execute(NoClip) into paths and into a tree, Clear; 16 symbols in the USINGZ build, which adds SetZCallback(f) and SetZCallback(nullptr) and compares z too), a 13-symbol alphabet for ClipperOffset and an "
                   "8-symbol alphabet for RectClip64/RectClipLines64, on four path bundles (general position, rectilinear-degenerate, "
                   "seeded, seeded scanline-sensitive), are executed and every Execute is compared with a freshly constructed object given the same inputs and "
                   "options; plus random histories of 50-200 operations, two clippers alternating on a shared "
                   "ReuseableDataContainer64, permutations of distant paths/groups in one offset call against their stand-alone "
                   "results, and two processes compared bit for bit. The bounded spaces of Clipper64, ClipperOffset and RectClip (one bundle at "
                   "the quick tier, two at the thorough tier) and random long histories are repeated in an ASan+UBSan build, so a history that leaves a stale pointer "
                   "behind (e.g. to the result container of an earlier call) is reported as a memory error."),
    "level_note": "model: 'fresh object' sequential specification; premise: one reusable container is added at most once between Clears (adding it twice never terminates normally, see C10 known finding); Execute(callback) is modelled as SetDeltaCallback+Execute(1.0), as its source states",
    "technique": "runtime monitoring: history checker against a fresh-object reference model, exhaustive bounded histories + random long histories + process twins; same histories under AddressSanitizer+UBSan",
    "rule": ("case index = (bundle, sequence number); a history is non-trivial iff it contains at least one Execute (then every Execute is "
             "compared with a fresh object); distinct by hash of bundle+sequence"),
    "assumptions": ["comparison is exact (ordered paths, open paths, tree shape, return value; bitwise for doubles)"],
    "exhaustive": True,
    "exhaustive_note": "exhaustive over the bounded history spaces (modes c64, cd, off, rect); modes long/shared/indep are random",
    "floor": _q(150000, 1500000),
    "must_count": _q(["executions_compared_c64", "executions_compared_cd", "executions_compared_off", "executions_compared_rect",
                      "executions_compared_shared", "executions_compared_indep", "process_twins_compared"],
                     ["executions_compared_c64", "executions_compared_cd", "executions_compared_off", "executions_compared_rect",
                      "executions_compared_shared", "executions_compared_indep", "process_twins_compared"]),
    "post": _post,
    "jobs": [
        {"mon": "mon_c12", "cfg": "plain", "cases": _q(4 * _nseq(14, 4), 4 * _nseq(14, 4)), "args": ["--mode", "c64", "--maxlen", "5"], "twin": "c64"},
        {"mon": "mon_c12", "cfg": "plain", "cases": _q(4 * _nseq(14, 4), 4 * _nseq(14, 4)), "args": ["--mode", "c64", "--maxlen", "5"], "twin": "c64"},
        {"mon": "mon_c12", "cfg": "plain", "cases": _q(0, 4 * _nseq(14, 5)), "args": ["--mode", "c64", "--maxlen", "5"]},
        {"mon": "mon_c12", "cfg": "plain", "cases": _q(4 * _nseq(14, 4), 4 * _nseq(14, 5)), "args": ["--mode", "cd", "--maxlen", "5"]},
        {"mon": "mon_c12", "cfg": "plain", "cases": _q(4 * _nseq(13, 4), 4 * _nseq(13, 5)), "args": ["--mode", "off", "--maxlen", "5"]},
        {"mon": "mon_c12", "cfg": "plain", "cases": _q(4 * _nseq(8, 4), 4 * _nseq(8, 5)), "args": ["--mode", "rect", "--maxlen", "5"]},
        # USINGZ build: two more symbols (SetZCallback(f), SetZCallback(nullptr)); results compared including z
        {"mon": "mon_c12", "cfg": "z", "cases": _q(4 * _nseq(16, 4), 4 * _nseq(16, 4)), "args": ["--mode", "c64", "--maxlen", "5"]},
        {"mon": "mon_c12", "cfg": "z", "cases": _q(4 * _nseq(16, 4), 4 * _nseq(16, 5)), "args": ["--mode", "cd", "--maxlen", "5"]},
        {"mon": "mon_c12", "cfg": "z", "cases": _q(4000, 40000), "args": ["--mode", "long"], "seed_off": 11},
        {"mon": "mon_c12", "cfg": "plain", "cases": _q(6000, 6000), "args": ["--mode", "long"], "twin": "long"},
        {"mon": "mon_c12", "cfg": "plain", "cases": _q(6000, 6000), "args": ["--mode", "long"], "twin": "long"},
        {"mon": "mon_c12", "cfg": "plain", "cases": _q(0, 40000), "args": ["--mode", "long"], "seed_off": 3},
        {"mon": "mon_c12", "cfg": "plain", "cases": _q(3000, 100000), "args": ["--mode", "shared"]},
        {"mon": "mon_c12", "cfg": "plain", "cases": _q(20000, 600000), "args": ["--mode", "indep"]},
        # the same bounded history spaces under ASan+UBSan: a history that leaves a stale pointer behind (to a result
        # container of an earlier call, to a freed vertex list) is a memory error before it is a different result
        {"mon": "mon_c12", "cfg": "asan", "cases": _q(_nseq(13, 4), 2 * _nseq(13, 5)), "args": ["--mode", "off", "--maxlen", "5"], "seed_off": 21},
        {"mon": "mon_c12", "cfg": "asan", "cases": _q(_nseq(14, 4), 2 * _nseq(14, 5)), "args": ["--mode", "c64", "--maxlen", "5"], "seed_off": 22},
        {"mon": "mon_c12", "cfg": "asan", "cases": _q(_nseq(8, 4), 2 * _nseq(8, 5)), "args": ["--mode", "rect", "--maxlen", "5"], "seed_off": 23},
        {"mon": "mon_c12", "cfg": "asan", "cases": _q(3000, 40000), "args": ["--mode", "long"], "seed_off": 24},
    ],
}
