"""C02 registry entry (see DESIGN.md section 3, C02)."""
from ._util import q as _q

ID = "C02"

# exhaustive small scope: 100 x 100 ordered rectangle pairs x 32 configurations per orientation combination;
# quick = one orientation combination per pair at scale 1, thorough = all four at each of the 7 scales
_EXH = _q(32 * 10000, 32 * 10000 * 4 * 7)
_RND_PLAIN = _q(600000, 12000000)
_RND_PORTABLE = _q(150000, 3000000)


def _post(ctx):
    """The small scope counts as enumerated only if every case index of the exh job was decoded and judged."""
    want = _EXH[ctx["tier"]]
    got = ctx["counters"].get("exh_cases_judged", 0)
    if got != want:
        ctx["inconclusive"].append("exhaustive sub-space incomplete: %d of %d enumerated cases were judged" % (got, want))
    else:
        ctx["notes"].append("exhaustive sub-space complete: all %d enumerated (rectangle pair x orientation x clip type x fill rule x "
                            "PreserveCollinear%s) cases judged" % (want, "" if ctx["tier"] == "quick" else " x scale"))
    # a worker that died (even from a load artefact the orchestrator forgives) loses its counters: say so
    for name, budget in (("rnd_scenes_judged_plain", _RND_PLAIN), ("rnd_scenes_judged_portable", _RND_PORTABLE)):
        got = ctx["counters"].get(name, 0)
        if got != budget[ctx["tier"]]:
            ctx["inconclusive"].append("random workload incomplete: %s = %d of %d scenes (a worker was lost)" % (name, got, budget[ctx["tier"]]))
    for k in ("oracle_cell_centre_on_input_edge",):
        if ctx["counters"].get(k, 0):
            ctx["inconclusive"].append("oracle self-check failed: counter %s = %d" % (k, ctx["counters"][k]))


PROP = {
    "level": "exploration",
    "level_text": ("Exploration with an exhaustively enumerated sub-space: every run executes Clipper64 on all ordered pairs of the "
                   "100 axis-aligned rectangles of the 4x4 grid (x 4 clip types x 4 fill rules x PreserveCollinear on/off; quick: one "
                   "orientation combination per pair at scale 1, thorough: all four orientation combinations at all 7 scales) and on "
                   "hundreds of thousands (quick) to millions (thorough) of random degenerate rectilinear scenes at scales 1..2^58, "
                   "and judges every solution with an exact per-cell winding-number oracle (no tolerance), the exact integer area and "
                   "the provenance of every vertex. The property quantifies over all rectilinear inputs, so outside the enumerated "
                   "rectangle-pair scope this is sampling evidence, not proof."),
    "level_note": "trusted base: __int128 winding-number / shoelace oracle in harness/mon_c02.cpp and harness/common/geom.h, g++; scenes larger than an 8x8 lattice with 8 walks are not explored",
    "technique": "runtime monitoring: exact per-cell reference oracle over enumerated and generated executions (plain and portable-arithmetic builds)",
    "rule": ("(i) exh job: case index decodes to (ordered pair of the 100 rectangles on the 4x4 grid, orientation combination, clip type, "
             "fill rule, PreserveCollinear, scale), every index of the budget is judged (counter exh_cases_judged must equal the budget); "
             "(ii) rnd jobs: gen::rectilinear_scene (1-4 subject and 0-4 clip boxes/closed axis-parallel walks on a GxG lattice, G<=8, "
             "scale in {1,2,7,1000,2^20,2^40,2^58}, 15% of scenes translated anywhere in +-2^61), configuration cycled over 4 clip types "
             "x 4 fill rules x PreserveCollinear; every unit cell of the bounding box plus one ring of cells is judged. A case is "
             "non-trivial iff two input edges overlap collinearly over a positive length or an input vertex lies on an input edge "
             "it is not an end of (computed exactly); distinct by hash of inputs+configuration"),
    "assumptions": ["the __int128 winding-number oracle (mon_c02.cpp winding2) and geom.h area2 are correct",
                    "solution outer paths have positive orientation (ReverseSolution=false), so a selected cell has winding number exactly +1"],
    "floor": _q(100000, 3000000),
    "must_count": _q(["exh_cases_judged", "rnd_scenes_judged", "cells_judged", "areas_compared", "solution_vertices_checked",
                      "deg_collinear_overlap", "deg_vertex_on_foreign_edge", "rnd_scale_288230376151711744", "rnd_big_offset_scenes"],
                     ["exh_cases_judged", "rnd_scenes_judged", "cells_judged", "areas_compared", "solution_vertices_checked",
                      "deg_collinear_overlap", "deg_vertex_on_foreign_edge", "rnd_scale_288230376151711744", "rnd_big_offset_scenes"]),
    "exhaustive": False,
    "exhaustive_note": ("the sub-space 'all ordered pairs of axis-aligned rectangles on the 4x4 grid x clip type x fill rule x "
                        "PreserveCollinear' is enumerated completely in every run (see counter exh_cases_judged and the note "
                        "'exhaustive sub-space complete'); the property as a whole is explored by sampling"),
    "post": _post,
    "jobs": [
        {"mon": "mon_c02", "cfg": "plain", "cases": _RND_PLAIN},
        {"mon": "mon_c02", "cfg": "plain", "cases": _EXH, "args": ["--mode", "exh"], "seed_off": 0},
        {"mon": "mon_c02", "cfg": "portable", "cases": _RND_PORTABLE, "seed_off": 2000003},
    ],
}
