"""C17 registry entry (DESIGN.md section 3, C17)."""
from ._util import q as _q

ID = "C17"
PROP = {
    "level": "exploration",
    "level_text": ("Exploration: each run drives all 14 exported functions and all converters, in builds with and without USINGZ and "
                   "under ASan+UBSan, with generated path sets (polygons chosen so that every argument changes the result, plus the "
                   "degenerate zoo incl. empty paths and empty results) and compares, bit for bit, with the corresponding C++ call "
                   "given the same argument values; flat arrays are re-read by an independent reader and are handed to the library as "
                   "heap blocks of exactly the stated length so that an over-read is an ASan report."),
    "level_note": "trusted base: the harness' independent flat-array reader, gcc ASan; 'corresponding C++ call' is the one DESIGN.md C17 names per function",
    "technique": "runtime monitoring: export-vs-C++ differential and round-trip/length monitors under ASan+UBSan, USINGZ on and off",
    "rule": ("case i exercises exported function i mod 14 after the round-trip/length checks; inputs 0-3 paths per set from star-shaped/random "
             "polygons, a box with a collinear vertex, zoo paths; all enum values, precision -2..6, reverse_solution and "
             "preserve_collinear random, non-default miter limit and arc tolerance; every case is non-trivial; distinct by hash"),
    "assumptions": ["comparison is exact (bitwise for doubles, z included in USINGZ builds)"],
    "floor": _q(10000, 200000),
    "must_count": _q(["roundtrips_checked", "polytree_nodes_compared"], ["roundtrips_checked", "polytree_nodes_compared"]),
    "jobs": [
        {"mon": "mon_c17", "cfg": "asan", "cases": _q(20000, 600000)},
        {"mon": "mon_c17", "cfg": "asan_z", "cases": _q(10000, 300000), "seed_off": 7},
    ],
}
