def q(quick, thorough):
    return {"quick": quick, "thorough": thorough}


# ---- spreading child processes over the CPUs
# In this VM the kernel's load balancer sometimes stops migrating runnable processes: every child then stays on the CPU
# its parent ran on and sixteen workers share one core. Each child is therefore first moved to its own CPU (round robin
# over the allowed set) and then given the full mask back, so a working balancer remains free to move it.
import itertools as _it
import os as _os
_spread_counter = _it.count()


def spread_preexec(inner=None):
    try:
        allowed = sorted(_os.sched_getaffinity(0))
    except (AttributeError, OSError):
        return inner
    if len(allowed) < 2:
        return inner
    k = allowed[next(_spread_counter) % len(allowed)]

    def f():
        try:
            _os.sched_setaffinity(0, {k})
            _os.sched_setaffinity(0, set(allowed))
        except OSError:
            pass
        if inner:
            inner()
    return f
