def q(quick, thorough):
    return {"quick": quick, "thorough": thorough}
