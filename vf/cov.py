"""gcov evidence for thorough tiers: which part of the library a monitor's workload actually executed.

A job with cfg "cov" runs the monitor built with --coverage; GCOV_PREFIX sends its .gcda files to a private directory.
summary(ctx, mon) runs gcov over the three library translation units and writes, into the evidence counters,
line coverage per source file and the list of library functions the workload never entered. Evidence only: it never
changes a verdict.
"""
import os
import re
import shutil
import subprocess

from . import build as B


def gcda_root(mon):
    return os.path.join(B.BUILD, "cov", "gcda_" + mon)


def env_for(mon):
    return {"GCOV_PREFIX": gcda_root(mon)}


def summary(ctx, mon):
    exe = ctx["exes"].get(("cov", mon))
    if not exe or not any(w.job.get("cfg") == "cov" and w.job.get("mon") == mon for w in ctx["workers"]):
        return
    d = os.path.dirname(exe)
    gd = os.path.join(gcda_root(mon), d.lstrip("/"))
    try:
        never = []
        for tu in B.LIB_TUS:
            stem = tu.replace(".cpp", ".o")
            if not os.path.exists(os.path.join(gd, stem + ".gcda")):
                ctx["notes"].append("gcov: no %s.gcda under %s" % (stem, gd))
                continue
            shutil.copy(os.path.join(d, stem + ".gcno"), gd)
            p = subprocess.run(["gcov", "-f", "-o", os.path.join(gd, stem + ".tmp"), os.path.join(B.SRC, tu)],
                               cwd=ctx["tmp"], stdout=subprocess.PIPE, stderr=subprocess.DEVNULL, text=True)
            cur = None
            for line in p.stdout.splitlines():
                m = re.match(r"(File|Function) '(.*)'", line)
                if m:
                    cur = (m.group(1), m.group(2))
                    continue
                m = re.match(r"Lines executed:([\d.]+)% of (\d+)", line)
                if m and cur:
                    kind, name = cur
                    if kind == "File" and "/clipper2/" in name or kind == "File" and name.endswith(tu):
                        key = "gcov_%s_line_pct_x100_%s" % (mon, os.path.basename(name))
                        ctx["counters"][key] = max(ctx["counters"].get(key, 0), int(float(m.group(1)) * 100))
                    elif kind == "Function" and float(m.group(1)) == 0.0 and "Clipper2Lib" in name and int(m.group(2)) >= 3:
                        never.append(name)
                    cur = None
        if never:
            # demangle for readability
            try:
                dm = subprocess.run(["c++filt"], input="\n".join(never), stdout=subprocess.PIPE, text=True).stdout.splitlines()
            except OSError:
                dm = never
            dm = sorted(set(re.sub(r"\(.*", "", x) for x in dm))
            ctx["counters"].setdefault("info", {})["gcov_%s_library_functions_never_entered" % mon] = dm[:80]
            ctx["counters"]["gcov_%s_functions_never_entered" % mon] = len(dm)
    except Exception as e:  # evidence only
        ctx["notes"].append("gcov summary failed: %r" % (e,))
    finally:
        shutil.rmtree(gcda_root(mon), ignore_errors=True)
