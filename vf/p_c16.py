"""C16 registry entry (DESIGN.md section 3, C16)."""
from ._util import q as _q

ID = "C16"
PROP = {
    "level": "exploration",
    "level_text": ("Exploration: every run executes each PathsD entry point (ClipperD into paths and into PolyTreeD with open "
                   "subjects, BooleanOp/Intersect/Union/Difference/Xor, InflatePaths, RectClip, RectClipLines, TrimCollinear, "
                   "MinkowskiSum/Diff) on tens of thousands (quick) to about two million (thorough) generated decimal scenes, "
                   "precisions -8..8, scaled magnitudes 2^6..2^51, all clip types, fill rules, join and end types, and compares "
                   "the result bit for bit (paths in order, open paths, PolyTreeD node for node) with the 64-bit entry point run "
                   "on inputs that the monitor itself multiplied by the documented scale and rounded to nearest, mapped back with "
                   "the documented descaling expression. The property quantifies over all inputs; this is sampling evidence."),
    "level_note": ("trusted base: the monitor's own scale arithmetic (integer computation of the power-of-two exponent, "
                   "long-double/fma rounding of x*scale), the 64-bit entry points as reference semantics, g++/glibc "
                   "(std::pow(10,p) correctly rounded: checked at start-up and recorded); inputs whose scaled coordinate is on, "
                   "or for the 10^p scale within |t|*2^-51+2^-10 of, a half-integer are not explored (tie breaking and the single "
                   "double rounding of x*10^p are left unspecified by the property); scenes on which the 64-bit PolyTree build itself "
                   "dies (stack overflow in CheckSplitOwner, C04/C10 territory) are detected in a forked child, rejected and counted"),
    "technique": "runtime monitoring: differential D-API vs 64-bit API on independently scaled and rounded inputs, bit-exact",
    "rule": ("case i: API class by i mod 100 (ClipperD paths 28, ClipperD tree 19, open-small-triangle-biased ClipperD 5, BooleanOp "
             "family 10, InflatePaths 13, RectClip 7, RectClipLines 5, TrimCollinear 7, Minkowski 6); precision -8..8 (15% at the "
             "default 2); inputs are integers n on a decimal grid 10^-k, k within precision-2..precision+3 (so 0..5 digits beyond "
             "the precision grid are rounded away), |n/10^k*scale| below a magnitude class 2^6..2^51; scenes from gp_candidate (7 "
             "shape classes), gp_scene, zoo paths, star-shaped/random polygons, nested rings, rectilinear walks, polylines, and (15% of "
             "the ClipperD/BooleanOp cases) scenes whose features are only 2..40 scaled units wide; the biased class clips 3-point "
             "open subjects with two points 0..2.4 scaled units apart; a "
             "case is non-trivial iff it passed the premises, was compared, and the 64-bit reference result is non-empty; "
             "distinct by hash of inputs+configuration"),
    "assumptions": ["std::pow(10,p) is the double nearest to 10^p and ilogb(10^p)+1 is the exponent of the smallest power of two "
                    "above 10^p on this platform (counter platform_pow10_or_ilogb_mismatches must be 0)",
                    "the reference rounding is the nearest integer of the exact real product x*scale; inputs closer to a "
                    "half-integer than the double product's own rounding error are rejected and counted",
                    "v*(1/10^p) is compared bit for bit; its distance from the exact v/10^p is recorded (worst case observed "
                    "in max_descale_error_milli_ulp) and only more than 2 ulp is reported, because 1 ulp is not a theorem "
                    "(1/fl(1e-5) != 1e5)"],
    "floor": _q(25000, 800000),
    "must_count": _q(["comparisons_clipperd_paths", "comparisons_clipperd_tree", "comparisons_booleanop_d", "comparisons_inflate_d",
                      "comparisons_rectclip_d", "comparisons_rectcliplines_d", "comparisons_trimcollinear_d", "comparisons_minkowski_d",
                      "polytree_nodes_compared", "polytrees_with_depth_ge_2", "open_result_paths_compared",
                      "reference_open_results_that_are_small_triangles", "input_coordinates_with_fraction_after_scaling"],
                     ["comparisons_clipperd_paths", "comparisons_clipperd_tree", "comparisons_booleanop_d", "comparisons_inflate_d",
                      "comparisons_rectclip_d", "comparisons_rectcliplines_d", "comparisons_trimcollinear_d", "comparisons_minkowski_d",
                      "polytree_nodes_compared", "polytrees_with_depth_ge_2", "open_result_paths_compared",
                      "reference_open_results_that_are_small_triangles", "input_coordinates_with_fraction_after_scaling"]),
    "jobs": [
        {"mon": "mon_c16", "cfg": "plain", "cases": _q(60000, 2400000)},
    ],
}
