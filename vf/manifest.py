"""Regenerate MANIFEST.json from vf/props.py:  python3 -m vf.manifest"""
import json
import os
import subprocess

from .build import VERIF, GUARD
from .props import PROPS, NOT_BUILT

ALL = ["C%02d" % i for i in range(1, 21)]


def ready():
    """properties whose check has been validated (silent on the unchanged tree over several seeds, fires on
    seeded breaks); only these are claimed in MANIFEST.json"""
    with open(os.path.join(VERIF, "vf", "ready.txt")) as f:
        return [l.strip() for l in f if l.strip() and not l.startswith("#")]


def hook_commits():
    try:
        out = subprocess.run(["git", "-C", "/repo", "log", "--format=%H %s"], stdout=subprocess.PIPE, text=True).stdout
    except OSError:
        return []
    return [l.split()[0] for l in out.splitlines() if " verif-hook:" in l or " hook:" in l]


def main():
    checks = []
    rdy = ready()
    for pid in ALL:
        if pid not in PROPS or pid not in rdy:
            continue
        p = PROPS[pid]
        checks.append({
            "property_id": pid,
            "quick_cmd": "./check %s --tier quick" % pid,
            "thorough_cmd": "./check %s --tier thorough" % pid,
            "evidence_file": "/verif/evidence/%s.json" % pid,
            "replay_cmd_template": "./check %s --replay {path}" % pid,
            "engine": "vf",
            "level_claimed": {"category": p["level"], "text": p["level_text"], "design_ref": "DESIGN.md section 3, %s" % pid},
            "level_note": p["level_note"],
            "technique": p["technique"],
        })
    na = [{"property_id": pid, "reason": NOT_BUILT.get(pid, "monitor not built yet (work in progress; see DESIGN.md section 3)")}
          for pid in ALL if pid not in PROPS or pid not in rdy]
    m = {
        "version": 1,
        "setup_cmd": "./check --setup",
        "hooks": {
            "guard": GUARD,
            "enable": "checks compile CPP/Clipper2Lib/src/*.cpp from /repo's working tree directly with g++ -std=c++17 -D%s (vf/build.py); no cmake" % GUARD,
            "baseline_off_cmd": "sh /verif/scripts/baseline_off.sh",
            "source_commits": hook_commits(),
            "add_only": True,
        },
        "engines": [{
            "name": "vf",
            "path": "/verif/vf",
            "serves_properties": [c["property_id"] for c in checks],
            "kind_free_text": "runtime monitoring: python orchestrator (build matrix, sharding, watchdogs, known-finding matching, evidence) driving C++ monitor programs (harness/mon_*.cpp) that execute the freshly compiled library under exact reference oracles, differential/metamorphic comparisons, history checkers, fault injection and compiler sanitizers",
        }],
        "checks": checks,
        "notes": "Runtime monitoring and sanitizers only. Known findings: /verif/known_findings.json. Seeded changes used to validate the monitors: /verif/seeded/.",
        "not_applicable": na,
    }
    with open(os.path.join(VERIF, "MANIFEST.json"), "w") as f:
        json.dump(m, f, indent=1)
        f.write("\n")
    print("MANIFEST.json: %d checks, %d not_applicable" % (len(checks), len(na)))


if __name__ == "__main__":
    main()
