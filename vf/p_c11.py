"""C11 registry entry (DESIGN.md section 3, C11)."""
from ._util import q as _q

ID = "C11"
PROP = {
    "level": "exploration",
    "level_text": ("Exploration: (success part) Execute()/exported return codes are observed on the hostile boolean workload "
                   "(zoo inputs up to 2^62, all clip types incl. NoClip, fill rules, paths/tree/ClipperD/export); (reporting part) "
                   "every API with a precision, scale, coordinate-range or pair-count argument is called with valid and invalid "
                   "values in a build with C++ exceptions and in a -fno-exceptions build, plus a UBSan float-cast-overflow twin, "
                   "and each call is classified reported / silently accepted / wrongly rejected."),
    "level_note": "reading of 'reported' (DESIGN.md C11): Clipper2Exception with exceptions on; with exceptions off a non-zero error code where the API has one, else an empty result. NaN coordinates are not probed (not clearly inside the property's 'would leave the integer range').",
    "technique": "runtime monitoring: return-value / exception / error-code monitor over valid and invalid arguments in exception and no-exception builds (+UBSan float-cast twin)",
    "rule": ("report mode: case i picks kind i mod 10 (precision x 23 APIs x p in -20..20 and boundary values; coordinate range x 22 APIs x 5 "
             "magnitude classes around INT64_MAX/4; zero scale x 7 call forms; odd value count x 4 forms x n<=15; C boundary x 8 functions "
             "x cliptype 5..255 / fillrule 4..255 / precision out of range); success mode: 6 execution forms x zoo inputs; every case "
             "non-trivial; distinct by hash of the argument tuple / inputs"),
    "assumptions": ["ClipperD reports a bad precision through ErrorCode() (it clamps and continues, which its source calls non-fatal)"],
    "floor": _q(3000, 50000),
    "must_count": _q(["invalid_precisions_tried", "kind_range", "kind_cboundary", "form_0"], ["invalid_precisions_tried", "kind_range", "kind_cboundary", "form_0"]),
    "jobs": [
        {"mon": "mon_c11", "cfg": "plain", "cases": _q(30000, 600000), "args": ["--mode", "report"]},
        {"mon": "mon_c11", "cfg": "noexc", "cases": _q(30000, 600000), "args": ["--mode", "report"], "seed_off": 5},
        {"mon": "mon_c11", "cfg": "asan_fc", "cases": _q(6000, 100000), "args": ["--mode", "report"], "seed_off": 9},
        {"mon": "mon_c11", "cfg": "plain", "cases": _q(60000, 2000000), "args": ["--mode", "success"], "seed_off": 13},
        {"mon": "mon_c11", "cfg": "noexc", "cases": _q(20000, 500000), "args": ["--mode", "success"], "seed_off": 17},
    ],
}
