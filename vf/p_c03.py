"""C03 registry entry (see DESIGN.md section 3, C03)."""
from ._util import q as _q

ID = "C03"
PROP = {
    "level": "exploration",
    "level_text": ("Exploration: every run executes Clipper64 on ~160 thousand (quick) to ~4 million (thorough) generated inputs "
                   "(general-position scenes at nine magnitude classes, degenerate rectilinear scenes, a degenerate-input zoo with "
                   "and without open subjects, unfiltered random polygons) under all 64 clip-type/fill-rule/PreserveCollinear/"
                   "ReverseSolution combinations and two builds, and inspects every closed solution path with an exact (128-bit) "
                   "checker: vertex count, duplicate vertices and bounding box on every solution; zero area, spikes, all-pairs "
                   "proper crossings, orientation versus exact nesting depth, collinear triples, distance to the input and "
                   "re-union identity on solutions of general-position or axis-parallel inputs. The property quantifies over all "
                   "inputs, so this is sampling evidence, not proof."),
    "level_note": ("trusted base: __int128 orientation/area/winding oracle in harness/common/geom.h and harness/c03_solcheck.h, the "
                   "general-position filter, g++; the geometric claims are only judged for inputs with |coord| <= 2^40"),
    "technique": "runtime monitoring: exact structural and geometric path checker over generated executions (plain, HI_PRECISION builds)",
    "rule": ("case classes cycled gp:rect:zoo:rand = 4:3:2:1 (gp_scene over magnitudes 2^5..2^61, rectilinear_scene up to scale 2^58, "
             "zoo_paths 2^4..2^61 optionally with open subjects, random polygons 2^4..2^61), each cycled over 4 clip types x 4 fill "
             "rules x PreserveCollinear x ReverseSolution; S1-S3 judged on every closed solution (S3 for inputs <= 2^52), G1-G7 "
             "only for gp (exact filter) or axis-parallel inputs with |coord| <= 2^40; a case is non-trivial iff its closed "
             "solution has at least one path; distinct by hash of inputs+configuration"),
    "assumptions": ["exact __int128 geometry in harness/common/geom.h and harness/c03_solcheck.h is correct",
                    "geometric claims: inputs outside general position that are not axis-parallel are not judged",
                    "coordinates beyond 2^61 are not explored (C11 covers range errors)"],
    "floor": _q(80000, 2000000),
    "must_count": _q(["solutions_structural_checked", "solutions_geometric_checked", "s_vertices_checked", "s3_vertices_checked",
                      "g2g5_triples", "g3_edge_pairs", "g4_nest_pairs_point_tested", "g6_vertices", "g7_reunions",
                      "geo_nonempty_gp", "geo_nonempty_rect", "cls_zoo", "cls_rand"],
                     ["solutions_structural_checked", "solutions_geometric_checked", "s_vertices_checked", "s3_vertices_checked",
                      "g2g5_triples", "g3_edge_pairs", "g4_nest_pairs_point_tested", "g6_vertices", "g7_reunions",
                      "geo_nonempty_gp", "geo_nonempty_rect", "cls_zoo", "cls_rand"]),
    "timeout": _q(240, 3600),
    "jobs": [
        {"mon": "mon_c03", "cfg": "plain", "cases": _q(100000, 2500000)},
        {"mon": "mon_c03", "cfg": "hp", "cases": _q(60000, 1500000), "seed_off": 1000003},
    ],
}
