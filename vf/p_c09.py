"""C09 registry entry (see DESIGN.md section 3, C09)."""
from ._util import q as _q

ID = "C09"
PROP = {
    "level": "exploration",
    "level_text": ("Exploration: every run executes RectClipLines on hundreds of thousands (quick) to millions (thorough) of "
                   "generated open polylines (lattice polylines with vertices on the sides and corners and runs along the sides, "
                   "random polylines up to 2^40 that cross completely, end on the boundary or graze corners; 1-4 polylines per "
                   "call) and judges every result against an exact Liang-Barsky oracle: containment in the rectangle, vertices "
                   "and edge midpoints on the input, monotone arc-length order of all pieces, and total length within 2 units per "
                   "boundary crossing of the exact inside length. The property quantifies over all inputs, so this is sampling "
                   "evidence, not proof."),
    "level_note": ("trusted base: exact rational (128-bit) Liang-Barsky parameters, long-double lengths compared with explicit "
                   "margins, g++; errors below the property's own tolerances (1.5 units off the input, 2 units of length per "
                   "crossing, input vertices on the boundary counted as crossings) are not observable"),
    "technique": "runtime monitoring: exact Liang-Barsky length/containment/order oracle over generated executions",
    "rule": ("cases = one rectangle and 1-4 open polylines (1-13 points); 40% lattice scenes (<=10x10 lattice scaled by "
             "1..2^36, rectangle on lattice lines, 5 polyline kinds incl. boundary-heavy, axis-parallel walks, complete "
             "crossings, 1-3 point paths), 10% adversarial corner scenes (segments whose line passes through a rectangle corner "
             "exactly or within a sub-unit offset at magnitudes 2^12..2^40, harness/c08_corner.h), 50% random scenes at magnitudes 2^6..2^40 (6 kinds incl. corner grazing, end points "
             "on the boundary, runs on the sides' lines); every polyline is clipped alone and judged, multi-polyline cases also "
             "in one call (order clause); a case is non-trivial iff some polyline properly crosses the rectangle boundary (a "
             "segment is cut by Liang-Barsky); distinct by hash of rectangle+polylines"),
    "assumptions": ["exact 128-bit rational Liang-Barsky in harness/mon_c09.cpp is correct",
                    "the order clause is judged as: a non-decreasing assignment of input arc-length parameters to all result "
                    "vertices and edge midpoints (each within 1.5 units of the input at its parameter) exists"],
    "floor": _q(120000, 3000000),
    "must_count": _q(["length_checked", "order_points_mapped", "multi_polyline_calls", "polylines_crossing_the_boundary",
                      "calls_with_segments_along_a_side", "length_checks_with_slack_below_quarter_of_length"],
                     ["length_checked", "order_points_mapped", "multi_polyline_calls", "polylines_crossing_the_boundary",
                      "calls_with_segments_along_a_side", "length_checks_with_slack_below_quarter_of_length"]),
    "timeout": _q(150, 3600),
    "jobs": [
        # address-space cap and a short watchdog: a defect in the clip loop that allocates without bound must end as a
        # crash/timeout report, not take the machine down (the monitors themselves need < 100 MB)
        {"mon": "mon_c09", "cfg": "plain", "cases": _q(300000, 8000000), "prefix": ["prlimit", "--as=4000000000"]},
    ],
}
