"""C05 registry entry (see DESIGN.md section 3, C05)."""
from ._util import q as _q

ID = "C05"
PROP = {
    "level": "exploration",
    "level_text": "draft",
    "level_note": "draft",
    "technique": "runtime monitoring: exact kept-interval oracle for open subjects",
    "rule": "draft",
    "assumptions": [],
    "floor": _q(5000, 100000),
    "must_count": _q(["kept_points_judged"], ["kept_points_judged"]),
    "jobs": [
        {"mon": "mon_c05", "cfg": "plain", "cases": _q(40000, 1200000)},
    ],
}
