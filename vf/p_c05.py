"""C05 registry entry (see DESIGN.md section 3, C05)."""
from ._util import q as _q

ID = "C05"
PROP = {
    "level": "exploration",
    "level_text": ("Exploration: every run executes Clipper64 (paths execution with and without the open subjects, and PolyTree "
                   "execution) on 10^5 (quick) to several 10^6 (thorough) generated scenes of open polylines over general-position "
                   "closed subject/clip paths, under all 4 clip types x 4 fill rules x PreserveCollinear x ReverseSolution, and judges "
                   "every open solution against an exact kept-interval model that shares no code with the engine: crossing parameters "
                   "ordered by exact rational comparison, membership of every sub-interval from exact winding numbers, kept length in "
                   "long double. The property quantifies over all inputs, so this is sampling evidence, not proof."),
    "level_note": ("trusted base: __int128 orientation/winding oracle (geom.h), the 256-bit rational comparison and the mixed open/closed "
                   "general-position filter (c05_open.h), g++. Not observable: cut displacements inside the stated tolerances, inputs "
                   "outside general position, coordinates beyond 2^46 (the fixed 1.5-unit bound of the property is exceeded by double "
                   "rounding from about 2^52, see the report), order and direction of the open solution paths (not promised)"),
    "technique": "runtime monitoring: exact kept-interval reference oracle for open subjects over generated executions (plain and HI_PRECISION builds)",
    "rule": ("closed scenes from gp_scene (7 shape classes, sometimes plus an axis-parallel box) x 8 magnitude classes 2^5..2^46; 1-4 open "
             "polylines of 7 kinds (random incl. self-crossing, chords, zigzags, short local paths, axis-parallel staircases, paths with "
             "horizontal segments, chords crossing a closed edge at a shallow angle; 2-point paths; repeated vertices) accepted by the exact "
             "filter 'union of all paths in general position' (3.001+M*2^-50 separation; in 25% of the cases the requirements that involve "
             "only open edges are waived, tag oo_relaxed); cycled over 4 clip types x 4 fill rules x PreserveCollinear x ReverseSolution; "
             "the inputs reach the clipper by one of six loading routes (direct in two orders; open paths first and the closed paths through a "
             "ReuseableDataContainer64 without open paths; two containers; closed container first; one container with everything); "
             "1 case in 29 is a robustness case with empty / 1-point / all-duplicate open paths (only 'Execute succeeds' is claimed). "
             "A case is non-trivial iff at least one open segment properly crosses a closed edge that bounds the deciding region "
             "(clip edges; for Union subject and clip edges); distinct by hash of inputs+configuration"),
    "assumptions": ["exact __int128 orientation/winding oracle in harness/common/geom.h is correct",
                    "inputs outside general position (filter: 3.001+M*2^-50 separation) and coordinates above 2^46 are not explored",
                    "kept points closer than 3.25 units (along the path) to a cut and piece midpoints closer than tol+2 to a deciding edge are skipped and counted"],
    "floor": _q(20000, 500000),
    "must_count": _q(["kept_points_judged", "piece_midpoints_judged", "provenance_points_judged", "cases_with_cuts_length_judged",
                      "cases_with_horizontal_open_segment", "two_point_open_paths", "robustness_cases"],
                     ["kept_points_judged", "piece_midpoints_judged", "provenance_points_judged", "cases_with_cuts_length_judged",
                      "cases_with_horizontal_open_segment", "two_point_open_paths", "robustness_cases", "closed_region_points_judged"]),
    "timeout": _q(400, 7200),
    "jobs": [
        {"mon": "mon_c05", "cfg": "plain", "cases": _q(120000, 3600000)},
        {"mon": "mon_c05", "cfg": "hp", "cases": _q(40000, 1200000), "seed_off": 1000003},
    ],
}
