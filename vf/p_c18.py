"""C18 registry entry (see DESIGN.md section 3, C18): predicates exact, measurements accurate."""
from ._util import q as _q

ID = "C18"

_CHUNK = 1024          # must equal kChunk in harness/mon_c18.cpp
_NMUL = 40             # must equal the number of entries of kMulGrid
_NPIP = 16 ** 3 + 16 ** 4   # 3- and 4-vertex polygons on a 4x4 lattice
_PIPCHUNK = 64         # must equal kPipChunk
_TSET = _q(10, 12)     # coordinate values per axis of the point-triple grid (monitor default per tier)


def _chunks(tier):
    c = lambda n: (n + _CHUNK - 1) // _CHUNK
    return c(22 ** 4) + c(_TSET[tier] ** 6) + c(_NMUL * _NMUL) + (_NPIP + _PIPCHUNK - 1) // _PIPCHUNK


def _post(ctx):
    """The exhaustive scopes must have been enumerated completely in both arithmetic branches."""
    cnt = ctx["counters"]
    for cfg in ("plain", "portable"):
        for what in ("grid_pae_tuples", "grid_point_triples", "grid_multiply_pairs", "grid_pip_polygons", "grid_chunks"):
            done, exp = cnt.get("%s_done_%s" % (what, cfg), 0), cnt.get("%s_expected_%s" % (what, cfg), -1)
            if done != exp:
                ctx["inconclusive"].append("exhaustive grid incomplete: %s %s done=%s expected=%s" % (what, cfg, done, exp))
    if cnt.get("grid_pae_tuples_expected_plain", 0) != 22 ** 4:
        ctx["inconclusive"].append("grid size differs from the registry's (22^4 ProductsAreEqual tuples)")
    if cnt.get("grid_chunk_index_beyond_end", 0):
        ctx["notes"].append("grid job was given %d chunk indices beyond the end of the enumeration (harmless)" % cnt["grid_chunk_index_beyond_end"])
    ctx["notes"].append("exhaustive boundary grid enumerated completely in builds plain and portable: %d ProductsAreEqual 4-tuples, "
                        "%d point triples, %d Multiply pairs, %d lattice polygons x 81 query points per build" %
                        (cnt.get("grid_pae_tuples_done_plain", 0), cnt.get("grid_point_triples_done_plain", 0),
                         cnt.get("grid_multiply_pairs_done_plain", 0), cnt.get("grid_pip_polygons_done_plain", 0)))


PROP = {
    "level": "exploration",
    "level_text": ("Exploration with exhaustive sub-scopes: every run calls Multiply, ProductsAreEqual, CrossProductSign and IsCollinear "
                   "on the complete boundary grid (22^4 four-tuples, 10^6 / 12^6 point triples, 40^2 uint64 pairs) and on millions of "
                   "random and adversarial arguments (exactly collinear triples k*(dx,dy) and their off-by-one-unit neighbours at every "
                   "bit length 1..62, products differing only in the low word / only in the high word / only in sign), in the build "
                   "that compiles the __int128 branch AND in the build that compiles the portable 64x64 branch, and compares every "
                   "answer with __int128 ground truth. PointInPolygon is run exhaustively on every 3- and 4-vertex polygon of a 4x4 lattice against "
                   "a 9x9 query lattice, and on all points of a 9x9 lattice (scaled 1..2^22, plus "
                   "on-edge points and their unit neighbours) against random lattice polygons with horizontal edges, repeated points "
                   "and spikes and compared with an exact even-odd crossing test; GetSegmentIntersectPt (default and HI_PRECISION "
                   "variants) is compared with the exact rational crossing for |coord| <= 2^40; Area with the exact shoelace sum in "
                   "128 bits. The property quantifies over all 64-bit inputs, so outside the grids this is sampling evidence, not proof."),
    "level_note": ("trusted base: gcc's __int128 / unsigned __int128 arithmetic and long double (only for magnitudes compared with a "
                   "margin), harness/prelude_portable.h forcing the library's non-__int128 branch (the monitor refuses to compile if "
                   "the library condition still selects __int128), g++"),
    "technique": "runtime monitoring: 128-bit integer / rational ground truth for every predicate call; exhaustive boundary grid + random/adversarial arguments; builds plain, portable, hp",
    "rule": ("one case = a bundle of calls of one kind: 64 Multiply pairs | 64 ProductsAreEqual 4-tuples | 48 point triples "
             "(CrossProductSign + IsCollinear each) | one lattice polygon with 81..115 query points | 32 segment pairs | 1-6 paths for Area "
             "(thorough tier: bundles 4x larger); "
             "grid cases are chunks of 1024 consecutive tuples (64 polygons) of the exhaustive enumeration. evaluations counts library calls. "
             "A bundle is non-trivial iff: Multiply - some product has a non-zero high word and all four partial products; "
             "ProductsAreEqual - it contains both equal and unequal products; triples - at least one exactly collinear and one "
             "non-collinear triple inside the no-overflow premise; PointInPolygon - the exact answers comprise at least two of "
             "{on, inside, outside}; GetSegmentIntersectPt - at least one properly crossing pair was judged for accuracy; "
             "Area - at least one path of non-zero area. distinct by hash of the bundle's arguments"),
    "assumptions": ["__int128 arithmetic of the compiler is exact (products of two 63-bit magnitudes fit in 126 bits)",
                    "CrossProductSign/IsCollinear premise: the four coordinate differences are representable and not INT64_MIN (counted rejections)",
                    "GetSegmentIntersectPt accuracy is judged only when the exact crossing lies on both closed segments; "
                    "'on the first segment' is read as: inside the first segment's bounding box and the segment's line passes through the closed unit square around the returned point",
                    "Area is judged for |coord| <= 2^61 (sums/differences of two coordinates must not overflow) against (n+2)*2^-52*sum|term|"],
    "floor": _q(150000, 2000000),
    "must_count": _q(
        ["mul_calls", "pae_calls_branch_int128", "pae_calls_branch_portable", "tri_calls_branch_int128", "tri_calls_branch_portable",
         "tri_truth_collinear", "pip_calls", "pip_truth_on", "pip_truth_inside", "isect_calls_variant_default", "isect_calls_variant_hp",
         "isect_exactly_parallel_inputs", "isect_crossings_judged_proper", "area_calls",
         "grid_pae_tuples_done_plain", "grid_pae_tuples_done_portable"],
        ["mul_calls", "pae_calls_branch_int128", "pae_calls_branch_portable", "tri_calls_branch_int128", "tri_calls_branch_portable",
         "tri_truth_collinear", "pip_calls", "pip_truth_on", "pip_truth_inside", "isect_calls_variant_default", "isect_calls_variant_hp",
         "isect_exactly_parallel_inputs", "isect_crossings_judged_proper", "area_calls",
         "grid_pae_tuples_done_plain", "grid_pae_tuples_done_portable"]),
    "exhaustive": False,
    "exhaustive_note": ("exhaustive over the boundary grid only (all 22^4 ProductsAreEqual tuples, all point triples over 10 (quick) / 12 "
                        "(thorough) boundary coordinates, all 40^2 Multiply pairs, all 69632 three-/four-vertex polygons of a 4x4 lattice x 81 query "
                        "points, in both builds; completeness is checked by "
                        "the orchestrator: *_done_* == *_expected_* counters) and over the 9x9 lattice of every generated polygon"),
    "post": _post,
    "jobs": [
        # exhaustive boundary grid, both arithmetic branches (own jobs so that completeness is reported)
        {"mon": "mon_c18", "cfg": "plain", "cases": _q(_chunks("quick"), _chunks("thorough")), "args": ["--mode", "grid"], "shards": 4},
        {"mon": "mon_c18", "cfg": "portable", "cases": _q(_chunks("quick"), _chunks("thorough")), "args": ["--mode", "grid"], "shards": 4},
        # random + adversarial: everything on the __int128 branch / default GetSegmentIntersectPt
        {"mon": "mon_c18", "cfg": "plain", "cases": _q(150000, 2000000), "args": ["--mode", "rand"]},
        # predicates on the portable 64x64 branch
        {"mon": "mon_c18", "cfg": "portable", "cases": _q(75000, 1000000), "args": ["--mode", "rand", "--kinds", "mul,pae,tri"], "seed_off": 1000003},
        # GetSegmentIntersectPt, CLIPPER2_HI_PRECISION variant
        {"mon": "mon_c18", "cfg": "hp", "cases": _q(40000, 500000), "args": ["--mode", "rand", "--kinds", "isect"], "seed_off": 2000003},
    ],
}
