"""C13 registry entry (see DESIGN.md section 3, C13)."""
from ._util import q as _q

ID = "C13"

_MUST = ["rel_E1_perm_paths_checked", "rel_E2_rotate_start_checked", "rel_E3_dup_vertices_checked",
         "rel_E4_swap_subject_clip_checked", "rel_E5_reverse_evenodd_nonzero_checked",
         "rel_E6_reverse_swap_pos_neg_checked", "rel_R1_xor_union_minus_intersection_checked",
         "rel_R2_diff_inter_partition_checked", "rel_R3_translate_checked", "rel_R3_transpose_checked",
         "rel_R3_mirror_x_checked", "rel_R3_mirror_y_checked", "rel_R3_scale_checked",
         "algebra_points_judged", "map_points_judged", "dup_vertices_inserted",
         "perm_scenes_with_several_paths_on_a_side"]

# On the unchanged tree about one scene in 10^5 (only scenes with a horizontal input edge, i.e. small lattice-snapped
# coordinates) violates the exact reversal claims in one narrow way: the two solutions consist of the same directed
# edges, chained differently at a crossing that lies on a horizontal input edge (findings/c13_reverse_rechain_*.txt).
# The class is narrow in *what* is observed, not in *why*: an edit to the hot/hot branch of IntersectEdges or to the
# argument order in DoHorizontal produces more members of the same class (seeded edit `else if (true)`: ~20 per quick
# run against 0..1). So that listing the class as a known finding cannot hide such a regression, its rate is compared
# with a limit several times the pinned rate (thorough, seed 1: 9 in 716800 scenes).
_CLASS = "same_edges_rechained_at_crossing_on_horizontal_input_edge"


def _post(ctx):
    scenes = ctx["counters"].get("scenes", 0)
    n, example = 0, ""
    for w in ctx["workers"]:
        for r in (getattr(w, "all_records", None) or w.records()):
            if r.get("t") == "violation" and _CLASS in r.get("tags", []):
                n += 1
                example = example or r.get("witness", "")
    limit = max(4, int(1.0e-4 * scenes))
    ctx["counters"]["violations_of_class_" + _CLASS] = n
    ctx["counters"]["limit_for_class_" + _CLASS] = limit
    if n > limit:
        ctx["report"]("C13.rechain_rate", ["rate_above_pinned_baseline"], example,
                      "%d violations of class %s in %d scenes; the pinned tree produces about 1.3 per 100000 scenes "
                      "(limit %d): a change made this representation dependence several times more frequent"
                      % (n, _CLASS, scenes, limit))


PROP = {
    "level": "exploration",
    "level_text": ("Exploration: every run takes tens of thousands (quick) to about a million (thorough) generated general-position "
                   "scenes with |coord| <= 2^40 under all 4 clip types x 4 fill rules x PreserveCollinear and executes Clipper64 "
                   "about 16 times per scene: on the scene, on five other representations of it (paths permuted and added in "
                   "another order / call granularity, start vertices rotated, duplicate and closing vertices inserted, subject and "
                   "clip swapped, all paths reversed with Positive<->Negative exchanged), with the other three clip types, and on "
                   "five images of it (translated by up to 2^60, transposed, mirrored in x, mirrored in y, scaled by 2..5). The "
                   "representation changes must give the identical canonical path set; the set-algebra identities (Xor = Union "
                   "minus Intersection; Difference and Intersection partition the subject region) and the map identities "
                   "T(result(in)) = result(T(in)) are judged with the exact winding number at sample points farther than tol+1 "
                   "from every input edge, and a disagreement is attributed to a side by the C01 expectation. The property "
                   "quantifies over all inputs, so this is sampling evidence, not proof."),
    "level_note": ("trusted base: canonical path-set comparison, __int128 orientation/winding oracle, the general-position filter, "
                   "g++; region relations are blind inside the tolerance band (2+M*2^-42, M the larger magnitude of the two "
                   "executions) and where a translated scene is not accepted by the filter at its target magnitude; LocMinSorter "
                   "ties cannot occur in general position (no coincident vertices), so stable_sort vs sort is not observable here"),
    "technique": "runtime monitoring: metamorphic relations between executions (exact path-set equality, winding-number region equality) over generated executions (plain, HI_PRECISION builds)",
    "rule": ("case i: configuration i mod 32 (4 clip types x 4 fill rules x PreserveCollinear), magnitude class (i/32) mod 6 of "
             "2^5,2^7,2^10,2^20,2^30,2^40, scene from gp_scene (7 shape classes, exact general-position filter); all derived "
             "representations are drawn from a seed stored in the case; translation exponent from {2,8,...,60} (mostly such that "
             "the band stays narrower than the features), scale factor 2..5; a case is non-trivial iff the inputs' edges properly "
             "cross at least once; distinct by hash of inputs+configuration+transformation parameters"),
    "assumptions": ["exact __int128 orientation/winding oracle in harness/common/geom.h is correct",
                    "inputs outside general position (filter: 3.001+M*2^-50 separation) are not explored; translated scenes the "
                    "filter rejects at the target magnitude are skipped and counted",
                    "region of a solution = points of non-zero winding number about its paths"],
    "floor": _q(8000, 250000),
    "must_count": _q(_MUST, _MUST),
    "jobs": [
        {"mon": "mon_c13", "cfg": "plain", "cases": _q(12800, 448000)},
        {"mon": "mon_c13", "cfg": "hp", "cases": _q(7680, 268800), "seed_off": 1000003},
    ],
    "post": _post,
}
