"""Property registry: which monitors, builds and budgets decide each property (DESIGN.md section 3).

Each property lives in its own module vf/p_cNN.py defining ID and PROP (a dict):
  level            MANIFEST category: exploration | fault_enumeration
  level_text       what assurance the check gives (MANIFEST level_claimed.text)
  level_note       trusted base / assumptions (MANIFEST level_note)
  technique        few words naming the deciding method
  rule             how cases are generated and what makes one non-trivial/distinct (evidence coverage.rule)
  assumptions      list of strings (evidence)
  floor            {"quick": n, "thorough": n}: fewer distinct non-trivial cases than this => inconclusive (exit 2)
  must_count       {"quick": [counter names], ...}: counters that must be > 0, else inconclusive
  exhaustive       bool or {"quick": bool, "thorough": bool}
  jobs             list of {"mon": "mon_cNN", "cfg": <build cfg>, "cases": {"quick": n, "thorough": n},
                            "args": [...extra argv...], "env": {...}, "seed_off": int, "shards": int|{tier:int},
                            "cxxflags": [...], "prefix": [...command prefix e.g. valgrind...]}
  post             optional callable(ctx_dict) run after all workers (cross-build joins)
  crash_is_violation  default True
"""
import glob
import importlib
import os

PROPS = {}
NOT_BUILT = {}

for _f in sorted(glob.glob(os.path.join(os.path.dirname(__file__), "p_c*.py"))):
    try:
        _m = importlib.import_module("vf." + os.path.basename(_f)[:-3])
        PROPS[_m.ID] = _m.PROP
    except Exception as _e:  # a broken entry must not take the other properties down
        import sys
        print("vf.props: cannot load %s: %r" % (_f, _e), file=sys.stderr)
