"""C15 registry entry (DESIGN.md section 3, C15)."""
import os

from ._util import q as _q


def _hashes(workers, cfg):
    out = {}
    for w in workers:
        if w.job["cfg"] != cfg or w.job.get("role") != "diff":
            continue
        for r in w.all_records:
            if r.get("t") == "h":
                out[r["i"]] = r["h"]
    return out


def _post(x):
    """join the per-case result hashes of the build without USINGZ and the build with it"""
    from . import run as R
    a, b = _hashes(x["workers"], "plain"), _hashes(x["workers"], "z")
    common = sorted(set(a) & set(b))
    x["counters"]["cross_build_cases_joined"] = len(common)
    x["counters"]["cross_build_cases_only_in_one_build"] = len(set(a) ^ set(b))
    bad = [i for i in common if a[i] != b[i]]
    x["counters"]["cross_build_mismatches"] = len(bad)
    for i in bad[:5]:
        # reproduce alone in both builds and keep the witness (identical in both: inputs do not depend on the build)
        wit = ""
        for w in x["workers"]:
            if w.job.get("role") == "diff" and w.job["cfg"] == "plain":
                w2 = R.Worker(w.job, w.exe, 0, 1, w.cases, w.seed, x["tier"], x["tmp"], "xb_%d" % i)
                w2.run(600, ["--only", str(i), "--dump"])
                for r in w2.records():
                    if r.get("t") == "dump":
                        wit = r["witness"]
                break
        x["report"]("C15.geometry_differs", ["cross_build_hash_mismatch"], wit,
                    "case %d: x,y result hash %s without USINGZ, %s with USINGZ" % (i, a[i], b[i]))
    for i in bad[5:]:
        x["report"]("C15.geometry_differs", ["cross_build_hash_mismatch"], "", "case %d differs" % i)


ID = "C15"
PROP = {
    "level": "exploration",
    "level_text": ("Exploration by cross-build differential: the same monitor is compiled without and with USINGZ; for one seed both builds "
                   "run identical inputs (general-position boolean scenes with and without open subjects, ClipperD, polygon and open-path "
                   "offsetting, rectangle clipping, the degenerate zoo) with random Z values and one of four callback behaviours in the "
                   "Z build, and the ordered x,y results are compared case by case. In the Z build every solution vertex's Z is "
                   "accounted for against unique input ids and the callback's own log."),
    "level_note": "trusted base: the join of the two hash streams in vf/p_c15.py; Z clause checked only for general-position inputs (as the property states); offsetting Z is checked only for membership in {input ids, ids the callback issued for that point, 0}",
    "technique": "runtime monitoring: cross-build differential (USINGZ off/on) + unique-id Z accounting against the callback log",
    "rule": ("case i = family i mod 7 (Clipper64 closed GP; with open subjects; ClipperD; ClipperOffset; RectClip/RectClipLines; zoo; exact rounding ties: half-integer deltas and half/quarter-unit double coordinates at precision 0) with random "
             "clip type, fill rule, options, callback mode; non-trivial iff the subject set is non-empty; distinct by hash of inputs+options; "
             "cross_build_cases_joined counts cases compared across the two builds"),
    "assumptions": ["callbacks only write z (writing x,y from a Clipper64 callback is a user error, not probed)"],
    "floor": _q(20000, 400000),
    "must_count": _q(["cross_build_cases_joined", "z_accounting_cases", "z_vertices_from_callback", "z_vertices_from_input", "z_new_vertices_default"],
                     ["cross_build_cases_joined", "z_accounting_cases", "z_vertices_from_callback", "z_vertices_from_input", "z_new_vertices_default"]),
    "post": _post,
    "replay_cfgs": ["plain", "z"],
    "jobs": [
        {"mon": "mon_c15", "cfg": "plain", "cases": _q(42000, 1400000), "role": "diff"},
        {"mon": "mon_c15", "cfg": "z", "cases": _q(42000, 1400000), "role": "diff"},
    ],
}
