"""C06 registry entry (see DESIGN.md section 3, C06)."""
from ._util import q as _q

ID = "C06"
PROP = {
    "level": "exploration",
    "level_text": ("Exploration: every run offsets tens of thousands (quick) to about a million (thorough) generated simple "
                   "polygons-with-holes scenes (both orientation conventions, ReverseSolution on/off, InflatePaths / ClipperOffset "
                   "to paths / to PolyTree) with all four join types, both signs of delta, three miter limits and three arc "
                   "tolerances, and judges each result at several hundred sample points outside the tolerance band against a "
                   "signed-distance oracle (exact winding number + nearest-edge distance) that shares no code with the offsetter; "
                   "plus: every result vertex must lie inside the band (refuted by a concrete misclassified point on the 1/256 grid "
                   "next to it, judged exactly on the inputs scaled by 256), exact orientation-versus-nesting of every non-sliver "
                   "result path, emptiness after a shrink beyond a rigorous inradius bound, and region identity for |delta|<0.5. "
                   "The property quantifies over all inputs and all points of the plane, so this is sampling evidence, not proof."),
    "level_note": ("trusted base: __int128 orientation/winding oracle and point-segment distances (harness/common/geom.h, "
                   "harness/c06_offset_common.h), the exact premise verifier swh_verify, g++; errors inside the tolerance band "
                   "t = arc + 2 + 0.001|delta| (+0.25 margin) are not observable; only star-shaped outers with star-shaped holes "
                   "are generated"),
    "technique": "runtime monitoring: signed-distance sandwich oracle per join type over generated offset executions (plain, HI_PRECISION, portable builds)",
    "rule": ("scenes from simple_with_holes (1-3 disjoint star-shaped outers x 0-3 holes each, 4 shape classes, sizes 50..2^40, "
             "20% translated by up to 2^40; exact filters: simple, mutually non-touching, holes strictly inside with clearance 2, "
             "turning angles <= 169.7 degrees), cycled over 4 join types x delta sign x orientation convention x "
             "API/ReverseSolution x 7 sizes, |delta| from 0.4 to 0.6*size (classes <0.5, 0.5-3, around the inradius, log-uniform, "
             "uniform), miter limits {1,2,5}, arc tolerances {0, max(0.25, |delta|/32768), 1% of size}; samples: uniform, delta+-(t+1) and delta+-3t "
             "(and k*delta+-...) along edge normals and vertex bisectors, directions inside the normal fan of every vertex, "
             "sweep-rectangle corners, both sides of result edges; every result vertex is a boundary probe; "
             "a case is non-trivial iff the result is non-empty and at least 50 samples lay outside the band and were judged; "
             "distinct by hash of input+configuration"),
    "assumptions": ["exact __int128 orientation/winding oracle and the long-double point-segment distance are correct",
                    "inputs are star-shaped outers with star-shaped holes; general simple polygons (spirals, combs) are not explored",
                    "the 10-degree premise is applied with a margin: turning angles in (169.74, 170] degrees are not explored"],
    "floor": _q(8000, 250000),
    "must_count": _q(["samples_judged_round", "samples_judged_miter", "samples_judged_square", "samples_judged_bevel",
                      "samples_judged_small_delta", "orientation_paths_checked", "overshrink_cases", "result_vertices_checked"],
                     ["samples_judged_round", "samples_judged_miter", "samples_judged_square", "samples_judged_bevel",
                      "samples_judged_small_delta", "orientation_paths_checked", "overshrink_cases", "result_vertices_checked"]),
    "jobs": [
        {"mon": "mon_c06", "cfg": "plain", "cases": _q(24192, 600000)},
        {"mon": "mon_c06", "cfg": "hp", "cases": _q(4000, 150000), "seed_off": 1000003},
        {"mon": "mon_c06", "cfg": "portable", "cases": _q(0, 100000), "seed_off": 2000003},
    ],
}
