"""Orchestrator: ./check <ID> --tier quick|thorough [--replay F]   (DESIGN.md 2.1, 2.7-2.10)

exit 0  property held on everything explored (known findings are printed as KNOWN-FINDING lines)
exit 1  at least one violation not listed in known_findings.json (VIOLATION property=<id> replay=<path>)
exit 2  inconclusive: build failure, harness failure, watchdog twice, too few observations, bad evidence
"""
import argparse
import json
import os
import re
import shutil
import subprocess
import sys
import tempfile
import time
from concurrent.futures import ThreadPoolExecutor

from . import build as B
from ._util import spread_preexec
from .props import PROPS

VERIF = B.VERIF
EVID = os.path.join(VERIF, "evidence")
REPLAY = os.path.join(EVID, "replay")
KNOWN = os.path.join(VERIF, "known_findings.json")
NCPU = int(os.environ.get("VERIF_JOBS", "16"))


def eprint(*a):
    print(*a, file=sys.stderr, flush=True)


def load_known():
    try:
        with open(KNOWN) as f:
            k = json.load(f)
    except FileNotFoundError:
        k = {}
    return k.get("findings", []), k.get("fixed", [])


SAN_ENV = {
    "ASAN_OPTIONS": "abort_on_error=1:halt_on_error=1:detect_leaks=1:alloc_dealloc_mismatch=0:allocator_may_return_null=1:detect_stack_use_after_return=0:symbolize=1:malloc_context_size=12",
    "UBSAN_OPTIONS": "print_stacktrace=1:halt_on_error=1:abort_on_error=1",
    "LSAN_OPTIONS": "exitcode=23",
    "TSAN_OPTIONS": "halt_on_error=0:exitcode=66:second_deadlock_stack=1:history_size=4",
}


class Worker:
    def __init__(self, job, exe, shard, nshards, cases, seed, tier, tmp, tag):
        self.job, self.exe, self.shard, self.nshards = job, exe, shard, nshards
        self.cases, self.seed, self.tier, self.tmp, self.tag = cases, seed, tier, tmp, tag
        self.log = os.path.join(tmp, "%s.log" % tag)
        self.err = os.path.join(tmp, "%s.err" % tag)
        self.prog = os.path.join(tmp, "%s.prog" % tag)
        self.rc = None
        self.timed_out = False
        self.wall = 0.0
        self.crashes = []
        self.all_records = []
        self.gave_up = False

    def cmd(self, extra=None):
        c = [self.exe, "--seed", str(self.seed), "--shard", "%d/%d" % (self.shard, self.nshards),
             "--cases", str(self.cases), "--tier", self.tier, "--log", self.log, "--wdir", REPLAY,
             "--progress", self.prog]
        for a in self.job.get("args", []):
            c.append(str(a))
        if extra:
            c += extra
        pre = self.job.get("prefix")
        if pre:
            c = list(pre) + c
        return c

    def env(self):
        e = dict(os.environ)
        e.update(SAN_ENV)
        for k, v in self.job.get("env", {}).items():
            if k in e and k.endswith("_OPTIONS") and k in SAN_ENV:
                e[k] = e[k] + ":" + v
            else:
                e[k] = v
        return e

    def _limits(self):
        # address-space ceiling for non-sanitizer builds (sanitizers reserve terabytes of shadow memory); their
        # runaway allocations are bounded by the monitors' own heap ceilings / the case watchdog instead
        cfg = self.job.get("cfg", "")
        sanitized = cfg == "fuzz" or any("-fsanitize=" in f for f in B.CFGS.get(cfg, []))
        if sanitized or self.job.get("prefix"):
            return None

        def f():
            import resource
            lim = int(self.job.get("mem_gb", 6)) << 30
            resource.setrlimit(resource.RLIMIT_AS, (lim, lim))
        return f

    def run(self, timeout, extra=None):
        t = time.time()
        with open(self.err, "w") as ef:
            try:
                p = subprocess.run(self.cmd(extra), stdout=ef, stderr=subprocess.STDOUT, env=self.env(), timeout=timeout,
                                   preexec_fn=spread_preexec(self._limits()))
                self.rc = p.returncode
                self.timed_out = False
            except subprocess.TimeoutExpired:
                self.rc = None
                self.timed_out = True
        self.wall = time.time() - t
        return self

    def run_all(self, timeout, max_restarts=5):
        """run the shard; after a crash resume behind the crashed case (at most max_restarts times)"""
        self.crashes = []
        self.all_records = []
        start = 0
        for attempt in range(max_restarts + 1):
            self.run(timeout, ["--from", str(start)] if start else None)
            if self.timed_out:
                self.run(timeout, ["--from", str(start)] if start else None)   # once more
            recs = self.records()
            self.all_records += recs
            if self.timed_out:
                break
            if self.rc == 0 and any(r.get("t") == "stats" for r in recs):
                break
            idx = self.progress()
            if idx == -2 and any(r.get("t") == "stats" for r in recs) and any(r.get("t") == "violation" for r in recs):
                break   # finished; the non-zero exit status only repeats reports the monitor already turned into violations
            self.crashes.append((idx, self.rc, self.stderr_text(), self.reproduce(idx, len(self.crashes))))
            hangs = sum(1 for c in self.crashes if c[1] == 97)
            if idx is None or idx < 0 or attempt == max_restarts or hangs >= 2:
                self.gave_up = True
                break
            start = idx + 1
        return self

    def reproduce(self, idx, n):
        """re-run the crashed case alone with a witness dump; returns (witness, rc, stderr, timed_out, records) or None"""
        if idx is None or idx < 0:
            return None
        w2 = Worker(self.job, self.exe, 0, 1, self.cases, self.seed, self.tier, self.tmp, "%s_only%d" % (self.tag, n))
        w2.run(420, ["--only", str(idx), "--dump"])
        witness = ""
        recs = w2.records()
        for r in recs:
            if r.get("t") == "dump":
                witness = r["witness"]
        return (witness, w2.rc, w2.stderr_text(), w2.timed_out, recs)

    def records(self):
        out = []
        try:
            with open(self.log) as f:
                for line in f:
                    line = line.strip()
                    if not line:
                        continue
                    try:
                        out.append(json.loads(line))
                    except ValueError:
                        out.append({"t": "garbled", "line": line[:200]})
        except OSError:
            pass
        return out

    def progress(self):
        try:
            with open(self.prog, "rb") as f:
                b = f.read(8)
            return int.from_bytes(b, "little", signed=True) if len(b) == 8 else None
        except OSError:
            return None

    def stderr_text(self, n=20000):
        try:
            with open(self.err, errors="replace") as f:
                s = f.read()
            return s[-n:]
        except OSError:
            return ""


def _function_name(sig):
    """qualified function name of a symbolised frame: template arguments removed, token before the first '('"""
    prev = None
    while prev != sig:
        prev = sig
        sig = re.sub(r"<[^<>]*>", "", sig)
    head = sig.split("(", 1)[0].strip()
    return head.split()[-1] if head else ""


class FuzzWorker(Worker):
    """a libFuzzer job: runs are bounded by -runs=N; a crash leaves an artifact that is decoded into a monitor witness"""

    def cmd(self, extra=None):
        self.art = os.path.join(self.tmp, "%s_art_" % self.tag)
        c = [self.exe, "-runs=%d" % max(1, self.cases // self.nshards), "-seed=%d" % (self.seed * 1000 + self.shard + 1),
             "-max_len=%d" % self.job.get("max_len", 600), "-timeout=%d" % self.job.get("input_timeout", 60), "-rss_limit_mb=4096",
             "-malloc_limit_mb=2048", "-print_final_stats=1", "-artifact_prefix=" + self.art, "-verbosity=1", "-len_control=20"]
        # corpus: a scratch directory (libFuzzer writes new units into the first one) plus the committed, merge-minimised
        # seed corpus of earlier campaigns (read only), so that a bounded run starts from deep coverage
        scratch = os.path.join(self.tmp, "%s_corpus" % self.tag)
        os.makedirs(scratch, exist_ok=True)
        c.append(scratch)
        seedc = os.path.join(VERIF, "fuzz_corpus", self.job["mon"] + ".tar.gz")
        if os.path.exists(seedc):
            unpacked = os.path.join(self.tmp, "%s_seed_corpus" % self.tag)
            os.makedirs(unpacked, exist_ok=True)
            subprocess.run(["tar", "-xzf", seedc, "-C", unpacked], check=False)
            if os.listdir(unpacked):
                c.append(unpacked)
        return c + (extra or [])

    def run_all(self, timeout, max_restarts=0):
        self.crashes, self.all_records = [], []
        self.run(timeout)
        txt = self.stderr_text(400000)
        m = re.search(r"stat::number_of_executed_units:\s*(\d+)", txt)
        execs = int(m.group(1)) if m else 0
        covs = [int(x) for x in re.findall(r" cov: (\d+) ", txt)]
        fts = [int(x) for x in re.findall(r" ft: (\d+) ", txt)]
        corp = [int(x) for x in re.findall(r" corp: (\d+)/", txt)]
        if self.timed_out:
            return self
        arts = [os.path.join(self.tmp, f) for f in os.listdir(self.tmp) if f.startswith(os.path.basename(self.art))]
        if self.rc != 0 or arts:
            witness = ""
            rep = None
            if arts:
                witness = os.path.join(REPLAY, "%s_fuzz_s%d_%s.txt" % (self.job["mon"], self.seed, self.tag))
                e = self.env()
                e["VF_DUMP_CASE"] = witness
                with open(self.err + ".repro", "w") as ef:
                    try:
                        p = subprocess.run([self.exe, arts[0]], stdout=ef, stderr=subprocess.STDOUT, env=e, timeout=600, preexec_fn=spread_preexec())
                        rc2, to2 = p.returncode, False
                    except subprocess.TimeoutExpired:
                        rc2, to2 = None, True
                with open(self.err + ".repro", errors="replace") as f:
                    txt2 = f.read()[-20000:]
                rep = (witness if os.path.exists(witness) else "", rc2, txt2, to2, [])
            self.crashes.append((0, self.rc, txt[-20000:], rep))
        self.all_records.append({"t": "stats", "evaluations": execs, "distinct": [], "violations": 0,
                                 "counters": {"fuzz_executions": execs, "max_fuzz_cov_edges": max(covs) if covs else 0,
                                              "max_fuzz_features": max(fts) if fts else 0, "max_fuzz_corpus_units": max(corp) if corp else 0},
                                 "samples": []})
        return self


def classify_crash(text, rc):
    """Classifier tags for a crashed worker: report kind + first Clipper2Lib frame."""
    kind = "signal_%s" % (-rc if rc is not None and rc < 0 else rc)
    m = re.search(r"ERROR: AddressSanitizer: ([\w-]+)", text)
    if m:
        kind = "asan_" + m.group(1)
    elif "runtime error:" in text:
        m2 = re.search(r"runtime error: ([^\n]{0,120})", text)
        msg = (m2.group(1) if m2 else "x").lower()
        for pat, name in (("outside the range of representable", "float_cast_overflow"), ("signed integer overflow", "signed_integer_overflow"),
                          ("reference binding to null", "null_reference"), ("null pointer", "null_pointer"), ("misaligned", "misaligned"),
                          ("out of bounds", "out_of_bounds"), ("shift exponent", "shift"), ("division by zero", "division_by_zero"),
                          ("not a valid value for type", "invalid_enum_or_bool"), ("negation of", "negation_overflow")):
            if pat in msg:
                kind = "ubsan_" + name
                break
        else:
            kind = "ubsan_" + re.sub(r"[^a-z]+", "_", msg)[:40].strip("_")
    elif "LeakSanitizer" in text:
        kind = "lsan_leak"
    elif "ThreadSanitizer" in text:
        kind = "tsan"
    elif "verif_fail" in text or "VERIF-HOOK" in text:
        m3 = re.search(r"VERIF-HOOK ([\w.-]+)", text)
        kind = "hook_" + (m3.group(1) if m3 else "x")
    elif "terminate called" in text:
        m4 = re.search(r"instance of '([^']+)'", text)
        kind = "uncaught_" + (m4.group(1) if m4 else "exception")
    elif "libFuzzer: timeout" in text:
        kind = "fuzz_timeout"
    elif "libFuzzer: out-of-memory" in text:
        kind = "fuzz_out_of_memory"
    elif "VF-WATCHDOG" in text:
        m5 = re.search(r"VF-WATCHDOG (\w+)", text)
        kind = "watchdog_" + (m5.group(1) if m5 else "x")
    mv = re.search(r"==\d+== ((?:Conditional jump|Use of uninitialised|Invalid (?:read|write|free)|Mismatched free|Syscall param|Source and destination overlap|Argument)[^\n]{0,50})", text)
    if mv and kind.startswith("signal_"):
        kind = "valgrind_" + re.sub(r"[^a-z]+", "_", mv.group(1).lower()).strip("_")[:40]
    frame = "noframe"
    for m in list(re.finditer(r"==\d+==\s+(?:at|by) 0x[0-9A-Fa-f]+: ([^\n]+)", text)) + \
            list(re.finditer(r"#\d+ 0x[0-9a-f]+ in ([^\n]+)", text)) + \
            list(re.finditer(r"#\d+ ((?!0x)[A-Za-z_][^\n]+)", text)):
        fn = _function_name(m.group(1))
        if fn.startswith("Clipper2Lib::"):
            frame = fn[len("Clipper2Lib::"):]
            break
    return [kind, "frame_" + frame, kind + "@" + frame]


def witness_tags(path):
    """input-class tags a monitor stored in the witness (kv _tags a,b,c)"""
    try:
        with open(path) as f:
            for line in f:
                if line.startswith("kv _tags "):
                    return [t for t in line[len("kv _tags "):].strip().split(",") if t]
    except OSError:
        pass
    return []


def with_composites(tags, wtags):
    """crash tags + input-class tags + their combinations kind@frame@inputclass (for narrow known-finding classifiers)"""
    out = list(tags) + list(wtags)
    for t in tags:
        if "@" in t:
            for w in wtags:
                out.append("%s@%s" % (t, w))
    return out


def match_known(findings, prop, claim, tags):
    for f in findings:
        if f.get("property") != prop or f.get("claim") != claim:
            continue
        cl = f.get("classifier")
        if cl is None or cl in tags:
            return f
    return None


def validate_evidence(ev):
    req = ["property_id", "tier", "seed", "level", "coverage", "wall_s"]
    for k in req:
        if k not in ev:
            return "missing " + k
    cov = ev["coverage"]
    if ev["level"] in ("exploration", "fault_enumeration"):
        for k in ("evaluations", "distinct_nontrivial", "rule", "samples"):
            if k not in cov:
                return "coverage missing " + k
        if not isinstance(cov["evaluations"], int) or cov["evaluations"] < 1:
            return "evaluations < 1"
        if not isinstance(cov["distinct_nontrivial"], int) or cov["distinct_nontrivial"] < 2:
            return "distinct_nontrivial < 2"
        if not isinstance(cov["samples"], list) or len(cov["samples"]) < 1:
            return "no samples"
    try:
        import jsonschema  # optional
        with open("/root/.vp/EVIDENCE.schema.json") as f:
            jsonschema.validate(ev, json.load(f))
    except ImportError:
        pass
    except FileNotFoundError:
        pass
    except Exception as e:  # jsonschema.ValidationError
        return "schema: %s" % str(e)[:300]
    return None


def dump_evidence(ev):
    """indent=1 for the structure, but every sample on one line"""
    samples = ev["coverage"].get("samples", [])
    marks = ["@@SAMPLE%d@@" % i for i in range(len(samples))]
    ev2 = dict(ev)
    ev2["coverage"] = dict(ev["coverage"])
    ev2["coverage"]["samples"] = marks
    s = json.dumps(ev2, indent=1)
    for m, smp in zip(marks, samples):
        s = s.replace('"%s"' % m, json.dumps(smp))
    return s + "\n"


def replay_one(prop, path, seed, tier, tmp, tag, extra_cfg=None):
    """Run a witness through its monitor. Returns (status, records, worker) status in ok|violation|crash|error."""
    kv = {}
    try:
        with open(path) as f:
            for line in f:
                if line.startswith("kv _"):
                    parts = line.rstrip("\n").split(" ", 2)
                    kv[parts[1]] = parts[2] if len(parts) > 2 else ""
    except OSError as e:
        return "error", [{"t": "error", "detail": str(e)}], None
    mon = kv.get("_mon")
    cfg = extra_cfg or kv.get("_cfg", "plain")
    if not mon:
        return "error", [{"t": "error", "detail": "witness has no _mon line"}], None
    pdef = PROPS[prop]
    job = None
    for j in pdef["jobs"]:
        if j["mon"] == mon and j["cfg"] == cfg:
            job = j
            break
    if job is None:
        job = {"mon": mon, "cfg": cfg, "args": []}
    exe = B.build(cfg, mon, job.get("cxxflags"))
    w = Worker(job, exe, 0, 1, 1, seed, tier, tmp, tag)
    w.run(job.get("replay_timeout", 600), ["--replay", path])
    recs = w.records()
    if w.timed_out:
        return "timeout", recs, w
    if w.rc != 0:
        return "crash", recs, w
    if any(r.get("t") == "violation" for r in recs):
        return "violation", recs, w
    return "ok", recs, w


def run_property(prop, tier, seed, replay=None):
    t0 = time.time()
    pdef = PROPS[prop]
    os.makedirs(REPLAY, exist_ok=True)
    findings, fixed = load_known()
    tmp = tempfile.mkdtemp(prefix="vf_%s_" % prop, dir=os.environ.get("VERIF_TMP", "/tmp"))
    viol_lines, known_lines, notes = [], [], []
    inconclusive = []
    known_seen = {}

    def report(claim, tags, witness, detail):
        f = match_known(findings, prop, claim, tags)
        if f is not None:
            known_seen.setdefault(f["id"], {"f": f, "n": 0, "example": witness})["n"] += 1
        else:
            viol_lines.append((claim, tags, witness, detail))

    try:
        # ---- single replay
        if replay:
            cfgs = pdef.get("replay_cfgs") or [None]
            hashes = {}
            for cfg in cfgs:
                st, recs, w = replay_one(prop, replay, seed, tier, tmp, "replay_%s" % (cfg or "own"), cfg)
                if st == "error" or st == "timeout":
                    eprint("replay %s: %s" % (replay, st))
                    return 2
                if st == "crash":
                    tags = with_composites(classify_crash(w.stderr_text(), w.rc), witness_tags(replay))
                    eprint(w.stderr_text(4000))
                    report(prop + ".crash", tags, replay, "worker died rc=%s" % w.rc)
                for r in recs:
                    if r.get("t") == "violation":
                        report(r["claim"], r.get("tags", []), replay, r.get("detail", ""))
                    elif r.get("t") == "h":
                        hashes[cfg] = r["h"]
            if len(cfgs) > 1 and len(set(hashes.values())) > 1:
                report(prop + ".geometry_differs", ["cross_build_hash_mismatch"], replay, "result hashes per build: %s" % hashes)
            for k in known_seen.values():
                print("KNOWN-FINDING: property=%s %s" % (prop, k["f"]["text"]))
            for (claim, tags, wit, detail) in viol_lines:
                print("VIOLATION property=%s replay=%s claim=%s tags=%s %s" % (prop, wit, claim, ",".join(tags), detail[:300]))
            if not viol_lines and not known_seen:
                print("replay: no violation reproduced")
            return 1 if viol_lines else 0

        # ---- builds
        try:
            exes = B.build_many([(j["cfg"], j["mon"], j.get("cxxflags", [])) for j in pdef["jobs"]])
        except B.BuildError as e:
            eprint("BUILD FAILURE\n%s" % e)
            print("INCONCLUSIVE property=%s build failure" % prop)
            return 2

        # ---- pinned witnesses (known findings: still reproduce? fixed: must pass)
        pinned = []
        for f in findings:
            if f.get("property") == prop and f.get("witness"):
                pinned.append(("finding", f))
        for f in fixed:
            if f.get("property") == prop and f.get("witness"):
                pinned.append(("fixed", f))
        for n, (kind, f) in enumerate(pinned):
            wpath = os.path.join(VERIF, f["witness"])
            st, recs, w = replay_one(prop, wpath, seed, tier, tmp, "pin%d" % n)
            hit = []
            if st == "crash":
                hit.append((prop + ".crash", with_composites(classify_crash(w.stderr_text(), w.rc), witness_tags(wpath)), "worker died rc=%s" % w.rc))
            for r in recs:
                if r.get("t") == "violation":
                    hit.append((r["claim"], r.get("tags", []), r.get("detail", "")))
            if st in ("error", "timeout"):
                inconclusive.append("pinned witness %s: %s" % (f["witness"], st))
                continue
            if kind == "finding":
                if hit:
                    for (claim, tags, detail) in hit:
                        report(claim, tags, wpath, detail)
                else:
                    notes.append("stale known finding: %s no longer reproduces on %s" % (f["id"], f["witness"]))
            else:
                for (claim, tags, detail) in hit:
                    # a fixed entry suppresses nothing
                    viol_lines.append((claim, tags, wpath, "REGRESSION of fixed defect (%s): %s" % (f.get("commit", "?"), detail)))

        # ---- workload
        workers = []
        only_cfg = os.environ.get("VERIF_ONLY_CFG")   # developer aid: run only the jobs of one build configuration
        for ji, j in enumerate(pdef["jobs"]):
            if only_cfg and j["cfg"] != only_cfg:
                continue
            cases = j["cases"][tier] if isinstance(j["cases"], dict) else j["cases"]
            if cases <= 0:
                continue
            nsh = j.get("shards", {}).get(tier) if isinstance(j.get("shards"), dict) else j.get("shards")
            if not nsh:
                nsh = NCPU
            nsh = max(1, min(nsh, cases))
            for s in range(nsh):
                cls = FuzzWorker if j["cfg"] == "fuzz" else Worker
                workers.append(cls(j, exes[(j["cfg"], j["mon"])], s, nsh, cases, seed + j.get("seed_off", 0), tier, tmp,
                                   "j%d_s%d" % (ji, s)))
        tmo = pdef.get("timeout", {}).get(tier, 1500 if tier == "quick" else 7200)

        def go(w):
            t = w.job.get("timeout", {}).get(tier, tmo) if isinstance(w.job.get("timeout"), dict) else tmo
            return w.run_all(t)
        with ThreadPoolExecutor(NCPU) as ex:
            list(ex.map(go, workers))

        # ---- collect
        evaluations = 0
        distinct = set()
        counters = {}
        samples = []
        per_job = {}
        for w in workers:
            recs = w.all_records
            stats = [r for r in recs if r.get("t") == "stats"]
            for r in recs:
                if r.get("t") == "violation":
                    report(r["claim"], r.get("tags", []), r.get("witness", ""), r.get("detail", ""))
                elif r.get("t") == "info":
                    counters.setdefault("info", {})[r["key"]] = r["value"]
                elif r.get("t") == "garbled":
                    notes.append("garbled log line in %s" % w.tag)
            if w.timed_out:
                inconclusive.append("worker %s (%s/%s) exceeded the %ds watchdog twice at case %s" %
                                    (w.tag, w.job["mon"], w.job["cfg"], tmo, w.progress()))
                continue
            for ci, (idx, rc, txt, rep) in enumerate(w.crashes):
                # crashed: the case was re-run alone with a witness dump (Worker.reproduce)
                tags = classify_crash(txt, rc)
                witness = ""
                if rep is not None:
                    witness, rc2, txt2, to2, recs2 = rep
                    if rc2 == 0 and not to2:
                        tags.append("not_reproduced_alone")
                        for r in recs2:
                            if r.get("t") == "violation":
                                report(r["claim"], r.get("tags", []), r.get("witness", ""), r.get("detail", ""))
                    else:
                        tags = classify_crash(txt2, rc2) if not to2 else tags
                        txt = txt2 or txt
                if witness:
                    tags = with_composites(tags, witness_tags(witness))
                keep = os.path.join(REPLAY, "%s_%s_crash_s%d_%s_%d.stderr.txt" % (prop, w.job["mon"], seed, w.tag, ci))
                with open(keep, "w") as f:
                    f.write(txt)
                counters["worker_crashes"] = counters.get("worker_crashes", 0) + 1
                if "not_reproduced_alone" in tags and any(t.startswith("watchdog_") for t in tags):
                    # a watchdog that fires only inside the loaded batch is a load artefact, not a verdict
                    notes.append("watchdog fired in worker %s at case %s but the case completes alone (%s)" % (w.tag, idx, keep))
                elif pdef.get("crash_is_violation", True):
                    report(prop + ".crash", tags, witness or keep, "worker %s died rc=%s at case %s; stderr kept in %s" % (w.tag, rc, idx, keep))
                else:
                    inconclusive.append("worker %s died rc=%s at case %s (%s)" % (w.tag, rc, idx, keep))
            if w.gave_up and not any(r.get("t") == "stats" for r in recs):
                notes.append("worker %s gave up after %d crashes; the rest of its shard was not explored" % (w.tag, len(w.crashes)))
            if not stats:
                continue
            st = stats[-1]
            evaluations += st.get("evaluations", 0)
            distinct.update(st.get("distinct", []))
            jkey = "%s/%s" % (w.job["mon"], w.job["cfg"])
            pj = per_job.setdefault(jkey, {"evaluations": 0, "workers": 0, "wall_s_max": 0.0})
            pj["evaluations"] += st.get("evaluations", 0)
            pj["workers"] += 1
            pj["wall_s_max"] = max(pj["wall_s_max"], round(w.wall, 1))
            for k, v in st.get("counters", {}).items():
                if k.startswith("max_"):
                    counters[k] = max(counters.get(k, v), v)
                else:
                    counters[k] = counters.get(k, 0) + v
            for s in st.get("samples", []):
                if len(samples) < 5:
                    samples.append(s)

        # ---- optional post-processing hook (cross-build joins etc.)
        post = pdef.get("post")
        if post:
            post(dict(prop=prop, tier=tier, seed=seed, tmp=tmp, workers=workers, report=report, counters=counters,
                      notes=notes, inconclusive=inconclusive, exes=exes, replay_dir=REPLAY))

        # ---- verdict
        for k in known_seen.values():
            print("KNOWN-FINDING: property=%s %s (seen %d time(s) this run, e.g. %s)" %
                  (prop, k["f"]["text"], k["n"], os.path.relpath(k["example"], VERIF) if k["example"] else "-"))
        seen = {}
        printed = 0
        viol_lines.sort(key=lambda v: 0 if v[2] else 1)   # those with a witness file first
        for (claim, tags, wit, detail) in viol_lines:
            key = (claim, tuple(sorted(tags)))
            seen[key] = seen.get(key, 0) + 1
            if seen[key] > 2 or printed >= 12:
                continue
            printed += 1
            print("VIOLATION property=%s replay=%s claim=%s tags=%s %s" % (prop, wit, claim, ",".join(tags), detail[:400]))
        if len(viol_lines) > printed:
            print("(%d further violations not printed; classes: %s)" % (len(viol_lines) - printed,
                  "; ".join("%s[%s] x%d" % (k[0], ",".join(k[1]), n) for k, n in sorted(seen.items(), key=lambda kv: -kv[1])[:60])))

        floor = pdef.get("floor", {}).get(tier, 2)
        if len(distinct) < floor and not viol_lines:
            inconclusive.append("only %d distinct non-trivial cases observed (floor %d)" % (len(distinct), floor))
        for need in pdef.get("must_count", {}).get(tier, []):
            if counters.get(need, 0) <= 0 and not viol_lines:
                inconclusive.append("counter %s is zero: that part of the monitor observed nothing" % need)

        ev = {
            "property_id": prop,
            "tier": tier,
            "seed": seed,
            "level": pdef["level"],
            "coverage": {
                "evaluations": int(evaluations),
                "distinct_nontrivial": len(distinct),
                "rule": pdef["rule"],
                "samples": samples,
                "exhaustive": bool(pdef.get("exhaustive", {}).get(tier, False)) if isinstance(pdef.get("exhaustive"), dict) else bool(pdef.get("exhaustive", False)),
                "counters": counters,
                "per_job": per_job,
                "known_findings_seen": {k: v["n"] for k, v in known_seen.items()},
                "pinned_witnesses_replayed": len(pinned),
                "notes": notes,
                "inconclusive": inconclusive,
                "repo_lib_key": B.lib_key("plain"),
            },
            "assumptions": pdef.get("assumptions", []),
            "wall_s": round(time.time() - t0, 1),
            "violations": len(viol_lines),
        }
        if pdef.get("exhaustive_note"):
            ev["coverage"]["exhaustive_note"] = pdef["exhaustive_note"]
        bad = validate_evidence(ev) if not viol_lines else None
        os.makedirs(EVID, exist_ok=True)
        with open(os.path.join(EVID, prop + ".json"), "w") as f:
            f.write(dump_evidence(ev))
        print("%s %s seed=%d: evaluations=%d distinct_nontrivial=%d violations=%d known=%d wall=%.0fs" %
              (prop, tier, seed, evaluations, len(distinct), len(viol_lines), len(known_seen), time.time() - t0))
        if viol_lines:
            return 1
        if bad:
            inconclusive.append("evidence invalid: " + bad)
        if inconclusive:
            for m in inconclusive:
                print("INCONCLUSIVE property=%s %s" % (prop, m))
            return 2
        return 0
    finally:
        if not os.environ.get("VERIF_KEEP_TMP"):
            shutil.rmtree(tmp, ignore_errors=True)


def setup():
    pairs = []
    for p in PROPS.values():
        for j in p["jobs"]:
            pairs.append((j["cfg"], j["mon"], j.get("cxxflags", [])))
    t = time.time()
    try:
        B.build_many(pairs)
    except B.BuildError as e:
        eprint(str(e))
        return 2
    print("setup: built %d monitor executables in %.0fs" % (len(set((a, b) for a, b, _ in pairs)), time.time() - t))
    return 0


def main():
    ap = argparse.ArgumentParser()
    ap.add_argument("prop", nargs="?")
    ap.add_argument("--tier", default=os.environ.get("VERIF_TIER", "quick"), choices=["quick", "thorough"])
    ap.add_argument("--replay")
    ap.add_argument("--setup", action="store_true")
    ap.add_argument("--seed", type=int, default=None)
    a = ap.parse_args()
    if a.setup:
        return setup()
    if not a.prop or a.prop not in PROPS:
        eprint("usage: ./check <ID> --tier quick|thorough [--replay F]; ids: %s" % " ".join(sorted(PROPS)))
        return 2
    seed = a.seed
    if seed is None:
        try:
            seed = int(os.environ.get("VERIF_SEED", "1"))
        except ValueError:
            seed = 1
    return run_property(a.prop, a.tier, seed, a.replay)


if __name__ == "__main__":
    sys.exit(main())
