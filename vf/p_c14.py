"""C14 registry entry (DESIGN.md section 3, C14)."""
from ._util import q as _q

ID = "C14"
_MUST = ['static_storage_bytes_guarded', 'selfconc_bool64_paths', 'selfconc_bool64_tree', 'selfconc_boolD_paths', 'selfconc_boolD_tree', 'selfconc_helpers64', 'selfconc_helpersD', 'selfconc_offset_obj', 'selfconc_inflate64', 'selfconc_inflateD', 'selfconc_rect64', 'selfconc_rectlines64', 'selfconc_rectD', 'selfconc_mink64', 'selfconc_minkD', 'selfconc_util64', 'selfconc_utilD', 'selfconc_export64', 'selfconc_exportD', 'selfconc_reuse', 'selfconc_reuse_shared', 'rounds_T2', 'rounds_T16', 'rounds_mode0', 'rounds_mode1', 'rounds_mode2', 'rounds_mode3']
PROP = {
    "level": "exploration",
    "level_text": ("Exploration of schedules: the ThreadSanitizer build runs rounds of 2/4/8/16 threads, each thread executing a script "
                   "of 10-24 operations drawn from all 19 entry-point families on its own objects (lock-step identical scripts, varied "
                   "scripts, clippers sharing one read-only ReuseableDataContainer64, and lock-step same-family/different-data rounds incl. delta-callback offset storms), with random yields; any TSan report and any "
                   "difference between a thread's result hash and the sequential run of the same script is a violation. TSan generalises "
                   "over schedules with the same synchronisation order, not over all schedules. The first sentence of the property (no mutable state outside the caller's objects) is monitored directly too: "
                   "in a plain build every operation of all 19 families runs behind a write barrier on the image's static storage (.data/.bss mapped read-only, SIGSEGV handler records the store), and the image must have no thread-local segment."),
    "level_note": "trusted base: gcc ThreadSanitizer (happens-before + lockset hybrid), __tsan_on_report hook; races in code no two threads executed concurrently in any round are not observable; the run is inconclusive unless every family was observed running concurrently with itself",
    "technique": "runtime monitoring: ThreadSanitizer stress rounds + sequential-equivalence hashes, co-running matrix as evidence",
    "rule": ("a case is one round (T threads x nops operations); T cycles 2,4,8,16, mode cycles identical-lock-step / varied / shared "
             "container; non-trivial iff T>=2 and nops>0; distinct by hash of (T, mode, nops, script seed)"),
    "assumptions": ["relaxed atomics used for the co-running matrix create no happens-before edges"],
    "floor": _q(100, 2500),
    "must_count": _q(_MUST, _MUST),
    "jobs": [
        {"mon": "mon_c14", "cfg": "tsan", "cases": _q(256, 6400), "shards": 8},
        # write barrier on the static storage of the image while library operations run (single-threaded, plain build)
        {"mon": "mon_c14s", "cfg": "plain", "cases": _q(60000, 2000000), "cxxflags": ["-rdynamic", "-Wl,-z,now", "-ldl"], "seed_off": 7},
    ],
}
