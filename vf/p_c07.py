"""C07 registry entry (see DESIGN.md section 3, C07)."""
from ._util import q as _q

ID = "C07"
PROP = {
    "level": "exploration",
    "level_text": ("Exploration: every run offsets tens of thousands (quick) to several hundred thousand (thorough) generated calls of "
                   "1-5 open paths (1-point, 2-point and 3-8-point polylines incl. self-crossing ones, sharp turns up to the 170 degree "
                   "premise, segments shorter than delta, members far apart or overlapping) with all 4 join types x end types "
                   "Joined/Butt/Square/Round, miter limits {1,2,5}, three arc tolerances, both signs of delta, |delta| from 1 to 0.3*size, "
                   "sizes 50..2^40, through InflatePaths and ClipperOffset (one group / one group per path). Each result is judged at "
                   "up to ~420 sample points outside the tolerance band against a stroke model (union of per-segment rectangles, join "
                   "shapes, caps) evaluated with exact 128-bit products that shares no code with the offsetter; plus exact +delta/-delta "
                   "identity, region identity under path reversal, and region identity of every distant member against its stand-alone "
                   "result. The property quantifies over all inputs and all points of the plane, so this is sampling evidence, not proof."),
    "level_note": ("trusted base: __int128 dot/cross/winding oracle (harness/common/geom.h), the stroke model in harness/c07_stroke.h, "
                   "the exact premise verifier path_premise, g++; errors inside the tolerance band t = arc + 2 + 0.001|delta| (+0.25 "
                   "margin) are not observable; for Bevel joins only the segments' own rectangles (and caps) are demanded to be covered; "
                   "a 1-point path may come out as the disc or the axis-parallel square (the property allows both)"),
    "technique": "runtime monitoring: stroke-region sandwich oracle, +-delta identity, direction and neighbour independence over generated offset executions (plain and HI_PRECISION builds)",
    "rule": ("case index cycles 4 join types x 4 end types x 7 sizes (50..2^40; 20% translated by up to 2^40); 1-5 paths per call "
             "(15% 1-point, 23% 2-point, else 3-8 points; 6 shape classes: uniform points, walks, zigzags up to 169.5 degrees, lattice "
             "moves, segments short against delta, spirals), members placed in cells farther apart than 4k|delta|+4t+16 (80%) or "
             "overlapping (20%); exact premise filter: no consecutive duplicate points, first != last, every turning angle <= 169.9975 "
             "degrees (for Joined also at the two closing joins); |delta| classes 1-4, log-uniform, uniform up to 0.3*size; miter "
             "limits {1,2,5}; arc tolerances {0, max(0.25,|delta|/4096), 1% of size}; samples: along segment normals at "
             "|delta|+-(t+1.25) and |delta|+-3t, rectangle corners, around and beyond both ends, on and about join bisectors at "
             "|delta| and k|delta|, uniform in the inflated bounding boxes, both sides of result edges; a case is non-trivial iff the "
             "result is non-empty and at least 50 samples lay outside the band and were judged; distinct by hash of input+configuration"),
    "assumptions": ["exact __int128 orientation/winding oracle and the long-double point-segment distances are correct",
                    "turning angles in (169.9975, 170] degrees are not explored",
                    "direction independence is judged only at points farther than t+1.25 from both result boundaries, neighbour "
                    "independence only at points farther than 3 units from both result boundaries"],
    "floor": _q(10000, 300000),
    "must_count": _q(["samples_judged_must_be_covered", "samples_judged_must_not_be_covered", "samples_judged_end_joined",
                      "samples_judged_end_butt", "samples_judged_end_square", "samples_judged_end_round", "sign_identity_checked",
                      "independence_calls_with_distant_members", "mix_p2pn", "mix_p1p2pn"],
                     ["samples_judged_must_be_covered", "samples_judged_must_not_be_covered", "samples_judged_end_joined",
                      "samples_judged_end_butt", "samples_judged_end_square", "samples_judged_end_round", "sign_identity_checked",
                      "independence_calls_with_distant_members", "mix_p2pn", "mix_p1p2pn"]),
    "jobs": [
        {"mon": "mon_c07", "cfg": "plain", "cases": _q(20000, 600000)},
        {"mon": "mon_c07", "cfg": "hp", "cases": _q(3000, 100000), "seed_off": 1000003},
    ],
}
