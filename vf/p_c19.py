"""C19 registry entry (see DESIGN.md section 3, C19)."""
from ._util import q as _q

ID = "C19"
PROP = {
    "level": "exploration",
    "level_text": ("Exploration: every run executes MinkowskiSum and MinkowskiDiff (Path64, and the PathD overloads on a quarter of the "
                   "cases) on tens of thousands (quick) to about a million (thorough) generated pattern/path pairs (patterns of 3-8 "
                   "vertices: convex, non-convex, self-intersecting, brushes; paths of 1-10 vertices, open and closed; magnitudes 400 "
                   "to 2^40) and judges each result at some hundreds of integer sample points (uniform, parallelogram centroids and "
                   "interiors, both sides of every parallelogram edge and of the result's own edges) against the union of the "
                   "parallelograms rebuilt from the property text, with exact orientation tests and an exact winding number; only "
                   "points at least 3 units from every parallelogram edge are judged. The property quantifies over all inputs, so "
                   "this is sampling evidence, not proof."),
    "level_note": ("trusted base: __int128 orientation/winding oracle in harness/common/geom.h, the strict point-in-parallelogram test "
                   "(self-checked against the winding number at start-up), g++; deviations closer than 3 units to a parallelogram "
                   "edge are not observable; inputs outside the quantifier (pattern with < 3 vertices or all collinear, one-point "
                   "path, repeated consecutive vertices) are executed and counted but not judged, except that an empty pattern or "
                   "path must give an empty result; violations carry classifier tags computed from the witness (kind, face of the "
                   "misjudged point by 256-ray casting, near-touch of a parallelogram corner and a foreign edge) so that the known "
                   "engine defect 'triangular hole pinched at a near-touch corner is dropped' is matched narrowly"),
    "technique": "runtime monitoring: exact point-in-union-of-parallelograms reference oracle over generated executions, PathD overloads against the Path64 call on scaled rounded inputs",
    "rule": ("case i: magnitude class i mod 8 of {400, 2^12, 2^16, 2^20, 2^24, 2^30, 2^36, 2^40}, sum/diff alternating, closed/open at "
             "random; pattern kind in {convex, star-shaped, star polygon / self-intersecting, random, brush (box, diamond, regular)} "
             "with 3-8 vertices and either orientation, scale 10^-2.6..1 of the magnitude, centred at the origin or anywhere; path "
             "kind in {random polyline, star-shaped, bounded-turn walk, axis-parallel steps} with 1-10 vertices; 3.5% empty inputs, "
             "2% inputs outside the quantifier; every fourth block also calls the PathD overload with decimalPlaces -3..8 on the "
             "integer inputs plus a sub-unit fraction divided by 10^dp. A case is non-trivial iff the premises hold and at least 5 "
             "sample points inside and 5 outside the union cleared the 3-unit margin and were judged; distinct by hash of "
             "inputs+configuration; builds plain + CLIPPER2_HI_PRECISION (+ portable arithmetic in the thorough tier); "
             "1 case in 2500 is a long path (1500-9000 points, every third one 9000-14000 points with a 6-8 point pattern: 54000-112000 parallelograms), judged by one inside-sample per parallelogram"),
    "assumptions": ["exact __int128 orientation/winding oracle in harness/common/geom.h is correct",
                    "'general position' is applied to pattern and path only (DESIGN.md C19): no repeated consecutive vertices, "
                    "pattern >= 3 vertices not all collinear, path >= 2 vertices, |coord| <= 2^40; not to the set of parallelograms",
                    "PathD overloads: the map back may be v*(1/10^dp) or v/10^dp (they differ by at most 1 ulp); inputs whose scaled "
                    "coordinates are within 0.001 of a rounding tie are not compared"],
    "floor": _q(25000, 600000),
    "must_count": _q(["samples_judged_inside", "samples_judged_outside", "empty_input_calls", "pathd_calls_compared_nonempty",
                      "calls_sum_closed", "calls_sum_open", "calls_diff_closed", "calls_diff_open", "selfcheck_membership_points_inside"],
                     ["samples_judged_inside", "samples_judged_outside", "empty_input_calls", "pathd_calls_compared_nonempty",
                      "calls_sum_closed", "calls_sum_open", "calls_diff_closed", "calls_diff_open", "selfcheck_membership_points_inside"]),
    "jobs": [
        {"mon": "mon_c19", "cfg": "plain", "cases": _q(50000, 1200000)},
        {"mon": "mon_c19", "cfg": "hp", "cases": _q(10000, 240000), "seed_off": 1000003},
        {"mon": "mon_c19", "cfg": "portable", "cases": _q(0, 120000), "seed_off": 2000003},
    ],
}
