"""C04 registry entry (see DESIGN.md section 3, C04)."""
import os
import shutil
import subprocess

from . import build as _B
from ._util import q as _q

ID = "C04"

# The unchanged tree mis-nests a few polygons per 10^4 degenerate rectilinear scenes (class tags
# attached_too_high@rect..., see findings/c04_*.txt) and overflows the stack in CheckSplitOwner on a few per 10^5.
# Those classes are narrow in *what* goes wrong but not in *why*: a regression in ProcessHorzJoins' ownership
# branches, CheckSplitOwner or MoveSplits shows up as more members of the same classes (seeded edits: 228..1235 per
# quick run against 3..12). So that listing the classes as known findings cannot hide such a regression, the rate of
# each class is compared with a limit several times the pinned rate (exact counts go to the evidence).
_RATE_LIMITS = [
    # (claim of the tripwire, tag prefix counted, limit per rectilinear scene, minimum limit)
    ("C04.rect_misnesting_rate", "attached_too_high@rect", 1.2e-3, 40),      # pinned rate ~5e-4 (3..12 per 15360)
    ("C04.rect_crash_rate", "stack_overflow@rect", 2.0e-4, 10),             # pinned rate ~3e-5 (0..2 per 15360)
]


# Thorough tier: a coverage build of the same monitor shows that the workload really reaches the ownership code the
# property is anchored in. Lines are found by their text (not by number); gcda files go to a private directory
# (GCOV_PREFIX) so that other monitors' coverage runs of the same library objects are not counted.
_GCDA = os.path.join(_B.BUILD, "cov", "gcda_c04")
_ANCHOR_LINES = [
    # (counter name, text identifying the line, offset from the matching line)
    ("gcov_hits_horzjoin_split_swap_branch", "OutPt* tmp = or1->pts;", 0),
    ("gcov_hits_horzjoin_split_or2_inside_or1_branch", "else if (Path1InsidePath2(or2->pts, or1->pts))", 2),
    ("gcov_hits_horzjoin_split_neither_inside_branch", "or2->owner = or1->owner;", 0),
    ("gcov_hits_horzjoin_merge_setowner", "SetOwner(or2, or1);", 0),
    ("gcov_hits_movesplits_moves_a_split", "toOr->splits->emplace_back(*orIter);", 0),
    ("gcov_hits_checksplitowner_entered", "for (auto split : *splits)", 0),
    ("gcov_hits_checksplitowner_dead_split_recursion", "CheckSplitOwner(outrec, split->splits)) return true; //#942", 0),
    ("gcov_hits_checksplitowner_found_in_split", "outrec->owner = split; //found in split", 0),
    ("gcov_hits_recursivecheckowners_moves_up", "outrec->owner = outrec->owner->owner;", 0),
    ("gcov_hits_path1insidepath2_midpoint_fallback", "Point64 mp = GetBounds(GetCleanPath(op1)).MidPoint();", 0),
]


def _gcov(ctx):
    exe = ctx["exes"].get(("cov", "mon_c04"))
    if not exe or not any(w.job.get("cfg") == "cov" for w in ctx["workers"]):
        return
    d = os.path.dirname(exe)
    gd = os.path.join(_GCDA, d.lstrip("/"))
    try:
        if not os.path.exists(os.path.join(gd, "clipper.engine.o.gcda")):
            ctx["notes"].append("gcov: no clipper.engine.o.gcda under %s; anchored-line evidence missing" % gd)
            return
        shutil.copy(os.path.join(d, "clipper.engine.o.gcno"), gd)
        subprocess.run(["gcov", "-o", os.path.join(gd, "clipper.engine.o.tmp"), os.path.join(_B.SRC, "clipper.engine.cpp")],
                       cwd=ctx["tmp"], stdout=subprocess.DEVNULL, stderr=subprocess.DEVNULL)
        rows = []
        with open(os.path.join(ctx["tmp"], "clipper.engine.cpp.gcov"), errors="replace") as f:
            for line in f:
                parts = line.split(":", 2)
                if len(parts) == 3:
                    c = parts[0].strip().rstrip("*")
                    rows.append((int(c) if c.isdigit() else 0, parts[2]))
        for name, text, off in _ANCHOR_LINES:
            hits = 0
            for i, (_, src) in enumerate(rows):
                if text in src and i + off < len(rows):
                    hits = rows[i + off][0]
                    break
            ctx["counters"][name] = hits
            if hits == 0:
                ctx["notes"].append("gcov: the workload never executed the line '%s' (+%d)" % (text, off))
    except Exception as e:  # evidence only; never take the verdict down
        ctx["notes"].append("gcov post-processing failed: %r" % (e,))
    finally:
        shutil.rmtree(_GCDA, ignore_errors=True)


def _post(ctx):
    _gcov(ctx)
    rect = ctx["counters"].get("scenes_rect", 0)
    for claim, prefix, per_scene, floor in _RATE_LIMITS:
        n, example = 0, ""
        for w in ctx["workers"]:
            for r in w.records():
                if r.get("t") == "violation" and any(t.startswith(prefix) for t in r.get("tags", [])):
                    n += 1
                    example = example or r.get("witness", "")
        limit = max(floor, int(per_scene * rect))
        ctx["counters"]["violations_of_class_" + prefix] = n
        ctx["counters"]["limit_for_class_" + prefix] = limit
        if n > limit:
            ctx["report"](claim, ["rate_above_pinned_baseline"], example,
                          "%d violations of class %s* in %d rectilinear scenes; the pinned tree produces about a third of the limit %d: "
                          "a change made this class of defect several times more frequent" % (n, prefix, rect, limit))


PROP = {
    "level": "exploration",
    "level_text": ("Exploration: every run executes two Clipper64 objects (one into Paths64, one into PolyTree64) on tens of "
                   "thousands (quick) to over a million (thorough) generated scenes - general-position scenes biased to nesting "
                   "(concentric rings to depth 8, holes with islands, many holes per outer, holes merged or cut by crossing "
                   "polygons), chains of 130-700 nested contours (general position and rectilinear, 60 / 1200 scenes per run: tree depth, Level() and owner walks past 2^8 and 2^9) and degenerate rectilinear scenes on lattices scaled by >= 2 (rings assembled from abutting bars, "
                   "slabs with touching holes, random walks) - under all clip types, fill rules, ReverseSolution and "
                   "PreserveCollinear, and on a third of them also two ClipperD objects (precision 0..3) plus a Clipper64 on the "
                   "scaled input. Each tree is compared with the paths solution (canonical equality, open paths, area) and "
                   "every vertex and edge midpoint of every node is located exactly (128-bit winding) against its parent and "
                   "all its siblings; IsHole/Level/Parent are compared with depth and exact orientation. The property "
                   "quantifies over all inputs, so this is sampling evidence, not proof."),
    "level_note": ("trusted base: __int128 orientation/winding point location and shoelace sign, the general-position filter, "
                   "the lattice-gap premise filter, g++; only vertices and edge midpoints of tree polygons are located "
                   "(midpoints only for |coord| <= 2^59); PolyTreeD is only observed where coordinate*scale is exact in double "
                   "(|coord| <= 2^42)"),
    "technique": "runtime monitoring: differential tree-vs-paths execution plus exact point-location nesting oracle over generated executions",
    "rule": ("case i: configuration i mod 64 (4 clip types x 4 fill rules x ReverseSolution x PreserveCollinear); generator class "
             "(i/64) mod 8: gp_scene rings (2/8), gp_scene any class (1/8), recursive holes-and-islands with cutters (2/8) - all "
             "through the exact general-position filter, magnitudes 2^7..2^61 - and rectilinear_scene (1/8), slab-with-holes / "
             "frames (1/8), rings-from-bars (1/8) on lattices scaled by 2, 7, 1000, 2^20, 2^40, 2^58 (premise checked exactly: "
             "axis-parallel edges, distinct coordinates >= 2 apart); open subjects on ~25 %; PolyTreeD when i mod 3 == 0. "
             "A case is non-trivial iff the PolyTree64 has depth >= 2 (some polygon has a hole); distinct by hash of "
             "inputs+configuration"),
    "assumptions": ["exact __int128 point location / shoelace in harness/mon_c04.cpp and harness/common/geom.h is correct",
                    "GP inputs outside general position (filter: 3.001+M*2^-50 separation) and rectilinear inputs off a lattice of pitch >= 2 are not explored"],
    "floor": _q(9000, 250000),
    "must_count": _q(["points_located", "midpoints_located", "area_comparisons", "treeD_compared_node_for_node",
                      "scenes_nontrivial_gp", "scenes_nontrivial_rect", "open_solution_paths"],
                     ["points_located", "midpoints_located", "area_comparisons", "treeD_compared_node_for_node",
                      "scenes_nontrivial_gp", "scenes_nontrivial_rect", "open_solution_paths",
                      "gcov_hits_horzjoin_split_swap_branch", "gcov_hits_horzjoin_split_or2_inside_or1_branch",
                      "gcov_hits_horzjoin_split_neither_inside_branch", "gcov_hits_movesplits_moves_a_split",
                      "gcov_hits_checksplitowner_found_in_split"]),
    "jobs": [
        {"mon": "mon_c04", "cfg": "plain", "cases": _q(61440, 1843200)},
        {"mon": "mon_c04", "cfg": "plain", "cases": _q(60, 1200), "args": ["--mode", "deep"], "seed_off": 9000011},
        {"mon": "mon_c04", "cfg": "cov", "cases": _q(0, 16384), "seed_off": 4000037, "shards": 2,
         "env": {"GCOV_PREFIX": _GCDA}},
    ],
    "post": _post,
}
