"""C04 registry entry (see DESIGN.md section 3, C04)."""
from ._util import q as _q

ID = "C04"

# The unchanged tree mis-nests a few polygons per 10^4 degenerate rectilinear scenes (class tags
# attached_too_high@rect..., see findings/c04_*.txt) and overflows the stack in CheckSplitOwner on a few per 10^5.
# Those classes are narrow in *what* goes wrong but not in *why*: a regression in ProcessHorzJoins' ownership
# branches, CheckSplitOwner or MoveSplits shows up as more members of the same classes (seeded edits: 228..1235 per
# quick run against 3..12). So that listing the classes as known findings cannot hide such a regression, the rate of
# each class is compared with a limit several times the pinned rate (exact counts go to the evidence).
_RATE_LIMITS = [
    # (claim of the tripwire, tag prefix counted, limit per rectilinear scene, minimum limit)
    ("C04.rect_misnesting_rate", "attached_too_high@rect", 1.2e-3, 40),      # pinned rate ~5e-4 (3..12 per 15360)
    ("C04.rect_crash_rate", "stack_overflow@rect", 2.0e-4, 10),             # pinned rate ~3e-5 (0..2 per 15360)
]


def _post(ctx):
    rect = ctx["counters"].get("scenes_rect", 0)
    for claim, prefix, per_scene, floor in _RATE_LIMITS:
        n, example = 0, ""
        for w in ctx["workers"]:
            for r in w.records():
                if r.get("t") == "violation" and any(t.startswith(prefix) for t in r.get("tags", [])):
                    n += 1
                    example = example or r.get("witness", "")
        limit = max(floor, int(per_scene * rect))
        ctx["counters"]["violations_of_class_" + prefix] = n
        ctx["counters"]["limit_for_class_" + prefix] = limit
        if n > limit:
            ctx["report"](claim, ["rate_above_pinned_baseline"], example,
                          "%d violations of class %s* in %d rectilinear scenes; the pinned tree produces about a third of the limit %d: "
                          "a change made this class of defect several times more frequent" % (n, prefix, rect, limit))


PROP = {
    "level": "exploration",
    "level_text": ("Exploration: every run executes two Clipper64 objects (one into Paths64, one into PolyTree64) on tens of "
                   "thousands (quick) to over a million (thorough) generated scenes - general-position scenes biased to nesting "
                   "(concentric rings to depth 8, holes with islands, many holes per outer, holes merged or cut by crossing "
                   "polygons) and degenerate rectilinear scenes on lattices scaled by >= 2 (rings assembled from abutting bars, "
                   "slabs with touching holes, random walks) - under all clip types, fill rules, ReverseSolution and "
                   "PreserveCollinear, and on a third of them also two ClipperD objects (precision 0..3) plus a Clipper64 on the "
                   "scaled input. Each tree is compared with the paths solution (canonical equality, open paths, area) and "
                   "every vertex and edge midpoint of every node is located exactly (128-bit winding) against its parent and "
                   "all its siblings; IsHole/Level/Parent are compared with depth and exact orientation. The property "
                   "quantifies over all inputs, so this is sampling evidence, not proof."),
    "level_note": ("trusted base: __int128 orientation/winding point location and shoelace sign, the general-position filter, "
                   "the lattice-gap premise filter, g++; only vertices and edge midpoints of tree polygons are located "
                   "(midpoints only for |coord| <= 2^59); PolyTreeD is only observed where coordinate*scale is exact in double "
                   "(|coord| <= 2^42)"),
    "technique": "runtime monitoring: differential tree-vs-paths execution plus exact point-location nesting oracle over generated executions",
    "rule": ("case i: configuration i mod 64 (4 clip types x 4 fill rules x ReverseSolution x PreserveCollinear); generator class "
             "(i/64) mod 8: gp_scene rings (2/8), gp_scene any class (1/8), recursive holes-and-islands with cutters (2/8) - all "
             "through the exact general-position filter, magnitudes 2^7..2^61 - and rectilinear_scene (1/8), slab-with-holes / "
             "frames (1/8), rings-from-bars (1/8) on lattices scaled by 2, 7, 1000, 2^20, 2^40, 2^58 (premise checked exactly: "
             "axis-parallel edges, distinct coordinates >= 2 apart); open subjects on ~25 %; PolyTreeD when i mod 3 == 0. "
             "A case is non-trivial iff the PolyTree64 has depth >= 2 (some polygon has a hole); distinct by hash of "
             "inputs+configuration"),
    "assumptions": ["exact __int128 point location / shoelace in harness/mon_c04.cpp and harness/common/geom.h is correct",
                    "GP inputs outside general position (filter: 3.001+M*2^-50 separation) and rectilinear inputs off a lattice of pitch >= 2 are not explored"],
    "floor": _q(6000, 150000),
    "must_count": _q(["points_located", "midpoints_located", "area_comparisons", "treeD_compared_node_for_node",
                      "scenes_nontrivial_gp", "scenes_nontrivial_rect", "open_solution_paths"],
                     ["points_located", "midpoints_located", "area_comparisons", "treeD_compared_node_for_node",
                      "scenes_nontrivial_gp", "scenes_nontrivial_rect", "open_solution_paths"]),
    "jobs": [
        {"mon": "mon_c04", "cfg": "plain", "cases": _q(40960, 1228800)},
    ],
    "post": _post,
}
