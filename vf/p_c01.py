"""C01 registry entry (see DESIGN.md section 3, C01)."""
from ._util import q as _q
from . import cov as _cov


def _post(ctx):
    _cov.summary(ctx, "mon_c01")

ID = "C01"
PROP = {
    "level": "exploration",
    "level_text": ("Exploration: every run executes Clipper64 on tens of thousands (quick) to millions (thorough) of generated "
                   "general-position scenes under all 64 option combinations and two/three builds, and judges each solution at "
                   "~50 margin-filtered points per scene against an exact winding-number oracle that shares no code with the engine. "
                   "Exhaustive only over the lattice points of small scenes; the property quantifies over all inputs, so this is "
                   "sampling evidence, not proof."),
    "level_note": "trusted base: __int128 orientation/winding oracle, the general-position filter, g++; errors inside the tolerance band and inputs outside general position are not observable",
    "technique": "runtime monitoring: exact winding-number reference oracle over generated executions (plain, HI_PRECISION, portable builds)",
    "rule": ("scenes from gp_scene (7 shape classes x 9 magnitude classes 2^5..2^61, exact general-position filter), "
             "cycled over 4 clip types x 4 fill rules x PreserveCollinear x ReverseSolution, builds plain+hp(+portable); "
             "six loading routes (direct in two orders, path by path in reverse, one / two ReuseableDataContainer64 objects, container after direct adds); "
             "a case is non-trivial iff the inputs' edges properly cross at least once, at least 20 sample points cleared "
             "the tol+1 margin and were judged, and the scene is not vacuous (tolerance < feature/200); distinct by hash "
             "of inputs+configuration"),
    "assumptions": ["exact __int128 orientation/winding oracle in harness/common/geom.h is correct",
                    "inputs outside general position (filter: 3.001+M*2^-50 separation) are not explored"],
    "floor": _q(5000, 100000),
    "must_count": _q(["points_judged", "boundary_points_checked", "deep_points_judged"], ["points_judged", "boundary_points_checked", "deep_points_judged"]),
    "post": _post,
    "jobs": [
        {"mon": "mon_c01", "cfg": "plain", "cases": _q(40000, 1600000)},
        {"mon": "mon_c01", "cfg": "hp", "cases": _q(20000, 800000), "seed_off": 1000003},
        {"mon": "mon_c01", "cfg": "portable", "cases": _q(0, 400000), "seed_off": 2000003},
        {"mon": "mon_c01", "cfg": "plain", "cases": _q(7 * 128, 7 * 128), "args": ["--mode", "deep"], "seed_off": 5},
        {"mon": "mon_c01", "cfg": "plain", "cases": _q(0, 27), "shards": 16, "args": ["--mode", "deep", "--deep_thorough", "1", "--case_timeout", "1500"], "seed_off": 6},
        {"mon": "mon_c01", "cfg": "cov", "cases": _q(0, 30000), "seed_off": 3000003, "shards": 4, "env": _cov.env_for("mon_c01")},
    ],
}
