"""C20 registry entry (see DESIGN.md section 3, C20)."""
from ._util import q as _q

ID = "C20"
PROP = {
    "level": "exploration",
    "level_text": ("Exploration with an exhaustive small scope: every path of 0..4 (quick) / 0..5 (thorough) points over the 16 "
                   "points of a 4x4 lattice is run, as closed and as open path and with epsilon in {0, 0.5, 1.5}, through "
                   "TrimCollinear, SimplifyPath, RamerDouglasPeucker, StripDuplicates, StripNearEqual, TranslatePath, Length "
                   "and GetBounds (Path64 and PathD variants), and every result is judged by exact (__int128) contract "
                   "checkers that share no code with the library; plus hundreds of thousands (quick) to millions (thorough) "
                   "of random paths up to 40 points (tiny lattices with collinear runs, repeats and spikes, the same at "
                   "magnitude 2^40, long thin strips) with epsilon in {0, 0.5, 1, 2.5, 10}, and random Ellipse calls. "
                   "Exhaustive only inside that lattice scope; the property quantifies over all paths and all epsilon, so "
                   "outside it this is sampling evidence, not proof."),
    "level_note": ("trusted base: __int128 cross products / areas / squared distances in harness/common/geom.h and "
                   "harness/c20_oracle.h, long double only for Length, Ellipse and for distance comparisons outside the exact "
                   "regime (there a margin covering the library's double rounding is applied and skipped vertices are "
                   "counted); PathD inputs are the integer paths scaled by exact powers of two (TrimCollinear: by 10^-precision "
                   "grids), arbitrary fractional PathD inputs are not explored"),
    "technique": "runtime monitoring: per-utility contract checkers (exact integer reference) over an exhaustive small scope and generated paths",
    "rule": ("job exh: case i is the i-th path of the enumeration of all point sequences of length 0,1,2,.. over the 4x4 lattice "
             "(69 905 = lengths 0..4, 1 118 481 = lengths 0..5); job rnd: 7 generator classes (tiny G x G lattices G in "
             "{2,3,4,5,8,16}, translated by up to 2^40, scaled to 2^40, random affine lattices at 2^40, long thin strips) x "
             "lengths 0..40, every 8th case an Ellipse call set; each path case bundles ~50-80 utility calls (closed and open, "
             "all epsilons, Path64 and PathD). A path case is non-trivial iff the path has at least three points that are not "
             "all equal; an Ellipse case iff both radii are >= 4 (the 1-unit tolerance is not vacuous); distinct by hash of "
             "path + parameters"),
    "assumptions": ["exact __int128 geometry in harness/common/geom.h and harness/c20_oracle.h is correct",
                    "'no repeated points' in the TrimCollinear corner claim is read as 'no two consecutive (cyclically) equal vertices'",
                    "the line through two coinciding neighbours is undefined: such vertices are counted and not judged",
                    "Ellipse: vertex i is compared with centre + radii*(cos, sin)(2 pi i / n) within 1 unit"],
    "floor": _q(150000, 3000000),
    "must_count": _q(["trim_area_checked", "trim_premise_holds_closed", "trim_premise_holds_open", "trim_removed_something_under_premise",
                      "simplify_vertices_judged", "simplify_removed_something", "rdp_removed_vertices_judged",
                      "strip_near_equal_judged", "strip_duplicates_removed_something", "ellipse_points_judged", "calls_GetBounds"],
                     ["trim_area_checked", "trim_premise_holds_closed", "trim_premise_holds_open", "trim_removed_something_under_premise",
                      "simplify_vertices_judged", "simplify_removed_something", "rdp_removed_vertices_judged",
                      "strip_near_equal_judged", "strip_duplicates_removed_something", "ellipse_points_judged", "calls_GetBounds"]),
    "exhaustive": True,
    "exhaustive_note": ("exhaustive only for job exh: all paths of 0..4 (quick) / 0..5 (thorough) points over the 4x4 lattice, closed and "
                        "open, epsilon in {0, 0.5, 1.5}; everything else is sampled"),
    "jobs": [
        {"mon": "mon_c20", "cfg": "plain", "cases": _q(69905, 1118481), "args": ["--mode", "exh"]},
        {"mon": "mon_c20", "cfg": "plain", "cases": _q(200000, 4000000), "args": ["--mode", "rnd"], "seed_off": 7},
    ],
}
