"""C10 registry entry (DESIGN.md section 3, C10)."""
from ._util import q as _q
from . import cov as _cov


def _post(ctx):
    _cov.summary(ctx, "mon_c10")

ID = "C10"
_BIG = ["--maxexp_bool", "62", "--maxexp_other", "40"]
_SMALL = ["--maxexp_bool", "29", "--maxexp_other", "29"]
PROP = {
    "level": "fault_enumeration",
    "level_text": ("Fault enumeration + exploration: (1) every public entry point (19 families: Clipper64/ClipperD paths and tree, "
                   "helpers, ClipperOffset incl. callback, InflatePaths, RectClip/RectClipLines, Minkowski, all path utilities, the 14 "
                   "extern-C functions and converters, ReuseableDataContainer64) is driven with the degenerate zoo at magnitudes up to "
                   "2^62 (boolean) / 2^40 (other) under ASan+UBSan+LSan (signed-overflow checking for |coord|<=2^29), the two engine "
                   "hooks, a per-call leak check, a heap ceiling and a time watchdog; (2) for every generated input of every family a "
                   "std::bad_alloc is injected at each single allocation point (all k<=400, strided beyond) and the objects are "
                   "destroyed under ASan. Enumeration is complete per input (up to the stride), sampling over inputs."),
    "level_note": "trusted base: gcc ASan/UBSan/LSan runtimes, the harness' counting operator new; red-zone tools miss non-adjacent/intra-object overflows; paths the zoo never drives are not observed",
    "technique": "runtime monitoring: ASan+UBSan+LSan hostile workload, coverage-guided libFuzzer+ASan+UBSan over the same entry points, guarded invariant hooks, per-call leak/heap/time watchdogs, every-k allocation-failure injection, valgrind memcheck (thorough)",
    "rule": ("case i drives family i mod 19 with zoo inputs (empty/1/2-point/duplicate/collinear/spike/closing-vertex/lattice paths, "
             "extreme coordinates), random parameters from each value class; every case is non-trivial (it executes library code); "
             "oom mode: a case is non-trivial iff the operation allocates at least once; distinct by hash of inputs+parameters"),
    "assumptions": ["libFuzzer job: clang 14 -fsanitize=fuzzer,address,undefined; inputs are decoded into the same Case/run_op as the hostile mode, bounded by -runs (not time); its executions are counted in evaluations but not in distinct_nontrivial",
                    "ASan/UBSan/LSan detect the memory errors, UB kinds and leaks they are documented to detect",
                    "iostream operators are excluded from allocation-failure injection (libstdc++ turns bad_alloc into badbit)"],
    "floor": _q(20000, 400000),
    "must_count": _q(["oom_injections_fired", "cases_with_empty_or_short_paths"], ["oom_injections_fired", "cases_with_empty_or_short_paths"]),
    "post": _post,
    "jobs": [
        {"mon": "mon_c10", "cfg": "asan", "cases": _q(40000, 1200000), "args": ["--mode", "hostile"] + _SMALL},
        {"mon": "mon_c10", "cfg": "asan_big", "cases": _q(40000, 1200000), "args": ["--mode", "hostile"] + _BIG, "seed_off": 11},
        {"mon": "mon_c10", "cfg": "asan_z", "cases": _q(20000, 600000), "args": ["--mode", "hostile"] + _SMALL, "seed_off": 22},
        # boolean operations (mostly into a PolyTree) on degenerate rectilinear lattice scenes: microseconds each
        {"mon": "mon_c10", "cfg": "asan", "cases": _q(400000, 8000000), "args": ["--mode", "lattice"] + _SMALL, "seed_off": 66},
        {"mon": "mon_c10", "cfg": "asan_bigz", "cases": _q(10000, 300000), "args": ["--mode", "hostile"] + _BIG, "seed_off": 33},
        {"mon": "mon_c10", "cfg": "asan_big", "cases": _q(2500, 60000), "args": ["--mode", "oom"] + _BIG, "seed_off": 44,
         "env": {"ASAN_OPTIONS": "detect_leaks=0"}},
        {"mon": "mon_c10", "cfg": "asan_z", "cases": _q(800, 20000), "args": ["--mode", "oom"] + _SMALL, "seed_off": 55,
         "env": {"ASAN_OPTIONS": "detect_leaks=0"}},
        {"mon": "mon_c10", "cfg": "cov", "cases": _q(0, 40000), "args": ["--mode", "hostile"] + _BIG, "seed_off": 88, "shards": 4,
         "env": _cov.env_for("mon_c10")},
        {"mon": "fuzz_c10", "cfg": "fuzz", "cases": _q(160000, 4000000), "seed_off": 77},
        {"mon": "mon_c10", "cfg": "valgrind", "cases": _q(1600, 80000), "args": ["--mode", "hostile", "--time_limit", "900", "--maxexp_bool", "62", "--maxexp_other", "40"],
         "seed_off": 66, "prefix": ["valgrind", "-q", "--error-exitcode=99", "--track-origins=no", "--leak-check=no"]},
    ],
}
