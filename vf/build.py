"""Build matrix + content-hash cache (DESIGN.md 2.2).

Every configuration is compiled directly with g++ from /repo's *working tree*; the cache key covers
every file under CPP/Clipper2Lib, the flag string and (for monitors) the harness sources, so an edited
library file always forces a rebuild.
"""
import fcntl
import hashlib
import os
import shutil
import subprocess
import sys
import time
from concurrent.futures import ThreadPoolExecutor
from ._util import spread_preexec

VERIF = os.path.dirname(os.path.dirname(os.path.abspath(__file__)))
REPO = os.environ.get("VERIF_REPO", "/repo")
LIBDIR = os.path.join(REPO, "CPP", "Clipper2Lib")
INC = os.path.join(LIBDIR, "include")
SRC = os.path.join(LIBDIR, "src")
HARNESS = os.path.join(VERIF, "harness")
BUILD = os.environ.get("VERIF_BUILD", os.path.join(VERIF, "build"))
GUARD = "CLIPPER2_VERIF"

COMMON = ["-std=c++17", "-g", "-fno-omit-frame-pointer", "-D" + GUARD, "-pthread"]
SAN = ["-O1", "-fsanitize=address,undefined", "-fsanitize=float-cast-overflow", "-fno-sanitize-recover=all"]

CFGS = {
    "plain":    ["-O2"],
    "hp":       ["-O2", "-DCLIPPER2_HI_PRECISION=1"],
    "z":        ["-O2", "-DUSINGZ"],
    "asan":     SAN,
    "asan_big": SAN + ["-fno-sanitize=signed-integer-overflow"],
    "asan_z":   SAN + ["-DUSINGZ"],
    "asan_bigz": SAN + ["-fno-sanitize=signed-integer-overflow", "-DUSINGZ"],
    "asan_fc":  SAN + ["-fno-sanitize=signed-integer-overflow"],
    "tsan":     ["-O1", "-fsanitize=thread"],
    "noexc":    ["-O2", "-fno-exceptions"],
    "portable": ["-O2", "-include", os.path.join(HARNESS, "prelude_portable.h")],
    "portable_asan": SAN + ["-fno-sanitize=signed-integer-overflow", "-include", os.path.join(HARNESS, "prelude_portable.h")],
    "cov":      ["-O0", "--coverage"],
    "valgrind": ["-O1"],
}

LIB_TUS = ["clipper.engine.cpp", "clipper.offset.cpp", "clipper.rectclip.cpp"]


class BuildError(Exception):
    pass


def _sha(paths, extra=""):
    h = hashlib.sha256()
    h.update(extra.encode())
    for p in sorted(paths):
        h.update(p.encode())
        try:
            with open(p, "rb") as f:
                h.update(f.read())
        except OSError:
            h.update(b"<missing>")
    return h.hexdigest()


def _walk(d):
    out = []
    for root, _, files in os.walk(d):
        for f in files:
            out.append(os.path.join(root, f))
    return out


def lib_key(cfg):
    return _sha(_walk(LIBDIR), " ".join(CFGS[cfg]) + " " + " ".join(COMMON))[:20]


def _run(cmd, log):
    p = subprocess.run(cmd, stdout=subprocess.PIPE, stderr=subprocess.STDOUT, text=True, preexec_fn=spread_preexec())
    if p.returncode != 0:
        raise BuildError("command failed: %s\n%s" % (" ".join(cmd), p.stdout[-6000:]))
    return p.stdout


def _deps(msrc, flags):
    """harness files a monitor source depends on (g++ -MM), so that editing one monitor or one helper header
    rebuilds only the monitors that include it"""
    cmd = ["g++"] + [f for f in flags if not f.startswith("-fsanitize") and f != "--coverage"] + \
          ["-I", INC, "-I", os.path.join(HARNESS, "common"), "-MM", msrc]
    p = subprocess.run(cmd, stdout=subprocess.PIPE, stderr=subprocess.PIPE, text=True, preexec_fn=spread_preexec())
    if p.returncode != 0:
        raise BuildError("dependency scan failed: %s\n%s" % (" ".join(cmd), p.stderr[-4000:]))
    toks = p.stdout.replace("\\\n", " ").split()
    out = [t for t in toks[1:] if os.path.abspath(t).startswith(HARNESS)]
    out.append(os.path.join(HARNESS, "prelude_portable.h"))
    return sorted(set(os.path.abspath(t) for t in out))


def _prune(cfgdir, keep):
    try:
        ents = [os.path.join(cfgdir, e) for e in os.listdir(cfgdir) if os.path.isdir(os.path.join(cfgdir, e))]
    except OSError:
        return
    ents = [e for e in ents if os.path.basename(e) != keep]
    ents.sort(key=lambda e: os.path.getmtime(e), reverse=True)
    for e in ents[1:]:  # keep the current one and the most recent other one
        shutil.rmtree(e, ignore_errors=True)


def build(cfg, mon, extra_flags=None):
    """Return path of the monitor executable `mon` (harness/<mon>.cpp) built in configuration cfg."""
    flags = CFGS[cfg] + COMMON
    key = lib_key(cfg)
    cfgdir = os.path.join(BUILD, cfg)
    d = os.path.join(cfgdir, key)
    os.makedirs(d, exist_ok=True)
    lockf = open(os.path.join(cfgdir, ".lock"), "w")
    fcntl.flock(lockf, fcntl.LOCK_EX)
    try:
        objs = []
        jobs = []
        for tu in LIB_TUS:
            o = os.path.join(d, tu.replace(".cpp", ".o"))
            objs.append(o)
            if not os.path.exists(o):
                jobs.append(["g++"] + flags + ["-I", INC, "-c", os.path.join(SRC, tu), "-o", o + ".tmp"])
        if jobs:
            with ThreadPoolExecutor(len(jobs)) as ex:
                list(ex.map(lambda c: _run(c, None), jobs))
            for c in jobs:
                os.replace(c[-1], c[-1][:-4])
        os.utime(d, None)
        _prune(cfgdir, key)
    finally:
        fcntl.flock(lockf, fcntl.LOCK_UN)
        lockf.close()
    msrc = os.path.join(HARNESS, mon + ".cpp")
    mflags = list(extra_flags or [])
    hfiles = _deps(msrc, flags + mflags)
    mkey = _sha(hfiles, key + " ".join(mflags))[:16]
    exe = os.path.join(d, "%s-%s" % (mon, mkey))
    if os.path.exists(exe):
        return exe
    lockm = open(os.path.join(d, ".lock-" + mon), "w")
    fcntl.flock(lockm, fcntl.LOCK_EX)
    try:
        if not os.path.exists(exe):
            for old in os.listdir(d):
                if old.startswith(mon + "-"):
                    try:
                        os.remove(os.path.join(d, old))
                    except OSError:
                        pass
            tmp = "%s.tmp%d" % (exe, os.getpid())
            cmd = (["g++"] + flags + mflags + ["-I", INC, "-I", os.path.join(HARNESS, "common"),
                    '-DVF_MON_NAME="%s"' % mon, '-DVF_CFG_NAME="%s"' % cfg,
                    msrc] + objs + ["-o", tmp, "-ldl"])
            _run(cmd, None)
            os.replace(tmp, exe)
        return exe
    finally:
        fcntl.flock(lockm, fcntl.LOCK_UN)
        lockm.close()


def build_fuzzer(name):
    """clang libFuzzer + ASan + UBSan build of harness/<name>.cpp together with the library sources"""
    flags = ["-std=c++17", "-O1", "-g", "-fno-omit-frame-pointer", "-fsanitize=fuzzer,address,undefined",
             "-fno-sanitize-recover=all", "-fno-sanitize=signed-integer-overflow,object-size", "-D" + GUARD]
    src = os.path.join(HARNESS, name + ".cpp")
    key = _sha(_walk(LIBDIR) + _deps(src, ["-std=c++17", "-D" + GUARD]), " ".join(flags))[:20]
    d = os.path.join(BUILD, "fuzz", key)
    os.makedirs(d, exist_ok=True)
    exe = os.path.join(d, name)
    lockf = open(os.path.join(BUILD, "fuzz", ".lock"), "w")
    fcntl.flock(lockf, fcntl.LOCK_EX)
    try:
        if not os.path.exists(exe):
            cmd = (["clang++"] + flags + ["-I", INC, "-I", os.path.join(HARNESS, "common"), "-I", HARNESS,
                   '-DVF_MON_NAME="%s"' % name, src] + [os.path.join(SRC, t) for t in LIB_TUS] + ["-o", exe + ".tmp"])
            _run(cmd, None)
            os.replace(exe + ".tmp", exe)
        os.utime(d, None)
        _prune(os.path.join(BUILD, "fuzz"), key)
        return exe
    finally:
        fcntl.flock(lockf, fcntl.LOCK_UN)
        lockf.close()


def build_many(pairs):
    """pairs: iterable of (cfg, mon[, extra_flags]) -> dict {(cfg, mon): exe}. Builds in parallel."""
    pairs = list(dict.fromkeys(tuple(p) if len(p) == 2 else (p[0], p[1], tuple(p[2])) for p in pairs))
    out = {}
    with ThreadPoolExecutor(max(1, min(16, len(pairs)))) as ex:
        futs = {p: (ex.submit(build_fuzzer, p[1]) if p[0] == "fuzz" else ex.submit(build, p[0], p[1], list(p[2]) if len(p) > 2 else None))
                for p in pairs}
        for p, f in futs.items():
            out[(p[0], p[1])] = f.result()
    return out


if __name__ == "__main__":
    t = time.time()
    print(build(sys.argv[1], sys.argv[2]))
    print("%.1fs" % (time.time() - t))
