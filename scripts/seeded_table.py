#!/usr/bin/env python3
"""prints the markdown table of seeded changes (seeded/*/meta.json) for DESIGN.md"""
import glob, json, os, re
rows = []
for d in sorted(glob.glob('/verif/seeded/c*_*')) + sorted(glob.glob('/verif/seeded/r2_*')):
    try:
        m = json.load(open(os.path.join(d, 'meta.json')))
    except Exception as e:
        continue
    notes = ''
    try:
        notes = open(os.path.join(d, 'notes.txt')).read()
    except OSError:
        pass
    first = ' '.join(notes.split('\n')[0:2])[:170].replace('|', '/')
    caught = []
    missed = []
    for p, r in (m.get('checks_run') or m.get('quick_checks') or {}).items():
        (caught if r.get('exit') == 1 else missed).append(p)
    claim = ''
    for p, r in (m.get('checks_run') or m.get('quick_checks') or {}).items():
        mm = re.search(r'claim=(\S+)', r.get('first', ''))
        if mm and r.get('exit') == 1:
            claim = mm.group(1)
            break
    tier = m.get('tier', 'quick')
    rows.append('| %s | %s | %s | %s | %s | %s |' % (os.path.basename(d), m.get('breaks_property'), first, (', '.join(caught) + (' (' + tier + ')' if tier != 'quick' else '')) or '-', claim, (', '.join(missed) or '-') + ((' — ' + m['note']) if m.get('note') else '')))
print('| seeded change | property | what (from the author\'s notes) | quick checks that fire | first claim | quick checks run that stay silent |')
print('|---|---|---|---|---|---|')
print('\n'.join(rows))
