#!/bin/sh
# Builds /repo with the hook guard OFF in a fresh directory outside /repo and /verif and runs the repository's
# own test suite; prints the ctest summary. Exit 0 iff every test passes.
set -e
D=$(mktemp -d /tmp/vf_baseline.XXXXXX)
trap 'rm -rf "$D"' EXIT
cmake -G Ninja -S /repo/CPP -B "$D" -DCMAKE_BUILD_TYPE=RelWithDebInfo -DCLIPPER2_TESTS=ON -DCLIPPER2_EXAMPLES=OFF -DCLIPPER2_UTILS=ON \
  -DUSE_EXTERNAL_GTEST=ON -DCLIPPER2_USINGZ=ON >"$D/configure.log" 2>&1 || { cat "$D/configure.log"; exit 2; }
cmake --build "$D" -j16 >"$D/build.log" 2>&1 || { tail -50 "$D/build.log"; exit 2; }
ctest --test-dir "$D" -j8 --timeout 900 2>&1 | tail -15
