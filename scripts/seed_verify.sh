#!/bin/bash
# seed_verify.sh <seed-dir> <n> <PROP> [<PROP2> ...]
# Confirms a seeded change independently (scratch worktree of /repo HEAD, removed afterwards):
#   1. the patch applies and the library still compiles warning-free;
#   2. the demonstration exits 1 with the change and 0 without it;
#   3. the repository's test suite passes with the change;
#   4. runs ./check <PROP> --tier quick against the changed tree and records whether it fires.
# Keeps the change as /verif/seeded/<PROP>_<name><n>/ {patch.diff, demo.cpp, notes.txt, meta.json}.
set -u
SD=$1; N=$2; shift 2; PROPS="$*"
NAME=$(basename "$SD")
WT=/tmp/sv-$NAME-$N
OUT=/verif/seeded/${NAME#seed-}_$N
mkdir -p "$OUT"
git -C /repo worktree remove --force "$WT" >/dev/null 2>&1
git -C /repo worktree add -f "$WT" HEAD -q || exit 2
trap 'git -C /repo worktree remove --force "$WT" >/dev/null 2>&1; rm -rf "$WT-build" "$WT-tests" "$WT-demo"' EXIT
if ! git -C "$WT" apply "$SD/out/patch$N.diff"; then echo "PATCH DOES NOT APPLY"; exit 2; fi
cp "$SD/out/patch$N.diff" "$OUT/patch.diff"; cp "$SD/out/demo$N.cpp" "$OUT/demo.cpp"; cp "$SD/out/notes$N.txt" "$OUT/notes.txt" 2>/dev/null
# demo compile flags from the comment in the demo
LINE=$(grep -m1 "g++ -std=c++17" "$SD/out/demo$N.cpp")
SAN=""; case "$LINE" in *-fsanitize=thread*) SAN="-fsanitize=thread";; *-fsanitize=address*) SAN="-fsanitize=address,undefined";; esac
EXTRA=""; case "$LINE" in *-DUSINGZ*) EXTRA="-DUSINGZ";; esac
mkdir -p "$WT-demo"
build_demo() { # $1 = tree, $2 = out
  g++ -std=c++17 -O1 -g $SAN $EXTRA -I"$1/CPP/Clipper2Lib/include" "$SD/out/demo$N.cpp" "$1"/CPP/Clipper2Lib/src/*.cpp -o "$2" -pthread 2>"$2.err"
}
build_demo "$WT" "$WT-demo/with" || { echo "demo does not compile with the change"; cat "$WT-demo/with.err" | head; exit 2; }
build_demo /repo "$WT-demo/without" || { echo "demo does not compile without the change"; exit 2; }
export ASAN_OPTIONS=detect_leaks=0 TSAN_OPTIONS=exitcode=1
DEMO_WITH=0; for k in 1 2 3; do timeout 300 "$WT-demo/with" >"$WT-demo/with.out" 2>&1; rc=$?; [ $rc -ne 0 ] && DEMO_WITH=$rc && break; done
timeout 300 "$WT-demo/without" >"$WT-demo/without.out" 2>&1; DEMO_WITHOUT=$?
unset ASAN_OPTIONS TSAN_OPTIONS
echo "demo: with change rc=$DEMO_WITH, without rc=$DEMO_WITHOUT"
# warning-free compile + test suite
TESTS=unknown
if cmake -G Ninja -S "$WT/CPP" -B "$WT-tests" -DCMAKE_BUILD_TYPE=RelWithDebInfo -DCLIPPER2_TESTS=ON -DCLIPPER2_EXAMPLES=OFF -DUSE_EXTERNAL_GTEST=ON >/dev/null 2>&1 \
   && cmake --build "$WT-tests" -j8 >"$WT-demo/build.log" 2>&1; then
  TESTS=$(ctest --test-dir "$WT-tests" -j8 2>&1 | grep "tests passed" | head -1)
else TESTS="BUILD FAILED: $(tail -3 "$WT-demo/build.log" | tr '\n' ' ')"; fi
echo "tests: $TESTS"
# the checks
RES="{"
for P in $PROPS; do
  ( cd /verif && VERIF_REPO="$WT" VERIF_BUILD="$WT-build" VERIF_TMP=/tmp timeout 6000 ./check $P --tier ${TIER:-quick} >"$WT-demo/check_$P.out" 2>&1; echo $? >"$WT-demo/check_$P.rc" )
  RC=$(cat "$WT-demo/check_$P.rc")
  NV=$(grep -c "^VIOLATION" "$WT-demo/check_$P.out")
  FIRST=$(grep -m1 "^VIOLATION" "$WT-demo/check_$P.out" | cut -c1-400 | sed 's/"/\\"/g')
  echo "check $P: rc=$RC violations_printed=$NV :: $(echo "$FIRST" | cut -c1-260)"
  tail -2 "$WT-demo/check_$P.out" | cut -c1-300
  RES="$RES\"$P\": {\"exit\": $RC, \"violation_lines\": $NV, \"first\": \"$FIRST\"},"
  cp "$WT-demo/check_$P.out" "$OUT/check_$P.out"
done
RES="${RES%,}}"
cat >"$OUT/meta.json" <<EOF
{
 "origin": "written by a sub-agent that saw only the property text and a scratch worktree",
 "breaks_property": "$(echo $PROPS | cut -d' ' -f1)",
 "demo_exit_with_change": $DEMO_WITH,
 "demo_exit_without_change": $DEMO_WITHOUT,
 "demo_flags": "$SAN $EXTRA",
 "repo_tests_with_change": "$TESTS",
 "repo_head": "$(git -C /repo log --format=%h -1)",
 "checks_run": $RES,
 "tier": "${TIER:-quick}",
 "needs_to_manifest": "see notes.txt",
 "ran": "scripts/seed_verify.sh $SD $N $PROPS"
}
EOF
# restore the evidence the check overwrote
( cd /verif && git checkout -- evidence 2>/dev/null )
