#!/bin/bash
# soak.sh <tier> <seed>...   runs every claimed check for each seed on the unchanged tree; prints one line per run
TIER=$1; shift
cd /verif
for S in "$@"; do
  for P in $(grep -v '^#' vf/ready.txt | sort -u); do
    OUT=$(VERIF_SEED=$S ./check $P --tier $TIER 2>&1); RC=$?
    echo "seed=$S $P rc=$RC $(echo "$OUT" | grep -c '^VIOLATION') viol :: $(echo "$OUT" | tail -1 | cut -c1-160)"
    if [ $RC -ne 0 ]; then echo "$OUT" | grep -E "^VIOLATION|^INCONCLUSIVE" | head -5 | cut -c1-400; fi
  done
done
git checkout -- evidence 2>/dev/null
