// mon_c17 — C17: the C export layer marshals faithfully and forwards every parameter.
//  (a) round trips Paths <-> flat arrays (64, D, 64->D scaled) and polytree -> flat array read by an independent
//      reader; first element == number of elements written; arrays handed to the library are heap blocks of exactly
//      the stated length, so an over-read is an ASan report
//  (b) each of the 14 exported functions == the corresponding C++ call with the same argument values (exact)
#include "gen.h"
#include <array>
#include "clipper2/clipper.h"
#include "clipper2/clipper.export.h"

using namespace vf;
using namespace Clipper2Lib;

#ifdef USINGZ
static const int DIM = 3;
#else
static const int DIM = 2;
#endif

// ---- independent reader of the flat layouts ------------------------------------------------------------------
template <class T> struct Flat {            // decoded CPaths
  std::vector<std::vector<std::array<T, 3>>> paths; long long A = -1, C = -1, end = -1; bool ok = true;
};
template <class T> static Flat<T> read_cpaths(const T* a) {
  Flat<T> f; if (!a) { f.A = 0; f.C = 0; f.end = 0; return f; }
  f.A = (long long)a[0]; f.C = (long long)a[1]; long long i = 2;
  for (long long p = 0; p < f.C; ++p) {
    long long n = (long long)a[i]; if (a[i + 1] != 0) f.ok = false; i += 2;
    std::vector<std::array<T, 3>> path;
    for (long long k = 0; k < n; ++k) { std::array<T, 3> v{ a[i], a[i + 1], DIM == 3 ? a[i + 2] : T(0) }; path.push_back(v); i += DIM; }
    f.paths.push_back(std::move(path));
  }
  f.end = i; return f;
}
struct TNode { std::vector<std::array<double, 3>> poly; std::vector<std::array<int64_t, 3>> poly64; std::vector<TNode> kids; };
template <class T> static void read_node(const T* a, long long& i, TNode& n) {
  long long N = (long long)a[i], C = (long long)a[i + 1]; i += 2;
  for (long long k = 0; k < N; ++k) {
    if constexpr (std::is_same<T, int64_t>::value) n.poly64.push_back({ a[i], a[i + 1], DIM == 3 ? a[i + 2] : 0 });
    else n.poly.push_back({ a[i], a[i + 1], DIM == 3 ? a[i + 2] : 0.0 });
    i += DIM;
  }
  n.kids.resize((size_t)C);
  for (long long k = 0; k < C; ++k) read_node(a, i, n.kids[(size_t)k]);
}
template <class T> static bool read_tree(const T* a, TNode& root, long long& A, long long& end) {
  root = TNode(); if (!a) { A = 0; end = 0; return true; }
  A = (long long)a[0]; long long C = (long long)a[1]; long long i = 2;
  root.kids.resize((size_t)C);
  for (long long k = 0; k < C; ++k) read_node(a, i, root.kids[(size_t)k]);
  end = i; return true;
}
static int64_t zbits(double d) { int64_t z; memcpy(&z, &d, 8); return z; }
#ifdef USINGZ
#define ZOF(pt) ((pt).z)
#else
#define ZOF(pt) ((int64_t)0)
#endif
static bool same_node64(const TNode& n, const PolyPath64& p) {
  if (n.kids.size() != p.Count() || n.poly64.size() != p.Polygon().size()) return false;
  for (size_t i = 0; i < n.poly64.size(); ++i) { const Point64& q = p.Polygon()[i]; if (n.poly64[i][0] != q.x || n.poly64[i][1] != q.y || (DIM == 3 && n.poly64[i][2] != ZOF(q))) return false; }
  for (size_t i = 0; i < n.kids.size(); ++i) if (!same_node64(n.kids[i], *p.Child(i))) return false;
  return true;
}
static bool same_nodeD(const TNode& n, const PolyPathD& p) {
  if (n.kids.size() != p.Count() || n.poly.size() != p.Polygon().size()) return false;
  for (size_t i = 0; i < n.poly.size(); ++i) { const PointD& q = p.Polygon()[i];
    if (memcmp(&n.poly[i][0], &q.x, 8) || memcmp(&n.poly[i][1], &q.y, 8) || (DIM == 3 && zbits(n.poly[i][2]) != ZOF(q))) return false; }
  for (size_t i = 0; i < n.kids.size(); ++i) if (!same_nodeD(n.kids[i], *p.Child(i))) return false;
  return true;
}
static bool eq64(const Paths64& a, const Paths64& b, bool skip_empty_in_a = false) {
  Paths64 aa; for (auto& p : a) if (!skip_empty_in_a || !p.empty()) aa.push_back(p);
  if (aa.size() != b.size()) return false;
  for (size_t i = 0; i < aa.size(); ++i) { if (aa[i].size() != b[i].size()) return false;
    for (size_t j = 0; j < aa[i].size(); ++j) if (!(aa[i][j] == b[i][j]) || ZOF(aa[i][j]) != ZOF(b[i][j])) return false; }
  return true;
}
static bool eqD(const PathsD& a, const PathsD& b, bool skip_empty_in_a = false) {
  PathsD aa; for (auto& p : a) if (!skip_empty_in_a || !p.empty()) aa.push_back(p);
  if (aa.size() != b.size()) return false;
  for (size_t i = 0; i < aa.size(); ++i) { if (aa[i].size() != b[i].size()) return false;
    for (size_t j = 0; j < aa[i].size(); ++j) if (memcmp(&aa[i][j].x, &b[i][j].x, 8) || memcmp(&aa[i][j].y, &b[i][j].y, 8) || ZOF(aa[i][j]) != ZOF(b[i][j])) return false; }
  return true;
}
// exact-length heap copy of a flat array (so that a library over-read is visible to ASan)
template <class T> static T* exact_copy(const T* a) { if (!a) return nullptr; size_t n = (size_t)a[0]; T* r = new T[n]; memcpy(r, a, n * sizeof(T)); return r; }
struct A64 { int64_t* p = nullptr; ~A64() { delete[] p; } };
struct AD { double* p = nullptr; ~AD() { delete[] p; } };

static void setz(Rng& r, Paths64& pp) {
#ifdef USINGZ
  for (auto& p : pp) for (auto& pt : p) pt.z = (int64_t)r.next();
#else
  (void)r; (void)pp;
#endif
}
static PathsD to_d(Rng& r, const Paths64& pp, double div) {
  PathsD o; for (auto& p : pp) { PathD q; for (auto& pt : p) { PointD d((double)pt.x / div, (double)pt.y / div);
#ifdef USINGZ
    d.z = pt.z;
#endif
    q.push_back(d); } o.push_back(q); }
  (void)r; return o;
}

#ifdef USINGZ
// deterministic Z callbacks registered through the C interface (SetZCallback64 / SetZCallbackD) and, for the reference,
// directly on the C++ objects: every registration state (none, 64 only, D only, both) is exercised
static void zcb64(const Point64& a, const Point64&, const Point64& b, const Point64&, Point64& pt) { pt.z = pt.x * 31 + pt.y * 7 + (a.z ^ b.z) % 5 + 1000; }
static void zcbD(const PointD& a, const PointD&, const PointD& b, const PointD&, PointD& pt) { pt.z = (int64_t)std::llround(pt.x * 16) * 31 + (int64_t)std::llround(pt.y * 16) * 7 + (a.z ^ b.z) % 5 + 2000; }
struct CbGuard { CbGuard(int st) { SetZCallback64((st & 1) ? zcb64 : nullptr); SetZCallbackD((st & 2) ? zcbD : nullptr); } ~CbGuard() { SetZCallback64(nullptr); SetZCallbackD(nullptr); } };
#endif

#define FAIL(claim, tag, msg) do { ctx.violation(claim, { tag }, c, msg); return; } while (0)

static void judge(Ctx& ctx, const Case& c0, bool from_replay) {
  Case c = c0;
  ctx.begin(c);
  if (c.geti("deep", 0)) { ctx.count("polytree_export_cases_with_deep_nesting"); ctx.cmax("max_polytree_export_nesting_requested", c.geti("deep", 0)); }
  Rng zr(c.geti("zseed", 1), 7);
  Paths64 S = c.P("S"), C = c.P("C"), O = c.P("O");
  setz(zr, S); setz(zr, C); setz(zr, O);
  const int ct = (int)c.geti("ct"), fr = (int)c.geti("fr"), jt = (int)c.geti("jt"), et = (int)c.geti("et"), prec = (int)c.geti("prec");
  const bool pc = c.geti("pc") != 0, rev = c.geti("rev") != 0, closed = c.geti("closed") != 0;
  const double delta = c.getd("delta"), miter = c.getd("miter"), arc = c.getd("arc"), div = c.getd("div", 1.0);
  const int fn = (int)c.geti("fn");
  const Path64 rp = c.P("rect")[0];
  const double scale = std::pow(10, prec);
  PathsD Sd = to_d(zr, S, div), Cd = to_d(zr, C, div), Od = to_d(zr, O, div);
  ctx.count("fn_" + std::to_string(fn));

  // ---------------- (a) round trips and length accounting
  {
    A64 a; a.p = CreateCPathsFromPathsT(S);
    Flat<int64_t> f = read_cpaths(a.p);
    if (f.end != f.A) FAIL("C17.length_cpaths64", "first_element_vs_written", "CPaths64 first element " + std::to_string(f.A) + " but reader ends at " + std::to_string(f.end));
    A64 b; b.p = exact_copy(a.p);
    if (!eq64(S, ConvertCPathsToPathsT(b.p), true)) FAIL("C17.roundtrip_paths64", "paths64", "ConvertCPathsToPathsT(CreateCPathsFromPathsT(P)) != P minus empty paths");
    size_t ne = 0; for (auto& p : S) if (!p.empty()) ++ne;
    if ((size_t)f.C != ne || !f.ok) FAIL("C17.roundtrip_paths64", "count", "path count field wrong");
    if (!S.empty() && !S[0].empty()) { A64 one; one.p = CreateCPathsFromPathsT(Paths64{ S[0] }); A64 e; e.p = exact_copy(one.p);
      if (!eq64(Paths64{ S[0] }, Paths64{ ConvertCPathToPathT(e.p + 2) })) FAIL("C17.roundtrip_path64", "path64", "ConvertCPathToPathT differs"); }
    AD d; d.p = CreateCPathsDFromPathsD(Sd);
    Flat<double> fd = read_cpaths(d.p);
    if (d.p && fd.end != fd.A) FAIL("C17.length_cpathsd", "first_element_vs_written", "CPathsD first element " + std::to_string(fd.A) + " but reader ends at " + std::to_string(fd.end));
    AD d2; d2.p = exact_copy(d.p);
    if (!eqD(Sd, ConvertCPathsToPathsT(d2.p), true)) FAIL("C17.roundtrip_pathsd", "pathsd", "PathsD round trip differs");
    AD t; t.p = CreateCPathsFromPathsT<double>(Sd);
    Flat<double> ft = read_cpaths(t.p);
    if (ft.end != ft.A) FAIL("C17.length_cpathsd", "template_variant", "CreateCPathsFromPathsT<double> length wrong");
    // 64 -> D scaled and back
    AD s; s.p = CreateCPathsDFromPaths64(S, 1.0 / scale);
    Flat<double> fs = read_cpaths(s.p);
    if (s.p && fs.end != fs.A) FAIL("C17.length_cpathsd", "scaled_variant", "CreateCPathsDFromPaths64 length wrong");
    if (s.p) { // element-wise definition: x * scale, z reinterpret
      size_t pi = 0;
      for (auto& p : S) { if (p.empty()) continue; auto& fp = fs.paths[pi++]; if (fp.size() != p.size()) FAIL("C17.roundtrip_scaled", "scaled", "vertex count");
        for (size_t j = 0; j < p.size(); ++j) { double ex = p[j].x * (1.0 / scale), ey = p[j].y * (1.0 / scale);
          if (memcmp(&fp[j][0], &ex, 8) || memcmp(&fp[j][1], &ey, 8) || (DIM == 3 && zbits(fp[j][2]) != ZOF(p[j]))) FAIL("C17.roundtrip_scaled", "scaled", "CreateCPathsDFromPaths64 element differs from x*scale"); } }
    }
    AD s2; s2.p = exact_copy(d.p);
    Paths64 back = ConvertCPathsDToPaths64(s2.p, scale);
    { int ec = 0; Paths64 expect; for (auto& p : Sd) if (!p.empty()) expect.push_back(ScalePath<int64_t, double>(p, scale, ec));
      if (!eq64(expect, back)) FAIL("C17.roundtrip_scaled", "d_to_64", "ConvertCPathsDToPaths64 != ScalePath of the non-empty paths"); }
    ctx.count("roundtrips_checked", 6);
  }
  // polytree marshalling
  {
    Clipper64 cl; cl.AddSubject(S); cl.AddClip(C); PolyTree64 t; cl.Execute((ClipType)std::max(1, ct), (FillRule)fr, t);
    A64 a; a.p = CreateCPolyTree64(t); TNode root; long long A = 0, end = 0; read_tree(a.p, root, A, end);
    if (a.p && end != A) FAIL("C17.length_cpolytree64", "first_element_vs_written", "CPolyTree64 first element " + std::to_string(A) + " reader ends at " + std::to_string(end));
    if (!same_node64(root, t)) FAIL("C17.roundtrip_polytree64", "tree64", "flat polytree differs from PolyTree64");
    ClipperD cd(prec); cd.AddSubject(Sd); cd.AddClip(Cd); PolyTreeD td; cd.Execute((ClipType)std::max(1, ct), (FillRule)fr, td);
    AD b; b.p = CreateCPolyTreeD(td); TNode rd; read_tree(b.p, rd, A, end);
    if (b.p && end != A) FAIL("C17.length_cpolytreed", "first_element_vs_written", "CPolyTreeD first element " + std::to_string(A) + " reader ends at " + std::to_string(end));
    if (!same_nodeD(rd, td)) FAIL("C17.roundtrip_polytreed", "treed", "flat polytree differs from PolyTreeD");
    ctx.count("polytree_nodes_compared", (long long)PolyTreeToPaths64(t).size());
  }

  // ---------------- (b) exported function vs C++ call, exact
  A64 cs, cc, co; { A64 t1; t1.p = CreateCPathsFromPathsT(S); cs.p = exact_copy(t1.p); A64 t2; t2.p = CreateCPathsFromPathsT(C); cc.p = exact_copy(t2.p); A64 t3; t3.p = CreateCPathsFromPathsT(O); co.p = exact_copy(t3.p); }
  AD ds, dc, dopen; { AD t1; t1.p = CreateCPathsDFromPathsD(Sd); ds.p = exact_copy(t1.p); AD t2; t2.p = CreateCPathsDFromPathsD(Cd); dc.p = exact_copy(t2.p); AD t3; t3.p = CreateCPathsDFromPathsD(Od); dopen.p = exact_copy(t3.p); }
  ctx.evaluated();
#ifdef USINGZ
  const int cbstate = (int)c.geti("cbstate", 0);
  CbGuard cbguard(cbstate);
  ctx.count("cbstate_" + std::to_string(cbstate));
#endif
  switch (fn) {
    case 0: case 1: { // BooleanOp64 / BooleanOp_PolyTree64
      Clipper64 cl; cl.PreserveCollinear(pc); cl.ReverseSolution(rev);
#ifdef USINGZ
      if (cbstate & 1) cl.SetZCallback(zcb64);
#endif
      if (!S.empty()) cl.AddSubject(S); if (!O.empty()) cl.AddOpenSubject(O); if (!C.empty()) cl.AddClip(C);
      if (fn == 0) { Paths64 sol, solo; bool ok = cl.Execute((ClipType)ct, (FillRule)fr, sol, solo);
        A64 x, y; int rc = BooleanOp64((uint8_t)ct, (uint8_t)fr, cs.p, co.p, cc.p, x.p, y.p, pc, rev);
        if ((rc == 0) != ok) FAIL("C17.export_vs_cpp", "BooleanOp64", "return code " + std::to_string(rc) + " vs Execute " + std::to_string(ok));
        if (rc == 0 && (!eq64(sol, ConvertCPathsToPathsT(x.p), true) || !eq64(solo, ConvertCPathsToPathsT(y.p), true))) FAIL("C17.export_vs_cpp", "BooleanOp64", "solution differs from Clipper64 with the same arguments");
        if (rc == 0) { Flat<int64_t> f = read_cpaths(x.p); if (f.end != f.A) FAIL("C17.length_cpaths64", "result", "result length field"); }
      } else { PolyTree64 t; Paths64 solo; bool ok = cl.Execute((ClipType)ct, (FillRule)fr, t, solo);
        A64 x, y; int rc = BooleanOp_PolyTree64((uint8_t)ct, (uint8_t)fr, cs.p, co.p, cc.p, x.p, y.p, pc, rev);
        if ((rc == 0) != ok) FAIL("C17.export_vs_cpp", "BooleanOp_PolyTree64", "return code");
        TNode root; long long A, end; read_tree(x.p, root, A, end);
        if (rc == 0 && (!same_node64(root, t) || !eq64(solo, ConvertCPathsToPathsT(y.p), true))) FAIL("C17.export_vs_cpp", "BooleanOp_PolyTree64", "tree differs from Clipper64 with the same arguments");
      }
      break; }
    case 2: case 3: { // BooleanOpD / BooleanOp_PolyTreeD
      ClipperD cl(prec); cl.PreserveCollinear(pc); cl.ReverseSolution(rev);
#ifdef USINGZ
      if (cbstate & 2) cl.SetZCallback(zcbD);
#endif
      if (!Sd.empty()) cl.AddSubject(Sd); if (!Od.empty()) cl.AddOpenSubject(Od); if (!Cd.empty()) cl.AddClip(Cd);
      if (fn == 2) { PathsD sol, solo; bool ok = cl.Execute((ClipType)ct, (FillRule)fr, sol, solo);
        AD x, y; int rc = BooleanOpD((uint8_t)ct, (uint8_t)fr, ds.p, dopen.p, dc.p, x.p, y.p, prec, pc, rev);
        if ((rc == 0) != ok) FAIL("C17.export_vs_cpp", "BooleanOpD", "return code " + std::to_string(rc));
        if (rc == 0 && (!eqD(sol, ConvertCPathsToPathsT(x.p), true) || !eqD(solo, ConvertCPathsToPathsT(y.p), true))) FAIL("C17.export_vs_cpp", "BooleanOpD", "solution differs from ClipperD with the same arguments");
      } else { PolyTreeD t; PathsD solo; bool ok = cl.Execute((ClipType)ct, (FillRule)fr, t, solo);
        AD x, y; int rc = BooleanOp_PolyTreeD((uint8_t)ct, (uint8_t)fr, ds.p, dopen.p, dc.p, x.p, y.p, prec, pc, rev);
        if ((rc == 0) != ok) FAIL("C17.export_vs_cpp", "BooleanOp_PolyTreeD", "return code");
        TNode root; long long A, end; read_tree(x.p, root, A, end);
        if (rc == 0 && (!same_nodeD(root, t) || !eqD(solo, ConvertCPathsToPathsT(y.p), true))) FAIL("C17.export_vs_cpp", "BooleanOp_PolyTreeD", "tree differs from ClipperD with the same arguments");
      }
      break; }
    case 4: case 5: { // InflatePaths64 / InflatePath64
      ClipperOffset co2(miter, arc, false, rev);
      if (fn == 4) co2.AddPaths(S, (JoinType)jt, (EndType)et); else if (!S.empty()) co2.AddPath(S[0], (JoinType)jt, (EndType)et);
      Paths64 sol; co2.Execute(delta, sol);
      A64 x;
      if (fn == 4) x.p = InflatePaths64(cs.p, delta, (uint8_t)jt, (uint8_t)et, miter, arc, rev);
      else { if (S.empty() || S[0].empty()) break; A64 one; { A64 t1; t1.p = CreateCPathsFromPathsT(Paths64{ S[0] }); one.p = exact_copy(t1.p); } x.p = InflatePath64(one.p + 2, delta, (uint8_t)jt, (uint8_t)et, miter, arc, rev); }
      if (!eq64(sol, ConvertCPathsToPathsT(x.p), true)) FAIL("C17.export_vs_cpp", fn == 4 ? "InflatePaths64" : "InflatePath64", "differs from ClipperOffset(miter_limit, arc_tolerance, false, reverse_solution)");
      break; }
    case 6: case 7: { // InflatePathsD / InflatePathD
      int ec = 0;
      ClipperOffset co2(miter, arc * scale, false, rev);
      if (fn == 6) co2.AddPaths(ScalePaths<int64_t, double>(Sd, scale, ec), (JoinType)jt, (EndType)et);
      else { if (Sd.empty() || Sd[0].empty()) break; co2.AddPath(ScalePath<int64_t, double>(Sd[0], scale, ec), (JoinType)jt, (EndType)et); }
      Paths64 sol; co2.Execute(delta * scale, sol);
      PathsD expect = ScalePaths<double, int64_t>(sol, 1 / scale, ec);
      AD x;
      if (fn == 6) x.p = InflatePathsD(ds.p, delta, (uint8_t)jt, (uint8_t)et, prec, miter, arc, rev);
      else { AD one; { AD t1; t1.p = CreateCPathsDFromPathsD(PathsD{ Sd[0] }); one.p = exact_copy(t1.p); } x.p = InflatePathD(one.p + 2, delta, (uint8_t)jt, (uint8_t)et, prec, miter, arc, rev); }
      if (!eqD(expect, ConvertCPathsToPathsT(x.p), true)) FAIL("C17.export_vs_cpp", fn == 6 ? "InflatePathsD" : "InflatePathD", "differs from ClipperOffset(miter_limit, arc_tolerance*scale, false, reverse_solution) on scaled input");
      break; }
    case 8: case 9: { // RectClip64 / RectClipLines64
      Rect64 r(rp[0].x, rp[0].y, rp[1].x, rp[1].y); CRect64 cr{ r.left, r.top, r.right, r.bottom };
      Paths64 sol; A64 x;
      if (r.IsEmpty()) { x.p = (fn == 8) ? RectClip64(cr, cs.p) : RectClipLines64(cr, cs.p); if (x.p) FAIL("C17.export_vs_cpp", "RectClip64", "empty rect must give null"); break; }
      if (fn == 8) { class RectClip64 rc(r); sol = rc.Execute(S); x.p = RectClip64(cr, cs.p); } else { class RectClipLines64 rc(r); sol = rc.Execute(S); x.p = RectClipLines64(cr, cs.p); }
      if (!eq64(sol, ConvertCPathsToPathsT(x.p), true)) FAIL("C17.export_vs_cpp", fn == 8 ? "RectClip64" : "RectClipLines64", "differs from the C++ Execute");
      break; }
    case 10: case 11: { // RectClipD / RectClipLinesD
      RectD r((double)rp[0].x / div, (double)rp[0].y / div, (double)rp[1].x / div, (double)rp[1].y / div); CRectD cr{ r.left, r.top, r.right, r.bottom };
      if (r.IsEmpty() || Sd.empty()) break;
      PathsD expect = (fn == 10) ? RectClip(r, Sd, prec) : RectClipLines(r, Sd, prec);
      AD x; x.p = (fn == 10) ? RectClipD(cr, ds.p, prec) : RectClipLinesD(cr, ds.p, prec);
      if (!eqD(expect, ConvertCPathsToPathsT(x.p), true)) FAIL("C17.export_vs_cpp", fn == 10 ? "RectClipD" : "RectClipLinesD", "differs from RectClip(RectD, PathsD, precision)");
      break; }
    default: { // 12, 13 MinkowskiSum64 / MinkowskiDiff64
      if (S.empty() || S[0].empty() || C.empty() || C[0].empty()) break;
      Paths64 sol = (fn == 12) ? MinkowskiSum(S[0], C[0], closed) : MinkowskiDiff(S[0], C[0], closed);
      A64 p1, p2; { A64 t1; t1.p = CreateCPathsFromPathsT(Paths64{ S[0] }); p1.p = exact_copy(t1.p); A64 t2; t2.p = CreateCPathsFromPathsT(Paths64{ C[0] }); p2.p = exact_copy(t2.p); }
      CPath64 a = p1.p + 2, b = p2.p + 2;
      A64 x; x.p = (fn == 12) ? MinkowskiSum64(a, b, closed) : MinkowskiDiff64(a, b, closed);
      if (!eq64(sol, ConvertCPathsToPathsT(x.p), true)) FAIL("C17.export_vs_cpp", fn == 12 ? "MinkowskiSum64" : "MinkowskiDiff64", "differs from the C++ call");
      break; }
  }
  if (!from_replay) ctx.note_case(c, true);
}

void vf_case(Ctx& ctx, uint64_t i) {
  Rng& r = ctx.rng;
  Case c; int fn = (int)(i % 14); c.seti("fn", fn);
  int64_t R = (int64_t)1 << r.irange(4, fn >= 12 ? 20 : 28);
  // inputs: sensible polygons (so that every argument matters) mixed with the degenerate zoo (empty paths, empty results)
  auto mk = [&](int n) { Paths64 pp; for (int k = 0; k < n; ++k) { int t = r.irange(0, 9);
      if (t < 5) pp.push_back(gen::star_shaped(r, r.range(-R / 3, R / 3), r.range(-R / 3, R / 3), (double)R * r.real(0.2, 0.6), r.irange(3, 10), 0.3, 1.0, r.coin()));
      else if (t < 7) pp.push_back(gen::random_poly(r, 0, 0, R, r.irange(3, 8)));
      else if (t < 8) { Path64 b = gen::box(-R / 2, -R / 2, R / 2, R / 2); b.insert(b.begin() + 1, Point64((int64_t)0, -R / 2)); pp.push_back(b); }  // collinear vertex: PreserveCollinear matters
      else pp.push_back(gen::zoo_path(r, R)); }
    return pp; };
  c.p64["S"] = mk(r.irange(fn >= 12 ? 1 : 0, 3)); c.p64["C"] = mk(r.irange(fn >= 12 ? 1 : 0, 3));
  c.p64["O"] = r.chance(0.4) ? Paths64{ gen::polyline(r, 0, 0, R, r.irange(2, 6)) } : Paths64();
  // polytree exports, one case in six: deeply nested solutions (10-300 concentric rings with a few side polygons between
  // them), so that the flat array encoding and its length pre-pass handle trees far deeper and wider than polygon soup gives
  if ((fn == 1 || fn == 3) && r.chance(0.17)) {
    const int depth = (int)std::exp(r.real(std::log(10.0), std::log(300.0)));
    const int64_t g = r.irange(3, 9);
    Paths64 S;
    for (int k = 0; k < depth; ++k) { int64_t rad = g * (depth - k) + 2; S.push_back(gen::box(-rad - (k % 2), -rad, rad, rad + (k % 3), true));
      if (r.chance(0.05) && g >= 5) { int64_t q = rad - g / 2; S.push_back(gen::box(q - 1, -1, q + 1, 1, true)); } }   // a small island in the gap between two rings
    for (int k = 0; k < 3; ++k) { int64_t x = g * (depth + 4) + 20 * k; S.push_back(gen::box(x, (int64_t)0, x + 9, (int64_t)9, r.coin())); }   // satellites beside the nest
    c.p64["S"] = S; c.p64["C"] = r.coin() ? Paths64() : Paths64{ gen::box(-3, -g * (depth + 2), 3, g * (depth + 2), true) };
    c.seti("deep", depth);
  }
  if (fn >= 12) { for (auto* k : { "S", "C" }) for (auto& p : c.p64[k]) if (p.size() > 8) p.resize(8); }
  c.seti("ct", r.irange(fn < 4 ? 0 : 1, 4)); c.seti("fr", r.irange(0, 3)); c.seti("pc", r.coin()); c.seti("rev", r.coin());
  c.seti("jt", r.irange(0, 3)); c.seti("et", r.irange(0, 4)); c.seti("closed", r.coin());
  int prec = r.irange(-2, 6); c.seti("prec", prec);
  double div = prec > 0 ? std::pow(10.0, prec) : 1.0; c.setd("div", div);
  double d = (double)R * r.real(0.02, 0.3) * (r.coin() ? 1 : -1); if (r.chance(0.1)) d = r.real(-2, 2);
  bool isD = (fn == 6 || fn == 7);
  c.setd("delta", isD ? d / div : d);
  c.setd("miter", r.pick(std::vector<double>{ 1.0, 2.0, 3.5, 10.0 }));
  double arc = r.chance(0.5) ? 0.0 : std::fabs(d) * r.real(0.001, 0.2);
  c.setd("arc", isD ? arc / div : arc);
  int64_t x0 = r.range(-R, R), x1 = r.range(-R, R), y0 = r.range(-R, R), y1 = r.range(-R, R);
  if (x0 > x1) std::swap(x0, x1); if (y0 > y1) std::swap(y0, y1); if (r.chance(0.05)) x1 = x0;
  c.p64["rect"] = Paths64{ Path64{ Point64(x0, y0), Point64(x1, y1) } };
  c.seti("zseed", (long long)(r.next() >> 2));
  c.seti("cbstate", r.irange(0, 3));
  judge(ctx, c, false);
}
void vf_replay(Ctx& ctx, const Case& c) { judge(ctx, c, true); }
