// mon_c19 — C19: MinkowskiSum / MinkowskiDiff return the union of the parallelograms {a_i,a_i+1} (+/-) {b_j,b_j+1}
// spanned by every path edge (closing edge only when isClosed) and every pattern edge (pattern always closed).
//
// Oracle (shares no code with clipper.minkowski.h): the quads are rebuilt from the property text; an integer sample
// point q that is >= 3 units (2 of the property + 1 margin) from every edge of every quad must satisfy
//   [winding(result, q) != 0]  ==  [q strictly inside some quad]         (exact __int128 orientation tests)
// and no result edge may pass through such a q. Empty pattern or empty path => empty result. PathD overloads: the
// result must equal, bit for bit, the Path64 call on llround(x*10^dp) mapped back by 10^-dp (subsample).
//
// "General position" is applied to pattern and path only (DESIGN.md C19): pattern >= 3 vertices, not all collinear,
// path >= 2 vertices, neither with repeated consecutive vertices (cyclically for the pattern and for closed paths),
// |coord| <= 2^40. Everything else is executed for diagnostics only, counted, and never judged.
//
// Genuine defect seen on the unchanged tree (about 1 call in 150 000, magnitudes <= 2^12): a triangular hole (or notch
// with a mouth < 1 unit wide) of the union whose corner is a near-touch of a quad corner and a foreign quad edge is
// filled, whatever its size (areas 363 .. 808 187 seen): the integer grid closes the near-touch into a pinch of the
// outer ring and ClipperBase::DoSplitOp throws away the split-off triangle because its orientation is opposite to the
// ring's. Such violations carry the classifier tag `triangular_hole_pinched_at_near_touch_corner_filled`
// (classify_face below); pinned witnesses findings/c19_triangular_*.txt.
#include "region.h"
#include "gen.h"
#include "clipper2/clipper.h"

using namespace vf;
using namespace Clipper2Lib;

namespace {

const int64_t kMaxCoord = (int64_t)1 << 40;
const ld kBand = 3.0L + 1e-6L;        // 2 units of the property + 1 margin (+ slack for the long double quotient)

struct Quad { Point64 v[4]; int64_t x0, y0, x1, y1; bool flat; };
struct QEdge { Point64 a, b; int64_t x0, y0, x1, y1; ld len; };

// the property's parallelograms, straight from its text
void build_quads(const Path64& pat, const Path64& path, bool sum, bool closed, std::vector<Quad>& qs) {
  qs.clear();
  const size_t n = path.size(), m = pat.size();
  if (!n || !m) return;
  const size_t ne = closed ? n : n - 1;
  auto comb = [sum](const Point64& a, const Point64& b) { return sum ? Point64(a.x + b.x, a.y + b.y) : Point64(a.x - b.x, a.y - b.y); };
  for (size_t i = 0; i < ne; ++i) {
    const Point64& a0 = path[i]; const Point64& a1 = path[(i + 1) % n];
    for (size_t j = 0; j < m; ++j) {
      const Point64& b0 = pat[j]; const Point64& b1 = pat[(j + 1) % m];
      Quad Q; Q.v[0] = comb(a0, b0); Q.v[1] = comb(a1, b0); Q.v[2] = comb(a1, b1); Q.v[3] = comb(a0, b1);
      Q.x0 = Q.x1 = Q.v[0].x; Q.y0 = Q.y1 = Q.v[0].y;
      for (int k = 1; k < 4; ++k) { Q.x0 = std::min(Q.x0, Q.v[k].x); Q.x1 = std::max(Q.x1, Q.v[k].x); Q.y0 = std::min(Q.y0, Q.v[k].y); Q.y1 = std::max(Q.y1, Q.v[k].y); }
      Q.flat = cross(Q.v[0], Q.v[1], Q.v[2]) == 0;   // parallelogram: zero area iff three corners collinear
      qs.push_back(Q);
    }
  }
}

// q strictly inside the (convex, possibly degenerate) quad: all four exact orientations equal and non-zero
inline bool in_quad(const Quad& Q, const Point64& q) {
  int s = 0;
  for (int k = 0; k < 4; ++k) {
    int o = orient(Q.v[k], Q.v[(k + 1) & 3], q);
    if (o == 0) return false;
    if (s == 0) s = o; else if (o != s) return false;
  }
  return true;
}
inline bool in_some_quad(const std::vector<Quad>& qs, const Point64& q) {
  for (const Quad& Q : qs) {
    if (Q.flat || q.x <= Q.x0 || q.x >= Q.x1 || q.y <= Q.y0 || q.y >= Q.y1) continue;
    if (in_quad(Q, q)) return true;
  }
  return false;
}

void build_edges(const std::vector<Quad>& qs, std::vector<QEdge>& es) {
  es.clear();
  for (const Quad& Q : qs) for (int k = 0; k < 4; ++k) {
    QEdge e; e.a = Q.v[k]; e.b = Q.v[(k + 1) & 3];
    e.x0 = std::min(e.a.x, e.b.x); e.x1 = std::max(e.a.x, e.b.x); e.y0 = std::min(e.a.y, e.b.y); e.y1 = std::max(e.a.y, e.b.y);
    e.len = sqrtl(to_ld(dist2(e.a, e.b)));
    es.push_back(e);
  }
}
// is q closer than the band to some quad edge (or quad corner: zero-length edges are points)
bool in_band(const std::vector<QEdge>& es, const Point64& q) {
  for (const QEdge& e : es) {
    if (q.x < e.x0 - 4 || q.x > e.x1 + 4 || q.y < e.y0 - 4 || q.y > e.y1 + 4) continue;
    if (e.len > 0) { i128 c = cross(e.a, e.b, q); if (c < 0) c = -c; if (to_ld(c) >= 4.0L * e.len) continue; }  // > 4 from the line
    if (dist_pt_seg(e.a, e.b, q) < kBand) return true;
  }
  return false;
}

// classifier: smallest non-zero distance from a quad corner to a quad edge it is not an end point of (corners lying
// exactly on an edge, as the shared corners/edges of neighbouring quads do, are not counted). The union engine orders
// edges by x rounded to integers, so a corner less than a unit beside a foreign edge is where its topology can go wrong.
ld min_near_touch(const std::vector<Quad>& qs, const std::vector<QEdge>& es) {
  ld best = std::numeric_limits<ld>::infinity();
  for (const Quad& Q : qs) for (int k = 0; k < 4; ++k) {
    const Point64& v = Q.v[k];
    for (const QEdge& e : es) {
      if (v.x < e.x0 - 2 || v.x > e.x1 + 2 || v.y < e.y0 - 2 || v.y > e.y1 + 2) continue;
      if (v == e.a || v == e.b || e.len == 0) continue;
      if (on_segment(e.a, e.b, v)) continue;
      ld d = dist_pt_seg(e.a, e.b, v);
      if (d < best) best = d;
    }
  }
  return best;
}

// classifier of the face of the complement of the union that contains q, by casting 256 rays from q against the
// edges of the non-degenerate quads (first hit = a wall of the face):
//   walled      every ray hits a wall (q is in a hole of the true union, or in a notch whose mouth no ray finds)
//   nwalls      number of distinct supporting lines among the walls hit (3 = the face is a triangle)
//   pinched     nwalls == 3 and some quad corner is less than one unit from (or an end point of) edges of two
//               different walls, at least one of them strictly beside it (0 < distance < 1): one corner of the
//               triangular face is a near-touch, which the integer grid of the union engine closes into a pinch
struct FaceClass { bool walled = false; int nwalls = 0; bool pinched = false; };
FaceClass classify_face(const std::vector<Quad>& qs, const Point64& q) {
  FaceClass F;
  struct Wall { std::vector<std::pair<Point64, Point64>> edges; };
  std::vector<Wall> walls;
  const ld kTwoPi = 6.283185307179586476925L;
  for (int d = 0; d < 256; ++d) {
    const ld th = kTwoPi * (d + 0.37L) / 256;
    const i128 dx = (i128)llroundl(4096 * cosl(th)), dy = (i128)llroundl(4096 * sinl(th));
    ld best = std::numeric_limits<ld>::infinity(); const Point64 *ba = nullptr, *bb = nullptr;
    for (const Quad& Q : qs) {
      if (Q.flat) continue;
      for (int k = 0; k < 4; ++k) {
        const Point64& a = Q.v[k]; const Point64& b = Q.v[(k + 1) & 3];
        i128 s1 = dx * ((i128)a.y - q.y) - dy * ((i128)a.x - q.x), s2 = dx * ((i128)b.y - q.y) - dy * ((i128)b.x - q.x);
        if ((s1 > 0 && s2 > 0) || (s1 < 0 && s2 < 0) || (s1 == 0 && s2 == 0)) continue;
        // q + t*d on line ab: t = cross(a-q, b-a) / cross(d, b-a)
        i128 ex = (i128)b.x - a.x, ey = (i128)b.y - a.y;
        i128 num = ((i128)a.x - q.x) * ey - ((i128)a.y - q.y) * ex, den = dx * ey - dy * ex;
        if (den == 0 || num == 0 || ((num > 0) != (den > 0))) continue;
        ld t = to_ld(num) / to_ld(den);
        if (t < best) { best = t; ba = &a; bb = &b; }
      }
    }
    if (!ba) return F;            // this ray escapes: q is in the unbounded face (or sees the mouth of a notch)
    bool known = false;
    for (Wall& W : walls) {
      if (cross(W.edges[0].first, W.edges[0].second, *ba) == 0 && cross(W.edges[0].first, W.edges[0].second, *bb) == 0) {
        known = true;
        bool have = false; for (auto& e : W.edges) have = have || (e.first == *ba && e.second == *bb);
        if (!have) W.edges.push_back({ *ba, *bb });
        break;
      }
    }
    if (!known) { Wall W; W.edges.push_back({ *ba, *bb }); walls.push_back(W); }
  }
  F.walled = true; F.nwalls = (int)walls.size();
  if (F.nwalls != 3) return F;
  for (const Quad& Q : qs) for (int k = 0; k < 4 && !F.pinched; ++k) {
    const Point64& v = Q.v[k];
    int close = 0; bool beside = false;
    for (const Wall& W : walls) {
      ld dmin = std::numeric_limits<ld>::infinity();
      for (auto& e : W.edges) dmin = std::min(dmin, dist_pt_seg(e.first, e.second, v));
      if (dmin < 1.0L) { ++close; if (dmin > 0) beside = true; }
    }
    if (close >= 2 && beside) F.pinched = true;
  }
  return F;
}

inline Point64 rnd_pt(ld x, ld y) { return Point64((int64_t)llroundl(x), (int64_t)llroundl(y)); }

struct Premise { bool empty_in = false, ok = false; std::string why; };
Premise premise_of(const Path64& pat, const Path64& path, bool closed) {
  Premise p;
  if (pat.empty() || path.empty()) { p.empty_in = true; return p; }
  for (auto* pp : { &pat, &path }) for (auto& pt : *pp)
    if (pt.x > kMaxCoord || pt.x < -kMaxCoord || pt.y > kMaxCoord || pt.y < -kMaxCoord) { p.why = "coord_out_of_range"; return p; }
  if (pat.size() < 3) { p.why = "pattern_lt_3_vertices"; return p; }
  if (path.size() < 2) { p.why = "path_lt_2_vertices"; return p; }
  for (size_t j = 0; j < pat.size(); ++j) if (pat[j] == pat[(j + 1) % pat.size()]) { p.why = "pattern_repeated_vertex"; return p; }
  for (size_t i = 0; i + 1 < path.size(); ++i) if (path[i] == path[i + 1]) { p.why = "path_repeated_vertex"; return p; }
  if (closed && path.back() == path.front()) { p.why = "path_repeated_vertex"; return p; }
  bool noncol = false;
  for (size_t j = 2; j < pat.size() && !noncol; ++j) noncol = cross(pat[0], pat[1], pat[j]) != 0;
  if (!noncol) { p.why = "pattern_collinear"; return p; }
  p.ok = true; return p;
}

struct RegionVerdict {
  bool bad = false; std::string kind, detail;
  long long judged_in = 0, judged_out = 0, skipped = 0;
  Point64 badq; bool want = false; ld near_touch = std::numeric_limits<ld>::infinity(); FaceClass face;
};

// the region oracle; `srng` is seeded from the case so that a witness replays with the same sample points
RegionVerdict judge_region(const Path64& pat, const Path64& path, bool sum, bool closed, const Paths64& res, Rng& srng,
                           std::map<std::string, long long>* cnt) {
  RegionVerdict V;
  std::vector<Quad> qs; std::vector<QEdge> es;
  build_quads(pat, path, sum, closed, qs);
  build_edges(qs, es);
  if (cnt) V.near_touch = min_near_touch(qs, es);
  struct S { Point64 q; int src; };
  std::vector<S> sp;
  static const char* kSrc[] = { "uniform", "centroid", "quad_edge_side", "result_edge_side" };
  // (a) uniform in the bounding box of all quads (slightly enlarged)
  if (!qs.empty()) {
    int64_t x0 = qs[0].x0, y0 = qs[0].y0, x1 = qs[0].x1, y1 = qs[0].y1;
    for (auto& Q : qs) { x0 = std::min(x0, Q.x0); y0 = std::min(y0, Q.y0); x1 = std::max(x1, Q.x1); y1 = std::max(y1, Q.y1); }
    ld w = (ld)x1 - (ld)x0, h = (ld)y1 - (ld)y0, cx = 0.5L * ((ld)x0 + (ld)x1), cy = 0.5L * ((ld)y0 + (ld)y1);
    for (int k = 0; k < 48; ++k) sp.push_back(S{ rnd_pt(cx + (srng.unit() - 0.5) * (1.1L * w + 16), cy + (srng.unit() - 0.5) * (1.1L * h + 16)), 0 });
  }
  // (b) quad centroids and one random interior point, (c) both sides of every quad edge at distance ~3..6
  for (auto& Q : qs) {
    if (!Q.flat) {
      sp.push_back(S{ rnd_pt(0.5L * ((ld)Q.v[0].x + (ld)Q.v[2].x), 0.5L * ((ld)Q.v[0].y + (ld)Q.v[2].y)), 1 });
      ld s = srng.real(0.05, 0.95), t = srng.real(0.05, 0.95);
      ld dx = (ld)Q.v[1].x - (ld)Q.v[0].x, dy = (ld)Q.v[1].y - (ld)Q.v[0].y, ex = (ld)Q.v[3].x - (ld)Q.v[0].x, ey = (ld)Q.v[3].y - (ld)Q.v[0].y;
      sp.push_back(S{ rnd_pt((ld)Q.v[0].x + s * dx + t * ex, (ld)Q.v[0].y + s * dy + t * ey), 1 });
    }
    for (int k = 0; k < 4; ++k) {
      const Point64& a = Q.v[k]; const Point64& b = Q.v[(k + 1) & 3];
      ld dx = (ld)b.x - (ld)a.x, dy = (ld)b.y - (ld)a.y, len = sqrtl(dx * dx + dy * dy);
      if (len == 0) continue;
      ld nx = -dy / len, ny = dx / len;
      ld t = srng.real(0.03, 0.97), d1 = srng.real(3.8, 6.8), d2 = srng.real(3.8, 6.8);
      ld px = (ld)a.x + t * dx, py = (ld)a.y + t * dy;
      sp.push_back(S{ rnd_pt(px + d1 * nx, py + d1 * ny), 2 });
      sp.push_back(S{ rnd_pt(px - d2 * nx, py - d2 * ny), 2 });
    }
  }
  // (d) both sides of (a subsample of) the result's own edges: a result edge that is not along a quad edge separates
  // two points of which one is necessarily judged wrong
  {
    std::vector<std::pair<size_t, size_t>> re;
    for (size_t pi = 0; pi < res.size(); ++pi) for (size_t i = 0; i < res[pi].size(); ++i) re.push_back({ pi, i });
    srng.shuffle(re);
    if (re.size() > 64) re.resize(64);
    for (auto& e : re) {
      const Path64& p = res[e.first]; const Point64& a = p[e.second]; const Point64& b = p[(e.second + 1) % p.size()];
      ld dx = (ld)b.x - (ld)a.x, dy = (ld)b.y - (ld)a.y, len = sqrtl(dx * dx + dy * dy);
      if (len == 0) continue;
      ld nx = -dy / len, ny = dx / len, t = srng.real(0.0, 1.0), d = srng.real(3.8, 5.0);
      ld px = (ld)a.x + t * dx, py = (ld)a.y + t * dy;
      sp.push_back(S{ rnd_pt(px + d * nx, py + d * ny), 3 });
      sp.push_back(S{ rnd_pt(px - d * nx, py - d * ny), 3 });
    }
  }
  for (const S& s : sp) {
    const Point64& q = s.q;
    if (in_band(es, q)) { ++V.skipped; if (cnt) ++(*cnt)[std::string("samples_skipped_margin_") + kSrc[s.src]]; continue; }
    bool want = in_some_quad(qs, q);
    bool on = false;
    int w = winding(res, q, &on);
    (want ? V.judged_in : V.judged_out)++;
    if (cnt) ++(*cnt)[std::string("samples_judged_") + kSrc[s.src]];
    if (on || (w != 0) != want) {
      V.bad = true; V.badq = q; V.want = want; if (!want) V.face = classify_face(qs, q);
      V.kind = on ? "sample_on_result_edge" : (want ? "not_covered" : "covered_but_should_not");
      ld dmin = std::numeric_limits<ld>::infinity();
      for (auto& e : es) dmin = std::min(dmin, dist_pt_seg(e.a, e.b, q));
      V.detail = "at (" + std::to_string(q.x) + "," + std::to_string(q.y) + ") [" + kSrc[s.src] + " sample] result winding " + std::to_string(w) +
                 (on ? " (a result edge passes through the point)" : "") + ", point is " + (want ? "inside" : "outside") +
                 " the union of the " + std::to_string(qs.size()) + " parallelograms, distance to nearest parallelogram edge " + ldstr(dmin);
      return V;
    }
  }
  return V;
}

// ---------------------------------------------------------------- PathD overloads
double pow10_exact(int dp) {           // 10^dp: exact for dp >= 0, correctly rounded quotient for dp < 0
  double s = 1; for (int k = 0; k < (dp < 0 ? -dp : dp); ++k) s *= 10.0;
  return dp < 0 ? 1.0 / s : s;
}
// scaled, rounded-to-nearest integer image of a PathD; false if some coordinate is too close to a tie or out of range
bool scale_round(const PathD& p, double scale, Path64& out) {
  out.clear();
  for (auto& pt : p) {
    double sx = pt.x * scale, sy = pt.y * scale;
    if (!(fabs(sx) <= (double)kMaxCoord) || !(fabs(sy) <= (double)kMaxCoord)) return false;
    double rx = nearbyint(sx), ry = nearbyint(sy);
    if (fabs(sx - rx) > 0.499 || fabs(sy - ry) > 0.499) return false;
    out.emplace_back((int64_t)rx, (int64_t)ry);
  }
  return true;
}

std::string mag_tag(const Path64& pat, const Path64& path) {
  Paths64 all{ pat, path }; int64_t M = max_abs_coord(all); int e = 0; while (((int64_t)1 << e) < M) ++e;
  return "mag_le_2^" + std::to_string(e);
}

void judge(Ctx& ctx, const Case& c, bool from_replay) {
  static const Path64 kEmpty;
  const Path64& pat = c.P("pat").empty() ? kEmpty : c.P("pat")[0];
  const Path64& path = c.P("path").empty() ? kEmpty : c.P("path")[0];
  const bool sum = c.geti("sum") != 0, closed = c.geti("closed") != 0;
  const std::string opn = sum ? "sum" : "diff", cl = closed ? "closed" : "open";
  Rng srng((uint64_t)c.geti("sseed", 12345), 19);
  ctx.begin(c);

  Premise pr = premise_of(pat, path, closed);
  Paths64 res = sum ? MinkowskiSum(pat, path, closed) : MinkowskiDiff(pat, path, closed);
  ctx.evaluated();
  ctx.count("calls_" + opn + "_" + cl);

  bool nontrivial = false;
  if (c.geti("long", 0) != 0 && pr.ok) {
    // long paths (thousands of points): the full sampler is quadratic in the number of parallelograms, so only the
    // "inside" half of the claim is checked, at one sample per path edge: the centroid of the parallelogram of that path
    // edge and one pattern edge lies in the union by definition; it must be covered unless it is within the margin of
    // some parallelogram edge. One lost or misplaced strip anywhere along the path leaves such a point uncovered.
    std::vector<Quad> qs; std::vector<QEdge> es;
    build_quads(pat, path, sum, closed, qs); build_edges(qs, es);
    const size_t np = pat.size(), nedges = closed ? path.size() : path.size() - 1;
    long long judged = 0, skipped = 0;
    ctx.count("long_path_calls"); ctx.cmax("max_long_path_points", (long long)path.size()); ctx.count("long_path_parallelograms", (long long)qs.size());
    if (qs.size() == np * nedges) {
      for (size_t e = 0; e < nedges; ++e) {
        // two of this path edge's parallelograms
        for (int t = 0; t < 2; ++t) {
          const Quad& Q = qs[e * np + (size_t)srng.irange(0, (int)np - 1)];   // build_quads: path edge major
          if (Q.flat) continue;
          Point64 q = rnd_pt(0.5L * ((ld)Q.v[0].x + (ld)Q.v[2].x), 0.5L * ((ld)Q.v[0].y + (ld)Q.v[2].y));
          if (in_band(es, q)) { ++skipped; continue; }
          bool on = false; int w = winding(res, q, &on); ++judged;
          if (on || w == 0) {
            ctx.violation("C19.region", { "not_covered", "long_path", opn, cl, mag_tag(pat, path) }, c,
              "Minkowski" + opn + "(" + cl + ") of a " + std::to_string(path.size()) + "-point path: the centre (" + std::to_string(q.x) + "," + std::to_string(q.y) + ") of one of the parallelograms is not covered by the result");
            return;
          }
        }
      }
    }
    ctx.count("long_path_centres_judged", judged); ctx.count("long_path_centres_skipped_by_margin", skipped);
    if (!from_replay) ctx.note_case(c, judged >= 100);
    return;
  }
  if (pr.empty_in) {
    ctx.count("empty_input_calls");
    if (!res.empty()) {
      ctx.violation("C19.empty_input", { pat.empty() ? "empty_pattern" : "empty_path", opn, cl }, c,
        "Minkowski" + opn + " returned " + std::to_string(res.size()) + " paths for an empty " + (pat.empty() ? "pattern" : "path"));
      return;
    }
  } else if (!pr.ok) {
    // outside the property's quantifier: executed, described, never judged
    ctx.count("excluded_" + pr.why);
    ctx.count(res.empty() ? "excluded_result_empty" : "excluded_result_nonempty");
    RegionVerdict V = judge_region(pat, path, sum, closed, res, srng, nullptr);
    ctx.count("excluded_diag_samples", V.judged_in + V.judged_out);
    if (V.bad) ctx.count("excluded_diag_oracle_disagrees_(not_a_violation)");
  } else {
    std::map<std::string, long long> cnt;
    RegionVerdict V = judge_region(pat, path, sum, closed, res, srng, &cnt);
    for (auto& e : cnt) ctx.count(e.first, e.second);
    ctx.count("samples_judged_inside", V.judged_in);
    ctx.count("samples_judged_outside", V.judged_out);
    ctx.count("samples_skipped_by_margin", V.skipped);
    ctx.count("premise_ok_calls");
    ctx.count(mag_tag(pat, path));
    ctx.count("kind_pat" + std::to_string(c.geti("pkind", -1)) + "_path" + std::to_string(c.geti("akind", -1)));
    ctx.count("pattern_vertices_" + std::to_string(pat.size()));
    ctx.count("path_vertices_" + std::to_string(path.size()));
    const bool near = V.near_touch < 1.0L;
    if (near) ctx.count("calls_with_quad_corner_within_1_unit_of_foreign_quad_edge");
    if (V.bad) {
      // classifiers: (1) some quad corner lies less than one unit beside (not on) an edge of another quad (anywhere);
      // (2) the face of the wrongly covered point (classify_face): walled in = a hole of the true union was filled,
      // number of walls, triangular and pinched at a near-touch corner;
      // (3) some pattern edge runs parallel to some path edge (zero-area parallelogram among the quads)
      std::vector<Quad> qs; build_quads(pat, path, sum, closed, qs);
      bool flat = false; for (auto& Q : qs) flat = flat || Q.flat;
      const std::string nt = near ? "quad_corner_within_1_unit_of_foreign_quad_edge" : "no_quad_corner_within_1_unit_of_foreign_quad_edge";
      std::vector<std::string> tags = { V.kind, nt, opn, cl,
        flat ? "has_parallel_pattern_and_path_edges" : "no_parallel_edges", mag_tag(pat, path) };
      if (V.face.walled) {
        tags.push_back("hole_of_union_filled");
        tags.push_back("hole_with_" + std::to_string(V.face.nwalls) + "_walls");
        if (V.face.pinched) tags.push_back("triangular_hole_pinched_at_near_touch_corner_filled");
      }
      ctx.violation("C19.region", tags, c,
        "Minkowski" + opn + "(" + cl + "): " + V.detail + "; smallest non-zero distance of a parallelogram corner to a foreign parallelogram edge " + ldstr(V.near_touch));
      return;
    }
    nontrivial = V.judged_in >= 5 && V.judged_out >= 5;
    if (!nontrivial) ctx.count("premise_ok_but_fewer_than_5+5_samples");
  }

  // PathD overload against the Path64 call on the scaled, rounded inputs (subsample)
  if (c.geti("dcheck")) {
    static const PathD kEmptyD;
    const PathD& patd = c.D("patd").empty() ? kEmptyD : c.D("patd")[0];
    const PathD& pathd = c.D("pathd").empty() ? kEmptyD : c.D("pathd")[0];
    const int dp = (int)c.geti("dp");
    const double scale = pow10_exact(dp);
    Path64 p64, a64;
    if (dp < -8 || dp > 8 || !scale_round(patd, scale, p64) || !scale_round(pathd, scale, a64)) ctx.count("pathd_skipped_tie_or_range");
    else {
      PathsD rd = sum ? MinkowskiSum(patd, pathd, closed, dp) : MinkowskiDiff(patd, pathd, closed, dp);
      Paths64 ri = sum ? MinkowskiSum(p64, a64, closed) : MinkowskiDiff(p64, a64, closed);
      ctx.evaluated();
      ctx.count("pathd_calls_compared");
      ctx.count("pathd_dp_" + std::to_string(dp));
      if (!ri.empty()) ctx.count("pathd_calls_compared_nonempty");
      if ((patd.empty() || pathd.empty()) && !rd.empty()) {
        ctx.violation("C19.empty_input", { "pathd", patd.empty() ? "empty_pattern" : "empty_path", opn, cl }, c, "PathD overload: non-empty result for an empty input");
        return;
      }
      std::string why;
      if (rd.size() != ri.size()) why = "path count " + std::to_string(rd.size()) + " vs " + std::to_string(ri.size());
      const double inv = 1.0 / scale;
      long long pts = 0;
      for (size_t k = 0; k < rd.size() && why.empty(); ++k) {
        if (rd[k].size() != ri[k].size()) { why = "path " + std::to_string(k) + " has " + std::to_string(rd[k].size()) + " vs " + std::to_string(ri[k].size()) + " vertices"; break; }
        for (size_t v = 0; v < rd[k].size(); ++v) {
          ++pts;
          // documented map back v*(1/scale); v/scale (within 1 ulp of it) is accepted as well
          double ex1 = (double)ri[k][v].x * inv, ex2 = (double)ri[k][v].x / scale, ey1 = (double)ri[k][v].y * inv, ey2 = (double)ri[k][v].y / scale;
          if ((rd[k][v].x != ex1 && rd[k][v].x != ex2) || (rd[k][v].y != ey1 && rd[k][v].y != ey2)) {
            char b[200]; snprintf(b, sizeof b, "path %zu vertex %zu is (%.17g,%.17g), integer call gives (%lld,%lld)*10^%d", k, v, rd[k][v].x, rd[k][v].y,
                                  (long long)ri[k][v].x, (long long)ri[k][v].y, -dp);
            why = b; break;
          }
        }
      }
      ctx.count("pathd_vertices_compared", pts);
      if (!why.empty()) {
        ctx.violation("C19.pathd_equals_scaled_int_call", { opn, cl, "dp_" + std::to_string(dp) }, c,
          "Minkowski" + opn + "(PathD, dp=" + std::to_string(dp) + ") differs from the Path64 call on the scaled rounded inputs: " + why);
        return;
      }
    }
  }
  if (!from_replay) ctx.note_case(c, nontrivial);
}

// ---------------------------------------------------------------- generators
const int kMagExp[] = { 9, 12, 16, 20, 24, 30, 36, 40 };   // class "9" is the design probe's magnitude 400
const int kNumMag = 8;

inline int64_t clampc(int64_t v, int64_t M) { return v > M ? M : (v < -M ? -M : v); }
void clamp_path(Path64& p, int64_t M) { for (auto& pt : p) { pt.x = clampc(pt.x, M); pt.y = clampc(pt.y, M); } }
void strip_dups_open(Path64& p) { Path64 r; for (auto& pt : p) if (r.empty() || !(r.back() == pt)) r.push_back(pt); p.swap(r); }

Path64 gen_pattern(Rng& r, int kind, int n, int64_t cx, int64_t cy, double R) {
  Path64 p;
  switch (kind) {
    case 0: { // convex: points of an ellipse sorted by angle
      std::vector<double> a; for (int i = 0; i < n; ++i) a.push_back(r.real(0, 2 * gen::kPi));
      std::sort(a.begin(), a.end());
      double k = r.real(0.3, 1.0), rot = r.real(0, gen::kPi);
      for (double t : a) { double x = R * cos(t), y = R * k * sin(t);
        p.push_back(Point64(cx + (int64_t)llround(x * cos(rot) - y * sin(rot)), cy + (int64_t)llround(x * sin(rot) + y * cos(rot)))); }
      break; }
    case 1: p = gen::star_shaped(r, cx, cy, R, n, 0.3, 1.0, true); break;                       // non-convex, simple
    case 2: if (n >= 5) p = gen::star_polygon(r, cx, cy, R, n, 2); else p = gen::random_poly(r, cx, cy, (int64_t)R, n); break; // self-intersecting
    case 3: p = gen::random_poly(r, cx, cy, (int64_t)R, n); break;                               // anything
    default: { // 4: brushes: box, diamond, regular polygon (edges parallel to axis-parallel path edges)
      int64_t Ri = std::max<int64_t>(2, (int64_t)R), h = std::max<int64_t>(1, (int64_t)(R * r.real(0.2, 1.0)));
      int w = r.irange(0, 2);
      if (w == 0) p = gen::box(cx - Ri, cy - h, cx + Ri, cy + h);
      else if (w == 1) p = Path64{ Point64(cx + Ri, cy), Point64(cx, cy + h), Point64(cx - Ri, cy), Point64(cx, cy - h) };
      else for (int i = 0; i < n; ++i) p.push_back(Point64(cx + (int64_t)llround(R * cos(2 * gen::kPi * i / n)), cy + (int64_t)llround(R * sin(2 * gen::kPi * i / n))));
      break; }
  }
  if (r.coin()) std::reverse(p.begin(), p.end());
  return p;
}

Path64 gen_path(Rng& r, int kind, int n, int64_t cx, int64_t cy, double R) {
  Path64 p; int64_t Ri = std::max<int64_t>(2, (int64_t)R);
  switch (kind) {
    case 0: p = gen::polyline(r, cx, cy, Ri, n); break;
    case 1: p = gen::star_shaped(r, cx, cy, R, std::max(3, n), 0.4, 1.0, r.coin()); if ((int)p.size() > n && n >= 1) p.resize(n); break;
    case 2: { // walk with bounded turning
      double x = cx + r.real(-R, R) * 0.5, y = cy + r.real(-R, R) * 0.5, th = r.real(0, 2 * gen::kPi);
      for (int i = 0; i < n; ++i) { p.push_back(Point64((int64_t)llround(x), (int64_t)llround(y)));
        th += r.real(-1.3, 1.3); double st = R * r.real(0.15, 0.6); x += st * cos(th); y += st * sin(th); }
      break; }
    default: { // 3: axis-parallel steps
      int64_t x = cx + r.range(-Ri / 2, Ri / 2), y = cy + r.range(-Ri / 2, Ri / 2); bool hz = r.coin();
      for (int i = 0; i < n; ++i) { p.push_back(Point64(x, y)); int64_t st = r.range(-Ri, Ri); if (hz) x += st; else y += st; hz = !hz; }
      break; }
  }
  return p;
}

} // namespace

void vf_case(Ctx& ctx, uint64_t i) {
  Rng& r = ctx.rng;
  const int magexp = kMagExp[i % kNumMag];
  const int64_t M = magexp == 9 ? 400 : (int64_t)1 << magexp;
  Case c;
  c.seti("sum", (i / kNumMag) % 2 == 0); c.seti("closed", r.coin()); c.seti("mag", magexp);
  c.seti("sseed", (long long)(r.next() >> 2));
  // scales: the pattern is usually the smaller operand
  double Rp = std::max(12.0, (double)M * pow(10.0, -r.real(0.0, 2.6)));
  double Ra = std::max(24.0, (double)M * pow(10.0, -r.real(0.0, 1.6)));
  Rp = std::min(Rp, (double)M * 0.95); Ra = std::min(Ra, (double)M * 0.95);
  int64_t roomp = M - (int64_t)Rp - 1, rooma = M - (int64_t)Ra - 1;
  int64_t pcx = 0, pcy = 0; if (r.chance(0.4)) { pcx = r.range(-roomp, roomp); pcy = r.range(-roomp, roomp); }
  int64_t acx = r.range(-rooma, rooma), acy = r.range(-rooma, rooma);
  int pkind = r.chance(0.1) ? 4 : r.irange(0, 3), akind = r.chance(0.1) ? 3 : r.irange(0, 2);
  int pn = r.irange(3, 8), an = r.irange(1, 10);
  Path64 pat = gen_pattern(r, pkind, pn, pcx, pcy, Rp), path = gen_path(r, akind, an, acx, acy, Ra);
  // nearly parallel long edges: one path edge is a pattern edge plus a tiny perturbation, so their parallelogram is a
  // needle (long, a few to a few thousand units thick) - not degenerate, but any "is this quad empty / is the cross
  // product zero" shortcut taken in floating point decides it wrongly
  if (r.chance(0.06) && pat.size() >= 3 && path.size() >= 2 && magexp >= 20) {
    size_t pe = (size_t)r.irange(0, (int)pat.size() - 1); Point64 pa = pat[pe], pb = pat[(pe + 1) % pat.size()];
    int64_t ex = pb.x - pa.x, ey = pb.y - pa.y;
    if ((ex < 0 ? -ex : ex) + (ey < 0 ? -ey : ey) >= M / 64) {
      size_t ae = (size_t)r.irange(0, (int)path.size() - 2);
      int64_t pert = (int64_t)1 << r.irange(1, 13);
      Point64 nb(path[ae].x + ex + r.range(-pert, pert), path[ae].y + ey + r.range(-pert, pert));
      if (nb.x >= -M && nb.x <= M && nb.y >= -M && nb.y <= M) { path[ae + 1] = nb; ctx.count("cases_with_a_nearly_parallel_long_edge_pair"); }
    }
  }
  // long paths (1 case in 2500): 1500-9000 points on a convex arc with steps much longer than the pattern, so that every
  // strip matters; exercises any size-dependent code path of the implementation (sectioning, batching, reserve sizes)
  if (i % 2500 == 1777 && magexp >= 30) {
    // one long case in three is "very long" (9000-14000 points, pattern of 6-8 points: 54000-112000 parallelograms; a first
    // version with up to 30000 points overran the per-case watchdog at seed 2): thresholds on the number
    // of parallelograms rather than on the number of path points (round 4, r4_c19_1: 65536 / pattern length)
    const bool very = (i / 2500) % 3 == 1;
    const int K = very ? r.irange(9000, 14000) : (int)std::exp(r.real(std::log(1500.0), std::log(9000.0)));
    if (very) ctx.count("cases_with_a_very_long_path");
    const double step = r.real(60, 400), curv = r.real(2e-5, 2e-4);
    pat = gen_pattern(r, r.irange(0, 1), very ? r.irange(6, 8) : r.irange(3, 8), 0, 0, r.real(10, 40));
    path.clear(); double x = -0.5 * K * step, y = 0;
    for (int k = 0; k < K; ++k) { x += step * r.real(0.7, 1.3); y = curv * x * x; path.push_back(Point64((int64_t)x + r.range(-3, 3), (int64_t)y + r.range(-3, 3))); }
    c.seti("long", 1); c.seti("closed", r.chance(0.3));
    ctx.count("cases_with_a_long_path");
  }
  clamp_path(pat, M); clamp_path(path, M);
  // special inputs: empties (the property's last sentence) and inputs outside the quantifier (executed, counted, not judged)
  double u = r.unit();
  if (c.geti("long", 0)) u = 1.0;
  if (u < 0.015) pat.clear();
  else if (u < 0.03) path.clear();
  else if (u < 0.035) { pat.clear(); path.clear(); }
  else if (u < 0.045) pat.resize((size_t)r.irange(1, 2));
  else if (u < 0.05) { Point64 a = pat[0], d = Point64(r.range(-9, 9), r.range(-9, 9)); for (size_t k = 0; k < pat.size(); ++k) pat[k] = Point64(a.x + d.x * (int64_t)k, a.y + d.y * (int64_t)k); clamp_path(pat, M); }
  else if (u < 0.055 && path.size() > 1) path.insert(path.begin() + 1, path[0]);
  else {
    strip_dups_closed(pat);
    if (c.geti("closed")) strip_dups_closed(path); else strip_dups_open(path);
  }
  c.seti("pkind", pkind); c.seti("akind", akind);
  // PathD subsample: the double inputs are the integer ones plus a sub-unit fraction, divided by 10^dp
  if ((i / (2 * kNumMag)) % 4 == 0) {
    int dp = r.irange(-3, 8);
    double scale = pow10_exact(dp);
    bool frac = r.coin();
    auto toD = [&](const Path64& p) { PathD d; for (auto& pt : p) d.emplace_back(((double)pt.x + (frac ? r.real(-0.45, 0.45) : 0.0)) / scale, ((double)pt.y + (frac ? r.real(-0.45, 0.45) : 0.0)) / scale); return d; };
    PathD patd = toD(pat), pathd = toD(path);
    Path64 p2, a2;
    if (scale_round(patd, scale, p2) && scale_round(pathd, scale, a2)) {
      if (!(p2 == pat) || !(a2 == path)) ctx.count("pathd_roundtrip_moved_a_vertex");
      pat = p2; path = a2;     // the region oracle then judges exactly the integer call the PathD call is compared with
      c.seti("dcheck", 1); c.seti("dp", dp);
      c.pd["patd"] = PathsD{ patd }; c.pd["pathd"] = PathsD{ pathd };
    } else ctx.count("pathd_generation_rejected");
  }
  c.p64["pat"] = Paths64{ pat }; c.p64["path"] = Paths64{ path };
  judge(ctx, c, false);
}

void vf_replay(Ctx& ctx, const Case& c) { judge(ctx, c, true); }

// self-check of the membership test against the winding number on random small parallelograms (incl. degenerate ones)
void vf_begin(Ctx& ctx) {
  Rng r(20260926, 19);
  long long pts = 0, inside = 0;
  for (int t = 0; t < 4000; ++t) {
    Path64 pat{ Point64(r.range(-6, 6), r.range(-6, 6)), Point64(r.range(-6, 6), r.range(-6, 6)) };
    Path64 path{ Point64(r.range(-6, 6), r.range(-6, 6)), Point64(r.range(-6, 6), r.range(-6, 6)) };
    // a 2-point "pattern" yields the same parallelogram twice; take the first
    std::vector<Quad> qs; build_quads(pat, path, r.coin(), false, qs);
    const Quad& Q = qs[0];
    Path64 qp{ Q.v[0], Q.v[1], Q.v[2], Q.v[3] };
    for (int k = 0; k < 12; ++k) {
      Point64 q(r.range(Q.x0 - 1, Q.x1 + 1), r.range(Q.y0 - 1, Q.y1 + 1));
      bool on = false; int w = winding1(qp, q, &on);
      bool want = !on && w != 0, got = in_quad(Q, q);
      ++pts; inside += got;
      if (want != got || (Q.flat && got)) {
        fprintf(stderr, "mon_c19: membership self-check failed (monitor defect) quad (%lld,%lld)(%lld,%lld)(%lld,%lld)(%lld,%lld) q (%lld,%lld)\n",
                (long long)Q.v[0].x, (long long)Q.v[0].y, (long long)Q.v[1].x, (long long)Q.v[1].y, (long long)Q.v[2].x, (long long)Q.v[2].y,
                (long long)Q.v[3].x, (long long)Q.v[3].y, (long long)q.x, (long long)q.y);
        abort();
      }
    }
  }
  ctx.count("selfcheck_membership_points", pts);
  ctx.count("selfcheck_membership_points_inside", inside);
}
