// mon_c02 — C02: axis-parallel inputs are clipped exactly, whatever their degeneracy.
//
// Oracle (no tolerance anywhere, integer / __int128 arithmetic only):
//   the inputs live on a lattice {x0 + s*i} x {y0 + s*j}; for every unit cell of the inputs' bounding box plus a
//   ring of one cell around it, the winding numbers of subject and clip about the cell centre (all coordinates
//   doubled so that centres are integral) give, through fill rule and set operation, whether the cell is selected.
// Claims (in the order they are judged; one violation per case):
//   C02.execute_true       Execute returned true
//   C02.vertex_provenance  every solution vertex has x equal to some input vertex's x and y equal to some input y
//   C02.cells              winding number of the solution about every cell centre == (selected ? +1 : 0)
//   C02.area               sum of exact doubled shoelace areas of the solution paths == 2*s*s*#selected cells
//
// Two workloads, same judge:  --mode exh  enumerates all ordered pairs of the 100 rectangles of the 4x4 grid
// (case index -> tuple, see exh_case), default mode draws gen::rectilinear_scene scenes (see rnd_case).
// A non-terminating or crashing Execute is reported by the orchestrator as C02.crash (CPU-time watchdog below).
#include "geom.h"
#include "gen.h"
#include "clipper2/clipper.h"
#include <csignal>
#include <sys/time.h>
#include <sys/resource.h>

using namespace vf;
using namespace Clipper2Lib;

namespace {

const int64_t kMaxCoord = (int64_t)1 << 61;   // generated inputs stay within +-2^61 (DESIGN.md 2.5)
const int kMaxCellsPerAxis = 64;              // work bound for replayed witnesses; generated scenes have <= 8

// Hang detection. A case normally takes ~30 microseconds. An Execute that burns kExecuteCpuSeconds of *CPU time* does
// not terminate for practical purposes; CPU time (ITIMER_PROF), unlike the wall-clock watchdog of vf.h (kept as the
// backstop, 90 s), does not advance while a shared machine stalls, so load cannot fire it. Same protocol as vf.h:
// VF-WATCHDOG line + exit status 97; the orchestrator re-runs the case alone and reports C02.crash [watchdog_execute_cpu].
const int kExecuteCpuSeconds = 5;
void on_cpu_alarm(int) {
  static const char msg[] = "VF-WATCHDOG execute_cpu Clipper64::Execute used more than 5 s of CPU time on one rectilinear case\n";
  ssize_t r = write(2, msg, sizeof msg - 1); (void)r;
  _exit(97);
}
void arm_cpu_watchdog(int seconds) {
  struct itimerval it; memset(&it, 0, sizeof it); it.it_value.tv_sec = seconds;
  setitimer(ITIMER_PROF, &it, nullptr);
}

// edge in doubled coordinates relative to the bounding-box corner (x0,y0): |value| <= 2^63, products <= 2^126
struct E2 { i128 ax, ay, bx, by; };

void edges2(const Paths64& pp, int64_t x0, int64_t y0, std::vector<E2>& out) {
  out.clear();
  for (const Path64& p : pp) {
    size_t n = p.size();
    if (n < 2) continue;
    for (size_t i = 0; i < n; ++i) {
      const Point64& a = p[i]; const Point64& b = p[(i + 1) % n];
      E2 e;
      e.ax = 2 * ((i128)a.x - x0); e.ay = 2 * ((i128)a.y - y0);
      e.bx = 2 * ((i128)b.x - x0); e.by = 2 * ((i128)b.y - y0);
      if (e.ax == e.bx && e.ay == e.by) continue;
      out.push_back(e);
    }
  }
}

// sign of (b-a) x (q-a); the two products are compared, never subtracted, so nothing can overflow
inline int side(const E2& e, i128 qx, i128 qy) {
  i128 l = (e.bx - e.ax) * (qy - e.ay), r = (e.by - e.ay) * (qx - e.ax);
  return (l > r) - (l < r);
}

// winding number of the closed paths about q (doubled relative coordinates); on_edge: q lies on an edge
int winding2(const std::vector<E2>& es, i128 qx, i128 qy, bool& on_edge) {
  int w = 0;
  for (const E2& e : es) {
    bool up = e.ay <= qy && e.by > qy, down = e.ay > qy && e.by <= qy;
    bool flat_through = e.ay == qy && e.by == qy;
    if (!up && !down && !flat_through) continue;
    if (flat_through) {
      if (std::min(e.ax, e.bx) <= qx && qx <= std::max(e.ax, e.bx)) on_edge = true;
      continue;
    }
    int s = side(e, qx, qy);
    if (s == 0) { on_edge = true; continue; }   // q.y in [min,max) of the edge and collinear => on the edge
    if (up) { if (s > 0) ++w; } else { if (s < 0) --w; }
  }
  return w;
}

std::string i128str(i128 v) {
  if (v == 0) return "0";
  bool neg = v < 0; u128 u = neg ? (u128)0 - (u128)v : (u128)v;
  std::string s; while (u) { s += (char)('0' + (int)(u % 10)); u /= 10; }
  if (neg) s += '-';
  std::reverse(s.begin(), s.end()); return s;
}

struct Degeneracy { bool overlap = false, vertex_on_edge = false, spike = false, repeated_vertex = false, coincident_vertices = false; };

// exact classification of the lattice degeneracies of the input (DESIGN.md C02: non-trivial = two input edges
// coincide or overlap, or a corner touches an edge)
Degeneracy classify(const Paths64& all) {
  Degeneracy d;
  struct Ed { Point64 a, b; size_t path, idx, n; };
  std::vector<Ed> es;
  for (size_t pi = 0; pi < all.size(); ++pi) {
    const Path64& p = all[pi]; size_t n = p.size();
    if (n < 2) continue;
    for (size_t i = 0; i < n; ++i) {
      if (p[i] == p[(i + 1) % n]) { d.repeated_vertex = true; continue; }
      es.push_back(Ed{ p[i], p[(i + 1) % n], pi, i, n });
    }
  }
  // collinear overlap of positive length between two distinct edges (adjacent ones included: a spike)
  for (size_t i = 0; i < es.size(); ++i)
    for (size_t j = i + 1; j < es.size(); ++j) {
      const Ed& e = es[i]; const Ed& f = es[j];
      bool eh = e.a.y == e.b.y, fh = f.a.y == f.b.y;
      if (eh != fh) continue;
      if (eh) {
        if (e.a.y != f.a.y) continue;
        int64_t lo = std::max(std::min(e.a.x, e.b.x), std::min(f.a.x, f.b.x)), hi = std::min(std::max(e.a.x, e.b.x), std::max(f.a.x, f.b.x));
        if (lo < hi) { d.overlap = true; if (e.path == f.path && (j == i + 1 || (i == 0 && f.idx == f.n - 1))) d.spike = true; }
      } else {
        if (e.a.x != f.a.x) continue;
        int64_t lo = std::max(std::min(e.a.y, e.b.y), std::min(f.a.y, f.b.y)), hi = std::min(std::max(e.a.y, e.b.y), std::max(f.a.y, f.b.y));
        if (lo < hi) { d.overlap = true; if (e.path == f.path && (j == i + 1 || (i == 0 && f.idx == f.n - 1))) d.spike = true; }
      }
    }
  // a vertex on an edge that is not one of the edges incident to that vertex occurrence
  for (size_t pi = 0; pi < all.size(); ++pi) {
    const Path64& p = all[pi]; size_t n = p.size();
    for (size_t i = 0; i < n; ++i) {
      const Point64& v = p[i];
      for (const Ed& e : es) {
        if (e.path == pi && (e.idx == i || (e.idx + 1) % e.n == i)) continue;
        bool on;
        if (e.a.y == e.b.y) on = v.y == e.a.y && std::min(e.a.x, e.b.x) <= v.x && v.x <= std::max(e.a.x, e.b.x);
        else on = v.x == e.a.x && std::min(e.a.y, e.b.y) <= v.y && v.y <= std::max(e.a.y, e.b.y);
        if (!on) continue;
        // the edges incident to a repeated copy of the same vertex do not count
        if (e.path == pi && (v == e.a || v == e.b)) {
          bool adjacent_copy = false;
          for (size_t k = 1; k < n; ++k) { // walk over consecutive duplicates of v in both directions
            if (!(p[(i + k) % n] == v)) break;
            if (e.idx == (i + k) % n) adjacent_copy = true;
          }
          for (size_t k = 1; k < n; ++k) {
            if (!(p[(i + n - k) % n] == v)) break;
            if ((e.idx + 1) % e.n == (i + n - k) % n) adjacent_copy = true;
          }
          if (adjacent_copy) continue;
        }
        d.vertex_on_edge = true;
        if (v == e.a || v == e.b) d.coincident_vertices = true;
      }
    }
  }
  return d;
}

void judge(Ctx& ctx, const Case& c, bool from_replay) {
  const Paths64& S = c.P("S"); const Paths64& C = c.P("C");
  const int ct = (int)c.geti("ct"), fr = (int)c.geti("fr");
  const bool pc = c.geti("pc") != 0;
  const int64_t s = (int64_t)c.geti("s", 1);
  Paths64 in = concat(S, C);

  // ---- premises (exact filters; generated cases always pass, a hand-made witness may not)
  if (ct < 1 || ct > 4 || fr < 0 || fr > 3 || s < 1) { ctx.count("premise_rejected_bad_configuration"); return; }
  int64_t x0 = 0, y0 = 0, x1 = 0, y1 = 0; bool any = false;
  bounds(in, x0, y0, x1, y1, any);
  if (!any) { ctx.count("premise_rejected_no_input_vertex"); return; }
  if (x0 < -kMaxCoord || y0 < -kMaxCoord || x1 > kMaxCoord || y1 > kMaxCoord) { ctx.count("premise_rejected_out_of_range"); return; }
  for (const Path64& p : in) {
    size_t n = p.size();
    for (size_t i = 0; i < n; ++i) {
      const Point64& a = p[i]; const Point64& b = p[(i + 1) % n];
      if (a.x != b.x && a.y != b.y) { ctx.count("premise_rejected_not_axis_parallel"); return; }
      if (((i128)a.x - x0) % s != 0 || ((i128)a.y - y0) % s != 0) { ctx.count("premise_rejected_off_lattice"); return; }
    }
  }
  const i128 nx128 = ((i128)x1 - x0) / s, ny128 = ((i128)y1 - y0) / s;
  if (nx128 > kMaxCellsPerAxis || ny128 > kMaxCellsPerAxis) { ctx.count("premise_rejected_too_many_cells"); return; }
  const int nx = (int)nx128, ny = (int)ny128;

  ctx.begin(c);
  Clipper64 clipper;
  clipper.PreserveCollinear(pc);
  clipper.AddSubject(S);
  clipper.AddClip(C);
  Paths64 sol;
  arm_cpu_watchdog(c.geti("deepk") > 0 ? 12 * kExecuteCpuSeconds : kExecuteCpuSeconds);   // (deep-multiplicity scenes: see rnd_case)
  bool ok = clipper.Execute((ClipType)ct, (FillRule)fr, sol);
  arm_cpu_watchdog(0);
  ctx.evaluated();

  const std::string cfgs = "ct" + std::to_string(ct) + "_fr" + std::to_string(fr) + "_pc" + std::to_string((int)pc);
  std::vector<std::string> ctxtags = { cfgs, s >= ((int64_t)1 << 53) ? "scale_ge_2^53" : "scale_lt_2^53" };
  if (c.geti("bigoff")) ctxtags.push_back("big_offset");
  auto tags = [&](std::initializer_list<std::string> t) { std::vector<std::string> v(t); v.insert(v.end(), ctxtags.begin(), ctxtags.end()); return v; };

  bool bad = false;
  do {
    // ---- claim 4
    if (!ok) { ctx.violation("C02.execute_true", tags({ "execute_false" }), c, "Execute returned false"); bad = true; break; }

    // ---- claim 3: vertex provenance
    std::vector<int64_t> xs, ys;
    for (auto& p : in) for (auto& pt : p) { xs.push_back(pt.x); ys.push_back(pt.y); }
    std::sort(xs.begin(), xs.end()); xs.erase(std::unique(xs.begin(), xs.end()), xs.end());
    std::sort(ys.begin(), ys.end()); ys.erase(std::unique(ys.begin(), ys.end()), ys.end());
    long long nverts = 0;
    for (size_t pi = 0; pi < sol.size() && !bad; ++pi)
      for (const Point64& pt : sol[pi]) {
        ++nverts;
        bool okx = std::binary_search(xs.begin(), xs.end(), pt.x), oky = std::binary_search(ys.begin(), ys.end(), pt.y);
        if (!okx || !oky) {
          ctx.violation("C02.vertex_provenance", tags({ !okx && !oky ? "x_and_y_foreign" : (!okx ? "x_foreign" : "y_foreign") }), c,
            "solution path " + std::to_string(pi) + " has vertex (" + std::to_string(pt.x) + "," + std::to_string(pt.y) + ") whose " +
            (!okx ? "x" : "y") + " is not a coordinate of any input vertex");
          bad = true; break;
        }
      }
    ctx.count("solution_vertices_checked", nverts);
    ctx.count("solution_paths_total", (long long)sol.size());
    // order-sensitive fingerprint of everything the library returned (lets two builds / two trees be compared from the evidence)
    ctx.count("solution_fingerprint_sum", (long long)(hash_paths(sol) & 0xFFFFFFFFull));
    if (bad) break;

    // ---- claim 1: every cell of the bounding box and of the ring around it
    // (all solution vertices are now known to lie inside the input bounding box, so the doubled relative
    //  coordinates below are bounded by 2^63 + 2*s and every product by 2^127)
    std::vector<E2> es, ec, eo;
    edges2(S, x0, y0, es); edges2(C, x0, y0, ec); edges2(sol, x0, y0, eo);
    long long cells = 0, selected = 0, unjudged = 0;
    for (int j = -1; j <= ny && !bad; ++j)
      for (int i = -1; i <= nx; ++i) {
        i128 qx = (i128)s * (2 * i + 1), qy = (i128)s * (2 * j + 1);
        bool on_in = false;
        int ws = winding2(es, qx, qy, on_in), wc = winding2(ec, qx, qy, on_in);
        if (on_in) { ctx.count("oracle_cell_centre_on_input_edge"); continue; }   // impossible for lattice inputs
        bool sel = setop(filled(ws, fr), filled(wc, fr), ct);
        if (sel) ++selected;
        bool on_sol = false;
        int got = winding2(eo, qx, qy, on_sol);
        if (on_sol) { ++unjudged; continue; }   // a solution edge through a cell centre: coverage there is not defined by a point
        ++cells;
        int expect = sel ? 1 : 0;
        if (got != expect) {
          bool ring = i < 0 || j < 0 || i >= nx || j >= ny;
          ctx.violation("C02.cells", tags({ expect == 0 ? "covered_but_should_not" : (got == 0 ? "not_covered" : "wrong_multiplicity"), ring ? "cell_outside_bbox" : "cell_inside_bbox" }), c,
            "cell (" + std::to_string(i) + "," + std::to_string(j) + ") of the lattice origin (" + std::to_string(x0) + "," + std::to_string(y0) + ") step " + std::to_string(s) +
            ": subject winding " + std::to_string(ws) + ", clip winding " + std::to_string(wc) + ", solution winding " + std::to_string(got) + ", expected " + std::to_string(expect));
          bad = true; break;
        }
      }
    ctx.count("cells_judged", cells);
    ctx.count("cells_selected", selected);
    if (unjudged) ctx.count("cells_unjudged_centre_on_solution_edge", unjudged);
    if (bad) break;

    // ---- claim 2: exact area
    i128 a2 = area2(sol);
    i128 want = 2 * (i128)s * (i128)s * (i128)selected;
    ctx.count("areas_compared");
    if (a2 != want) {
      ctx.violation("C02.area", tags({ a2 > want ? "area_too_large" : "area_too_small" }), c,
        "2*Area(solution) = " + i128str(a2) + " but 2*s^2*#selected cells = " + i128str(want) + " (" + std::to_string(selected) + " cells, s = " + std::to_string(s) + ")");
      bad = true; break;
    }
    if (!sol.empty()) ctx.count("solutions_nonempty");
    if (selected > 0) ctx.count("cases_with_selected_cells");
  } while (false);

  ctx.count("cfg_" + cfgs);
  if (!from_replay) {
    Degeneracy d = classify(in);
    bool nontrivial = d.overlap || d.vertex_on_edge;
    if (d.overlap) ctx.count("deg_collinear_overlap");
    if (d.vertex_on_edge) ctx.count("deg_vertex_on_foreign_edge");
    if (d.coincident_vertices) ctx.count("deg_coincident_vertices");
    if (d.spike) ctx.count("deg_spike");
    if (d.repeated_vertex) ctx.count("deg_repeated_vertex");
    if (!nontrivial) ctx.count("cases_without_degeneracy");
    ctx.note_case(c, nontrivial);
  }
}

// ---------------------------------------------------------------- exhaustive small scope
// case index i -> (configuration, ordered rectangle pair, orientation block, scale):
//   i = cfg + 32*(pair + 10000*(block + 4*scale_idx)),  cfg = (ct-1) + 4*fr + 16*pc,  pair = 100*a + b,
//   rectangle k = (x-interval k%10, y-interval k/10) with the 10 intervals [x0,x1], 0 <= x0 < x1 <= 4,
//   orientations (subject, clip) = combination number (block + a + 3*b) mod 4  (bit0: subject clockwise, bit1: clip clockwise)
// so indices [0, 320000) hold every pair x configuration with one orientation combination at scale 1,
// [0, 1280000) all four combinations, and each further 1280000 the same at the next scale of gen::kRectScales.
const int kIv[10][2] = { {0,1},{0,2},{0,3},{0,4},{1,2},{1,3},{1,4},{2,3},{2,4},{3,4} };
const uint64_t kExhPerOrient = 32ull * 10000ull, kExhPerScale = 4 * kExhPerOrient;

void exh_case(Ctx& ctx, uint64_t i) {
  int cfg = (int)(i % 32); uint64_t r = i / 32;
  int pair = (int)(r % 10000); r /= 10000;
  int block = (int)(r % 4); r /= 4;
  int sidx = (int)(r % 7);
  int a = pair / 100, b = pair % 100;
  int oc = (block + a + 3 * b) & 3;
  int64_t s = gen::kRectScales[sidx];
  Path64 ra = gen::box(kIv[a % 10][0], kIv[a / 10][0], kIv[a % 10][1], kIv[a / 10][1], !(oc & 1));
  Path64 rb = gen::box(kIv[b % 10][0], kIv[b / 10][0], kIv[b % 10][1], kIv[b / 10][1], !(oc & 2));
  Case c;
  c.p64["S"] = Paths64{ ra }; c.p64["C"] = Paths64{ rb };
  gen::scale_paths(c.p64["S"], s); gen::scale_paths(c.p64["C"], s);
  c.seti("ct", 1 + (cfg & 3)); c.seti("fr", (cfg >> 2) & 3); c.seti("pc", (cfg >> 4) & 1);
  c.seti("s", s); c.set("mode", "exh"); c.seti("orient", oc);
  ctx.count("exh_cases_judged");
  ctx.count("exh_orient_combination_" + std::to_string(oc));
  ctx.count("exh_scale_" + std::to_string(s));
  judge(ctx, c, false);
}

void rnd_case(Ctx& ctx, uint64_t i) {
  gen::RectScene rs = gen::rectilinear_scene(ctx.rng, 8, 6);
  bool bigoff = false;
  if (rs.s < ((int64_t)1 << 58) && ctx.rng.chance(0.15)) {   // the same lattice somewhere else in the +-2^61 range
    bigoff = true;
    rs.ox = ctx.rng.range(-kMaxCoord, kMaxCoord - rs.s * rs.G);
    rs.oy = ctx.rng.range(-kMaxCoord, kMaxCoord - rs.s * rs.G);
  }
  // deep multiplicity (1 scene in 4000): one path handed over k times, k around 2^7, 2^8, 2^9, 2^10, so that edges of the
  // other path type cross edges whose wind count passes 127/128, 255/256, ...
  int deepk = 0;
  if (i % 4000 == 137 && !rs.subj.empty() && !rs.clip.empty()) {
    static const int ks[] = { 127, 128, 129, 255, 256, 257, 258, 300 };   // (512 copies take 30 s, 1024 minutes: left out)
    deepk = ks[ctx.rng.irange(0, 7)];
    Paths64& tgt = ctx.rng.chance(0.7) ? rs.subj : rs.clip;
    Path64 rep = tgt[(size_t)ctx.rng.irange(0, (int)tgt.size() - 1)];
    // (the sweep's cost grows like k^4..5 when a self-overlapping walk is repeated: 0.5 s at k = 128, minutes at 512; even
    // plain rectangles take 0.9 s at 256 copies, 31 s at 512 - bounded, but not a workload for this check; beyond 129
    // copies the repeated path is a plain rectangle)
    if (deepk > 129 || ctx.rng.chance(0.3)) { int64_t a = ctx.rng.range(0, rs.G - 1), b = ctx.rng.range(a + 1, rs.G), e = ctx.rng.range(0, rs.G - 1), f = ctx.rng.range(e + 1, rs.G); rep = gen::box(a, e, b, f, ctx.rng.coin()); }
    for (int k = 1; k < deepk; ++k) tgt.push_back(rep);
    ctx.count("rnd_scenes_with_a_path_repeated_127_to_300_times");
  }
  gen::scale_paths(rs.subj, rs.s, rs.ox, rs.oy);
  gen::scale_paths(rs.clip, rs.s, rs.ox, rs.oy);
  int cfg = (int)(i % 32);
  if (deepk) cfg = (int)((i / 4000) % 32);
  Case c;
  if (deepk) c.seti("deepk", deepk);
  c.p64["S"] = rs.subj; c.p64["C"] = rs.clip;
  c.seti("ct", 1 + (cfg & 3)); c.seti("fr", (cfg >> 2) & 3); c.seti("pc", (cfg >> 4) & 1);
  c.seti("s", rs.s); c.seti("G", rs.G); c.seti("bigoff", bigoff); c.set("mode", "rnd");
  ctx.count("rnd_scenes_judged");
  ctx.count("rnd_scenes_judged_" + ctx.cfg_name);
  ctx.count("rnd_scale_" + std::to_string(rs.s));
  ctx.count("rnd_G_" + std::to_string(rs.G));
  if (bigoff) ctx.count("rnd_big_offset_scenes");
  judge(ctx, c, false);
}

} // namespace

void vf_begin(Ctx&) {
  signal(SIGPROF, on_cpu_alarm);
  struct rlimit rl; rl.rlim_cur = rl.rlim_max = (rlim_t)6 << 30;   // a runaway Execute must fail, not exhaust the machine
  setrlimit(RLIMIT_AS, &rl);
}

void vf_case(Ctx& ctx, uint64_t i) {
  if (ctx.optstr("mode", "rnd") == "exh") exh_case(ctx, i); else rnd_case(ctx, i);
}

void vf_replay(Ctx& ctx, const Case& c) { judge(ctx, c, true); }
