// c07_stroke.h — reference model of an open-path stroke for mon_c07 (DESIGN.md section 3, C07).
// Shares no code with clipper.offset.cpp: everything is decided from exact __int128 dot/cross products of the input
// polyline and the (integer) sample point, divided in long double and compared with an explicit margin.
//
// Model. The ideal stroke of a path is the union of "pieces":
//   * one rectangle per segment (half-width |delta|), prolonged by |delta| beyond a path end with a Square cap,
//   * one join shape per join vertex on the outer side of the turn (Round: disc sector of radius |delta|; Square and
//     Miter: a polygon that contains that sector and lies in the disc of radius k_j*|delta|, k_j = sqrt2 resp.
//     max(miter_limit, sqrt2); Bevel: a triangle inside the disc of radius |delta|),
//   * one cap per path end (Round: half disc; Square: the prolongation above; Butt: nothing).
//   Joined (>= 3 points): the polyline is closed by the segment last->first, every vertex is a join, there are no ends.
// From that model the monitor uses only implications that hold for every polyline (short segments, self-crossings):
//   MUST be covered (the disc of radius tm about q lies inside the model region)
//     (a) q in a segment's own rectangle shrunk by tm (incl. the Square prolongation),
//     (b) joins not Bevel: dist(q, polyline) <= |delta| - tm, and for Butt caps additionally q farther than |delta| + tm
//         from both end points (a point within |delta| of the polyline is in a rectangle, in an outer join sector, or
//         "behind" a segment start/end, which leads to the neighbouring vertex at a strictly smaller distance; the chain
//         can only stop in a rectangle, a join sector or behind a path end, i.e. in the cap),
//     (c) Round caps: q beyond the end by >= tm and within |delta| - tm of the end point.
//   MUST NOT be covered (q is farther than tm from every piece)
//     q outside every rectangle grown by tm, outside the disc of radius k_j*|delta| + tm about every join vertex and
//     outside the disc of radius |delta| + tm about every Round-capped end. This contains "Butt: nothing beyond an end".
//   Reach: dist(q, polyline) > k*|delta| + tm, k = max(join factor, cap factor).
#ifndef VF_C07_STROKE_H
#define VF_C07_STROKE_H

#include "geom.h"

namespace c07 {
using namespace vf;

enum { JT_SQUARE = 0, JT_BEVEL = 1, JT_ROUND = 2, JT_MITER = 3 };                    // = Clipper2Lib::JoinType
enum { ET_POLYGON = 0, ET_JOINED = 1, ET_BUTT = 2, ET_SQUARE = 3, ET_ROUND = 4 };    // = Clipper2Lib::EndType
static const char* const kJtName[] = { "square", "bevel", "round", "miter" };
static const char* const kEtName[] = { "polygon", "joined", "butt", "square", "round" };
static const ld kSqrt2 = 1.41421356237309504880L;
static const ld kPiL = 3.14159265358979323846L;

// turning angle at b (from a->b to b->c) at most 170 degrees; decided with a margin: cos(turn) >= -0.98480
// (cos 170 = -0.984807753), so angles in (169.9975, 170] are treated as outside the premise (not explored)
inline bool turn_ok(const Point64& a, const Point64& b, const Point64& c) {
  i128 ux = (i128)b.x - a.x, uy = (i128)b.y - a.y, vx = (i128)c.x - b.x, vy = (i128)c.y - b.y;
  i128 dp = ux * vx + uy * vy;
  if (dp >= 0) return true;
  ld lu = sqrtl(to_ld(ux * ux + uy * uy)), lv = sqrtl(to_ld(vx * vx + vy * vy));
  if (lu == 0 || lv == 0) return false;
  return to_ld(dp) / (lu * lv) >= -0.98480L;
}

// premises of one path: no consecutive duplicates, first != last, turning angles (closure joins too when closed)
// returns 0 ok, 1 duplicates, 2 angle
inline int path_premise(const Path64& p, bool closed) {
  size_t n = p.size();
  if (n == 0) return 1;
  for (size_t i = 0; i + 1 < n; ++i) if (p[i] == p[i + 1]) return 1;
  if (n >= 2 && p[0] == p[n - 1]) return 1;
  for (size_t i = 1; i + 1 < n; ++i) if (!turn_ok(p[i - 1], p[i], p[i + 1])) return 2;
  if (closed && n >= 3) {
    if (!turn_ok(p[n - 2], p[n - 1], p[0])) return 2;
    if (!turn_ok(p[n - 1], p[0], p[1])) return 2;
  }
  return 0;
}

struct Params {
  int jt = 0, et = 0;
  ld delta = 0;      // |delta|
  ld t = 0, tm = 0;  // tolerance of the property, and tolerance + own margin
  ld kj = 1;         // join factor
};

enum Kind { K_POINT = 0, K_OPEN = 1, K_CLOSED = 2, K_TWO_JOINED = 3 };

struct PathModel {
  Path64 p;
  Kind kind = K_OPEN;
  int cap = ET_BUTT;         // K_OPEN only
  bool bevel_joins = false;  // there is at least one join and the join type is Bevel
  bool has_joins = false;
  ld k = 1;                  // reach factor of this path
  int64_t bx0 = 0, by0 = 0, bx1 = 0, by1 = 0;
};

inline PathModel make_model(const Path64& p, const Params& pa) {
  PathModel m; m.p = p;
  size_t n = p.size();
  if (n == 1) m.kind = K_POINT;
  else if (pa.et == ET_JOINED) m.kind = n == 2 ? K_TWO_JOINED : K_CLOSED;
  else { m.kind = K_OPEN; m.cap = pa.et; }
  m.has_joins = (m.kind == K_CLOSED) || (m.kind == K_OPEN && n >= 3);
  m.bevel_joins = m.has_joins && pa.jt == JT_BEVEL;
  if (m.kind == K_POINT) m.k = kSqrt2;                    // the corner of the square of "radius" |delta|
  else if (m.kind == K_TWO_JOINED) m.k = pa.jt == JT_ROUND ? 1.0L : std::max(pa.kj, kSqrt2);
  else {
    m.k = m.has_joins ? pa.kj : 1.0L;
    if (m.kind == K_OPEN && m.cap == ET_SQUARE) m.k = std::max(m.k, kSqrt2);
  }
  m.bx0 = m.bx1 = p[0].x; m.by0 = m.by1 = p[0].y;
  for (auto& v : p) { m.bx0 = std::min(m.bx0, v.x); m.bx1 = std::max(m.bx1, v.x); m.by0 = std::min(m.by0, v.y); m.by1 = std::max(m.by1, v.y); }
  return m;
}

inline ld dist_pt(const Point64& a, const Point64& q) { return sqrtl(to_ld(dist2(a, q))); }

// distance from q to the bounding box of the model (0 inside)
inline ld bbox_dist(const PathModel& m, const Point64& q) {
  ld dx = q.x < m.bx0 ? (ld)m.bx0 - (ld)q.x : (q.x > m.bx1 ? (ld)q.x - (ld)m.bx1 : 0);
  ld dy = q.y < m.by0 ? (ld)m.by0 - (ld)q.y : (q.y > m.by1 ? (ld)q.y - (ld)m.by1 : 0);
  return std::max(dx, dy);
}
// gap between two bounding boxes (Chebyshev; <= Euclidean distance of the paths)
inline ld bbox_gap(const PathModel& a, const PathModel& b) {
  ld dx = a.bx1 < b.bx0 ? (ld)b.bx0 - (ld)a.bx1 : (b.bx1 < a.bx0 ? (ld)a.bx0 - (ld)b.bx1 : 0);
  ld dy = a.by1 < b.by0 ? (ld)b.by0 - (ld)a.by1 : (b.by1 < a.by0 ? (ld)a.by0 - (ld)b.by1 : 0);
  return std::max(dx, dy);
}

struct Eval {
  bool must_in = false;       // the property demands "covered"
  const char* why_in = "";    // rect | end_square | within_delta | round_cap | point_disc
  bool may = false;           // q is within tm of some piece (so coverage is not forbidden by the local rule)
  ld d = 0;                   // distance to the (closed, if joined) polyline / the point
  bool near_butt_end = false; // within |delta| + tm of a Butt-capped end point
  bool near_join = false;     // within kj*|delta| + tm of a join vertex
  // single points: what either admissible shape demands (0 nothing, 1 covered, 2 not covered)
  int disc_says = 0, square_says = 0;
};

inline Eval eval_path(const PathModel& m, const Params& pa, const Point64& q) {
  Eval e;
  const ld D = pa.delta, tm = pa.tm;
  const size_t n = m.p.size();
  if (m.kind == K_POINT) {
    const Point64& c = m.p[0];
    e.d = dist_pt(c, q);
    ld cheb = std::max(fabsl((ld)q.x - (ld)c.x), fabsl((ld)q.y - (ld)c.y));
    e.disc_says = e.d <= D - tm ? 1 : (e.d > D + tm ? 2 : 0);
    e.square_says = cheb <= D - tm ? 1 : (cheb > D + tm ? 2 : 0);
    if (e.d <= D - tm) { e.must_in = true; e.why_in = "point_disc"; }     // both admissible shapes contain it
    e.may = cheb <= D + tm;                                                // outside both admissible shapes otherwise
    return e;
  }
  const size_t nseg = m.kind == K_CLOSED ? n : n - 1;
  ld dmin = std::numeric_limits<ld>::infinity();
  bool in_rect = false, in_ext = false;
  for (size_t i = 0; i < nseg; ++i) {
    const Point64& a = m.p[i]; const Point64& b = m.p[(i + 1) % n];
    i128 d2 = dist2(a, b);
    ld len = sqrtl(to_ld(d2));
    ld s = to_ld(dot(a, b, q)) / len;
    i128 cr = cross(a, b, q); if (cr < 0) cr = -cr;
    ld h = to_ld(cr) / len;
    ld dseg = s < 0 ? dist_pt(a, q) : (s > len ? dist_pt(b, q) : h);
    if (dseg < dmin) dmin = dseg;
    ld ext_lo = 0, ext_hi = 0;
    if (m.kind == K_OPEN && m.cap == ET_SQUARE) { if (i == 0) ext_lo = D; if (i + 1 == nseg) ext_hi = D; }
    if (h <= D - tm && s >= tm - ext_lo && s <= len + ext_hi - tm) { in_rect = true; if (s < 0 || s > len) in_ext = true; }
    if (h <= D + tm && s >= -tm - ext_lo && s <= len + tm + ext_hi) e.may = true;
    // Round caps: half disc beyond the end
    if (m.kind == K_OPEN && m.cap == ET_ROUND) {
      if (i == 0 && s <= -tm && dist_pt(a, q) <= D - tm) { e.must_in = true; e.why_in = "round_cap"; }
      if (i + 1 == nseg && s >= len + tm && dist_pt(b, q) <= D - tm) { e.must_in = true; e.why_in = "round_cap"; }
    }
  }
  e.d = dmin;
  const Point64& p0 = m.p[0]; const Point64& pN = m.p[n - 1];
  const ld d0 = dist_pt(p0, q), dN = dist_pt(pN, q);
  if (m.kind == K_OPEN && m.cap == ET_BUTT && (d0 <= D + tm || dN <= D + tm)) e.near_butt_end = true;
  // joins
  if (m.has_joins) {
    size_t jb = m.kind == K_CLOSED ? 0 : 1, je = m.kind == K_CLOSED ? n : n - 1;
    for (size_t i = jb; i < je; ++i) if (dist_pt(m.p[i], q) <= pa.kj * D + tm) { e.may = true; e.near_join = true; break; }
  }
  // caps (upper bound)
  if (m.kind == K_OPEN && m.cap == ET_ROUND && (d0 <= D + tm || dN <= D + tm)) e.may = true;
  if (m.kind == K_TWO_JOINED) { ld r = m.k * D + tm; if (d0 <= r || dN <= r) e.may = true; }
  // lower bound
  if (in_rect) { e.must_in = true; e.why_in = in_ext ? "end_square" : "rect"; }
  else if (!e.must_in) {
    bool disc_rule = false;
    if (m.kind == K_TWO_JOINED) disc_rule = pa.jt == JT_ROUND;
    else if (!m.bevel_joins) {
      if (m.kind == K_CLOSED) disc_rule = true;
      else if (m.cap == ET_BUTT) disc_rule = !e.near_butt_end;
      else disc_rule = true;
    }
    if (disc_rule && dmin <= D - tm) { e.must_in = true; e.why_in = "within_delta"; }
  }
  return e;
}

} // namespace c07
#endif
