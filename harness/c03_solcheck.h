// c03_solcheck.h — reusable checker for closed boolean solutions (property C03, DESIGN.md section 3 "C03").
// Header only; shares no code with the library under test (only the Point64/Path64 typedefs via vf.h).
//
//   check_structural(sol, inputs, check_bbox, f, t)      claims S1 S2 S3   (any input whatsoever)
//   check_geometric(sol, inputs, pc, rev, tol, f, t)     claims G1 .. G6   (general-position or axis-parallel inputs,
//                                                                           |coord| <= 2^40)
//   compare_reunion(sol, reunion, f, t)                  claim  G7         (reunion = Union(sol, NonZero, same pc/rev),
//                                                                           executed by the caller)
// Every function returns true when the claim(s) hold; otherwise `f` carries claim id, classifier tags and detail.
// All verdicts are exact (__int128); long double is used only for the G6 distance, compared with a 0.001 margin.
// Coordinates must stay within 2^61 (structural part) / 2^40 (geometric part; the classifiers double coordinates).
//
// Classifier tags (exact predicates over the witness, tags[0] is the narrowest class):
//   S1  size_<n>                         S2  last_equals_first | interior_duplicate
//   S3  outside_by_1 | outside_by_2 | outside_by_more | no_input_vertex
//   G1  opposite_loops_cancel (the path winds +1 somewhere and -1 elsewhere on its own) | flat_no_interior | one_sided
//   G2  pc_on | pc_off                   G5  straight_through
//   G3  crossing_edge_overlaps_another_solution_edge (one of the two crossing edges is collinear with and overlaps
//       another solution edge over a positive length: a zero-width join) | crossing_edges_overlap_no_other_edge
//   G4  path_has_loops_of_both_orientations | path_winds_one_way
//   G1/G3/G4 also carry "<axis_parallel_input|gp_input>+<class>"
//   G6  within_tol_plus_1 | within_2tol | beyond_2tol
//   G7  same_region_and_solution_has_coincident_vertices | region_differs | no_coincidence
#ifndef VF_C03_SOLCHECK_H
#define VF_C03_SOLCHECK_H

#include "region.h"

namespace vf { namespace c03 {

struct Finding {
  bool bad = false;
  std::string claim;
  std::vector<std::string> tags;
  std::string detail;
  long double value = 0;      // measured quantity where one exists (S3: excess beyond the box, G6: distance)
  void set(const std::string& c, const std::vector<std::string>& t, const std::string& d) { bad = true; claim = c; tags = t; detail = d; }
};

struct Tally {
  long long paths = 0, vertices = 0;
  long long bbox_vertices = 0;
  long long triples = 0, collinear_triples_pc_on = 0;
  long long edge_pairs = 0;
  long long nest_pairs = 0, nest_pairs_tested = 0, nest_skipped_all_on = 0, nest_inconsistent = 0;
  long long g6_vertices = 0, g6_exact_input_vertex = 0;
  long long max_depth = 0;
  long long region_points = 0, region_points_skipped = 0;
};

inline std::string pstr(const Point64& p) { return "(" + std::to_string(p.x) + "," + std::to_string(p.y) + ")"; }

static const char* const kS1 = "C03.S1_three_vertices";
static const char* const kS2 = "C03.S2_no_equal_consecutive";
static const char* const kS3 = "C03.S3_inside_input_bbox";
static const char* const kG1 = "C03.G1_nonzero_area";
static const char* const kG2 = "C03.G2_no_spike";
static const char* const kG3 = "C03.G3_no_proper_crossing";
static const char* const kG4 = "C03.G4_orientation_parity";
static const char* const kG5 = "C03.G5_no_collinear_pc_off";
static const char* const kG6 = "C03.G6_vertex_near_input";
static const char* const kG7 = "C03.G7_reunion_identical";

// ------------------------------------------------------------------ S1 S2 S3
// `what` names the path set in the detail text ("solution" / "reunion").
inline bool check_structural(const Paths64& sol, const Paths64& inputs, bool check_bbox, Finding& f, Tally& t,
                             const std::string& what = "solution") {
  int64_t x0 = 0, y0 = 0, x1 = 0, y1 = 0; bool any = false;
  if (check_bbox) bounds(inputs, x0, y0, x1, y1, any);
  for (size_t pi = 0; pi < sol.size(); ++pi) {
    const Path64& p = sol[pi]; size_t n = p.size();
    ++t.paths; t.vertices += (long long)n;
    if (n < 3) {
      f.set(kS1, { "size_" + std::to_string(n), "in_" + what }, what + " path #" + std::to_string(pi) + " has " + std::to_string(n) + " vertices");
      return false;
    }
    for (size_t i = 0; i < n; ++i)
      if (p[i] == p[(i + 1) % n]) {
        f.set(kS2, { i + 1 == n ? "last_equals_first" : "interior_duplicate", "in_" + what },
              what + " path #" + std::to_string(pi) + " (" + std::to_string(n) + " vertices): vertex " + std::to_string(i) + " equals its successor " + pstr(p[i]));
        return false;
      }
    if (check_bbox)
      for (size_t i = 0; i < n; ++i) {
        ++t.bbox_vertices;
        const Point64& v = p[i];
        if (!any) { f.set(kS3, { "no_input_vertex", "in_" + what }, what + " has vertex " + pstr(v) + " but the input has no vertex at all"); return false; }
        if (v.x < x0 || v.x > x1 || v.y < y0 || v.y > y1) {
          // excess computed in 128 bits
          i128 ex = 0;
          if (v.x < x0) ex = std::max<i128>(ex, (i128)x0 - v.x);
          if (v.x > x1) ex = std::max<i128>(ex, (i128)v.x - x1);
          if (v.y < y0) ex = std::max<i128>(ex, (i128)y0 - v.y);
          if (v.y > y1) ex = std::max<i128>(ex, (i128)v.y - y1);
          f.set(kS3, { ex <= 1 ? "outside_by_1" : (ex <= 2 ? "outside_by_2" : "outside_by_more"), "in_" + what },
                what + " vertex " + pstr(v) + " of path #" + std::to_string(pi) + " lies outside the input bounding box [" +
                std::to_string(x0) + "," + std::to_string(x1) + "]x[" + std::to_string(y0) + "," + std::to_string(y1) + "] by " + ldstr((ld)ex));
          f.value = (ld)ex;
          return false;
        }
      }
  }
  return true;
}

// ------------------------------------------------------------------ helpers
struct Box { int64_t x0, y0, x1, y1; };
inline Box box_of(const Path64& p) {
  Box b{ p[0].x, p[0].y, p[0].x, p[0].y };
  for (auto& v : p) { b.x0 = std::min(b.x0, v.x); b.x1 = std::max(b.x1, v.x); b.y0 = std::min(b.y0, v.y); b.y1 = std::max(b.y1, v.y); }
  return b;
}
inline bool box_in(const Box& a, const Box& b) { return a.x0 >= b.x0 && a.x1 <= b.x1 && a.y0 >= b.y0 && a.y1 <= b.y1; }

// Is path P inside path Q?  Decided with the first vertex of P that is not ON Q (exact winding number of Q != 0).
// returns 1 inside, 0 outside, -1 undecidable (every vertex of P lies on Q). *inconsistent is set when the vertices
// of P that are not on Q do not all agree (diagnostic only).
inline int inside_path(const Path64& P, const Path64& Q, bool* inconsistent = nullptr) {
  int first = -1;
  for (size_t i = 0; i < P.size(); ++i) {
    bool on = false;
    int w = winding1(Q, P[i], &on);
    if (on) continue;
    int in = w != 0 ? 1 : 0;
    if (first < 0) { first = in; if (!inconsistent) return first; }
    else if (in != first) { *inconsistent = true; return first; }
  }
  return first;
}


// ------------------------------------------------------------------ classifiers for G1 / G3 (exact)
// Does edge #ei of path #pi overlap another solution edge collinearly over a positive length (either direction)?
inline bool edge_overlaps_another(const Paths64& sol, size_t pi, size_t ei) {
  const Path64& p = sol[pi]; const Point64& a = p[ei]; const Point64& b = p[(ei + 1) % p.size()];
  bool use_x = a.x != b.x;
  int64_t lo = use_x ? std::min(a.x, b.x) : std::min(a.y, b.y), hi = use_x ? std::max(a.x, b.x) : std::max(a.y, b.y);
  for (size_t qi = 0; qi < sol.size(); ++qi) {
    const Path64& q = sol[qi]; size_t m = q.size(); if (m < 2) continue;
    for (size_t j = 0; j < m; ++j) {
      if (qi == pi && j == ei) continue;
      const Point64& c = q[j]; const Point64& d = q[(j + 1) % m];
      if (cross(a, b, c) != 0 || cross(a, b, d) != 0) continue;
      int64_t lo2 = use_x ? std::min(c.x, d.x) : std::min(c.y, d.y), hi2 = use_x ? std::max(c.x, d.x) : std::max(c.y, d.y);
      if (std::max(lo, lo2) < std::min(hi, hi2)) return true;
    }
  }
  return false;
}
// Signs of the winding numbers the path takes on its own: sample points are the centres of the grid spanned by the
// path's vertex coordinates (computed in doubled coordinates, exact); points on the path are skipped.
// returns bit 1: some point with winding > 0, bit 2: some point with winding < 0.
inline int winding_signs(const Path64& p) {
  std::vector<int64_t> xs, ys; Path64 p2; p2.reserve(p.size());
  for (auto& v : p) { xs.push_back(v.x); ys.push_back(v.y); p2.emplace_back(v.x * 2, v.y * 2); }
  std::sort(xs.begin(), xs.end()); xs.erase(std::unique(xs.begin(), xs.end()), xs.end());
  std::sort(ys.begin(), ys.end()); ys.erase(std::unique(ys.begin(), ys.end()), ys.end());
  int signs = 0;
  for (size_t i = 0; i + 1 < xs.size() && signs != 3; ++i)
    for (size_t j = 0; j + 1 < ys.size() && signs != 3; ++j) {
      Point64 q(xs[i] + xs[i + 1], ys[j] + ys[j + 1]);
      bool on = false; int w = winding1(p2, q, &on);
      if (on) continue;
      if (w > 0) signs |= 1; else if (w < 0) signs |= 2;
    }
  return signs;
}
inline bool is_axis_parallel(const Paths64& pp) {
  for (auto& p : pp) { size_t n = p.size(); for (size_t i = 0; i < n; ++i) { const Point64& a = p[i]; const Point64& b = p[(i + 1) % n]; if (a.x != b.x && a.y != b.y) return false; } }
  return true;
}

// ------------------------------------------------------------------ G1 .. G6
inline bool check_geometric(const Paths64& sol, const Paths64& inputs, bool pc, bool rev, ld tol, Finding& f, Tally& t) {
  const size_t np = sol.size();
  const bool rect_in = is_axis_parallel(inputs);
  // G1 zero area, G2 spike, G5 collinear (PC off)
  for (size_t pi = 0; pi < np; ++pi) {
    const Path64& p = sol[pi]; size_t n = p.size();
    if (n < 3) continue;                       // S1's business
    i128 a2 = area2(p);
    if (a2 == 0) {
      // classifier: the path is a concatenation of loops of both orientations (their areas cancel), or it is flat
      int sg = winding_signs(p);
      std::string kind = sg == 3 ? "opposite_loops_cancel" : (sg == 0 ? "flat_no_interior" : "one_sided");
      f.set(kG1, { kind, std::string(rect_in ? "axis_parallel_input+" : "gp_input+") + kind, "size_" + std::to_string(n) },
            "solution path #" + std::to_string(pi) + " (" + std::to_string(n) + " vertices, first " + pstr(p[0]) + ") has exact area 0 (" + kind + ")");
      return false;
    }
    for (size_t i = 0; i < n; ++i) {
      const Point64& a = p[(i + n - 1) % n]; const Point64& b = p[i]; const Point64& c = p[(i + 1) % n];
      ++t.triples;
      if (cross(a, b, c) != 0) continue;
      bool reversal = dot(b, a, c) > 0;        // a and c on the same side of b
      if (reversal) {
        f.set(kG2, { pc ? "pc_on" : "pc_off", n == 3 ? "triangle" : "size_gt_3" },
              "solution path #" + std::to_string(pi) + ": 180-degree spike " + pstr(a) + " -> " + pstr(b) + " -> " + pstr(c));
        return false;
      }
      if (!pc) {
        f.set(kG5, { "straight_through" },
              "PreserveCollinear off but solution path #" + std::to_string(pi) + " has collinear consecutive vertices " + pstr(a) + " -> " + pstr(b) + " -> " + pstr(c));
        return false;
      }
      ++t.collinear_triples_pc_on;
    }
  }
  // G3 proper crossings, all pairs of solution edges
  {
    struct E { Point64 a, b; size_t path, idx, n; int64_t x0, y0, x1, y1; };
    std::vector<E> es;
    for (size_t pi = 0; pi < np; ++pi) {
      const Path64& p = sol[pi]; size_t n = p.size(); if (n < 2) continue;
      for (size_t i = 0; i < n; ++i) {
        const Point64& a = p[i]; const Point64& b = p[(i + 1) % n];
        es.push_back(E{ a, b, pi, i, n, std::min(a.x, b.x), std::min(a.y, b.y), std::max(a.x, b.x), std::max(a.y, b.y) });
      }
    }
    for (size_t i = 0; i < es.size(); ++i)
      for (size_t j = i + 1; j < es.size(); ++j) {
        const E& e = es[i]; const E& g = es[j];
        ++t.edge_pairs;
        if (e.x1 < g.x0 || g.x1 < e.x0 || e.y1 < g.y0 || g.y1 < e.y0) continue;
        if (!proper_cross(e.a, e.b, g.a, g.b)) continue;
        std::string kind = e.path != g.path ? "different_paths"
                         : ((g.idx - e.idx == 2 || e.idx + e.n - g.idx == 2) ? "same_path_next_but_one" : "same_path_far");
        bool ov = edge_overlaps_another(sol, e.path, e.idx) || edge_overlaps_another(sol, g.path, g.idx);
        std::string okind = ov ? "crossing_edge_overlaps_another_solution_edge" : "crossing_edges_overlap_no_other_edge";
        f.set(kG3, { okind, std::string(rect_in ? "axis_parallel_input+" : "gp_input+") + okind, kind }, "solution edges " + pstr(e.a) + "-" + pstr(e.b) + " (path #" + std::to_string(e.path) + " edge " + std::to_string(e.idx) +
              ") and " + pstr(g.a) + "-" + pstr(g.b) + " (path #" + std::to_string(g.path) + " edge " + std::to_string(g.idx) + ") properly cross");
        return false;
      }
  }
  // G4 orientation == parity of nesting depth (negated by ReverseSolution)
  {
    std::vector<Box> bx(np);
    for (size_t pi = 0; pi < np; ++pi) if (!sol[pi].empty()) bx[pi] = box_of(sol[pi]);
    for (size_t pi = 0; pi < np; ++pi) {
      const Path64& P = sol[pi]; if (P.size() < 3) continue;
      int depth = 0; bool undecided = false;
      for (size_t qi = 0; qi < np; ++qi) {
        if (qi == pi || sol[qi].size() < 3) continue;
        ++t.nest_pairs;
        if (!box_in(bx[pi], bx[qi])) continue;     // a path inside Q has its box inside Q's box
        ++t.nest_pairs_tested;
        bool inc = false;
        int in = inside_path(P, sol[qi], &inc);
        if (inc) ++t.nest_inconsistent;
        if (in < 0) { ++t.nest_skipped_all_on; undecided = true; break; }
        depth += in;
      }
      if (undecided) continue;
      if (depth > t.max_depth) t.max_depth = depth;
      bool positive = area2(P) > 0;
      bool expect_positive = ((depth & 1) == 0) != rev;
      if (positive != expect_positive) {
        // classifier: a path that winds both ways on its own (loops of both orientations joined into one path)
        // has no well-defined orientation; anything else is a plain orientation/nesting error
        std::string okind = winding_signs(P) == 3 ? "path_has_loops_of_both_orientations" : "path_winds_one_way";
        f.set(kG4, { okind, std::string(rect_in ? "axis_parallel_input+" : "gp_input+") + okind, std::string(rev ? "rev_on" : "rev_off"), "depth_" + std::to_string(depth), np == 1 ? "single_path" : "several_paths" },
              "solution path #" + std::to_string(pi) + " (first vertex " + pstr(P[0]) + ", " + std::to_string(P.size()) + " vertices) is " +
              (positive ? "positively" : "negatively") + " oriented but lies inside " + std::to_string(depth) + " other solution path(s); ReverseSolution=" + (rev ? "1" : "0"));
        return false;
      }
    }
  }
  // G6 every vertex within tol (+0.001 for the long-double distance) of an input edge
  {
    const ld lim = tol + 0.001L;
    for (size_t pi = 0; pi < np; ++pi)
      for (const Point64& v : sol[pi]) {
        ++t.g6_vertices;
        bool hit = false;
        for (auto& ip : inputs) { for (auto& iv : ip) if (iv == v) { hit = true; break; } if (hit) break; }
        if (hit) { ++t.g6_exact_input_vertex; continue; }
        ld best = std::numeric_limits<ld>::infinity();
        for (auto& ip : inputs) {
          size_t n = ip.size(); if (n == 0) continue;
          for (size_t i = 0; i < n && best > lim; ++i) {
            const Point64& a = ip[i]; const Point64& b = ip[(i + 1) % n];
            // cheap reject: outside the edge's box grown by the current best
            best = std::min(best, dist_pt_seg(a, b, v));
          }
          if (best <= lim) break;
        }
        if (best > lim) {
          best = min_dist_to_edges(inputs, v);
          f.value = best;
          f.set(kG6, { best <= tol + 1 ? "within_tol_plus_1" : (best <= 2 * tol ? "within_2tol" : "beyond_2tol") },
                "solution vertex " + pstr(v) + " of path #" + std::to_string(pi) + " is " + ldstr(best) + " from the nearest input edge, tol " + ldstr(tol));
          return false;
        }
      }
  }
  return true;
}

// ------------------------------------------------------------------ G7 and its classifiers
// (b) some solution vertex coincides with another solution vertex (same or other path, not the same vertex and not
// adjacent to it in its path) or lies on a solution edge that is not incident to it.
inline bool solution_has_coincidence(const Paths64& sol, std::string* where = nullptr) {
  for (size_t pi = 0; pi < sol.size(); ++pi) {
    const Path64& p = sol[pi]; size_t n = p.size();
    for (size_t i = 0; i < n; ++i) {
      const Point64& v = p[i];
      for (size_t qi = 0; qi < sol.size(); ++qi) {
        const Path64& q = sol[qi]; size_t m = q.size();
        for (size_t j = 0; j < m; ++j) {
          bool same_path = qi == pi;
          // vertex-vertex
          if (!(same_path && (j == i || (j + 1) % m == i || (i + 1) % n == j)) && q[j] == v) {
            if (where) *where = "vertex " + pstr(v) + " of path #" + std::to_string(pi) + " coincides with vertex " + std::to_string(j) + " of path #" + std::to_string(qi);
            return true;
          }
          // vertex on a non-incident edge q[j] -> q[j+1]
          if (m < 2) continue;
          size_t j1 = (j + 1) % m;
          if (same_path && (j == i || j1 == i)) continue;
          if (on_segment(q[j], q[j1], v)) {
            if (where) *where = "vertex " + pstr(v) + " of path #" + std::to_string(pi) + " lies on edge " + std::to_string(j) + " of path #" + std::to_string(qi);
            return true;
          }
        }
      }
    }
  }
  return false;
}

// (a) the two path sets have the same winding number at every sample point that is farther than 2 from every
// edge of `sol` (deterministic sample set: event and near-output samples of both sets, lattice for small scenes).
inline bool same_region_at_samples(const Paths64& sol, const Paths64& re, Tally& t, std::string* where = nullptr) {
  Samples sp;
  event_samples(sol, { 3.0L, 6.0L, 20.0L }, sp);
  near_output_samples(sol, { 3.0L, 8.0L }, sp);
  near_output_samples(re, { 3.0L, 8.0L }, sp);
  event_samples(re, { 3.0L, 6.0L }, sp);
  Paths64 both = concat(sol, re);
  int64_t M = max_abs_coord(both);
  int64_t x0 = 0, y0 = 0, x1 = 0, y1 = 0; bool any = false;
  bounds(both, x0, y0, x1, y1, any);
  if (any) {
    i128 w = (i128)x1 - x0, h = (i128)y1 - y0;
    if (w <= 96 && h <= 96) lattice_samples(both, 3, sp);
    else if (M <= ((int64_t)1 << 60)) {
      // coarse deterministic lattice 24 x 24 over the bounding box
      ld sx = (ld)w / 24, sy = (ld)h / 24;
      for (int iy = 0; iy <= 24; ++iy) for (int ix = 0; ix <= 24; ++ix) sp.add((ld)x0 + sx * ix + 0.37L * sx, (ld)y0 + sy * iy + 0.41L * sy);
    }
  }
  bool same = true;
  for (const Point64& q : sp.pts) {
    if (min_dist_to_edges(sol, q) <= 2.0L) { ++t.region_points_skipped; continue; }
    bool on = false;
    int wr = winding(re, q, &on);
    int ws = winding(sol, q);
    ++t.region_points;
    if (on || wr != ws) {
      if (where && same) *where = "at " + pstr(q) + " winding(solution)=" + std::to_string(ws) + " winding(reunion)=" + std::to_string(wr) + (on ? " (on a reunion edge)" : "");
      same = false; break;
    }
  }
  return same;
}

// sol and reunion given as returned by the library. Returns true when they are the same set of paths.
inline bool compare_reunion(const Paths64& sol, const Paths64& reunion, Finding& f, Tally& t) {
  Paths64 a = canon_paths(sol), b = canon_paths(reunion);
  if (same_paths(a, b)) return true;
  std::string w1, w2;
  bool same_region = same_region_at_samples(sol, reunion, t, &w1);
  bool coinc = solution_has_coincidence(sol, &w2);
  std::vector<std::string> tags;
  if (same_region && coinc) tags.push_back("same_region_and_solution_has_coincident_vertices");
  else if (!same_region) tags.push_back("region_differs");
  else tags.push_back("no_coincidence");
  if (!same_region && coinc) tags.push_back("solution_has_coincident_vertices");
  long long va = 0, vb = 0; for (auto& p : sol) va += (long long)p.size(); for (auto& p : reunion) vb += (long long)p.size();
  tags.push_back(sol.size() == reunion.size() ? "same_path_count" : (sol.size() < reunion.size() ? "reunion_has_more_paths" : "reunion_has_fewer_paths"));
  f.set(kG7, tags, "Union(solution, NonZero) returned " + std::to_string(reunion.size()) + " paths/" + std::to_string(vb) + " vertices, solution has " +
        std::to_string(sol.size()) + " paths/" + std::to_string(va) + " vertices; " + (same_region ? "same winding at all sample points" : "region differs " + w1) +
        "; " + (coinc ? w2 : "no coincident solution vertices"));
  return false;
}

} } // namespace vf::c03
#endif
