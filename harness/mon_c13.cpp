// mon_c13 — C13: results are independent of representation and obey set algebra.
//
// One case = one general-position scene (|coord| <= 2^40) + configuration (clip type, fill rule, PreserveCollinear)
// + a seed `tseed` from which every derived representation is drawn, + translation (tx,ty) and scale factor k.
// Per case the engine is executed ~16 times and judged by 13 relations between executions:
//
//   exact (canonical path-set equality of two Clipper64 solutions: vf::canon_paths / same_paths)
//     C13.perm_paths          E1  order of paths inside subject and inside clip permuted (and the order / granularity
//                                 of the AddSubject/AddClip calls changed)
//     C13.rotate_start        E2  every path rotated to another start vertex
//     C13.dup_vertices        E3  duplicate consecutive vertices and explicit closing vertices inserted
//     C13.swap_subject_clip   E4  subject <-> clip for Intersection, Union, Xor
//     C13.reverse_evenodd_nonzero   E5  all paths reversed, EvenOdd / NonZero
//     C13.reverse_swap_pos_neg      E6  all paths reversed and Positive <-> Negative
//   region (both sides evaluated with the exact winding number at points farther than tol+1 from every input edge)
//     C13.xor_union_minus_intersection   R1
//     C13.diff_inter_partition           R2  Difference and Intersection partition the subject's filled region
//     C13.translate / transpose / mirror_x / mirror_y / scale   R3  T(result(in)) ~ result(T(in)); orientation
//                                 reversing maps exchange Positive and Negative
//
// "region of a solution" = points with non-zero winding number about the solution paths (C01 makes that 0/1; the
// multiplicity itself is C01's business, not C13's). On a region disagreement both sides are compared with the C01
// expectation (vf::expected_cover) and the tags say which side is wrong.
#include "region.h"
#include "gen.h"
#include "clipper2/clipper.h"
#include <array>
#include <iterator>

using namespace vf;
using namespace Clipper2Lib;

static gen::GpCounters g_gc;
static uint64_t g_solhash = 0, g_canhash = 0;
static bool g_hashing = false;
static const int kTransExp[] = { 2, 8, 16, 24, 32, 40, 46, 52, 56, 58, 60 };

// ------------------------------------------------------------------ executing the library
static bool run(const Paths64& S, const Paths64& C, int ct, int fr, bool pc, Paths64& sol, int add_mode = 0) {
  Clipper64 clipper;
  clipper.PreserveCollinear(pc);
  switch (add_mode) {
    case 1: clipper.AddClip(C); clipper.AddSubject(S); break;                       // clip first
    case 2: {                                                                       // path by path, interleaved
      size_t n = std::max(S.size(), C.size());
      for (size_t i = 0; i < n; ++i) {
        if (i < C.size()) clipper.AddClip(Paths64{ C[i] });
        if (i < S.size()) clipper.AddSubject(Paths64{ S[i] });
      }
      break; }
    default: clipper.AddSubject(S); clipper.AddClip(C); break;
  }
  bool ok = clipper.Execute((ClipType)ct, (FillRule)fr, sol);
  if (g_hashing) {   // diagnostic only (--solhash 1): all solutions, raw and canonical, in execution order
    g_solhash = g_solhash * 0x100000001b3ull + hash_paths(sol);
    g_canhash = g_canhash * 0x100000001b3ull + hash_paths(canon_paths(sol));
  }
  return ok;
}

static inline int swap_pn(int fr) { return fr == FR_POSITIVE ? FR_NEGATIVE : fr == FR_NEGATIVE ? FR_POSITIVE : fr; }

// ------------------------------------------------------------------ the maps of R3
struct Xf {
  int kind = 0;                // 0 translate, 1 transpose, 2 mirror x (x -> -x), 3 mirror y (y -> -y), 4 scale
  int64_t tx = 0, ty = 0, k = 1;
  bool flips() const { return kind >= 1 && kind <= 3; }
  Point64 at(const Point64& p) const {
    switch (kind) {
      case 0: return Point64(p.x + tx, p.y + ty);
      case 1: return Point64(p.y, p.x);
      case 2: return Point64(-p.x, p.y);
      case 3: return Point64(p.x, -p.y);
      default: return Point64(p.x * k, p.y * k);
    }
  }
  Paths64 at(const Paths64& pp) const {
    Paths64 r = pp;
    for (auto& p : r) for (auto& pt : p) pt = at(pt);
    return r;
  }
};
static const char* kXfClaim[5] = { "C13.translate", "C13.transpose", "C13.mirror_x", "C13.mirror_y", "C13.scale" };
static const char* kXfName[5] = { "translate", "transpose", "mirror_x", "mirror_y", "scale" };

static std::string ptstr(const Point64& q) { return "(" + std::to_string(q.x) + "," + std::to_string(q.y) + ")"; }

// region membership of a solution at q; `on` set if q lies on a solution edge (then the sample is not judged)
static inline bool in_sol(const Paths64& sol, const Point64& q, bool& on) { return winding(sol, q, &on) != 0; }

// ------------------------------------------------------------------ representation changes (all from a local Rng)
static Paths64 rotate_all(Rng& r, const Paths64& pp) {
  Paths64 out;
  for (auto& p : pp) {
    size_t n = p.size();
    Path64 q = p;
    if (n >= 2) std::rotate(q.begin(), q.begin() + r.irange(1, (int)n - 1), q.end());
    out.push_back(q);
  }
  return out;
}
static Paths64 dup_all(Rng& r, const Paths64& pp, long long& inserted) {
  Paths64 out;
  for (auto& p : pp) {
    Path64 q;
    if (p.empty()) { out.push_back(q); continue; }
    if (r.chance(0.15)) { q.push_back(p[0]); ++inserted; }                      // duplicate at the very start
    for (auto& pt : p) {
      q.push_back(pt);
      for (int rep = 0; rep < 3 && r.chance(0.3); ++rep) { q.push_back(pt); ++inserted; }
    }
    if (r.chance(0.6)) {                                                        // explicit closing vertex (or several)
      q.push_back(p[0]); ++inserted;
      if (r.chance(0.3)) { q.push_back(p[0]); ++inserted; }
    }
    out.push_back(q);
  }
  return out;
}

// ------------------------------------------------------------------ classifier for exact mismatches
struct Rechain { bool same_edges = false, all_on_horizontal_input_edge = false; std::vector<Point64> at; };
static Rechain rechained(const Paths64& a, const Paths64& b, const Paths64& in) {
  typedef std::array<int64_t, 6> T3;                 // (vertex, predecessor, successor)
  auto triples = [](const Paths64& pp) {
    std::vector<T3> v;
    for (auto& p : pp) { size_t n = p.size(); for (size_t i = 0; i < n; ++i) {
      const Point64& u = p[(i + n - 1) % n]; const Point64& m = p[i]; const Point64& w = p[(i + 1) % n];
      v.push_back(T3{ m.x, m.y, u.x, u.y, w.x, w.y }); } }
    std::sort(v.begin(), v.end());
    return v;
  };
  auto edges = [](const std::vector<T3>& t) {
    std::vector<std::array<int64_t, 4>> e;
    for (auto& x : t) e.push_back({ x[0], x[1], x[4], x[5] });
    std::sort(e.begin(), e.end());
    return e;
  };
  std::vector<T3> ta = triples(a), tb = triples(b), diff;
  Rechain r;
  r.same_edges = edges(ta) == edges(tb);
  if (!r.same_edges) return r;
  std::set_symmetric_difference(ta.begin(), ta.end(), tb.begin(), tb.end(), std::back_inserter(diff));
  for (auto& x : diff) { Point64 v(x[0], x[1]); if (std::find(r.at.begin(), r.at.end(), v) == r.at.end()) r.at.push_back(v); }
  r.all_on_horizontal_input_edge = !r.at.empty();
  for (auto& v : r.at) {
    bool onh = false;
    for_each_edge(in, true, [&](const Point64& p, const Point64& q, size_t, size_t) {
      if (p.y == q.y && p.y == v.y && std::min(p.x, q.x) < v.x && v.x < std::max(p.x, q.x)) onh = true; });
    if (!onh) r.all_on_horizontal_input_edge = false;
  }
  return r;
}

// ------------------------------------------------------------------ the judge
struct RegionDiff { bool differs = false, left_wrong = false, right_wrong = false; Point64 at; long long judged = 0; };

// compare two solutions of the same expected region (S, C, ct, fr) at the sample points
static RegionDiff region_diff(const Paths64& S, const Paths64& C, const Paths64& in, int ct, int frL, int frR, const Paths64& L,
                              const Paths64& R, const Paths64& SR, const Paths64& CR, int ctR, const std::vector<Point64>& pts, ld thr) {
  RegionDiff d;
  for (const Point64& q : pts) {
    if (min_dist_to_edges(in, q) < thr) continue;
    bool on = false;
    bool l = in_sol(L, q, on), r = in_sol(R, q, on);
    if (on) continue;
    ++d.judged;
    if (l != r) {
      d.differs = true; d.at = q;
      d.left_wrong = l != (expected_cover(S, C, q, ct, frL, false) != 0);
      d.right_wrong = r != (expected_cover(SR, CR, q, ctR, frR, false) != 0);
      break;
    }
  }
  return d;
}

static void judge(Ctx& ctx, const Case& c, bool from_replay) {
  const Paths64& S = c.P("S"); const Paths64& C = c.P("C");
  const int ct = (int)c.geti("ct"), fr = (int)c.geti("fr");
  const bool pc = c.geti("pc", 1) != 0;
  const uint64_t tseed = (uint64_t)strtoull(c.gets("tseed", "1").c_str(), nullptr, 10);
  const Paths64 in = concat(S, C);
  const int64_t M = max_abs_coord(in);
  const ld tol = tol_of(M), thr = tol + 1;
  Rng lr(tseed, 7);                                    // every derived choice comes from here (replayable)
  ctx.begin(c);
  if (!from_replay) {
    ctx.count("cfg_ct" + std::to_string(ct) + "_fr" + std::to_string(fr) + "_pc" + std::to_string(pc));
    ctx.note_case(c, c.geti("crossings") > 0);
    if (c.geti("crossings") > 0) ctx.count("scenes_nontrivial"); else ctx.count("scenes_without_crossing");
  }
  ctx.count("scenes");

  auto exec = [&](const Paths64& s, const Paths64& cl, int ct_, int fr_, Paths64& out, const char* what, int mode = 0) -> bool {
    bool ok = run(s, cl, ct_, fr_, pc, out, mode);
    ctx.evaluated();
    if (!ok) ctx.violation("C13.execute_false", { "execute_false", what }, c, std::string("Execute returned false for ") + what);
    return ok;
  };

  // ---------------------------------------------------------------- base execution and sample points
  Paths64 base;
  if (!exec(S, C, ct, fr, base, "base")) return;
  const Paths64 cbase = canon_paths(base);

  Samples sp;                                           // event + random samples in the original frame
  event_samples(in, { 3 * tol, 6 * tol, 20 * tol, 100 * tol }, sp);
  random_samples(lr, in, 40, sp);
  const size_t n_in_samples = sp.pts.size();
  near_output_samples(base, { tol + 2, 3 * tol }, sp);

  // ---------------------------------------------------------------- exact relations
  // left = base, right = variant; (SR,CR,ctR,frR) describe what the variant was asked to compute
  auto exact = [&](const char* claim, const char* rel, const Paths64& var, const Paths64& SR, const Paths64& CR, int frR) -> bool {
    ctx.count(std::string("rel_") + rel + "_checked");
    Paths64 cv = canon_paths(var);
    if (same_paths(cbase, cv)) return true;
    Samples s2; s2.pts = sp.pts;
    near_output_samples(var, { tol + 2, 3 * tol }, s2);
    RegionDiff d = region_diff(S, C, in, ct, fr, frR, base, var, SR, CR, ct, s2.pts, thr);
    std::vector<std::string> tags = { rel };
    std::string detail = std::string(rel) + ": canonical solutions differ (" + std::to_string(cbase.size()) + " paths / " +
      std::to_string(cv.size()) + " paths)";
    if (d.differs) {
      tags.push_back("region_differs");
      if (d.left_wrong) tags.push_back("left_side_wrong");
      if (d.right_wrong) tags.push_back("right_side_wrong");
      detail += "; regions differ at " + ptstr(d.at) + (d.left_wrong ? " [original representation wrong vs C01 expectation]" : "") +
        (d.right_wrong ? " [changed representation wrong vs C01 expectation]" : "");
    } else {
      tags.push_back("same_region_at_samples");
      size_t va = 0, vb = 0; for (auto& p : cbase) va += p.size(); for (auto& p : cv) vb += p.size();
      tags.push_back(cbase.size() != cv.size() ? "path_count_differs" : va != vb ? "vertex_count_differs" : "vertices_differ");
      // narrow class: both solutions consist of exactly the same directed edges and differ only in how these are
      // chained into paths at vertices that the solution boundary visits more than once
      Rechain rc = rechained(cbase, cv, in);
      if (rc.same_edges) {
        std::string where = rc.all_on_horizontal_input_edge ? "at_crossing_on_horizontal_input_edge" : "elsewhere";
        tags.push_back("same_edges_rechained_" + where);
        detail += "; both solutions have the same directed edges, chained differently at";
        for (auto& v : rc.at) detail += " " + ptstr(v);
      }
      detail += "; same region at " + std::to_string(d.judged) + " judged points; vertices " + std::to_string(va) + " / " + std::to_string(vb);
      // first differing path, for the reader
      for (size_t i = 0; i < cbase.size() && i < cv.size(); ++i) {
        if (!same_paths(Paths64{ cbase[i] }, Paths64{ cv[i] })) {
          detail += "; first differing canonical path #" + std::to_string(i) + ":";
          for (auto& pt : cbase[i]) detail += " " + ptstr(pt);
          detail += "  vs ";
          for (auto& pt : cv[i]) detail += " " + ptstr(pt);
          break;
        }
      }
    }
    ctx.violation(claim, tags, c, detail);
    return false;
  };

  { // E1: order of paths (and of the Add calls)
    Paths64 S1 = S, C1 = C;
    lr.shuffle(S1); lr.shuffle(C1);
    int mode = lr.irange(0, 2);
    if (S1.size() <= 1 && C1.size() <= 1 && mode == 0) mode = lr.irange(1, 2);   // a permutation of one path is no change
    ctx.count("perm_add_mode_" + std::to_string(mode));
    if (S.size() > 1 || C.size() > 1) ctx.count("perm_scenes_with_several_paths_on_a_side");
    Paths64 v;
    if (!exec(S1, C1, ct, fr, v, "perm_paths", mode)) return;
    if (!exact("C13.perm_paths", "E1_perm_paths", v, S1, C1, fr)) return;
  }
  { // E2: start vertex
    Paths64 S2 = rotate_all(lr, S), C2 = rotate_all(lr, C);
    Paths64 v;
    if (!exec(S2, C2, ct, fr, v, "rotate_start")) return;
    if (!exact("C13.rotate_start", "E2_rotate_start", v, S2, C2, fr)) return;
  }
  { // E3: duplicates and closing vertices
    long long ins = 0;
    Paths64 S3 = dup_all(lr, S, ins), C3 = dup_all(lr, C, ins);
    if (ins == 0 && !S3.empty() && !S3[0].empty()) { S3[0].push_back(S3[0][0]); ++ins; }
    ctx.count("dup_vertices_inserted", ins);
    Paths64 v;
    if (!exec(S3, C3, ct, fr, v, "dup_vertices")) return;
    if (!exact("C13.dup_vertices", "E3_dup_vertices", v, S3, C3, fr)) return;
  }
  if (ct != CT_DIFFERENCE) { // E4: subject <-> clip
    Paths64 v;
    if (!exec(C, S, ct, fr, v, "swap_subject_clip")) return;
    if (!exact("C13.swap_subject_clip", "E4_swap_subject_clip", v, C, S, fr)) return;
  } else ctx.count("rel_E4_swap_subject_clip_not_applicable_difference");
  { // E5 / E6: reverse every path; Positive <-> Negative
    Paths64 S5 = S, C5 = C;
    gen::reverse_all(S5); gen::reverse_all(C5);
    int fr5 = swap_pn(fr);
    Paths64 v;
    bool pn = fr == FR_POSITIVE || fr == FR_NEGATIVE;
    if (!exec(S5, C5, ct, fr5, v, pn ? "reverse_swap_pos_neg" : "reverse_evenodd_nonzero")) return;
    if (!exact(pn ? "C13.reverse_swap_pos_neg" : "C13.reverse_evenodd_nonzero",
               pn ? "E6_reverse_swap_pos_neg" : "E5_reverse_evenodd_nonzero", v, S5, C5, fr5)) return;
  }

  // ---------------------------------------------------------------- R1, R2: set algebra between clip types
  {
    Paths64 solv[5];
    for (int t = CT_INTERSECTION; t <= CT_XOR; ++t) {
      if (t == ct) solv[t] = base;
      else if (!exec(S, C, t, fr, solv[t], "set_algebra")) return;
    }
    Samples s2; s2.pts.assign(sp.pts.begin(), sp.pts.begin() + (long)n_in_samples);
    for (int t = CT_INTERSECTION; t <= CT_XOR; ++t) near_output_samples(solv[t], { tol + 2, 3 * tol }, s2);
    long long judged = 0, skipped = 0, onedge = 0;
    for (const Point64& q : s2.pts) {
      if (min_dist_to_edges(in, q) < thr) { ++skipped; continue; }
      bool on = false;
      bool I = in_sol(solv[CT_INTERSECTION], q, on), U = in_sol(solv[CT_UNION], q, on);
      bool D = in_sol(solv[CT_DIFFERENCE], q, on), X = in_sol(solv[CT_XOR], q, on);
      if (on) { ++onedge; continue; }
      ++judged;
      bool umi = U && !I;
      if (X != umi) {
        bool e = expected_cover(S, C, q, CT_XOR, fr, false) != 0;
        bool eU = expected_cover(S, C, q, CT_UNION, fr, false) != 0, eI = expected_cover(S, C, q, CT_INTERSECTION, fr, false) != 0;
        std::vector<std::string> tags = { "R1_xor_union_minus_intersection" };
        if (X != e) tags.push_back("left_side_wrong");
        if (umi != e) tags.push_back("right_side_wrong");
        if (U != eU) tags.push_back("union_wrong");
        if (I != eI) tags.push_back("intersection_wrong");
        ctx.violation("C13.xor_union_minus_intersection", tags, c,
          "at " + ptstr(q) + " Xor covers=" + std::to_string(X) + " Union covers=" + std::to_string(U) + " Intersection covers=" + std::to_string(I) +
          " expected Xor=" + std::to_string(e) + " dist_to_input " + ldstr(min_dist_to_edges(in, q)) + " tol " + ldstr(tol));
        return;
      }
      bool inS = filled(winding(S, q), fr);
      if ((int)D + (int)I != (inS ? 1 : 0)) {
        bool eD = expected_cover(S, C, q, CT_DIFFERENCE, fr, false) != 0, eI = expected_cover(S, C, q, CT_INTERSECTION, fr, false) != 0;
        std::vector<std::string> tags = { "R2_diff_inter_partition" };
        if (D != eD) tags.push_back("left_side_wrong");
        if (I != eI) tags.push_back("right_side_wrong");
        tags.push_back(inS ? ((D && I) ? "covered_by_both" : "subject_point_in_neither") : "outside_subject_but_covered");
        ctx.violation("C13.diff_inter_partition", tags, c,
          "at " + ptstr(q) + " Difference covers=" + std::to_string(D) + " Intersection covers=" + std::to_string(I) + " in subject region=" + std::to_string(inS) +
          " dist_to_input " + ldstr(min_dist_to_edges(in, q)) + " tol " + ldstr(tol));
        return;
      }
    }
    ctx.count("rel_R1_xor_union_minus_intersection_checked");
    ctx.count("rel_R2_diff_inter_partition_checked");
    ctx.count("algebra_points_judged", judged);
    ctx.count("algebra_points_skipped_by_margin", skipped);
    ctx.count("points_on_solution_edge_not_judged", onedge);
  }

  // ---------------------------------------------------------------- R3: maps of the plane
  for (int kind = 0; kind < 5; ++kind) {
    Xf T; T.kind = kind;
    T.tx = c.geti("tx"); T.ty = c.geti("ty"); T.k = c.geti("k", 2);
    if (kind == 4 && (T.k < 2 || T.k > 5)) { ctx.count("scale_factor_out_of_range_skipped"); continue; }
    const std::string nm = kXfName[kind];
    Paths64 ST = T.at(S), CT = T.at(C);
    Paths64 inT = concat(ST, CT);
    const int64_t MT = max_abs_coord(inT);
    if (MT > ((int64_t)1 << 61)) { ctx.count(nm + "_out_of_range_skipped"); continue; }
    // tolerance of the pair of executions: that of the larger magnitude (and, for the scale, the image of the
    // original band, which is k times as wide)
    ld tolT = tol_of(std::max(M, MT));
    ld thrT = tolT + 1;
    if (kind == 4) { tolT = std::max(tolT, (ld)T.k * tol); thrT = std::max(thrT, (ld)T.k * thr); }
    if (kind == 0) {
      // distances are preserved, so T(in) is in general position; but the only inputs explored are those the exact
      // filter accepts at their own magnitude (its margin grows with M)
      if (!general_position(inT, MT)) { ctx.count("translate_rejected_by_gp_filter_at_target_magnitude"); continue; }
      int e = 0; while (e < 62 && ((int64_t)1 << e) < std::max(llabs((long long)T.tx), llabs((long long)T.ty))) ++e;
      int bucket = 60; for (int be : kTransExp) if (e <= be) { bucket = be; break; }
      ctx.count("translate_by_le_2^" + std::to_string(bucket));
      double Rf = c.getd("R", 0);
      bool widened = tolT > 1.05L * tol;
      // as gp_scene: vacuous = the rounding term dominates and the band is wider than feature/200
      bool vacuous = ldexp((double)MT, -42) > 1.0 && (double)tolT * 200.0 > Rf;
      if (vacuous) ctx.count("translate_vacuous_scenes");
      else if (widened) ctx.count("translate_scenes_with_wider_band_not_vacuous");
    }
    const int frT = T.flips() ? swap_pn(fr) : fr;
    Paths64 solT;
    if (!exec(ST, CT, ct, frT, solT, kXfName[kind])) return;
    Paths64 Tbase = T.at(base);                       // left side: T(result(in)); orientation may be reversed

    Samples sT;
    if (kind == 0 && tolT > 1.05L * tol) {
      event_samples(inT, { 3 * tolT, 6 * tolT, 20 * tolT, 100 * tolT }, sT);
      random_samples(lr, inT, 40, sT);
      near_output_samples(Tbase, { tolT + 2, 3 * tolT }, sT);
    } else {
      sT.pts.reserve(sp.pts.size());
      for (auto& q : sp.pts) sT.pts.push_back(T.at(q));
    }
    near_output_samples(solT, { thrT + 1, 3 * tolT }, sT);

    long long judged = 0, skipped = 0, onedge = 0;
    for (const Point64& q : sT.pts) {
      if (min_dist_to_edges(inT, q) < thrT) { ++skipped; continue; }
      bool on = false;
      bool l = in_sol(Tbase, q, on), r = in_sol(solT, q, on);
      if (on) { ++onedge; continue; }
      ++judged;
      if (l != r) {
        bool e = expected_cover(ST, CT, q, ct, frT, false) != 0;
        std::vector<std::string> tags = { "R3_" + nm };
        if (l != e) tags.push_back("left_side_wrong");
        if (r != e) tags.push_back("right_side_wrong");
        ctx.violation(kXfClaim[kind], tags, c,
          nm + ": at " + ptstr(q) + " (transformed frame) T(result(in)) covers=" + std::to_string(l) + " result(T(in)) covers=" + std::to_string(r) +
          " expected=" + std::to_string(e) + " dist_to_input " + ldstr(min_dist_to_edges(inT, q)) + " threshold " + ldstr(thrT) +
          (kind == 0 ? " t=(" + std::to_string(T.tx) + "," + std::to_string(T.ty) + ")" : kind == 4 ? " k=" + std::to_string(T.k) : ""));
        return;
      }
    }
    ctx.count("rel_R3_" + nm + "_checked");
    ctx.count(nm + "_points_judged", judged);
    ctx.count(nm + "_points_skipped_by_margin", skipped);
    ctx.count("points_on_solution_edge_not_judged", onedge);
    ctx.count("map_points_judged", judged);
    if (judged == 0) ctx.count(nm + "_scenes_without_judged_point");
  }
}

// ------------------------------------------------------------------ generation

void vf_case(Ctx& ctx, uint64_t i) {
  int combo = (int)(i % 32);
  static const int mags[6] = { 5, 7, 10, 20, 30, 40 };
  int maxexp = (int)ctx.optint("maxexp", 40);
  int magexp = std::min(mags[(i / 32) % 6], std::min(maxexp, 40));
  gen::Scene sc = gen::gp_scene(ctx.rng, g_gc, magexp);
  if (!sc.ok) { ctx.count("gp_gave_up"); return; }
  Case c;
  c.p64["S"] = sc.subj; c.p64["C"] = sc.clip;
  c.seti("ct", 1 + (combo & 3)); c.seti("fr", (combo >> 2) & 3); c.seti("pc", (combo >> 4) & 1);
  c.seti("mag", magexp); c.seti("shape", sc.shape); c.seti("crossings", sc.crossings);
  c.setd("R", sc.R);
  c.set("tseed", std::to_string(ctx.rng.next() >> 1));
  c.seti("k", ctx.rng.irange(2, 5));
  // translation: mostly one that keeps the band narrower than the features (2^(te-42) << R), sometimes any
  std::vector<int> allowed;
  double lgR = std::log2(std::max(1.0, sc.R));
  for (int e : kTransExp) if (e <= lgR + 32) allowed.push_back(e);
  int te = (ctx.rng.chance(0.1) || allowed.empty()) ? kTransExp[ctx.rng.irange(0, 10)] : ctx.rng.pick(allowed);
  int64_t lim = (int64_t)1 << te;
  int64_t tx = ctx.rng.range(-lim, lim), ty = ctx.rng.range(-lim, lim);
  if (ctx.rng.chance(0.1)) tx = 0; else if (ctx.rng.chance(0.1)) ty = 0;
  if (tx == 0 && ty == 0) tx = lim;
  c.seti("tx", tx); c.seti("ty", ty);
  ctx.count("mag_2^" + std::to_string(magexp));
  ctx.count("shape_" + std::to_string(sc.shape));
  judge(ctx, c, false);
}

void vf_replay(Ctx& ctx, const Case& c) { judge(ctx, c, true); }

void vf_begin(Ctx& ctx) { g_hashing = ctx.optint("solhash", 0) != 0; }

void vf_end(Ctx& ctx) {
  ctx.count("gp_candidates_tried", g_gc.tries);
  ctx.count("gp_candidates_rejected", g_gc.rejected); ctx.count("gp_flat_dense_scanline_scenes", g_gc.flat); ctx.count("gp_scenes_with_crossing_a_hair_past_a_scanline", g_gc.tie); ctx.count("gp_scenes_with_a_corner_whose_cross_product_is_an_exact_power_of_two", g_gc.wrap);
  if (g_hashing) ctx.info("solhash_shard" + std::to_string(ctx.shard), "\"raw " + std::to_string(g_solhash) + " canonical " + std::to_string(g_canhash) + "\"");
}
