// gen.h — shared input generators (DESIGN.md 2.6). All randomness comes from the vf::Rng handed in.
#ifndef VF_GEN_H
#define VF_GEN_H

#include "geom.h"
#include "wrap.h"

namespace vf { namespace gen {

static const double kPi = 3.14159265358979323846;

inline Point64 P(int64_t x, int64_t y) { return Point64(x, y); }

inline void translate(Paths64& pp, int64_t dx, int64_t dy) { for (auto& p : pp) for (auto& pt : p) { pt.x += dx; pt.y += dy; } }
inline void reverse_all(Paths64& pp) { for (auto& p : pp) std::reverse(p.begin(), p.end()); }

// random polygon: n points uniformly in the square of half-width R about c, arbitrary order (often self-intersecting)
inline Path64 random_poly(Rng& r, int64_t cx, int64_t cy, int64_t R, int n) {
  Path64 p; for (int i = 0; i < n; ++i) p.push_back(P(cx + r.range(-R, R), cy + r.range(-R, R))); return p;
}
// star-shaped (simple) polygon: sorted angles with gaps < pi guaranteed by stratification, radii in [rmin,rmax]*R
inline Path64 star_shaped(Rng& r, int64_t cx, int64_t cy, double R, int n, double rmin = 0.35, double rmax = 1.0, bool ccw = true) {
  Path64 p; if (n < 3) n = 3;
  double off = r.real(0, 2 * kPi);
  for (int i = 0; i < n; ++i) {
    double a = off + 2 * kPi * (i + r.real(0.05, 0.95)) / n;   // one vertex per sector: gaps < 2*2pi/n <= pi for n>=4; n=3 gaps < 4pi/3*...
    double rad = R * r.real(rmin, rmax);
    p.push_back(P(cx + (int64_t)llround(rad * cos(a)), cy + (int64_t)llround(rad * sin(a))));
  }
  if (!ccw) std::reverse(p.begin(), p.end());
  return p;
}
// regular-ish star polygon {n/k}: self-intersecting, winding number up to k in the core
inline Path64 star_polygon(Rng& r, int64_t cx, int64_t cy, double R, int n, int k) {
  Path64 p; double off = r.real(0, 2 * kPi);
  for (int i = 0; i < n; ++i) {
    double a = off + 2 * kPi * ((double)((long long)i * k % n) + r.real(-0.08, 0.08)) / n;
    double rad = R * r.real(0.8, 1.0);
    p.push_back(P(cx + (int64_t)llround(rad * cos(a)), cy + (int64_t)llround(rad * sin(a))));
  }
  return p;
}
// spiral that goes w times round the centre, then closes with one long edge: winding numbers up to w
inline Path64 spiral(Rng& r, int64_t cx, int64_t cy, double R, int w, int per_turn) {
  Path64 p; int n = w * per_turn; double off = r.real(0, 2 * kPi);
  for (int i = 0; i < n; ++i) {
    double a = off + 2 * kPi * i / per_turn;
    double rad = R * (0.25 + 0.75 * (i + r.real(0, 0.4)) / n);
    p.push_back(P(cx + (int64_t)llround(rad * cos(a)), cy + (int64_t)llround(rad * sin(a))));
  }
  return p;
}
inline Path64 ring(Rng& r, int64_t cx, int64_t cy, double R, int n, bool ccw) {
  return star_shaped(r, cx, cy, R, n, 0.9, 1.0, ccw);
}
inline Path64 box(int64_t x0, int64_t y0, int64_t x1, int64_t y1, bool ccw = true) {
  Path64 p{ P(x0, y0), P(x1, y0), P(x1, y1), P(x0, y1) };
  if (!ccw) std::reverse(p.begin(), p.end());
  return p;
}

// ------------------------------------------------------------------ general-position boolean scenes
struct Scene {
  Paths64 subj, clip;
  int64_t M = 0;          // max |coord|
  int shape = 0;          // shape class
  int magclass = 0;       // exponent of the magnitude class
  double R = 0;           // feature scale
  bool ok = false;        // passed the GP filter
  bool vacuous = false;   // tolerance exceeds 1/200 of feature scale
  int squash = 0;         // x stretched by this factor (negative: y squeezed by it), 0 = isotropic
  int collinear = 0;      // redundant collinear vertices inserted on edges
  bool flat = false;      // dense-scanline flat scene (few y levels, x stretched)
  bool tie = false;       // one crossing was nudged a hair past the y of another vertex (sweep-line tie)
  bool wrap = false;      // the subject has a sharp corner whose cross product is exactly +-2^64 (or another power of two)
  long long crossings = 0;
};

static const int kMagExp[] = { 5, 7, 10, 20, 30, 40, 52, 58, 61 };
static const int kNumMag = 9;

// one candidate set of paths in a local frame of half-width R about the origin
inline void gp_candidate(Rng& r, int shape, double R, Paths64& subj, Paths64& clip) {
  subj.clear(); clip.clear();
  int64_t Ri = (int64_t)R;
  auto small = R < 200;
  switch (shape) {
    case 0: { // two random polygons (often self-intersecting)
      int ns = r.irange(3, small ? 5 : 14), nc = r.irange(3, small ? 5 : 14);
      subj.push_back(random_poly(r, 0, 0, Ri, ns));
      clip.push_back(random_poly(r, 0, 0, Ri, nc));
      break; }
    case 1: { // star-shaped simple polygons, either orientation
      subj.push_back(star_shaped(r, r.range(-Ri / 4, Ri / 4), r.range(-Ri / 4, Ri / 4), R * 0.7, r.irange(3, small ? 6 : 14), 0.3, 1.0, r.coin()));
      clip.push_back(star_shaped(r, r.range(-Ri / 4, Ri / 4), r.range(-Ri / 4, Ri / 4), R * 0.7, r.irange(3, small ? 6 : 14), 0.3, 1.0, r.coin()));
      break; }
    case 2: { // star polygons {n/k}
      int n = r.irange(5, small ? 7 : 13), k = r.irange(2, std::max(2, n / 2));
      subj.push_back(star_polygon(r, 0, 0, R * 0.9, n, k));
      int n2 = r.irange(5, small ? 7 : 11), k2 = r.irange(2, std::max(2, n2 / 2));
      clip.push_back(star_polygon(r, r.range(-Ri / 5, Ri / 5), r.range(-Ri / 5, Ri / 5), R * 0.7, n2, k2));
      break; }
    case 3: { // spirals / repeated loops: winding numbers up to +-4
      int w = r.irange(2, small ? 2 : 4);
      Path64 s = spiral(r, 0, 0, R * 0.95, w, r.irange(4, small ? 5 : 8));
      if (r.coin()) std::reverse(s.begin(), s.end());
      subj.push_back(s);
      if (r.coin()) { Path64 s2 = spiral(r, r.range(-Ri / 8, Ri / 8), r.range(-Ri / 8, Ri / 8), R * 0.8, r.irange(1, 3), r.irange(4, 7)); if (r.coin()) std::reverse(s2.begin(), s2.end()); clip.push_back(s2); }
      else clip.push_back(star_shaped(r, 0, 0, R * 0.6, r.irange(3, 9), 0.4, 1.0, r.coin()));
      break; }
    case 4: { // concentric / nested rings, depth up to 8, mixed orientation
      int d = r.irange(2, small ? 3 : 8);
      bool alternate = r.coin();
      for (int k = 0; k < d; ++k) {
        double rad = R * 0.95 * (1.0 - (double)k / (d + 0.5));
        bool ccw = alternate ? (k % 2 == 0) : r.coin();
        (r.chance(0.7) ? subj : clip).push_back(ring(r, 0, 0, rad, r.irange(4, small ? 6 : 10), ccw));
      }
      clip.push_back(star_shaped(r, r.range(-Ri / 2, Ri / 2), r.range(-Ri / 2, Ri / 2), R * 0.6, r.irange(3, 8), 0.4, 1.0, r.coin()));
      break; }
    case 5: { // many small paths
      int np = r.irange(3, 8);
      for (int k = 0; k < np; ++k) {
        int64_t cx = r.range(-Ri * 2 / 3, Ri * 2 / 3), cy = r.range(-Ri * 2 / 3, Ri * 2 / 3);
        Path64 p = r.coin() ? star_shaped(r, cx, cy, R * r.real(0.15, 0.4), r.irange(3, 7), 0.4, 1.0, r.coin())
                            : random_poly(r, cx, cy, (int64_t)(R * r.real(0.15, 0.35)), r.irange(3, 6));
        (r.coin() ? subj : clip).push_back(p);
      }
      if (subj.empty()) { subj.push_back(clip.back()); clip.pop_back(); }
      break; }
    default: { // 6: several subjects and several clips, mixed classes
      int ns = r.irange(1, 3), nc = r.irange(0, 3);
      for (int k = 0; k < ns; ++k) subj.push_back(r.coin() ? random_poly(r, 0, 0, Ri, r.irange(3, small ? 4 : 9)) : star_shaped(r, r.range(-Ri / 3, Ri / 3), r.range(-Ri / 3, Ri / 3), R * 0.6, r.irange(3, 9), 0.3, 1.0, r.coin()));
      for (int k = 0; k < nc; ++k) clip.push_back(r.coin() ? random_poly(r, 0, 0, Ri, r.irange(3, small ? 4 : 9)) : star_shaped(r, r.range(-Ri / 3, Ri / 3), r.range(-Ri / 3, Ri / 3), R * 0.6, r.irange(3, 9), 0.3, 1.0, r.coin()));
      break; }
  }
}

// snap vertices of a small-coordinate scene onto a jittered coarse lattice so the GP filter accepts a useful fraction
inline void lattice_snap(Rng& r, Paths64& pp, int64_t step, int64_t jitter) {
  for (auto& p : pp) for (auto& pt : p) {
    auto snap = [&](int64_t v) { int64_t q = (v >= 0 ? (v + step / 2) / step : -((-v + step / 2) / step)); return q * step + r.range(-jitter, jitter); };
    pt.x = snap(pt.x); pt.y = snap(pt.y);
  }
  for (auto& p : pp) strip_dups_closed(p);
}

struct GpCounters { long long tries = 0, rejected = 0, gave_up = 0, flat = 0, tie = 0, wrap = 0; };

// Hostile scanline placement (sweep-line tie) for closed paths: move the x of one vertex until the crossing of one of its
// edges with an edge of another path lies a hair past the y of some other vertex (0 < |yc - s| < 1/|dx1 - dx2|), so that
// the integer curr_x of the two edges tie at scanline s and the sweep discovers the crossing one scanbeam late (the
// intersection-repair branches of AddNewIntersectNode). The scene must stay in general position.
static int g_nudge_attempts = 48;   // random (vertex, edge) pairs tried per call
inline bool nudge_crossing_past_scanline(Rng& r, Scene& sc) {
  Paths64 all = concat(sc.subj, sc.clip);
  if (all.size() < 2) return false;
  const size_t ns = sc.subj.size();
  for (int attempt = 0; attempt < g_nudge_attempts; ++attempt) {
    size_t ai = (size_t)r.irange(0, (int)all.size() - 1), bi = (size_t)r.irange(0, (int)all.size() - 1);
    if (ai == bi) continue;
    Path64& A = all[ai]; const Path64& B = all[bi];
    if (A.size() < 3 || B.size() < 3) continue;
    size_t vi = (size_t)r.irange(0, (int)A.size() - 1); const bool fwd = r.coin();
    const Point64 mv0 = A[vi], keep = A[fwd ? (vi + 1) % A.size() : (vi + A.size() - 1) % A.size()];
    size_t ci = (size_t)r.irange(0, (int)B.size() - 1);
    const Point64 c0 = B[ci], c1 = B[(ci + 1) % B.size()];
    if (c0.y == c1.y || keep.y == mv0.y) continue;
    auto yc_of = [&](int64_t mx) -> ld { Point64 a(mx, mv0.y); if (!proper_cross(a, keep, c0, c1)) return (ld)NAN; return line_cross(a, keep, c0, c1).y; };
    ld y_at0 = yc_of(mv0.x); if (!(y_at0 == y_at0)) continue;
    bool have = false; int64_t s_best = 0;
    for (size_t pi = 0; pi < all.size(); ++pi) for (size_t k = 0; k < all[pi].size(); ++k) {
      if (pi == ai && k == vi) continue;
      int64_t y = all[pi][k].y;
      if (!have || fabsl((ld)y - y_at0) < fabsl((ld)s_best - y_at0)) { s_best = y; have = true; }
    }
    if (!have || fabsl((ld)s_best - y_at0) > std::max<ld>(8, fabsl((ld)keep.y - (ld)mv0.y) / 4)) continue;
    ld dxo = ((ld)keep.x - (ld)mv0.x) / ((ld)keep.y - (ld)mv0.y), dxc = ((ld)c1.x - (ld)c0.x) / ((ld)c1.y - (ld)c0.y);
    ld win = 1.0L / std::max<ld>(1.0L, fabsl(dxo - dxc));
    const int64_t W = std::max<int64_t>(64, (keep.x > mv0.x ? keep.x - mv0.x : mv0.x - keep.x) / 4);
    int64_t lo = mv0.x - W, hi = mv0.x + W; ld ylo = yc_of(lo), yhi = yc_of(hi);
    if (!(ylo == ylo) || !(yhi == yhi) || (ylo - s_best) * (yhi - s_best) > 0) continue;
    for (int it = 0; it < 80 && hi - lo > 1; ++it) { int64_t mid = lo + (hi - lo) / 2; ld ym = yc_of(mid); if (!(ym == ym)) break; if ((ylo - s_best) * (ym - s_best) <= 0) { hi = mid; yhi = ym; } else { lo = mid; ylo = ym; } }
    for (int64_t x = lo - 3; x <= hi + 3; ++x) {
      ld y = yc_of(x); if (!(y == y)) continue; ld e = fabsl(y - s_best);
      if (e > 0 && e < win) {
        Paths64 all2 = all; all2[ai][vi].x = x;
        int64_t M = max_abs_coord(all2);
        if (M > std::max<int64_t>(sc.M, (int64_t)1 << sc.magclass) || !general_position(all2, M)) continue;
        sc.subj.assign(all2.begin(), all2.begin() + (long)ns); sc.clip.assign(all2.begin() + (long)ns, all2.end());
        sc.M = M; sc.tie = true;
        return true;
      }
    }
  }
  return false;
}

// dense-scanline flat scene: everything on a small y range (many vertices share few scanlines) and x stretched by k, so
// that all edges are nearly horizontal and cross at very shallow angles (max |coord| about 2^20)
inline bool flat_scene(Rng& r, GpCounters& gc, Scene& sc, int magexp = 24) {
  // (from 2^40 up also extremely flat scenes: edge extents of 2^31..2^36 over a few dozen units of height)
  static const int64_t ks[] = { 300, 1000, 3000, 10000, (int64_t)1 << 20, (int64_t)1 << 26, (int64_t)1 << 28, (int64_t)1 << 30 };
  const int64_t k = ks[r.irange(0, magexp >= 40 ? 7 : 3)]; const int64_t Y = r.irange(12, 60), X = r.irange(12, 60); const int64_t oy = r.coin() ? -2 * Y : (r.coin() ? 2 * Y : 0);
  for (int t = 0; t < 40; ++t) {
    auto poly = [&](int n) { Path64 p; for (int q = 0; q < n; ++q) p.push_back(Point64(r.range(-X, X) * k + r.range(-k / 3, k / 3), r.range(-Y, Y) + oy)); strip_dups_closed(p); return p; };
    sc.subj.clear(); sc.clip.clear();
    int ns = r.irange(1, 2), nc = r.irange(1, 2);
    for (int q = 0; q < ns; ++q) sc.subj.push_back(poly(r.irange(3, 6)));
    for (int q = 0; q < nc; ++q) sc.clip.push_back(poly(r.irange(3, 6)));
    bool small = false; for (auto* pp : { &sc.subj, &sc.clip }) for (auto& p : *pp) if (p.size() < 3) small = true;
    if (small) continue;
    Paths64 all = concat(sc.subj, sc.clip);
    sc.M = max_abs_coord(all);
    ++gc.tries;
    GPStats st;
    if (general_position(all, sc.M, &st)) { sc.ok = true; sc.shape = 9; sc.squash = (int)k; sc.flat = true; sc.collinear = 0; sc.R = (double)(X * k); sc.crossings = st.crossings; sc.vacuous = false; return true; }
    ++gc.rejected;
  }
  return false;
}

// Produce a scene in general position with max |coord| <= 2^magexp. maxM caps the magnitude (C13 uses 2^40).
inline Scene gp_scene(Rng& r, GpCounters& gc, int magexp, int shape = -1, int max_tries = 60) {
  Scene sc; sc.magclass = magexp;
  const int64_t Mmax = (int64_t)1 << magexp;
  if (shape < 0 && magexp >= 24 && r.chance(magexp >= 40 ? 0.12 : 0.05) && flat_scene(r, gc, sc, magexp)) {
    ++gc.flat;
    const int keep = g_nudge_attempts; g_nudge_attempts = 200;
    if (r.chance(0.8) && nudge_crossing_past_scanline(r, sc)) ++gc.tie;
    g_nudge_attempts = keep;
    return sc;
  }
  // wrap corner (1.5% of the scenes from 2^40 up): the subject is a triangle with a sharp corner (turn > 90 degrees) whose
  // cross product is exactly +-2^w, w = 64 mostly: zero in a w-bit word, so a collinearity test that compares truncated
  // products takes the corner for a spike and removes it (and the whole triangle with it)
  if (shape < 0 && magexp >= 40 && r.chance(0.015)) {
    for (int t = 0; t < 12; ++t) {
      int64_t v[4]; int w = 0;
      if (r.coin() ? !(w = 64, wrap_twin(r, 64, 32, v)) : !wrap_twin_any(r, 36, v, &w)) continue;   // half: 2^64 with all components below 2^32
      // edge vectors (a,c) then (d,b); cross = a*b - c*d; sharp: dot < 0
      const i128 dotp = (i128)v[0] * v[3] + (i128)v[2] * v[1];
      if (dotp >= 0) { v[3] = -v[3]; v[1] = -v[1]; }        // reversing the second edge negates cross and dot: still +-2^w
      Point64 p1(r.range(-1000, 1000), r.range(-1000, 1000)), p2(p1.x + v[0], p1.y + v[2]), p3(p2.x + v[3], p2.y + v[1]);
      if (cross(p1, p2, p3) == 0) continue;
      sc.subj = Paths64{ Path64{ p1, p2, p3 } };
      const int64_t cx = (p1.x + p2.x + p3.x) / 3, cy = (p1.y + p2.y + p3.y) / 3;
      const int64_t Rr = std::max<int64_t>(64, std::max(std::max(p2.x - p1.x, p1.x - p2.x), std::max(p2.y - p1.y, p1.y - p2.y)) / r.irange(2, 6));
      sc.clip = Paths64{ random_poly(r, cx, cy, Rr, r.irange(3, 5)) };
      strip_dups_closed(sc.clip[0]);
      if (sc.clip[0].size() < 3) continue;
      Paths64 all = concat(sc.subj, sc.clip);
      sc.M = max_abs_coord(all);
      ++gc.tries;
      GPStats st;
      if (sc.M > Mmax || !general_position(all, sc.M, &st)) { ++gc.rejected; continue; }
      sc.ok = true; sc.shape = 8; sc.squash = 0; sc.collinear = 0; sc.wrap = true; sc.R = (double)Rr; sc.crossings = st.crossings; sc.vacuous = false;
      ++gc.wrap;
      return sc;
    }
  }
  for (int t = 0; t < max_tries; ++t) {
    ++gc.tries; sc.squash = 0;
    int sh = shape >= 0 ? shape : r.irange(0, 6);
    if (t > max_tries / 2) sh = r.irange(0, 1);        // fall back to the simplest classes
    // feature scale: either the whole range, or a moderate feature translated far away
    double R; int64_t tx = 0, ty = 0;
    if (magexp <= 10) { R = (double)Mmax * 0.9; }
    else if (r.chance(0.6)) { R = (double)Mmax * r.real(0.3, 0.95); }
    else {
      int fe = r.irange(std::max(8, magexp - 31), magexp - 1);   // feature exponent
      R = ldexp(r.real(0.5, 1.0), fe);
      int64_t room = Mmax - (int64_t)R - 2;
      tx = r.range(-room, room); ty = r.range(-room, room);
    }
    gp_candidate(r, sh, R, sc.subj, sc.clip);
    if (magexp <= 10) {
      int64_t step = std::max<int64_t>(4, Mmax / (magexp <= 5 ? 5 : magexp <= 7 ? 10 : 40));
      int64_t jit = std::max<int64_t>(1, step / 4);
      lattice_snap(r, sc.subj, step, jit); lattice_snap(r, sc.clip, step, jit);
    } else { for (auto& p : sc.subj) strip_dups_closed(p); for (auto& p : sc.clip) strip_dups_closed(p); }
    translate(sc.subj, tx, ty); translate(sc.clip, tx, ty);
    // clamp into range (can only matter through rounding at the border)
    bool inrange = true;
    for (auto* pp : { &sc.subj, &sc.clip }) for (auto& p : *pp) for (auto& pt : p)
      if (pt.x > Mmax || pt.x < -Mmax || pt.y > Mmax || pt.y < -Mmax) inrange = false;
    if (!inrange) { ++gc.rejected; continue; }
    // anisotropic ("squashed") scenes: stretch x by a large factor so that most edges are nearly horizontal
    // (|dx/dy| > 100 reaches the flat-edge repair branches of the sweep that isotropic scenes never execute)
    if (r.chance(0.12)) {
      static const int64_t ks[] = { 30, 200, 1500, 20000 };
      int64_t k = ks[r.irange(0, 3)];
      int64_t mx = max_abs_coord(concat(sc.subj, sc.clip));
      // small scenes may be stretched beyond their magnitude class (up to 2^36): few scanlines, long flat edges
      const int64_t room = std::max<int64_t>(Mmax, magexp <= 30 ? ((int64_t)1 << 36) : Mmax);
      if (mx > 0 && mx <= room / k) { for (auto* pp : { &sc.subj, &sc.clip }) for (auto& p : *pp) for (auto& pt : p) pt.x *= k; sc.squash = (int)k; }
      else if (magexp >= 20) { // no room to stretch: squeeze y instead (keeps the magnitude)
        for (auto* pp : { &sc.subj, &sc.clip }) for (auto& p : *pp) { for (auto& pt : p) pt.y /= k; strip_dups_closed(p); }
        sc.squash = -(int)k;
      }
    }
    // redundant vertices: an integer point exactly on an edge (always available on horizontal / vertical edges and whenever
    // gcd(dx,dy) > 1) splits it into two collinear edges; legal in general position (the point lies on its own edges only)
    sc.collinear = 0;
    if (r.chance(0.15)) {
      for (auto* pp : { &sc.subj, &sc.clip }) for (auto& p : *pp) {
        Path64 q; size_t n = p.size();
        for (size_t a = 0; a < n; ++a) {
          const Point64 u = p[a], v = p[(a + 1) % n]; q.push_back(u);
          int64_t dx = v.x - u.x, dy = v.y - u.y; int64_t g = std::__gcd(dx < 0 ? -dx : dx, dy < 0 ? -dy : dy);
          if (g >= 2 && r.chance(0.5)) { int nins = r.chance(0.3) && g >= 3 ? 2 : 1; int64_t k1 = r.range(1, g - 1), k2 = r.range(1, g - 1); if (k1 > k2) std::swap(k1, k2);
            q.push_back(Point64(u.x + dx / g * k1, u.y + dy / g * k1)); ++sc.collinear;
            if (nins == 2 && k2 != k1) { q.push_back(Point64(u.x + dx / g * k2, u.y + dy / g * k2)); ++sc.collinear; } }
        }
        p.swap(q);
      }
    }
    Paths64 all = concat(sc.subj, sc.clip);
    sc.M = max_abs_coord(all);
    GPStats st;
    if (!general_position(all, sc.M, &st)) { ++gc.rejected; sc.squash = 0; continue; }
    sc.ok = true; sc.shape = sh; sc.R = R; sc.crossings = st.crossings;
    sc.vacuous = ldexp((double)sc.M, -42) > 1.0 && (double)tol_of(sc.M) * 200.0 > R;
    if (r.chance(sc.squash > 0 ? 0.4 : 0.04) && nudge_crossing_past_scanline(r, sc)) ++gc.tie;
    return sc;
  }
  ++gc.gave_up;
  sc.ok = false;
  return sc;
}

// ------------------------------------------------------------------ rectilinear scenes (C02, C03, C04)
// closed axis-parallel walk on a GxG lattice: alternating horizontal / vertical moves, closes by construction
inline Path64 rect_walk(Rng& r, int G, int steps) {
  Path64 p; int64_t x = r.range(0, G), y = r.range(0, G);
  int64_t x0 = x, y0 = y; p.push_back(P(x, y));
  bool horiz = r.coin();
  for (int i = 0; i < steps; ++i) {
    if (horiz) { int64_t nx = r.range(0, G); x = nx; } else { int64_t ny = r.range(0, G); y = ny; }
    p.push_back(P(x, y)); horiz = !horiz;
  }
  // close with axis-parallel moves
  if (x != x0 && y != y0) { if (r.coin()) p.push_back(P(x0, y)); else p.push_back(P(x, y0)); }
  return p; // closing edge (last->first) is axis parallel
}
inline void scale_paths(Paths64& pp, int64_t s, int64_t ox = 0, int64_t oy = 0) {
  for (auto& p : pp) for (auto& pt : p) { pt.x = pt.x * s + ox; pt.y = pt.y * s + oy; }
}
static const int64_t kRectScales[] = { 1, 2, 7, 1000, (int64_t)1 << 20, (int64_t)1 << 40, (int64_t)1 << 58 };

struct RectScene { Paths64 subj, clip; int G; int64_t s; int64_t ox, oy; };
inline RectScene rectilinear_scene(Rng& r, int Gmax = 8, int max_scale_idx = 6) {
  RectScene rs; rs.G = r.irange(2, Gmax);
  int ns = r.irange(1, 4), nc = r.irange(0, 4);
  auto mk = [&]() -> Path64 {
    if (r.chance(0.45)) { int64_t x0 = r.range(0, rs.G - 1), y0 = r.range(0, rs.G - 1);
      return box(x0, y0, r.range(x0 + 1, rs.G), r.range(y0 + 1, rs.G), r.coin()); }
    Path64 w = rect_walk(r, rs.G, r.irange(2, 10));
    if (r.chance(0.15) && w.size() > 1) w.insert(w.begin() + r.irange(0, (int)w.size() - 1), w[(size_t)r.irange(0, (int)w.size() - 1)]); // arbitrary revisit => may add a diagonal! guard below
    return w;
  };
  auto axis_ok = [](const Path64& p) { size_t n = p.size(); for (size_t i = 0; i < n; ++i) { const Point64& a = p[i]; const Point64& b = p[(i + 1) % n]; if (a.x != b.x && a.y != b.y) return false; } return true; };
  for (int i = 0; i < ns; ++i) { Path64 p; do { p = mk(); } while (!axis_ok(p)); if (r.chance(0.2) && !p.empty()) p.push_back(p.back()); rs.subj.push_back(p); }
  for (int i = 0; i < nc; ++i) { Path64 p; do { p = mk(); } while (!axis_ok(p)); rs.clip.push_back(p); }
  rs.s = kRectScales[r.irange(0, max_scale_idx)];
  // origin offset keeps all coordinates within +-2^61
  int64_t lim = ((int64_t)1 << 61) - rs.s * (rs.G + 1);
  rs.ox = r.chance(0.5) ? 0 : r.range(-std::min<int64_t>(lim, rs.s * 1000), std::min<int64_t>(lim, rs.s * 1000));
  rs.oy = r.chance(0.5) ? 0 : r.range(-std::min<int64_t>(lim, rs.s * 1000), std::min<int64_t>(lim, rs.s * 1000));
  if (rs.s >= ((int64_t)1 << 58)) { rs.ox = rs.oy = 0; if (rs.G > 3) { /* keep s*G <= 2^61 */ } }
  return rs;
}

// ------------------------------------------------------------------ open polylines
inline Path64 polyline(Rng& r, int64_t cx, int64_t cy, int64_t R, int n) {
  Path64 p; for (int i = 0; i < n; ++i) p.push_back(P(cx + r.range(-R, R), cy + r.range(-R, R))); return p;
}

// ------------------------------------------------------------------ degenerate zoo (C03 structural, C10, C11)
inline Path64 zoo_path(Rng& r, int64_t R) {
  switch (r.irange(0, 11)) {
    case 0: return Path64();
    case 1: return Path64{ P(r.range(-R, R), r.range(-R, R)) };
    case 2: return Path64{ P(r.range(-R, R), r.range(-R, R)), P(r.range(-R, R), r.range(-R, R)) };
    case 3: { Point64 a = P(r.range(-R, R), r.range(-R, R)); return Path64(r.irange(2, 6), a); }             // all duplicates
    case 4: { // collinear run
      int64_t x = r.range(-R, R / 2), y = r.range(-R, R / 2), dx = r.range(-3, 3), dy = r.range(-3, 3); Path64 p;
      int n = r.irange(3, 7); for (int i = 0; i < n; ++i) { int64_t k = r.range(0, std::max<int64_t>(1, R / 8)); p.push_back(P(x + dx * k, y + dy * k)); } return p; }
    case 5: { // spike
      Path64 p = random_poly(r, 0, 0, R, r.irange(3, 6)); size_t i = (size_t)r.irange(0, (int)p.size() - 1);
      Point64 tip = P(r.range(-R, R), r.range(-R, R)); p.insert(p.begin() + i, { p[i], tip }); return p; }
    case 6: { Path64 p = random_poly(r, 0, 0, R, r.irange(3, 8)); p.push_back(p.front()); return p; }          // explicit closing vertex
    case 7: { Path64 p = random_poly(r, 0, 0, R, r.irange(3, 8)); size_t i = (size_t)r.irange(0, (int)p.size() - 1); p.insert(p.begin() + i, p[i]); return p; }
    case 8: return box(r.range(-R, 0), r.range(-R, 0), r.range(0, R), r.range(0, R), r.coin());
    case 9: { int64_t y = r.range(-R, R); return Path64{ P(-R, y), P(0, y), P(R, y), P(R / 2, y) }; }          // flat, zero area
    case 10: { int64_t g = std::max<int64_t>(1, R / 4); Path64 p; int n = r.irange(3, 10); for (int i = 0; i < n; ++i) p.push_back(P(r.range(-4, 4) * g, r.range(-4, 4) * g)); return p; } // lattice => coincidences
    default: return random_poly(r, 0, 0, R, r.irange(3, 12));
  }
}
inline Paths64 zoo_paths(Rng& r, int64_t R, int maxn = 5) {
  Paths64 pp; int n = r.irange(0, maxn);
  for (int i = 0; i < n; ++i) { pp.push_back(zoo_path(r, R)); if (r.chance(0.15) && !pp.empty()) pp.push_back(pp[(size_t)r.irange(0, (int)pp.size() - 1)]); }
  return pp;
}

} } // namespace vf::gen
#endif
