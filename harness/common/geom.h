// geom.h — exact reference geometry shared by the behavioural monitors (DESIGN.md 2.5).
// Nothing in here uses code from the library under test except the plain Point/Path typedefs.
#ifndef VF_GEOM_H
#define VF_GEOM_H

#include "vf.h"
#include <cmath>
#include <limits>

namespace vf {

typedef __int128 i128;
typedef unsigned __int128 u128;
typedef long double ld;

inline ld to_ld(i128 v) {
  // exact split conversion (gcc converts __int128 -> long double correctly, kept explicit for clarity)
  return (ld)v;
}

inline i128 cross(const Point64& a, const Point64& b, const Point64& p) {
  return (i128)(b.x - a.x) * (i128)(p.y - a.y) - (i128)(b.y - a.y) * (i128)(p.x - a.x);
}
inline int sgn(i128 v) { return (v > 0) - (v < 0); }
inline int orient(const Point64& a, const Point64& b, const Point64& p) { return sgn(cross(a, b, p)); }
inline i128 dot(const Point64& a, const Point64& b, const Point64& p) {
  return (i128)(b.x - a.x) * (i128)(p.x - a.x) + (i128)(b.y - a.y) * (i128)(p.y - a.y);
}
inline i128 dist2(const Point64& a, const Point64& b) {
  i128 dx = (i128)a.x - b.x, dy = (i128)a.y - b.y; return dx * dx + dy * dy;
}

// p on closed segment ab (exact)
inline bool on_segment(const Point64& a, const Point64& b, const Point64& p) {
  if (cross(a, b, p) != 0) return false;
  return std::min(a.x, b.x) <= p.x && p.x <= std::max(a.x, b.x) &&
         std::min(a.y, b.y) <= p.y && p.y <= std::max(a.y, b.y);
}

// distance from p to closed segment ab, long double, computed from exact products
inline ld dist_pt_seg(const Point64& a, const Point64& b, const Point64& p) {
  i128 d2 = dist2(a, b);
  if (d2 == 0) return sqrtl(to_ld(dist2(a, p)));
  i128 t = dot(a, b, p);
  if (t <= 0) return sqrtl(to_ld(dist2(a, p)));
  if (t >= d2) return sqrtl(to_ld(dist2(b, p)));
  i128 c = cross(a, b, p); if (c < 0) c = -c;
  return to_ld(c) / sqrtl(to_ld(d2));
}

// same with long-double query point (for rational crossing points); a,b integer
struct PtL { ld x, y; };
inline ld dist_ptl_seg(const Point64& a, const Point64& b, const PtL& p) {
  ld dx = (ld)b.x - (ld)a.x, dy = (ld)b.y - (ld)a.y;
  ld px = p.x - (ld)a.x, py = p.y - (ld)a.y;
  ld d2 = dx * dx + dy * dy;
  if (d2 == 0) return sqrtl(px * px + py * py);
  ld t = (px * dx + py * dy) / d2;
  if (t <= 0) return sqrtl(px * px + py * py);
  if (t >= 1) { ld qx = p.x - (ld)b.x, qy = p.y - (ld)b.y; return sqrtl(qx * qx + qy * qy); }
  return fabsl(px * dy - py * dx) / sqrtl(d2);
}

template <class F> inline void for_each_edge(const Paths64& pp, bool closed, F f) {
  for (size_t pi = 0; pi < pp.size(); ++pi) {
    const Path64& p = pp[pi];
    size_t n = p.size();
    if (n < 2) continue;
    size_t m = closed ? n : n - 1;
    for (size_t i = 0; i < m; ++i) f(p[i], p[(i + 1) % n], pi, i);
  }
}

inline ld min_dist_to_edges(const Paths64& pp, const Point64& q, bool closed = true) {
  ld best = std::numeric_limits<ld>::infinity();
  for (const Path64& p : pp) {
    size_t n = p.size();
    if (n == 0) continue;
    if (n == 1) { best = std::min(best, sqrtl(to_ld(dist2(p[0], q)))); continue; }
    size_t m = closed ? n : n - 1;
    for (size_t i = 0; i < m; ++i) {
      const Point64& a = p[i]; const Point64& b = p[(i + 1) % n];
      // cheap reject by bounding box against current best
      best = std::min(best, dist_pt_seg(a, b, q));
    }
  }
  return best;
}

// Winding number of closed paths about q; on_edge set when q lies on an edge (then result is unspecified).
inline int winding(const Paths64& pp, const Point64& q, bool* on_edge = nullptr) {
  int w = 0;
  for (const Path64& p : pp) {
    size_t n = p.size();
    if (n < 2) continue;
    for (size_t i = 0; i < n; ++i) {
      const Point64& a = p[i]; const Point64& b = p[(i + 1) % n];
      if (on_edge && on_segment(a, b, q)) *on_edge = true;
      if (a.y <= q.y) { if (b.y > q.y && orient(a, b, q) > 0) ++w; }
      else { if (b.y <= q.y && orient(a, b, q) < 0) --w; }
    }
  }
  return w;
}
inline int winding1(const Path64& p, const Point64& q, bool* on_edge = nullptr) {
  Paths64 pp(1, p); return winding(pp, q, on_edge);
}

enum { FR_EVENODD = 0, FR_NONZERO = 1, FR_POSITIVE = 2, FR_NEGATIVE = 3 };
enum { CT_NOCLIP = 0, CT_INTERSECTION = 1, CT_UNION = 2, CT_DIFFERENCE = 3, CT_XOR = 4 };

inline bool filled(int w, int fr) {
  switch (fr) {
    case FR_EVENODD: return (w & 1) != 0;
    case FR_NONZERO: return w != 0;
    case FR_POSITIVE: return w > 0;
    default: return w < 0;
  }
}
inline bool setop(bool s, bool c, int ct) {
  switch (ct) {
    case CT_INTERSECTION: return s && c;
    case CT_UNION: return s || c;
    case CT_DIFFERENCE: return s && !c;
    case CT_XOR: return s != c;
    default: return false;
  }
}

inline int64_t max_abs_coord(const Paths64& pp) {
  int64_t m = 0;
  for (auto& p : pp) for (auto& pt : p) {
    int64_t ax = pt.x < 0 ? -pt.x : pt.x, ay = pt.y < 0 ? -pt.y : pt.y;
    if (ax > m) m = ax;
    if (ay > m) m = ay;
  }
  return m;
}
inline ld tol_of(int64_t M) { return 2.0L + ldexpl((ld)M, -42); }

// exact doubled signed area of a closed path
inline i128 area2(const Path64& p) {
  // accumulated modulo 2^128 (unsigned, no UB); the true value fits for |coord| <= 2^61
  u128 a = 0; size_t n = p.size();
  if (n < 3) return 0;
  for (size_t i = 0; i < n; ++i) {
    const Point64& u = p[i]; const Point64& v = p[(i + 1) % n];
    a += (u128)((i128)u.x * v.y) - (u128)((i128)v.x * u.y);
  }
  return (i128)a;
}
inline i128 area2(const Paths64& pp) { i128 a = 0; for (auto& p : pp) a += area2(p); return a; }

// proper crossing: interiors intersect in exactly one point, not at an end point
inline bool proper_cross(const Point64& a, const Point64& b, const Point64& c, const Point64& d) {
  int o1 = orient(a, b, c), o2 = orient(a, b, d), o3 = orient(c, d, a), o4 = orient(c, d, b);
  return o1 * o2 < 0 && o3 * o4 < 0;
}
// any contact between closed segments (touching, overlap or crossing)
inline bool segs_touch(const Point64& a, const Point64& b, const Point64& c, const Point64& d) {
  int o1 = orient(a, b, c), o2 = orient(a, b, d), o3 = orient(c, d, a), o4 = orient(c, d, b);
  if (o1 * o2 < 0 && o3 * o4 < 0) return true;
  return on_segment(a, b, c) || on_segment(a, b, d) || on_segment(c, d, a) || on_segment(c, d, b);
}
// crossing point of the two lines (assumes not parallel), long double
inline PtL line_cross(const Point64& a, const Point64& b, const Point64& c, const Point64& d) {
  i128 den = (i128)(b.x - a.x) * (i128)(d.y - c.y) - (i128)(b.y - a.y) * (i128)(d.x - c.x);
  i128 num = (i128)(c.x - a.x) * (i128)(d.y - c.y) - (i128)(c.y - a.y) * (i128)(d.x - c.x);
  ld t = to_ld(num) / to_ld(den);
  return PtL{ (ld)a.x + t * ((ld)b.x - (ld)a.x), (ld)a.y + t * ((ld)b.y - (ld)a.y) };
}

inline void strip_dups_closed(Path64& p) {
  Path64 r;
  for (auto& pt : p) if (r.empty() || !(r.back() == pt)) r.push_back(pt);
  while (r.size() > 1 && r.back() == r.front()) r.pop_back();
  p.swap(r);
}

// ------------------------------------------------------------------ general position (C01 definition)
// Returns true iff: every path has >= 3 vertices after stripping consecutive duplicates; every vertex is
// >= need from every edge not incident to it; every proper crossing of two edges is >= need from every third
// edge. need = 3 + 0.001 + M*2^-50 (margin for the long-double crossing point). Touching / collinear overlap /
// T-junctions / triple points are all rejected by these two rules.
struct GPStats { long long crossings = 0; };
inline bool general_position(const Paths64& all, int64_t M, GPStats* st = nullptr, ld base = 3.0L) {
  struct E { Point64 a, b; size_t path, idx, n; };
  std::vector<E> es;
  for (size_t pi = 0; pi < all.size(); ++pi) {
    const Path64& p = all[pi];
    size_t n = p.size();
    if (n < 3) return false;
    for (size_t i = 0; i < n; ++i) {
      if (p[i] == p[(i + 1) % n]) return false;
      es.push_back(E{ p[i], p[(i + 1) % n], pi, i, n });
    }
  }
  const ld need = base + 0.001L + ldexpl((ld)M, -50);
  // (i) vertices vs non-incident edges
  for (size_t pi = 0; pi < all.size(); ++pi) {
    const Path64& p = all[pi]; size_t n = p.size();
    for (size_t i = 0; i < n; ++i) {
      for (const E& e : es) {
        if (e.path == pi && (e.idx == i || (e.idx + 1) % e.n == i)) continue;
        // quick bbox reject
        int64_t lox = std::min(e.a.x, e.b.x), hix = std::max(e.a.x, e.b.x);
        int64_t loy = std::min(e.a.y, e.b.y), hiy = std::max(e.a.y, e.b.y);
        ld nd = need + 1;
        if ((ld)p[i].x < (ld)lox - nd || (ld)p[i].x > (ld)hix + nd || (ld)p[i].y < (ld)loy - nd || (ld)p[i].y > (ld)hiy + nd) continue;
        if (dist_pt_seg(e.a, e.b, p[i]) < need) return false;
      }
    }
  }
  // (ii) crossings vs third edges
  for (size_t i = 0; i < es.size(); ++i)
    for (size_t j = i + 1; j < es.size(); ++j) {
      const E& e = es[i]; const E& f = es[j];
      if (std::max(e.a.x, e.b.x) < std::min(f.a.x, f.b.x) || std::max(f.a.x, f.b.x) < std::min(e.a.x, e.b.x) ||
          std::max(e.a.y, e.b.y) < std::min(f.a.y, f.b.y) || std::max(f.a.y, f.b.y) < std::min(e.a.y, e.b.y)) continue;
      if (!proper_cross(e.a, e.b, f.a, f.b)) continue;
      if (st) st->crossings++;
      PtL x = line_cross(e.a, e.b, f.a, f.b);
      for (size_t k = 0; k < es.size(); ++k) {
        if (k == i || k == j) continue;
        if (dist_ptl_seg(es[k].a, es[k].b, x) < need) return false;
      }
    }
  return true;
}

// ------------------------------------------------------------------ canonical forms
inline Path64 canon_path(const Path64& p) {
  if (p.empty()) return p;
  size_t best = 0;
  for (size_t i = 1; i < p.size(); ++i)
    if (p[i].x < p[best].x || (p[i].x == p[best].x && p[i].y < p[best].y)) best = i;
  // several vertices may be equal (self-touching): choose the lexicographically smallest rotation among them
  std::vector<size_t> cands;
  for (size_t i = 0; i < p.size(); ++i) if (p[i] == p[best]) cands.push_back(i);
  auto rot = [&](size_t s) { Path64 r; r.reserve(p.size()); for (size_t k = 0; k < p.size(); ++k) r.push_back(p[(s + k) % p.size()]); return r; };
  auto less = [](const Path64& a, const Path64& b) {
    for (size_t i = 0; i < a.size() && i < b.size(); ++i) {
      if (a[i].x != b[i].x) return a[i].x < b[i].x;
      if (a[i].y != b[i].y) return a[i].y < b[i].y;
    }
    return a.size() < b.size();
  };
  Path64 r = rot(cands[0]);
  for (size_t c = 1; c < cands.size(); ++c) { Path64 t = rot(cands[c]); if (less(t, r)) r.swap(t); }
  return r;
}
inline bool path_less(const Path64& a, const Path64& b) {
  for (size_t i = 0; i < a.size() && i < b.size(); ++i) {
    if (a[i].x != b[i].x) return a[i].x < b[i].x;
    if (a[i].y != b[i].y) return a[i].y < b[i].y;
  }
  return a.size() < b.size();
}
inline Paths64 canon_paths(const Paths64& pp) {
  Paths64 r; r.reserve(pp.size());
  for (auto& p : pp) r.push_back(canon_path(p));
  std::sort(r.begin(), r.end(), path_less);
  return r;
}
inline bool same_paths(const Paths64& a, const Paths64& b) {
  if (a.size() != b.size()) return false;
  for (size_t i = 0; i < a.size(); ++i) {
    if (a[i].size() != b[i].size()) return false;
    for (size_t j = 0; j < a[i].size(); ++j) if (!(a[i][j] == b[i][j])) return false;
  }
  return true;
}
inline uint64_t hash_paths(const Paths64& pp) {
  uint64_t h = 0xcbf29ce484222325ull;
  auto mix = [&](uint64_t v) { h ^= v; h *= 0x100000001b3ull; h ^= h >> 31; };
  for (auto& p : pp) { mix(p.size() + 77); for (auto& pt : p) { mix((uint64_t)pt.x); mix((uint64_t)pt.y); } }
  return h;
}
inline uint64_t hash_pathsd(const PathsD& pp) {
  uint64_t h = 0xcbf29ce484222325ull;
  auto mix = [&](uint64_t v) { h ^= v; h *= 0x100000001b3ull; h ^= h >> 31; };
  for (auto& p : pp) { mix(p.size() + 77); for (auto& pt : p) { uint64_t a, b; memcpy(&a, &pt.x, 8); memcpy(&b, &pt.y, 8); mix(a); mix(b); } }
  return h;
}

inline void bounds(const Paths64& pp, int64_t& x0, int64_t& y0, int64_t& x1, int64_t& y1, bool& any) {
  for (auto& p : pp) for (auto& pt : p) {
    if (!any) { x0 = x1 = pt.x; y0 = y1 = pt.y; any = true; }
    else { x0 = std::min(x0, pt.x); x1 = std::max(x1, pt.x); y0 = std::min(y0, pt.y); y1 = std::max(y1, pt.y); }
  }
}

inline Paths64 concat(const Paths64& a, const Paths64& b) { Paths64 r = a; r.insert(r.end(), b.begin(), b.end()); return r; }

inline std::string ldstr(ld v) { char b[64]; snprintf(b, sizeof b, "%.6Lg", v); return b; }

} // namespace vf
#endif
