// vf.h — monitor-program core: PRNG, case/witness I/O, event log, counters.
// Every monitor program (mon_cNN.cpp) includes this and defines
//   void vf_case(vf::Ctx&, uint64_t index);       // generate case #index and judge it
//   void vf_replay(vf::Ctx&, const vf::Case&);    // judge a stored witness with the same oracle
// and (optionally) void vf_begin(vf::Ctx&), void vf_end(vf::Ctx&).
#ifndef VF_H
#define VF_H

#include <cstdint>
#include <cstdio>
#include <cstdlib>
#include <cstring>
#include <cinttypes>
#include <string>
#include <vector>
#include <map>
#include <unordered_set>
#include <sstream>
#include <fstream>
#include <algorithm>
#include <fcntl.h>
#include <unistd.h>
#include <sys/mman.h>
#include <csignal>

#include "clipper2/clipper.core.h"

namespace vf {

using Clipper2Lib::Point64;
using Clipper2Lib::PointD;
using Clipper2Lib::Path64;
using Clipper2Lib::PathD;
using Clipper2Lib::Paths64;
using Clipper2Lib::PathsD;

// ---------------------------------------------------------------- PRNG
struct Rng {
  uint64_t s[4];
  static uint64_t splitmix(uint64_t& x) {
    uint64_t z = (x += 0x9E3779B97F4A7C15ull);
    z = (z ^ (z >> 30)) * 0xBF58476D1CE4E5B9ull;
    z = (z ^ (z >> 27)) * 0x94D049BB133111EBull;
    return z ^ (z >> 31);
  }
  explicit Rng(uint64_t seed = 1, uint64_t stream = 0) { reseed(seed, stream); }
  void reseed(uint64_t seed, uint64_t stream) {
    uint64_t x = seed * 0xD1342543DE82EF95ull + stream * 0x2545F4914F6CDD1Dull + 0x1234567ull;
    for (auto& v : s) v = splitmix(x);
  }
  static uint64_t rotl(uint64_t x, int k) { return (x << k) | (x >> (64 - k)); }
  uint64_t next() {
    const uint64_t r = rotl(s[1] * 5, 7) * 9, t = s[1] << 17;
    s[2] ^= s[0]; s[3] ^= s[1]; s[1] ^= s[2]; s[0] ^= s[3]; s[2] ^= t; s[3] = rotl(s[3], 45);
    return r;
  }
  // uniform in [lo, hi] (inclusive); hi-lo must be < 2^63
  int64_t range(int64_t lo, int64_t hi) {
    if (hi <= lo) return lo;
    uint64_t span = (uint64_t)hi - (uint64_t)lo + 1;
    if (span == 0) return (int64_t)next();
    return (int64_t)((uint64_t)lo + next() % span);
  }
  int irange(int lo, int hi) { return (int)range(lo, hi); }
  double unit() { return (next() >> 11) * (1.0 / 9007199254740992.0); }
  double real(double lo, double hi) { return lo + (hi - lo) * unit(); }
  bool coin() { return next() & 1; }
  bool chance(double p) { return unit() < p; }
  template <class T> const T& pick(const std::vector<T>& v) { return v[(size_t)range(0, (int64_t)v.size() - 1)]; }
  template <class T> void shuffle(std::vector<T>& v) {
    for (size_t i = v.size(); i > 1; --i) std::swap(v[i - 1], v[(size_t)range(0, (int64_t)i - 1)]);
  }
};

// ---------------------------------------------------------------- Case (= witness)
// A case is a bag of named scalars, named integer path sets and named double path sets.
// It is what a generator produces, what an oracle judges and what a witness file stores.
struct Case {
  std::map<std::string, std::string> kv;
  std::map<std::string, Paths64> p64;
  std::map<std::string, PathsD> pd;
#ifdef USINGZ
  std::map<std::string, std::vector<std::vector<int64_t>>> z; // parallel to p64 when used
#endif

  void set(const std::string& k, const std::string& v) { kv[k] = v; }
  void seti(const std::string& k, long long v) { kv[k] = std::to_string(v); }
  void setd(const std::string& k, double v) { char b[64]; snprintf(b, sizeof b, "%a", v); kv[k] = b; }
  bool has(const std::string& k) const { return kv.count(k) != 0; }
  std::string gets(const std::string& k, const std::string& d = "") const {
    auto it = kv.find(k); return it == kv.end() ? d : it->second; }
  long long geti(const std::string& k, long long d = 0) const {
    auto it = kv.find(k); return it == kv.end() ? d : strtoll(it->second.c_str(), nullptr, 10); }
  double getd(const std::string& k, double d = 0) const {
    auto it = kv.find(k); return it == kv.end() ? d : strtod(it->second.c_str(), nullptr); }
  const Paths64& P(const std::string& k) const {
    static const Paths64 empty; auto it = p64.find(k); return it == p64.end() ? empty : it->second; }
  const PathsD& D(const std::string& k) const {
    static const PathsD empty; auto it = pd.find(k); return it == pd.end() ? empty : it->second; }

  std::string serialize() const {
    std::ostringstream o;
    for (auto& e : kv) o << "kv " << e.first << " " << e.second << "\n";
    for (auto& e : p64) {
      o << "paths64 " << e.first << " " << e.second.size() << "\n";
      for (auto& p : e.second) {
        o << "p " << p.size();
        for (auto& pt : p) o << " " << pt.x << " " << pt.y;
        o << "\n";
      }
    }
    char b[64];
    for (auto& e : pd) {
      o << "pathsd " << e.first << " " << e.second.size() << "\n";
      for (auto& p : e.second) {
        o << "p " << p.size();
        for (auto& pt : p) { snprintf(b, sizeof b, " %a %a", pt.x, pt.y); o << b; }
        o << "\n";
      }
    }
    return o.str();
  }

  static bool parse(std::istream& in, Case& c) {
    std::string line;
    while (std::getline(in, line)) {
      if (line.empty() || line[0] == '#') continue;
      std::istringstream ls(line);
      std::string tag; ls >> tag;
      if (tag == "kv") {
        std::string k; ls >> k; std::string v; std::getline(ls, v);
        size_t a = v.find_first_not_of(' '); c.kv[k] = a == std::string::npos ? "" : v.substr(a);
      } else if (tag == "paths64") {
        std::string k; size_t n; ls >> k >> n; Paths64 pp;
        for (size_t i = 0; i < n; ++i) {
          if (!std::getline(in, line)) return false;
          std::istringstream ps(line); std::string t; size_t m; ps >> t >> m; Path64 p;
          for (size_t j = 0; j < m; ++j) { long long x, y; ps >> x >> y; p.emplace_back((int64_t)x, (int64_t)y); }
          pp.push_back(std::move(p));
        }
        c.p64[k] = std::move(pp);
      } else if (tag == "pathsd") {
        std::string k; size_t n; ls >> k >> n; PathsD pp;
        for (size_t i = 0; i < n; ++i) {
          if (!std::getline(in, line)) return false;
          std::istringstream ps(line); std::string t; size_t m; ps >> t >> m; PathD p;
          for (size_t j = 0; j < m; ++j) { std::string sx, sy; ps >> sx >> sy;
            p.emplace_back(strtod(sx.c_str(), nullptr), strtod(sy.c_str(), nullptr)); }
          pp.push_back(std::move(p));
        }
        c.pd[k] = std::move(pp);
      }
    }
    return true;
  }

  uint64_t hash() const {
    uint64_t h = 0xcbf29ce484222325ull;
    auto mix = [&](uint64_t v) { h ^= v; h *= 0x100000001b3ull; h ^= h >> 29; };
    for (auto& e : kv) { for (char ch : e.first) mix((uint8_t)ch); for (char ch : e.second) mix((uint8_t)ch); mix(0xff); }
    for (auto& e : p64) { for (char ch : e.first) mix((uint8_t)ch);
      for (auto& p : e.second) { mix(p.size() + 0x1000); for (auto& pt : p) { mix((uint64_t)pt.x); mix((uint64_t)pt.y); } } }
    for (auto& e : pd) { for (char ch : e.first) mix((uint8_t)ch);
      for (auto& p : e.second) { mix(p.size() + 0x2000); for (auto& pt : p) { uint64_t a, b; memcpy(&a, &pt.x, 8); memcpy(&b, &pt.y, 8); mix(a); mix(b); } } }
    return h;
  }

  // short JSON rendering for evidence samples (truncated paths)
  std::string to_json(size_t max_pts = 24) const;
};

inline std::string jesc(const std::string& s) {
  std::string o;
  for (char ch : s) {
    if (ch == '"' || ch == '\\') { o += '\\'; o += ch; }
    else if (ch == '\n') o += "\\n";
    else if ((unsigned char)ch < 0x20) { char b[8]; snprintf(b, sizeof b, "\\u%04x", ch); o += b; }
    else o += ch;
  }
  return o;
}

inline std::string Case::to_json(size_t max_pts) const {
  std::ostringstream o; o << "{";
  bool first = true;
  for (auto& e : kv) { o << (first ? "" : ",") << "\"" << jesc(e.first) << "\":\"" << jesc(e.second) << "\""; first = false; }
  for (auto& e : p64) {
    o << (first ? "" : ",") << "\"" << jesc(e.first) << "\":["; first = false;
    size_t shown = 0; bool fp = true;
    for (auto& p : e.second) {
      o << (fp ? "" : ",") << "["; fp = false; bool f2 = true;
      for (auto& pt : p) { if (shown++ >= max_pts) { o << (f2 ? "" : ",") << "\"...\""; break; }
        o << (f2 ? "" : ",") << "[" << pt.x << "," << pt.y << "]"; f2 = false; }
      o << "]";
      if (shown >= max_pts) break;
    }
    o << "]";
  }
  for (auto& e : pd) {
    o << (first ? "" : ",") << "\"" << jesc(e.first) << "\":["; first = false;
    size_t shown = 0; bool fp = true; char b[80];
    for (auto& p : e.second) {
      o << (fp ? "" : ",") << "["; fp = false; bool f2 = true;
      for (auto& pt : p) { if (shown++ >= max_pts) { o << (f2 ? "" : ",") << "\"...\""; break; }
        snprintf(b, sizeof b, "[%.17g,%.17g]", pt.x, pt.y);
        // JSON has no inf/nan
        std::string sb = b; if (sb.find("inf") != std::string::npos || sb.find("nan") != std::string::npos) sb = "\"" + sb + "\"";
        o << (f2 ? "" : ",") << sb; f2 = false; }
      o << "]";
      if (shown >= max_pts) break;
    }
    o << "]";
  }
  o << "}";
  return o.str();
}

// ---------------------------------------------------------------- Ctx
struct Ctx {
  uint64_t seed = 1;
  int shard = 0, nshards = 1;
  uint64_t ncases = 1000;
  std::string tier = "quick";
  std::string wdir = ".";
  std::string log_path;
  std::string replay_path;
  std::string mon_name;
  std::string cfg_name = "plain";
  long long only = -1;
  uint64_t from = 0;                 // resume after a crashed case: skip indices below this
  bool dump_only = false;           // with --only: write the witness of that case before judging it
  std::map<std::string, std::string> opt; // extra --key value options
  Rng rng;
  FILE* log = nullptr;
  volatile int64_t* progress = nullptr;
  uint64_t cur_index = 0;

  std::map<std::string, long long> counters;
  std::unordered_set<uint64_t> distinct;       // hashes of non-trivial cases
  std::vector<std::string> samples;
  long long evaluations = 0;
  long long violations = 0;
  std::map<std::string, int> viol_per_claim;
  int max_witness_per_claim = 8;
  size_t max_samples = 4;
  const Case* current = nullptr;               // for crash dumps

  bool quick() const { return tier == "quick"; }
  std::string optstr(const std::string& k, const std::string& d = "") const {
    auto it = opt.find(k); return it == opt.end() ? d : it->second; }
  long long optint(const std::string& k, long long d = 0) const {
    auto it = opt.find(k); return it == opt.end() ? d : strtoll(it->second.c_str(), nullptr, 10); }

  void count(const std::string& name, long long n = 1) { counters[name] += n; }
  void cmax(const std::string& name, long long v) { auto& c = counters[name]; if (v > c) c = v; }

  // One library execution (or batch) judged.
  void evaluated(long long n = 1) { evaluations += n; }

  // Register a case as explored; non-trivial ones are hashed for the distinct count.
  void note_case(const Case& c, bool nontrivial) {
    if (nontrivial) distinct.insert(c.hash());
    if (samples.size() < max_samples && nontrivial) samples.push_back(c.to_json());
  }
  void note_hash(uint64_t h) { distinct.insert(h); }
  void add_sample_json(const std::string& js) { if (samples.size() < max_samples) samples.push_back(js); }

  std::string write_witness(const Case& c, const std::string& claim) {
    char name[256];
    std::string cl = claim; for (auto& ch : cl) if (!isalnum((unsigned char)ch)) ch = '_';
    snprintf(name, sizeof name, "%s/%s_%s_s%" PRIu64 "_i%" PRIu64 "_%d.txt", wdir.c_str(), mon_name.c_str(),
             cl.c_str(), seed, cur_index, (int)viol_per_claim.size());
    std::ofstream f(name);
    f << "# witness written by " << mon_name << " claim " << claim << "\n";
    f << "kv _mon " << mon_name << "\n";
    f << "kv _cfg " << cfg_name << "\n";
    f << "kv _claim " << claim << "\n";
    for (auto& e : opt) f << "kv _opt_" << e.first << " " << e.second << "\n";
    f << c.serialize();
    return name;
  }

  void violation(const std::string& claim, const std::vector<std::string>& tags, const Case& c, const std::string& detail) {
    ++violations;
    // witness files are capped per (claim, tag set), so a frequent known class cannot use up the files a rare one needs
    std::string wkey = claim; for (auto& t : tags) { wkey += '|'; wkey += t; }
    int& n = viol_per_claim[wkey];
    std::string wpath;
    if (!replay_path.empty()) wpath = replay_path;
    else if (n < max_witness_per_claim) wpath = write_witness(c, claim);
    ++n;
    if (!log) return;
    std::string t = "[";
    for (size_t i = 0; i < tags.size(); ++i) t += std::string(i ? "," : "") + "\"" + jesc(tags[i]) + "\"";
    t += "]";
    fprintf(log, "{\"t\":\"violation\",\"claim\":\"%s\",\"tags\":%s,\"witness\":\"%s\",\"index\":%" PRIu64 ",\"detail\":\"%s\"}\n",
            jesc(claim).c_str(), t.c_str(), jesc(wpath).c_str(), cur_index, jesc(detail).c_str());
    fflush(log);
  }

  // Called by a monitor after generating a case and before handing it to the library:
  // with --only/--dump the witness is written first, so a crashing case still leaves one.
  void begin(const Case& c) {
    current = &c;
    if (dump_only) {
      std::string w = write_witness(c, "crash");
      if (log) { fprintf(log, "{\"t\":\"dump\",\"witness\":\"%s\"}\n", jesc(w).c_str()); fflush(log); }
    }
  }

  void info(const std::string& key, const std::string& json_value) {
    if (log) { fprintf(log, "{\"t\":\"info\",\"key\":\"%s\",\"value\":%s}\n", jesc(key).c_str(), json_value.c_str()); fflush(log); }
  }

  void emit_stats() {
    if (!log) return;
    std::string s = "{\"t\":\"stats\",\"evaluations\":" + std::to_string(evaluations) +
      ",\"violations\":" + std::to_string(violations) + ",\"distinct\":[";
    bool f = true;
    for (auto h : distinct) { s += (f ? "" : ","); s += std::to_string(h); f = false; }
    s += "],\"counters\":{";
    f = true;
    for (auto& e : counters) { s += (f ? "" : ","); s += "\"" + jesc(e.first) + "\":" + std::to_string(e.second); f = false; }
    s += "},\"samples\":[";
    f = true;
    for (auto& e : samples) { s += (f ? "" : ","); s += e; f = false; }
    s += "]}\n";
    fputs(s.c_str(), log); fflush(log);
  }
};

} // namespace vf

void vf_case(vf::Ctx&, uint64_t index);
void vf_replay(vf::Ctx&, const vf::Case&);
#ifndef VF_NO_MAIN
// per-case wall-clock watchdog: a case that does not return is a hang of the library (or of the oracle); the worker
// exits with status 97 and the orchestrator reproduces the case alone before it believes anything
static void vf_on_alarm(int) {
  static const char msg[] = "VF-WATCHDOG time limit exceeded in one case\n";
  ssize_t w = write(2, msg, sizeof msg - 1); (void)w;
  _exit(97);
}
#endif
void vf_begin(vf::Ctx&) __attribute__((weak));
void vf_end(vf::Ctx&) __attribute__((weak));

#ifndef VF_NO_MAIN
int main(int argc, char** argv) {
  vf::Ctx ctx;
  ctx.mon_name = VF_MON_NAME;
#ifdef VF_CFG_NAME
  ctx.cfg_name = VF_CFG_NAME;
#endif
  std::string progress_path;
  for (int i = 1; i < argc; ++i) {
    std::string a = argv[i];
    auto val = [&]() -> std::string { if (i + 1 >= argc) { fprintf(stderr, "missing value for %s\n", a.c_str()); exit(2); } return argv[++i]; };
    if (a == "--seed") ctx.seed = strtoull(val().c_str(), nullptr, 10);
    else if (a == "--shard") { std::string v = val(); sscanf(v.c_str(), "%d/%d", &ctx.shard, &ctx.nshards); }
    else if (a == "--cases") ctx.ncases = strtoull(val().c_str(), nullptr, 10);
    else if (a == "--tier") ctx.tier = val();
    else if (a == "--wdir") ctx.wdir = val();
    else if (a == "--log") ctx.log_path = val();
    else if (a == "--replay") ctx.replay_path = val();
    else if (a == "--only") ctx.only = strtoll(val().c_str(), nullptr, 10);
    else if (a == "--dump") ctx.dump_only = true;
    else if (a == "--from") ctx.from = strtoull(val().c_str(), nullptr, 10);
    else if (a == "--progress") progress_path = val();
    else if (a.rfind("--", 0) == 0) { std::string k = a.substr(2); ctx.opt[k] = val(); }
    else { fprintf(stderr, "unknown argument %s\n", a.c_str()); return 2; }
  }
  if (!ctx.log_path.empty()) ctx.log = fopen(ctx.log_path.c_str(), "w"); else ctx.log = stdout;
  if (!ctx.log) { perror("log"); return 2; }
  if (!progress_path.empty()) {
    int fd = open(progress_path.c_str(), O_RDWR | O_CREAT, 0644);
    if (fd >= 0 && ftruncate(fd, 8) == 0) {
      void* m = mmap(nullptr, 8, PROT_READ | PROT_WRITE, MAP_SHARED, fd, 0);
      if (m != MAP_FAILED) { ctx.progress = (volatile int64_t*)m; *ctx.progress = -1; }
    }
  }
  unsigned case_timeout = (unsigned)ctx.optint("case_timeout", 90);
  signal(SIGALRM, vf_on_alarm);
  if (vf_begin) vf_begin(ctx);
  if (!ctx.replay_path.empty()) {
    alarm(case_timeout * 4);
    std::ifstream f(ctx.replay_path);
    if (!f) { fprintf(stderr, "cannot open %s\n", ctx.replay_path.c_str()); return 2; }
    vf::Case c;
    if (!vf::Case::parse(f, c)) { fprintf(stderr, "cannot parse %s\n", ctx.replay_path.c_str()); return 2; }
    for (auto& e : c.kv) if (e.first.rfind("_opt_", 0) == 0 && !ctx.opt.count(e.first.substr(5))) ctx.opt[e.first.substr(5)] = e.second;
    ctx.evaluated(0);
    vf_replay(ctx, c);
  } else if (ctx.only >= 0) {
    ctx.cur_index = (uint64_t)ctx.only;
    ctx.rng.reseed(ctx.seed, ctx.cur_index);
    alarm(case_timeout * 4);
    vf_case(ctx, ctx.cur_index);
    alarm(0);
  } else {
    for (uint64_t i = ctx.from; i < ctx.ncases; ++i) {
      // hashed shard assignment: uncorrelated with any "index modulo k" cycling a monitor uses
      { uint64_t z = i + 0x9E3779B97F4A7C15ull; z = (z ^ (z >> 30)) * 0xBF58476D1CE4E5B9ull; z = (z ^ (z >> 27)) * 0x94D049BB133111EBull; z ^= z >> 31;
        if ((int)(z % (uint64_t)ctx.nshards) != ctx.shard) continue; }
      ctx.cur_index = i;
      if (ctx.progress) *ctx.progress = (int64_t)i;
      ctx.rng.reseed(ctx.seed, i);
      alarm(case_timeout);
      vf_case(ctx, i);
      alarm(0);
    }
    if (ctx.progress) *ctx.progress = -2; // finished
  }
  if (vf_end) vf_end(ctx);
  ctx.emit_stats();
  if (ctx.log != stdout) fclose(ctx.log);
  return 0;
}
#endif

#endif // VF_H
