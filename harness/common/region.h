// region.h — sample-point construction and the winding-number region oracle (DESIGN.md C01).
#ifndef VF_REGION_H
#define VF_REGION_H

#include "geom.h"

namespace vf {

struct Samples {
  std::vector<Point64> pts;
  void add(ld x, ld y) {
    if (!(fabsl(x) < 4.0e18L) || !(fabsl(y) < 4.0e18L)) return;
    pts.emplace_back((int64_t)llroundl(x), (int64_t)llroundl(y));
  }
};

// (a) face coverage: around every event point of the arrangement (vertices and proper crossings), one point on
// the bisector of every pair of angularly consecutive incident edge directions at the given radii.
inline void event_samples(const Paths64& in, const std::vector<ld>& radii, Samples& out, size_t cap = 4000) {
  struct Ev { ld x, y; std::vector<std::pair<ld, ld>> dirs; };
  std::vector<Ev> evs;
  struct E { Point64 a, b; };
  std::vector<E> es;
  for (auto& p : in) {
    size_t n = p.size(); if (n < 2) continue;
    for (size_t i = 0; i < n; ++i) {
      es.push_back(E{ p[i], p[(i + 1) % n] });
      const Point64& v = p[i]; const Point64& a = p[(i + n - 1) % n]; const Point64& b = p[(i + 1) % n];
      Ev e; e.x = (ld)v.x; e.y = (ld)v.y;
      e.dirs.push_back({ (ld)a.x - (ld)v.x, (ld)a.y - (ld)v.y });
      e.dirs.push_back({ (ld)b.x - (ld)v.x, (ld)b.y - (ld)v.y });
      evs.push_back(e);
    }
  }
  for (size_t i = 0; i < es.size() && evs.size() < cap; ++i)
    for (size_t j = i + 1; j < es.size() && evs.size() < cap; ++j) {
      if (!proper_cross(es[i].a, es[i].b, es[j].a, es[j].b)) continue;
      PtL x = line_cross(es[i].a, es[i].b, es[j].a, es[j].b);
      Ev e; e.x = x.x; e.y = x.y;
      ld d1x = (ld)es[i].b.x - (ld)es[i].a.x, d1y = (ld)es[i].b.y - (ld)es[i].a.y;
      ld d2x = (ld)es[j].b.x - (ld)es[j].a.x, d2y = (ld)es[j].b.y - (ld)es[j].a.y;
      e.dirs = { { d1x, d1y }, { -d1x, -d1y }, { d2x, d2y }, { -d2x, -d2y } };
      evs.push_back(e);
    }
  for (auto& e : evs) {
    std::vector<ld> ang;
    for (auto& d : e.dirs) if (d.first != 0 || d.second != 0) ang.push_back(atan2l(d.second, d.first));
    if (ang.empty()) continue;
    std::sort(ang.begin(), ang.end());
    for (size_t k = 0; k < ang.size(); ++k) {
      ld a0 = ang[k], a1 = (k + 1 < ang.size()) ? ang[k + 1] : ang[0] + 2 * 3.14159265358979323846L;
      ld mid = 0.5L * (a0 + a1);
      for (ld r : radii) out.add(e.x + r * cosl(mid), e.y + r * sinl(mid));
    }
  }
}

// (b) near the output: for every solution vertex and edge midpoint, points displaced to both sides
inline void near_output_samples(const Paths64& sol, const std::vector<ld>& offs, Samples& out) {
  for (auto& p : sol) {
    size_t n = p.size(); if (n < 2) continue;
    for (size_t i = 0; i < n; ++i) {
      const Point64& a = p[i]; const Point64& b = p[(i + 1) % n];
      ld dx = (ld)b.x - (ld)a.x, dy = (ld)b.y - (ld)a.y; ld len = sqrtl(dx * dx + dy * dy);
      if (len == 0) continue;
      ld nx = -dy / len, ny = dx / len;
      ld mx = 0.5L * ((ld)a.x + (ld)b.x), my = 0.5L * ((ld)a.y + (ld)b.y);
      for (ld o : offs) {
        out.add(mx + o * nx, my + o * ny); out.add(mx - o * nx, my - o * ny);
        out.add((ld)a.x + o * nx, (ld)a.y + o * ny); out.add((ld)a.x - o * nx, (ld)a.y - o * ny);
      }
    }
  }
}

inline void random_samples(Rng& r, const Paths64& in, int n, Samples& out) {
  int64_t x0 = 0, y0 = 0, x1 = 0, y1 = 0; bool any = false;
  bounds(in, x0, y0, x1, y1, any);
  if (!any) return;
  ld w = (ld)x1 - (ld)x0, h = (ld)y1 - (ld)y0;
  ld cx = 0.5L * ((ld)x0 + (ld)x1), cy = 0.5L * ((ld)y0 + (ld)y1);
  for (int i = 0; i < n; ++i) out.add(cx + (r.unit() - 0.5) * 1.2L * w, cy + (r.unit() - 0.5) * 1.2L * h);
}

inline void lattice_samples(const Paths64& in, int64_t pad, Samples& out, int64_t step = 1) {
  int64_t x0 = 0, y0 = 0, x1 = 0, y1 = 0; bool any = false;
  bounds(in, x0, y0, x1, y1, any);
  if (!any) return;
  for (int64_t y = y0 - pad; y <= y1 + pad; y += step)
    for (int64_t x = x0 - pad; x <= x1 + pad; x += step) out.pts.emplace_back(x, y);
}

// expected signed coverage at q under (ct, fr, reverse); q must clear the band
inline int expected_cover(const Paths64& subj, const Paths64& clip, const Point64& q, int ct, int fr, bool reverse) {
  bool s = filled(winding(subj, q), fr), c = filled(winding(clip, q), fr);
  return setop(s, c, ct) ? (reverse ? -1 : 1) : 0;
}

} // namespace vf
#endif
