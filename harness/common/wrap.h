// wrap.h - hostile operands for wide-multiplication code: products that agree modulo a power of two
#pragma once
#include "vf.h"
#include "geom.h"
#include <algorithm>
namespace vf {
// ---- products that agree modulo 2^w: a*b - c*d == +-2^w exactly, every |value| < 2^L. A comparison carried out in a
// w-bit word (a "fits into 64 bits" fast path, a dropped carry into bit w, a truncated high word) calls them equal.
// Construction: c = a - 2^j, d = 2^(w-j) - a*e, b = d + e*2^j  =>  a*b - c*d = 2^j*(a*e + d) = 2^w.
inline bool wrap_twin(Rng& r, int w, int L, int64_t out[4]) {
  if (L > 63) L = 63;
  const i128 lim = (i128)1 << L;
  for (int tries = 0; tries < 400; ++tries) {
    int jlo = std::max(0, w - L - 3), jhi = std::min(std::min(w, L), 62);
    if (jlo > jhi) return false;
    int j = r.irange(jlo, jhi);
    int64_t e = r.irange(1, 7);
    int ab = std::max(1, L - r.irange(0, 3));
    i128 a = ((i128)1 << (ab - 1)) | (i128)(r.next() & ((((uint64_t)1) << (ab - 1)) - 1));
    i128 d = ((i128)1 << (w - j)) - a * e, c = a - ((i128)1 << j), b = d + ((i128)e << j);
    auto ok = [&](i128 v) { return v < lim && v > -lim; };
    if (!ok(a) || !ok(b) || !ok(c) || !ok(d)) continue;
    if (a * b - c * d != ((i128)1 << w)) continue;
    int64_t A = (int64_t)a, B = (int64_t)b, C = (int64_t)c, D = (int64_t)d;
    if (r.coin()) { A = -A; C = -C; }                    // difference becomes -2^w
    if (r.coin()) { A = -A; B = -B; }
    if (r.coin()) { C = -C; D = -D; }
    if (r.coin()) std::swap(A, B);
    if (r.coin()) std::swap(C, D);
    if (r.coin()) { std::swap(A, C); std::swap(B, D); }
    out[0] = A; out[1] = B; out[2] = C; out[3] = D; return true;
  }
  return false;
}
static const int kWrapW[] = { 16, 31, 32, 33, 48, 62, 63, 64, 64, 64, 65, 96 };
inline bool wrap_twin_any(Rng& r, int maxL, int64_t out[4], int* wout) {
  for (int t = 0; t < 8; ++t) {
    int w = kWrapW[r.irange(0, 11)];
    int L = std::min(maxL, std::max(w / 2 + r.irange(0, 3), 2));
    if (r.chance(0.25)) L = std::min(maxL, r.irange(w / 2, 63));
    if (2 * L <= w - 1) continue;
    if (wrap_twin(r, w, L, out)) { *wout = w; return true; }
  }
  return false;
}
}  // namespace vf
