// c10_ops.h — every public entry point of Clipper2 as a "family" that can be generated from a PRNG, stored in a
// Case and executed. Shared by the C10 (hostile workload, allocation-failure enumeration), C11 (success part) and
// C14 (thread scripts) monitors. The TU that includes this header also includes clipper.export.h (exactly one TU).
#ifndef VF_C10_OPS_H
#define VF_C10_OPS_H

#include "gen.h"
#include "clipper2/clipper.h"
#ifndef VF_NO_EXPORT
#include "clipper2/clipper.export.h"
#endif
#include <sstream>

namespace c10 {
using namespace vf;
using namespace Clipper2Lib;

enum Op { BOOL64_PATHS = 0, BOOL64_TREE, BOOLD_PATHS, BOOLD_TREE, HELPERS64, HELPERSD, OFFSET_OBJ, INFLATE64, INFLATED,
          RECT64, RECTLINES64, RECTD, MINK64, MINKD, UTIL64, UTILD, EXPORT64, EXPORTD, REUSE, NOPS };
static const char* const kOpName[] = { "bool64_paths", "bool64_tree", "boolD_paths", "boolD_tree", "helpers64", "helpersD",
  "offset_obj", "inflate64", "inflateD", "rect64", "rectlines64", "rectD", "mink64", "minkD", "util64", "utilD",
  "export64", "exportD", "reuse" };
static bool g_skip_streams = false;   // set by the allocation-failure mode: iostreams swallow bad_alloc into badbit
inline bool is_boolean_family(int op) { return op <= HELPERSD || op == REUSE; }

// result accumulator: everything a call returns is folded into a hash (also used for sequential equivalence in C14)
struct Acc {
  uint64_t h = 0xcbf29ce484222325ull;
  long long clipper_exceptions = 0;   // documented Clipper2Exception on invalid arguments
  long long exec_false = 0;           // Execute returned false / export returned non-zero
  long long calls = 0;
  void mix(uint64_t v) { h ^= v; h *= 0x100000001b3ull; h ^= h >> 29; }
  void add(const Paths64& pp) { mix(pp.size()); for (auto& p : pp) { mix(p.size()); for (auto& pt : p) { mix((uint64_t)pt.x); mix((uint64_t)pt.y); } } }
  void add(const Path64& p) { mix(p.size()); for (auto& pt : p) { mix((uint64_t)pt.x); mix((uint64_t)pt.y); } }
  void addd(double d) { uint64_t a; memcpy(&a, &d, 8); if (d != d) a = 0x7ff8; mix(a); }
  void add(const PathsD& pp) { mix(pp.size()); for (auto& p : pp) { mix(p.size()); for (auto& pt : p) { addd(pt.x); addd(pt.y); } } }
  void add(const PathD& p) { mix(p.size()); for (auto& pt : p) { addd(pt.x); addd(pt.y); } }
  void add(const PolyPath64& t) { mix(t.Count()); add(t.Polygon()); mix(t.IsHole()); for (auto& ch : t) add(*ch); }
  void add(const PolyPathD& t) { mix(t.Count()); add(t.Polygon()); mix(t.IsHole()); for (auto& ch : t) add(*ch); }
};

inline PathsD to_d(const Paths64& pp, double div) {
  PathsD r; r.reserve(pp.size());
  for (auto& p : pp) { PathD q; q.reserve(p.size()); for (auto& pt : p) q.emplace_back((double)pt.x / div, (double)pt.y / div); r.push_back(std::move(q)); }
  return r;
}
inline PathD to_d1(const Path64& p, double div) { PathD q; for (auto& pt : p) q.emplace_back((double)pt.x / div, (double)pt.y / div); return q; }

// ------------------------------------------------------------------ generation
struct GenLimits { int maxexp_bool = 29, maxexp_other = 29; int force_exp_bool = 0; bool force_lattice = false; };

inline int64_t pick_R(Rng& r, int maxexp) {
  int e = r.irange(2, maxexp);
  if (r.chance(0.3)) e = std::min(maxexp, (int)r.pick(std::vector<int>{ 3, 5, 10, 20, 29, 40, 52, 61, 62 }));
  int64_t R = (int64_t)1 << e;
  if (r.chance(0.5) && e > 3) R -= r.range(0, R / 4);
  return R;
}
// hostile path sets: the degenerate zoo, optionally with coordinates pushed to the exact extremes +-R
inline Paths64 hostile_paths(Rng& r, int64_t R, int maxn = 5) {
  Paths64 pp = gen::zoo_paths(r, R, maxn);
  if (r.chance(0.2)) for (auto& p : pp) for (auto& pt : p) { if (r.chance(0.3)) pt.x = r.coin() ? R : -R; if (r.chance(0.3)) pt.y = r.coin() ? R : -R; }
  if (r.chance(0.1)) pp.push_back(gen::box(-R, -R, R, R, r.coin()));
  return pp;
}
inline double pick_delta(Rng& r, int64_t R) {
  switch (r.irange(0, 7)) {
    case 0: return 0.0; case 1: return r.coin() ? 0.4 : -0.4; case 2: return r.coin() ? 1.0 : -1.0;
    case 3: return r.real(-3, 3); case 4: return (double)R * r.real(-1.5, 1.5); case 5: return (double)R * r.real(-0.1, 0.1);
    case 6: return r.coin() ? 0.5 : -0.5; default: return r.real(-50, 50);
  }
}

inline Case gen_op(Rng& r, int op, const GenLimits& lim) {
  Case c; c.seti("op", op);
  bool boolean = is_boolean_family(op);
  int64_t R = pick_R(r, boolean ? lim.maxexp_bool : lim.maxexp_other);
  if (boolean && lim.force_exp_bool > 0) R = ((int64_t)1 << lim.force_exp_bool) - r.range(0, ((int64_t)1 << lim.force_exp_bool) / 4);   // exploration aid
  bool isD = (op == BOOLD_PATHS || op == BOOLD_TREE || op == HELPERSD || op == INFLATED || op == RECTD || op == MINKD || op == UTILD || op == EXPORTD);
  int prec = r.irange(-8, 8);
  if (isD) {
    // keep |x * scale| <= 2^52 (documented range of the double API); scale = 10^prec (or the next power of two)
    int maxe = boolean ? std::min(lim.maxexp_bool, 52) : std::min(lim.maxexp_other, 40);
    R = pick_R(r, maxe);
  }
  // boolean families, a quarter of the cases: degenerate rectilinear walks on a small lattice (coincident edges, touching
  // corners, self-overlap) - the inputs on which the sweep's horizontal joins, split lists and owner search do real work
  gen::RectScene rs; bool lattice = false;
  if (boolean && !isD && (lim.force_lattice || (R >= 64 && r.chance(0.25)))) {
    lattice = true;
    if (r.chance(0.4)) {
      // dense lattice soup: 5-16 polygons of 3-30 vertices each on a coarse G x G lattice (pitch 1..40): many mutually
      // overlapping, vertex-touching polygons whose solution pieces carry split lists and long owner chains
      const int G = r.irange(4, 12); const int64_t pitch = r.chance(0.3) ? r.irange(1, 3) : r.irange(14, 40);
      const int np = r.irange(5, 16); rs.G = G; rs.s = pitch; rs.ox = rs.oy = 0;
      for (int k = 0; k < np; ++k) { Path64 p; int nv = r.chance(0.6) ? r.irange(3, 8) : r.irange(9, 30);
        for (int q = 0; q < nv; ++q) p.emplace_back((int64_t)r.irange(0, G) * pitch, (int64_t)r.irange(0, G) * pitch);
        (k < np - 2 && r.chance(0.7) ? rs.subj : rs.clip).push_back(p); }
      R = (int64_t)G * pitch;
    } else {
      rs = gen::rectilinear_scene(r, 8, 2);
      const int64_t sc = (int64_t)1 << r.irange(0, 5);
      gen::scale_paths(rs.subj, sc, 0, 0); gen::scale_paths(rs.clip, sc, 0, 0);
      R = 8 * sc * 7;    // everything else of this case (open paths, rectangle) lives on the same scale
    }
  }
  c.seti("R", R); c.seti("prec", prec);
  c.seti("ct", r.irange(0, 4)); c.seti("fr", r.irange(0, 3)); c.seti("pc", r.coin()); c.seti("rev", r.coin());
  c.seti("jt", r.irange(0, 3)); c.seti("et", r.irange(0, 4));
  c.setd("delta", pick_delta(r, std::min<int64_t>(R, (int64_t)1 << 30)));
  c.setd("miter", r.pick(std::vector<double>{ 0.0, 0.5, 1.0, 2.0, 5.0, 100.0 }));
  c.setd("arc", r.pick(std::vector<double>{ 0.0, 0.0, 0.25, 1.0, 1e9, 1e-13 }));
  c.setd("eps", r.pick(std::vector<double>{ 0.0, 0.5, 1.0, 2.5, 1e6 }));
  c.seti("closed", r.coin()); c.seti("variant", r.irange(0, 7)); c.seti("usecb", r.chance(0.3));
  c.p64["S"] = hostile_paths(r, R);
  c.p64["C"] = hostile_paths(r, R);
  c.p64["O"] = r.chance(0.5) ? hostile_paths(r, R, 3) : Paths64();
  if (lattice) { c.p64["S"] = rs.subj; c.p64["C"] = rs.clip; c.seti("lattice", 1); }
  // rectangle: sometimes degenerate / empty / inverted
  int64_t x0 = r.range(-R, R), x1 = r.range(-R, R), y0 = r.range(-R, R), y1 = r.range(-R, R);
  if (r.chance(0.8)) { if (x0 > x1) std::swap(x0, x1); if (y0 > y1) std::swap(y0, y1); }
  if (r.chance(0.1)) x1 = x0;
  c.p64["rect"] = Paths64{ Path64{ Point64(x0, y0), Point64(x1, y1) } };
  // rectangle clipping: dense star polygons / zig-zags whose segments pass right through a small rectangle and look at its
  // corners from many outside zones (many corner insertions per path; per-path scratch sized from the vertex count)
  if ((op == RECT64 || op == RECTLINES64 || op == RECTD || op == EXPORT64 || op == EXPORTD) && r.chance(0.35) && R >= 64) {
    int64_t h = std::max<int64_t>(1, R / r.irange(6, 40));
    c.p64["rect"] = Paths64{ Path64{ Point64(-h, -h), Point64(h, h + r.range(0, h)) } };
    int n = r.irange(5, 41), k = r.irange(2, std::max(2, n / 2));
    Paths64 S; S.push_back(gen::star_polygon(r, r.range(-h / 2, h / 2), r.range(-h / 2, h / 2), (double)R * r.real(0.5, 0.95), n, k));
    if (r.coin()) { Path64 z; int m = r.irange(6, 40); for (int q = 0; q < m; ++q) { double a = 6.283185307179586 * q / m + ((q & 1) ? 3.141592653589793 : 0.0); z.emplace_back((int64_t)(0.9 * (double)R * std::cos(a)), (int64_t)(0.9 * (double)R * std::sin(a))); } S.push_back(z); }
    if (r.chance(0.3)) S.insert(S.begin(), gen::box(-R / 2, -R / 2, R / 2, R / 2));   // a path that first grows the scratch space
    c.p64["S"] = S;
  }
  return c;
}

// scale divisor turning the integer zoo into doubles with fractional digits such that x*10^prec stays in range
inline double d_div(const Case& c) {
  int prec = (int)c.geti("prec");
  // coordinates x/div, scaled by 10^prec: |x| <= R <= 2^52 and we want |x/div*10^prec| <= 2^52 => div >= 10^prec
  return prec > 0 ? std::pow(10.0, prec) : 1.0;
}

#ifdef USINGZ
inline void zcb64(const Point64&, const Point64&, const Point64&, const Point64&, Point64& pt) { pt.z = pt.x ^ pt.y; }
inline void zcbD(const PointD&, const PointD&, const PointD&, const PointD&, PointD& pt) { pt.z = 7; }
#endif

// ------------------------------------------------------------------ execution
// Runs the family of c. Library exceptions of type Clipper2Exception are the documented reaction to invalid
// arguments and are counted; anything else propagates to the caller (the monitor decides what that means).
inline void run_op(const Case& c, Acc& a) {
  const int op = (int)c.geti("op");
  const Paths64& S = c.P("S"); const Paths64& C = c.P("C"); const Paths64& O = c.P("O");
  const ClipType ct = (ClipType)c.geti("ct"); const FillRule fr = (FillRule)c.geti("fr");
  const bool pc = c.geti("pc") != 0, rev = c.geti("rev") != 0, closed = c.geti("closed") != 0;
  const JoinType jt = (JoinType)c.geti("jt"); const EndType et = (EndType)c.geti("et");
  const double delta = c.getd("delta"), miter = c.getd("miter"), arc = c.getd("arc"), eps = c.getd("eps");
  const int prec = (int)c.geti("prec"), variant = (int)c.geti("variant");
  const bool usecb = c.geti("usecb") != 0;
  const Path64 rp = c.P("rect").empty() ? Path64{ Point64(0, 0), Point64(1, 1) } : c.P("rect")[0];
  const Rect64 rect(rp[0].x, rp[0].y, rp[1].x, rp[1].y);
  const double div = d_div(c);
  ++a.calls;
  try {
    switch (op) {
      case BOOL64_PATHS: case BOOL64_TREE: {
        Clipper64 cl; cl.PreserveCollinear(pc); cl.ReverseSolution(rev);
#ifdef USINGZ
        if (usecb) cl.SetZCallback(zcb64);
#endif
        cl.AddSubject(S); cl.AddOpenSubject(O); cl.AddClip(C);
        if (op == BOOL64_PATHS) { Paths64 sol, solo; bool ok = (variant & 1) ? cl.Execute(ct, fr, sol) : cl.Execute(ct, fr, sol, solo); if (!ok) ++a.exec_false; a.add(sol); a.add(solo);
          if (variant & 2) { Paths64 s2; if (!cl.Execute(ClipType::Union, FillRule::NonZero, s2)) ++a.exec_false; a.add(s2); } }
        else { PolyTree64 t; Paths64 solo; bool ok = (variant & 1) ? cl.Execute(ct, fr, t) : cl.Execute(ct, fr, t, solo); if (!ok) ++a.exec_false; a.add(t); a.add(solo);
          a.add(PolyTreeToPaths64(t)); a.addd(t.Area()); a.mix(CheckPolytreeFullyContainsChildren(t));
          if ((variant & 4) && !g_skip_streams) { std::ostringstream os; os << t; a.mix(os.str().size()); } }
        break; }
      case BOOLD_PATHS: case BOOLD_TREE: {
        ClipperD cl(prec); cl.PreserveCollinear(pc); cl.ReverseSolution(rev);
#ifdef USINGZ
        if (usecb) cl.SetZCallback(zcbD);
#endif
        cl.AddSubject(to_d(S, div)); cl.AddOpenSubject(to_d(O, div)); cl.AddClip(to_d(C, div));
        if (op == BOOLD_PATHS) { PathsD sol, solo; bool ok = (variant & 1) ? cl.Execute(ct, fr, sol) : cl.Execute(ct, fr, sol, solo); if (!ok) ++a.exec_false; a.add(sol); a.add(solo); }
        else { PolyTreeD t; PathsD solo; bool ok = (variant & 1) ? cl.Execute(ct, fr, t) : cl.Execute(ct, fr, t, solo); if (!ok) ++a.exec_false; a.add(t); a.add(solo);
          a.add(PolyTreeToPathsD(t)); a.addd(t.Area());
          if ((variant & 4) && !g_skip_streams) { std::ostringstream os; os << t; a.mix(os.str().size()); } }
        a.mix((uint64_t)cl.ErrorCode());
        break; }
      case HELPERS64: {
        switch (variant) {
          case 0: a.add(BooleanOp(ct, fr, S, C)); break;
          case 1: a.add(Intersect(S, C, fr)); break;
          case 2: a.add(Union(S, C, fr)); break;
          case 3: a.add(Difference(S, C, fr)); break;
          case 4: a.add(Xor(S, C, fr)); break;
          case 5: a.add(Union(S, fr)); break;
          default: { PolyTree64 t; BooleanOp(ct, fr, S, C, t); a.add(t); break; }
        }
        break; }
      case HELPERSD: {
        PathsD s = to_d(S, div), cc = to_d(C, div);
        switch (variant) {
          case 0: a.add(BooleanOp(ct, fr, s, cc, prec)); break;
          case 1: a.add(Intersect(s, cc, fr, prec)); break;
          case 2: a.add(Union(s, cc, fr, prec)); break;
          case 3: a.add(Difference(s, cc, fr, prec)); break;
          case 4: a.add(Xor(s, cc, fr, prec)); break;
          case 5: a.add(Union(s, fr, prec)); break;
          default: { PolyTreeD t; BooleanOp(ct, fr, s, cc, t, prec); a.add(t); break; }
        }
        break; }
      case OFFSET_OBJ: {
        ClipperOffset co(miter, arc, pc, rev);
#ifdef USINGZ
        if (usecb) co.SetZCallback(zcb64);
#endif
        co.AddPaths(S, jt, et);
        if (variant & 1) co.AddPaths(C, (JoinType)((int)jt ^ 1), (EndType)(((int)et + 2) % 5));
        if (variant & 2) for (auto& p : O) co.AddPath(p, JoinType::Round, EndType::Round);
        if ((variant & 4) && usecb) {
          Paths64 sol; co.Execute([delta](const Path64& path, const PathD&, size_t curr, size_t) { return delta * (1.0 + (double)(curr % 3) / (double)(path.size() + 1)); }, sol); a.add(sol);
        } else if (variant & 4) { PolyTree64 t; co.Execute(delta, t); a.add(t); }
        else { Paths64 sol; co.Execute(delta, sol); a.add(sol); Paths64 sol2; co.Execute(-delta, sol2); a.add(sol2); }
        a.mix((uint64_t)co.ErrorCode());
        break; }
      case INFLATE64: a.add(InflatePaths(S, delta, jt, et, miter, arc)); break;
      case INFLATED: a.add(InflatePaths(to_d(S, div), delta / div, jt, et, miter, prec, arc / div)); break;
      case RECT64: {
        if (variant & 1) { a.add(RectClip(rect, S)); if (!S.empty()) a.add(RectClip(rect, S[0])); }
        else { class RectClip64 rc(rect); a.add(rc.Execute(S)); a.add(rc.Execute(C)); a.add(rc.Execute(S)); }
        break; }
      case RECTLINES64: {
        if (variant & 1) { a.add(RectClipLines(rect, S)); if (!S.empty()) a.add(RectClipLines(rect, S[0])); }
        else { class RectClipLines64 rc(rect); a.add(rc.Execute(S)); a.add(rc.Execute(O)); a.add(rc.Execute(S)); }
        break; }
      case RECTD: {
        RectD rd((double)rect.left / div, (double)rect.top / div, (double)rect.right / div, (double)rect.bottom / div);
        PathsD s = to_d(S, div);
        if (variant & 1) { a.add(RectClip(rd, s, prec)); if (!s.empty()) a.add(RectClip(rd, s[0], prec)); }
        else { a.add(RectClipLines(rd, s, prec)); if (!s.empty()) a.add(RectClipLines(rd, s[0], prec)); }
        break; }
      case MINK64: {
        Path64 pat = S.empty() ? Path64() : S[0]; Path64 path = C.empty() ? Path64() : C[0];
        if (variant & 1) a.add(MinkowskiSum(pat, path, closed)); else a.add(MinkowskiDiff(pat, path, closed));
        break; }
      case MINKD: {
        PathD pat = S.empty() ? PathD() : to_d1(S[0], div); PathD path = C.empty() ? PathD() : to_d1(C[0], div);
        int dp = prec < 0 ? 0 : prec;   // MinkowskiSum(PathD) does not validate decimalPlaces (C11's business)
        if (variant & 1) a.add(MinkowskiSum(pat, path, closed, dp)); else a.add(MinkowskiDiff(pat, path, closed, dp));
        break; }
      case UTIL64: {
        for (auto& p : S) {
          a.add(TrimCollinear(p, closed)); a.add(SimplifyPath(p, eps, closed)); a.add(RamerDouglasPeucker(p, eps));
          Path64 q = p; StripDuplicates(q, closed); a.add(q); a.add(StripNearEqual(p, eps * eps, closed));
          a.add(TranslatePath(p, (int64_t)3, (int64_t)-5)); a.addd(Area(p)); a.addd(Length(p, closed)); a.mix(IsPositive(p));
          Rect64 b = GetBounds(p); a.mix((uint64_t)b.left); a.mix((uint64_t)b.bottom);
          if (!p.empty()) { a.mix((uint64_t)PointInPolygon(p[0], p)); a.mix((uint64_t)PointInPolygon(Point64(1, 2), p)); }
          if (!g_skip_streams) { std::ostringstream os; os << p; a.mix(os.str().size()); }
        }
        a.add(SimplifyPaths(S, eps, closed)); a.add(RamerDouglasPeucker(S, eps)); a.addd(Area(S));
        Paths64 q = S; StripDuplicates(q, closed); a.add(q); a.add(StripNearEqual(S, eps, closed)); a.add(TranslatePaths(S, (int64_t)1, (int64_t)1));
        { Rect64 b = GetBounds(S); a.mix((uint64_t)b.right); if (!g_skip_streams) { std::ostringstream os; os << S << b; a.mix(os.str().size()); } }
        { double rx = std::fabs(delta), ry = std::fabs(eps); if (rx > 1e6) rx = 1e6; if (ry > 1e6) ry = 1e6;
          a.add(Ellipse(Point64(3, 4), rx, ry, (size_t)(variant * 3))); a.add(Ellipse(rect)); }
        { std::vector<int64_t> v; for (auto& p : S) for (auto& pt : p) { v.push_back(pt.x); v.push_back(pt.y); } if (variant & 1) v.push_back(7);
          a.add(MakePath(v)); }
        break; }
      case UTILD: {
        PathsD s = to_d(S, div);
        for (auto& p : s) {
          a.add(TrimCollinear(p, prec, closed)); a.add(SimplifyPath(p, eps, closed)); a.add(RamerDouglasPeucker(p, eps));
          PathD q = p; StripDuplicates(q, closed); a.add(q); a.add(StripNearEqual(p, eps, closed));
          a.add(TranslatePath(p, 0.5, -0.25)); a.addd(Area(p)); a.addd(Length(p, closed));
          RectD b = GetBounds(p); a.addd(b.left);
          if (!p.empty()) a.mix((uint64_t)PointInPolygon(p[0], p));
          if (!g_skip_streams) { std::ostringstream os; os << p; a.mix(os.str().size()); }
        }
        a.add(SimplifyPaths(s, eps, closed)); a.addd(Area(s));
        { double rx = std::fabs(delta), ry = std::fabs(eps); if (rx > 1e6) rx = 1e6; if (ry > 1e6) ry = 1e6; a.add(Ellipse(PointD(0.5, 0.5), rx, ry, (size_t)(variant * 3))); }
        { std::vector<double> v; for (auto& p : s) for (auto& pt : p) { v.push_back(pt.x); v.push_back(pt.y); } if (variant & 1) v.push_back(7.5);
          a.add(MakePathD(v)); }
        break; }
#ifndef VF_NO_EXPORT
      case EXPORT64: {
        CPaths64 cs = CreateCPathsFromPathsT(S), cc = CreateCPathsFromPathsT(C), co = CreateCPathsFromPathsT(O);
        struct G { CPaths64& p; ~G() { DisposeArray64(p); } } g1{ cs }, g2{ cc }, g3{ co };
        a.add(ConvertCPathsToPathsT(cs));
        CPaths64 sol = nullptr, solo = nullptr; G g4{ sol }, g5{ solo };
        switch (variant) {
          case 0: { int rc = BooleanOp64((uint8_t)c.geti("ct"), (uint8_t)c.geti("fr"), cs, co, cc, sol, solo, pc, rev); if (rc) ++a.exec_false; a.mix((uint64_t)rc); a.add(ConvertCPathsToPathsT(sol)); a.add(ConvertCPathsToPathsT(solo)); break; }
          case 1: { CPolyTree64 t = nullptr; G g6{ t }; int rc = BooleanOp_PolyTree64((uint8_t)c.geti("ct"), (uint8_t)c.geti("fr"), cs, co, cc, t, solo, pc, rev); if (rc) ++a.exec_false; a.mix((uint64_t)rc); if (t) { a.mix((uint64_t)t[0]); for (int64_t k = 0; k < t[0]; ++k) a.mix((uint64_t)t[k]); } break; }
          case 2: { sol = InflatePaths64(cs, delta, (uint8_t)jt, (uint8_t)et, miter, arc, rev); a.add(ConvertCPathsToPathsT(sol)); break; }
          case 3: { if (!S.empty() && !S[0].empty()) { Paths64 one{ S[0] }; CPaths64 c1 = CreateCPathsFromPathsT(one); G g7{ c1 }; CPath64 cp = c1 + 2; sol = InflatePath64(cp, delta, (uint8_t)jt, (uint8_t)et, miter, arc, rev); a.add(ConvertCPathsToPathsT(sol)); } break; }
          case 4: { CRect64 cr{ rect.left, rect.top, rect.right, rect.bottom }; sol = RectClip64(cr, cs); a.add(ConvertCPathsToPathsT(sol)); break; }
          case 5: { CRect64 cr{ rect.left, rect.top, rect.right, rect.bottom }; sol = RectClipLines64(cr, cs); a.add(ConvertCPathsToPathsT(sol)); break; }
          default: { if (!S.empty() && !S[0].empty() && !C.empty() && !C[0].empty()) {
              Paths64 one{ S[0] }, two{ C[0] }; CPaths64 c1 = CreateCPathsFromPathsT(one), c2 = CreateCPathsFromPathsT(two); G g7{ c1 }, g8{ c2 };
              CPath64 p1 = c1 + 2, p2 = c2 + 2;
              sol = (variant == 6) ? MinkowskiSum64(p1, p2, closed) : MinkowskiDiff64(p1, p2, closed); a.add(ConvertCPathsToPathsT(sol)); } break; }
        }
        break; }
      case EXPORTD: {
        PathsD s = to_d(S, div), cc2 = to_d(C, div), o = to_d(O, div);
        CPathsD cs = CreateCPathsDFromPathsD(s), cc = CreateCPathsDFromPathsD(cc2), co = CreateCPathsDFromPathsD(o);
        struct G { CPathsD& p; ~G() { DisposeArrayD(p); } } g1{ cs }, g2{ cc }, g3{ co };
        a.add(ConvertCPathsToPathsT(cs));
        CPathsD sol = nullptr, solo = nullptr; G g4{ sol }, g5{ solo };
        switch (variant) {
          case 0: case 6: { int rc = BooleanOpD((uint8_t)c.geti("ct"), (uint8_t)c.geti("fr"), cs, co, cc, sol, solo, prec, pc, rev); if (rc) ++a.exec_false; a.mix((uint64_t)rc); a.add(ConvertCPathsToPathsT(sol)); a.add(ConvertCPathsToPathsT(solo)); break; }
          case 1: case 7: { CPolyTreeD t = nullptr; G g6{ t }; int rc = BooleanOp_PolyTreeD((uint8_t)c.geti("ct"), (uint8_t)c.geti("fr"), cs, co, cc, t, solo, prec, pc, rev); if (rc) ++a.exec_false; a.mix((uint64_t)rc); if (t) { a.addd(t[0]); for (int64_t k = 0; k < (int64_t)t[0]; ++k) a.addd(t[k]); } break; }
          case 2: { sol = InflatePathsD(cs, delta / div, (uint8_t)jt, (uint8_t)et, prec, miter, arc / div, rev); a.add(ConvertCPathsToPathsT(sol)); break; }
          case 3: { if (!s.empty() && !s[0].empty()) { PathsD one{ s[0] }; CPathsD c1 = CreateCPathsDFromPathsD(one); G g7{ c1 }; CPathD cp = c1 + 2; sol = InflatePathD(cp, delta / div, (uint8_t)jt, (uint8_t)et, prec, miter, arc / div, rev); a.add(ConvertCPathsToPathsT(sol)); } break; }
          case 4: { CRectD cr{ (double)rect.left / div, (double)rect.top / div, (double)rect.right / div, (double)rect.bottom / div }; sol = RectClipD(cr, cs, prec); a.add(ConvertCPathsToPathsT(sol)); break; }
          default: { CRectD cr{ (double)rect.left / div, (double)rect.top / div, (double)rect.right / div, (double)rect.bottom / div }; sol = RectClipLinesD(cr, cs, prec); a.add(ConvertCPathsToPathsT(sol)); break; }
        }
        break; }
#endif
      case REUSE: {
        ReuseableDataContainer64 rd;
        rd.AddPaths(S, PathType::Subject, false);
        if (variant & 1) rd.AddPaths(O, PathType::Subject, true);
        Clipper64 c1, c2; c1.PreserveCollinear(pc); c2.ReverseSolution(rev);
        c1.AddReuseableData(rd); c1.AddClip(C);
        if (c.geti("twice")) c1.AddReuseableData(rd);   // only pinned witnesses set this (known finding)
        c2.AddClip(C); c2.AddReuseableData(rd);
        Paths64 s1, o1, s2; PolyTree64 t2;
        if (!c1.Execute(ct, fr, s1, o1)) ++a.exec_false;
        if (!c2.Execute(ct, fr, t2)) ++a.exec_false;
        if (!c1.Execute(ClipType::Xor, FillRule::EvenOdd, s2)) ++a.exec_false;
        a.add(s1); a.add(o1); a.add(t2); a.add(s2);
        if (variant & 2) { c1.Clear(); c1.AddSubject(C); c1.AddReuseableData(rd); if (!c1.Execute(ct, fr, s1)) ++a.exec_false; a.add(s1); }
        if (variant & 4) { rd.Clear(); rd.AddPaths(C, PathType::Clip, false); Clipper64 c3; c3.AddSubject(S); c3.AddReuseableData(rd); if (!c3.Execute(ct, fr, s1)) ++a.exec_false; a.add(s1); }
        break; }
      default: break;
    }
  } catch (const Clipper2Exception&) {
    ++a.clipper_exceptions;
  }
}

} // namespace c10
#endif
