// mon_c04 — C04: PolyTree solutions carry the same paths (closed and open) as Paths solutions, with correct
// nesting: every polygon inside its parent and outside its siblings, depth alternating outer (positive
// orientation) / hole (negative orientation), tree area == paths area; PolyTree64 and PolyTreeD.
//
// Oracle: exact (__int128) point location of child vertices and edge midpoints against parent / sibling
// polygons, exact shoelace signs, canonical path-set equality. Two clipper objects per output form.
//
// Claims (every one a consequence of the property text, premises: exact general-position filter, or rectilinear
// input on a lattice of pitch >= 2):
//   C04.paths_equal       canonical PolyTreeToPaths64(tree) == canonical paths solution (also PolyTreeToPaths64 ==
//                         own traversal of the tree; also PolyTreeToPathsD(treeD) == ClipperD paths solution)
//   C04.open_equal        the open-path outputs of the two executions are the same multiset
//   C04.child_in_parent   no vertex / edge midpoint of a child strictly outside its parent polygon (on-boundary allowed)
//   C04.sibling_disjoint  no vertex / edge midpoint strictly inside a sibling's polygon (on-boundary allowed)
//   C04.hole_parity       Parent()/Level() agree with the position in the tree, IsHole() == (depth even), exact
//                         orientation negative iff hole (flipped under ReverseSolution), no zero-area node
//   C04.area              tree.Area() == Area(paths) == exact shoelace, within 1e-9 * sum|terms| + 1e-6
//   C04.treeD_shape       PolyTreeD has, node for node, the children and the polygons (times scale, exactly) of the
//                         PolyTree64 of the input scaled by 2^(ilogb(10^precision)+1); the claims above hold for it
//   C04.tree_execute_crash  Execute into a PolyTree returns (rectilinear class only: run first in a forked child)
//   C04.execute_false     Execute returns true
#include "geom.h"
#include "gen.h"
#include "clipper2/clipper.h"
#include <signal.h>
#include <sys/wait.h>

using namespace vf;
using namespace Clipper2Lib;

static gen::GpCounters g_gc;

// ------------------------------------------------------------------------------------------------ exact location
struct BBox { int64_t x0, y0, x1, y1; };
static BBox bbox_of(const Path64& p) {
  BBox b{ 0, 0, 0, 0 };
  for (size_t i = 0; i < p.size(); ++i) {
    if (!i) { b.x0 = b.x1 = p[0].x; b.y0 = b.y1 = p[0].y; }
    else { b.x0 = std::min(b.x0, p[i].x); b.x1 = std::max(b.x1, p[i].x); b.y0 = std::min(b.y0, p[i].y); b.y1 = std::max(b.y1, p[i].y); }
  }
  return b;
}

enum { LOC_OUT = 0, LOC_IN = 1, LOC_ON = 2 };
// Location of the point (qx/mul, qy/mul) relative to the closed path p: winding number of p about the point,
// exact; ON when the point lies on an edge (closed segment). mul is 1 (vertex) or 2 (edge midpoint given as the
// sum of its end points). Safe for |coord| <= 2^61 with mul 1 and |coord| <= 2^59 with mul 2.
static int locate(const Path64& p, const BBox& bb, i128 qx, i128 qy, int mul) {
  size_t n = p.size();
  if (n < 3) {
    // a degenerate "polygon" has no interior; a point can only be on it
    for (size_t i = 0; i + 1 <= n && n >= 1; ++i) {
      i128 ax = (i128)p[i].x * mul, ay = (i128)p[i].y * mul, bx = (i128)p[(i + 1) % n].x * mul, by = (i128)p[(i + 1) % n].y * mul;
      i128 cr = (bx - ax) * (qy - ay) - (by - ay) * (qx - ax);
      if (cr == 0 && std::min(ax, bx) <= qx && qx <= std::max(ax, bx) && std::min(ay, by) <= qy && qy <= std::max(ay, by)) return LOC_ON;
    }
    return LOC_OUT;
  }
  if (qx < (i128)bb.x0 * mul || qx > (i128)bb.x1 * mul || qy < (i128)bb.y0 * mul || qy > (i128)bb.y1 * mul) return LOC_OUT;
  int w = 0;
  for (size_t i = 0; i < n; ++i) {
    const Point64& a = p[i]; const Point64& b = p[i + 1 == n ? 0 : i + 1];
    i128 ax = (i128)a.x * mul, ay = (i128)a.y * mul, bx = (i128)b.x * mul, by = (i128)b.y * mul;
    if ((ay > qy && by > qy) || (ay < qy && by < qy)) continue;           // edge strictly above / below
    if ((ax < qx && bx < qx)) {
      // strictly left: cannot contain q, contributes nothing to a ray going right
      continue;
    }
    i128 cr = (bx - ax) * (qy - ay) - (by - ay) * (qx - ax);
    if (cr == 0) {
      if (std::min(ax, bx) <= qx && qx <= std::max(ax, bx) && std::min(ay, by) <= qy && qy <= std::max(ay, by)) return LOC_ON;
    }
    if (ay <= qy) { if (by > qy && cr > 0) ++w; }
    else { if (by <= qy && cr < 0) --w; }
  }
  return w != 0 ? LOC_IN : LOC_OUT;
}

static ld dist_to_path(const Path64& p, const Point64& q) { Paths64 pp(1, p); return min_dist_to_edges(pp, q, true); }

// ------------------------------------------------------------------------------------------------ flattened tree
struct Node {
  Path64 poly;
  BBox bb;
  int parent = -1;        // index in the flat vector, -1 = child of the root
  int level = 1;          // by our own recursion (root = 0)
  unsigned lib_level = 0; // PolyPath::Level()
  bool lib_hole = false;  // PolyPath::IsHole()
  bool parent_ptr_ok = true;
  std::vector<int> kids;
  i128 a2 = 0;
};
struct Flat {
  std::vector<Node> nodes;
  std::vector<int> top;   // children of the root
  int depth = 0;          // deepest level
  bool convertible = true;  // (PolyTreeD only) every coordinate times scale was an exact integer
};

static void flatten64(const PolyPath64& pp, int parent, int level, Flat& out) {
  for (size_t i = 0; i < pp.Count(); ++i) {
    const PolyPath64* ch = pp.Child(i);
    Node nd; nd.poly = ch->Polygon(); nd.bb = bbox_of(nd.poly); nd.parent = parent; nd.level = level;
    nd.lib_level = ch->Level(); nd.lib_hole = ch->IsHole(); nd.parent_ptr_ok = (ch->Parent() == &pp);
    nd.a2 = area2(nd.poly);
    int me = (int)out.nodes.size();
    out.nodes.push_back(std::move(nd));
    if (parent >= 0) out.nodes[(size_t)parent].kids.push_back(me); else out.top.push_back(me);
    out.depth = std::max(out.depth, level);
    flatten64(*ch, me, level + 1, out);
  }
}
static Path64 d_to_64(const PathD& p, double scale, bool& exact) {
  Path64 r; r.reserve(p.size());
  for (auto& pt : p) {
    double vx = pt.x * scale, vy = pt.y * scale;
    if (!(std::fabs(vx) < 9.0e18) || !(std::fabs(vy) < 9.0e18)) { exact = false; r.emplace_back((int64_t)0, (int64_t)0); continue; }
    int64_t ix = (int64_t)std::llround(vx), iy = (int64_t)std::llround(vy);
    if ((double)ix != vx || (double)iy != vy) exact = false;
    r.emplace_back(ix, iy);
  }
  return r;
}
static void flattenD(const PolyPathD& pp, int parent, int level, double scale, Flat& out) {
  for (size_t i = 0; i < pp.Count(); ++i) {
    const PolyPathD* ch = pp.Child(i);
    Node nd; nd.poly = d_to_64(ch->Polygon(), scale, out.convertible); nd.bb = bbox_of(nd.poly); nd.parent = parent; nd.level = level;
    nd.lib_level = ch->Level(); nd.lib_hole = ch->IsHole(); nd.parent_ptr_ok = (ch->Parent() == &pp);
    nd.a2 = area2(nd.poly);
    int me = (int)out.nodes.size();
    out.nodes.push_back(std::move(nd));
    if (parent >= 0) out.nodes[(size_t)parent].kids.push_back(me); else out.top.push_back(me);
    out.depth = std::max(out.depth, level);
    flattenD(*ch, me, level + 1, scale, out);
  }
}

static std::string ptstr(const Point64& p) { return "(" + std::to_string(p.x) + "," + std::to_string(p.y) + ")"; }

// ------------------------------------------------------------------------------------------------ classifier
// Named deterministic predicates over the witness describing HOW a node is misplaced (used as classifier tags).
// The true container of node k is the innermost other polygon of the tree that has no vertex/midpoint of k
// strictly outside and at least one strictly inside. Relative to the tree parent P of k:
//   attached_too_high   the true container is a proper descendant of P (P may be the root)
//   attached_too_deep   P is not the true container and the true container (or the root) is a proper ancestor of P
//   attached_sideways   neither
//   parent_is_true_container
// plus skipped_<n> (levels between P and the true container), touches_true_container (some vertex of k lies on
// it), edge_overlap_true_container (a positive-length collinear overlap of an edge of k with an edge of it).
static bool is_ancestor(const Flat& t, int anc, int k) {   // anc == -1 is the root: ancestor of everything
  if (anc < 0) return true;
  for (int p = t.nodes[(size_t)k].parent; p >= 0; p = t.nodes[(size_t)p].parent) if (p == anc) return true;
  return false;
}
static bool edges_overlap(const Path64& a, const Path64& b) {
  size_t n = a.size(), m = b.size();
  for (size_t i = 0; i < n; ++i) {
    const Point64& p = a[i]; const Point64& q = a[(i + 1) % n];
    if (p == q) continue;
    for (size_t j = 0; j < m; ++j) {
      const Point64& u = b[j]; const Point64& v = b[(j + 1) % m];
      if (u == v || cross(p, q, u) != 0 || cross(p, q, v) != 0) continue;
      // collinear: project on the dominant axis
      bool byx = std::llabs(q.x - p.x) >= std::llabs(q.y - p.y);
      int64_t a0 = byx ? std::min(p.x, q.x) : std::min(p.y, q.y), a1 = byx ? std::max(p.x, q.x) : std::max(p.y, q.y);
      int64_t b0 = byx ? std::min(u.x, v.x) : std::min(u.y, v.y), b1 = byx ? std::max(u.x, v.x) : std::max(u.y, v.y);
      if (std::max(a0, b0) < std::min(a1, b1)) return true;
    }
  }
  return false;
}
// A path that touches itself at a vertex decomposes into loops; true iff it has loops of both orientations (a
// "figure eight" whose lobes are one outer and one hole), which no placement in the tree can nest correctly.
static bool has_lobes_of_opposite_orientation(const Path64& p0) {
  // a vertex lying in the interior of another edge of the same path is a touch point too: split that edge there first
  Path64 p;
  for (size_t i = 0; i < p0.size(); ++i) {
    const Point64& u = p0[i]; const Point64& v = p0[(i + 1) % p0.size()];
    p.push_back(u);
    std::vector<Point64> mid;
    for (const Point64& w : p0) if (!(w == u) && !(w == v) && cross(u, v, w) == 0 && on_segment(u, v, w)) mid.push_back(w);
    // ... and so is a proper crossing of two axis-parallel edges (an exact lattice point)
    for (size_t j = 0; j < p0.size(); ++j) {
      const Point64& a = p0[j]; const Point64& b = p0[(j + 1) % p0.size()];
      if (j == i || !proper_cross(u, v, a, b)) continue;
      if (u.y == v.y && a.x == b.x) mid.push_back(Point64(a.x, u.y));
      else if (u.x == v.x && a.y == b.y) mid.push_back(Point64(u.x, a.y));
    }
    std::sort(mid.begin(), mid.end(), [&](const Point64& a, const Point64& b) { return dist2(u, a) < dist2(u, b); });
    for (size_t k = 0; k < mid.size(); ++k) if (k == 0 || !(mid[k] == mid[k - 1])) p.push_back(mid[k]);
  }
  std::vector<Point64> st; bool pos = false, neg = false;
  auto close_loop = [&](size_t from) {
    Path64 loop(st.begin() + (long)from, st.end());
    i128 a = area2(loop);
    if (a > 0) pos = true; else if (a < 0) neg = true;
    st.resize(from + 1);
  };
  for (const Point64& v : p) {
    size_t hit = st.size();
    for (size_t i = 0; i < st.size(); ++i) if (st[i] == v) { hit = i; break; }
    if (hit < st.size()) close_loop(hit); else st.push_back(v);
  }
  if (st.size() >= 3) close_loop(0);
  return pos && neg;
}

static std::vector<std::string> classify_one(const Flat& t, int k, bool use_mid, const std::string& cls, int& T) {
  const Node& N = t.nodes[(size_t)k];
  T = -1;
  for (size_t j = 0; j < t.nodes.size(); ++j) {
    if ((int)j == k) continue;
    const Node& B = t.nodes[j];
    size_t n = N.poly.size(); long long in = 0, out = 0;
    for (size_t i = 0; i < n && !out; ++i) {
      int l = locate(B.poly, B.bb, N.poly[i].x, N.poly[i].y, 1);
      if (l == LOC_IN) ++in; else if (l == LOC_OUT) ++out;
      if (use_mid) { const Point64& u = N.poly[(i + 1) % n]; int lm = locate(B.poly, B.bb, (i128)N.poly[i].x + u.x, (i128)N.poly[i].y + u.y, 2); if (lm == LOC_IN) ++in; else if (lm == LOC_OUT) ++out; }
    }
    if (out || !in) continue;
    auto absa = [](i128 v) { return v < 0 ? -v : v; };
    if (T < 0 || absa(B.a2) < absa(t.nodes[(size_t)T].a2)) T = (int)j;
  }
  std::vector<std::string> tags;
  const int P = N.parent;
  std::string rel;
  if (T == P) rel = "parent_is_true_container";
  else if (T >= 0 && is_ancestor(t, P, T)) rel = "attached_too_high";
  else if (P >= 0 && is_ancestor(t, T, P)) rel = "attached_too_deep";
  else rel = "attached_sideways";
  tags.push_back(rel); tags.push_back(rel + "@" + cls);
  if (T >= 0 && rel == "attached_too_high") tags.push_back("skipped_" + std::to_string(t.nodes[(size_t)T].level - (P < 0 ? 0 : t.nodes[(size_t)P].level)));
  if (T >= 0) {
    const Node& B = t.nodes[(size_t)T];
    bool touch = false;
    for (auto& v : N.poly) if (locate(B.poly, B.bb, v.x, v.y, 1) == LOC_ON) touch = true;
    tags.push_back(touch ? "touches_true_container" : "clear_of_true_container");
    if (edges_overlap(N.poly, B.poly)) tags.push_back("edge_overlap_true_container");
    // the blind spot of the library's containment test (Path1InsidePath2): the vertices of N that are strictly inside and
    // strictly outside its true container B balance to within one (the others lie ON B's path, e.g. at edge crossings of
    // the input), so the decision falls to one sample - the integer centre of N's bounding box - and that point lies
    // strictly outside B (non-convex B) although N is inside
    long long vin = 0, vout = 0;
    for (auto& v : N.poly) { int l = locate(B.poly, B.bb, v.x, v.y, 1); if (l == LOC_IN) ++vin; else if (l == LOC_OUT) ++vout; }
    if (vin - vout <= 1 && vout - vin <= 1) {
      const int64_t mx = N.bb.x0 / 2 + N.bb.x1 / 2 + ((N.bb.x0 % 2 + N.bb.x1 % 2) / 2), my = N.bb.y0 / 2 + N.bb.y1 / 2 + ((N.bb.y0 % 2 + N.bb.y1 % 2) / 2);
      const int lm = locate(B.poly, B.bb, mx, my, 1);
      tags.push_back(lm == LOC_OUT ? "vertex_vote_equivocal_and_bbox_centre_outside_true_container" : (lm == LOC_ON ? "vertex_vote_equivocal_and_bbox_centre_on_true_container" : "vertex_vote_equivocal_and_bbox_centre_inside_true_container"));
    }
  }
  return tags;
}
// A node whose true container is itself misplaced (e.g. the hole of an island that was hung on the root) is only a
// consequence: follow the chain of true containers up to the node whose own container sits where it belongs and
// classify that one (tag via_misplaced_container records that this happened).
// Composite tag (for narrow known-finding keys): <relation>@<class>:<outer|hole>[:edge_overlap] where outer/hole is
// the exact orientation of the misplaced polygon (relative to ReverseSolution) and edge_overlap says that it shares
// a positive-length piece of boundary with its true container.
static std::vector<std::string> classify_node(const Flat& t, int k, bool use_mid, const std::string& cls, bool rev) {
  int T = -1; bool moved = false; int who = k;
  std::vector<std::string> tags = classify_one(t, k, use_mid, cls, T);
  for (int it = 0; it < 16 && tags[0] != "attached_too_high" && tags[0] != "parent_is_true_container" && T >= 0; ++it) {
    int T2 = -1;
    std::vector<std::string> up = classify_one(t, T, use_mid, cls, T2);
    if (up[0] == "parent_is_true_container") break;
    tags = up; who = T; T = T2; moved = true;
  }
  if (moved) tags.push_back("via_misplaced_container");
  const Node& W = t.nodes[(size_t)who];
  if (has_lobes_of_opposite_orientation(W.poly) || has_lobes_of_opposite_orientation(t.nodes[(size_t)k].poly)) {
    tags.push_back("polygon_with_lobes_of_opposite_orientation"); tags.push_back("polygon_with_lobes_of_opposite_orientation@" + cls);
  }
  std::string kind = W.a2 == 0 ? "flat" : ((W.a2 < 0) != rev ? "hole" : "outer");
  tags.push_back("misplaced_is_" + kind);
  bool ov = std::find(tags.begin(), tags.end(), "edge_overlap_true_container") != tags.end();
  tags.push_back(tags[0] + "@" + cls + ":" + kind + (ov ? ":edge_overlap" : ""));
  return tags;
}
static std::vector<std::string> join_tags(std::vector<std::string> a, const std::vector<std::string>& b) { a.insert(a.end(), b.begin(), b.end()); return a; }

// ------------------------------------------------------------------------------------------------ the claims
struct NestStats { long long located = 0, on_boundary = 0, mid_located = 0; };

// claims (2) (3) (4) on a flattened tree. Returns true iff a violation was reported.
static bool check_nesting(Ctx& ctx, const Case& c, const Flat& t, bool rev, bool rect, int64_t M, const char* which, NestStats& ns) {
  const bool use_mid = M <= ((int64_t)1 << 59);
  const ld tol = tol_of(M);
  const std::string cls = rect ? "rect" : "gp";
  // (4) depth alternates, orientation matches, Level()/IsHole()/Parent() consistent
  for (size_t k = 0; k < t.nodes.size(); ++k) {
    const Node& nd = t.nodes[k];
    bool should_be_hole = (nd.level % 2) == 0;          // root 0, outers 1, holes 2, islands 3, ...
    if (!nd.parent_ptr_ok) {
      ctx.violation("C04.hole_parity", { "parent_pointer", which, cls }, c, std::string(which) + " node " + std::to_string(k) + ": Parent() is not the node that lists it as a child");
      return true;
    }
    if ((int)nd.lib_level != nd.level) {
      ctx.violation("C04.hole_parity", { "level_mismatch", which, cls }, c, std::string(which) + " node " + std::to_string(k) + ": Level() = " + std::to_string(nd.lib_level) + " but the node sits at depth " + std::to_string(nd.level));
      return true;
    }
    if (nd.lib_hole != should_be_hole) {
      ctx.violation("C04.hole_parity", { "ishole_vs_level", which, cls }, c, std::string(which) + " node " + std::to_string(k) + " at depth " + std::to_string(nd.level) + ": IsHole() = " + std::to_string(nd.lib_hole));
      return true;
    }
    if (nd.a2 == 0) {
      std::vector<std::string> ztags = { "zero_area_node", which, cls };
      // classifier: a figure-eight whose lobes have opposite orientation and cancel exactly (the ProcessHorzJoins defect
      // recorded for C03.G1 and for C04.sibling_disjoint) - or something else
      if (has_lobes_of_opposite_orientation(nd.poly)) ztags.push_back("zero_area_node_is_figure_eight_of_opposite_lobes@" + cls);
      ctx.violation("C04.hole_parity", ztags, c, std::string(which) + " node " + std::to_string(k) + " at depth " + std::to_string(nd.level) + " has zero area (" + std::to_string(nd.poly.size()) + " vertices): neither positive nor negative orientation: " + [&]() { std::string q; for (auto& pt : nd.poly) q += "(" + std::to_string(pt.x) + "," + std::to_string(pt.y) + ")"; return q; }());
      return true;
    }
    bool negative = nd.a2 < 0;
    bool expect_negative = (should_be_hole != rev);
    if (negative != expect_negative) {
      ctx.violation("C04.hole_parity", join_tags({ "ishole_vs_orientation", which, cls, rev ? "rev" : "norev" }, classify_node(t, (int)k, use_mid, cls, rev)), c,
        std::string(which) + " node " + std::to_string(k) + " at depth " + std::to_string(nd.level) + " IsHole=" + std::to_string(nd.lib_hole) +
        " has " + (negative ? "negative" : "positive") + " orientation, ReverseSolution=" + std::to_string(rev) + ", first vertex " + (nd.poly.empty() ? std::string("-") : ptstr(nd.poly[0])));
      return true;
    }
  }
  // (2) child inside parent
  for (size_t k = 0; k < t.nodes.size(); ++k) {
    const Node& ch = t.nodes[k];
    if (ch.parent < 0) continue;
    const Node& pa = t.nodes[(size_t)ch.parent];
    size_t n = ch.poly.size();
    for (size_t i = 0; i < n; ++i) {
      const Point64& v = ch.poly[i];
      int loc = locate(pa.poly, pa.bb, v.x, v.y, 1);
      ++ns.located; if (loc == LOC_ON) ++ns.on_boundary;
      if (loc == LOC_OUT) {
        ld d = dist_to_path(pa.poly, v);
        ctx.violation("C04.child_in_parent", join_tags({ "vertex_outside_parent", d <= tol ? "excursion_le_tol" : "excursion_gt_tol", which, cls }, classify_node(t, (int)k, use_mid, cls, rev)), c,
          std::string(which) + " node " + std::to_string(k) + " (depth " + std::to_string(ch.level) + ") vertex " + ptstr(v) + " is strictly outside its parent polygon (node " +
          std::to_string(ch.parent) + ", first vertex " + ptstr(pa.poly[0]) + "), distance to the parent boundary " + ldstr(d) + ", tol(M) " + ldstr(tol));
        return true;
      }
      if (use_mid) {
        const Point64& u = ch.poly[i + 1 == n ? 0 : i + 1];
        int lm = locate(pa.poly, pa.bb, (i128)v.x + u.x, (i128)v.y + u.y, 2);
        ++ns.mid_located;
        if (lm == LOC_OUT) {
          ctx.violation("C04.child_in_parent", join_tags({ "midpoint_outside_parent", which, cls }, classify_node(t, (int)k, use_mid, cls, rev)), c,
            std::string(which) + " node " + std::to_string(k) + " (depth " + std::to_string(ch.level) + "): the midpoint of edge " + ptstr(v) + "-" + ptstr(u) + " is strictly outside the parent polygon (node " + std::to_string(ch.parent) + ")");
          return true;
        }
      }
    }
  }
  // (3) outside the siblings
  auto sib_class = [&](int a, int b) {     // classify the node that is inside; if it is where it belongs, the other one
    std::vector<std::string> ta = classify_node(t, a, use_mid, cls, rev);
    if (ta[0] != "parent_is_true_container" || has_lobes_of_opposite_orientation(t.nodes[(size_t)a].poly)) return ta;
    return classify_node(t, b, use_mid, cls, rev);
  };
  auto sib = [&](const std::vector<int>& group) -> bool {
    for (size_t ia = 0; ia < group.size(); ++ia)
      for (size_t ib = 0; ib < group.size(); ++ib) {
        if (ia == ib) continue;
        const Node& A = t.nodes[(size_t)group[ia]]; const Node& B = t.nodes[(size_t)group[ib]];
        if (A.bb.x1 < B.bb.x0 || A.bb.x0 > B.bb.x1 || A.bb.y1 < B.bb.y0 || A.bb.y0 > B.bb.y1) continue;
        size_t n = A.poly.size();
        for (size_t i = 0; i < n; ++i) {
          const Point64& v = A.poly[i];
          int loc = locate(B.poly, B.bb, v.x, v.y, 1);
          ++ns.located; if (loc == LOC_ON) ++ns.on_boundary;
          if (loc == LOC_IN) {
            ld d = dist_to_path(B.poly, v);
            ctx.violation("C04.sibling_disjoint", join_tags({ "vertex_inside_sibling", d <= tol ? "excursion_le_tol" : "excursion_gt_tol", which, cls }, sib_class(group[ia], group[ib])), c,
              std::string(which) + " node " + std::to_string(group[ia]) + " (depth " + std::to_string(A.level) + ") vertex " + ptstr(v) + " is strictly inside its sibling polygon node " +
              std::to_string(group[ib]) + " (first vertex " + ptstr(B.poly[0]) + "), distance to the sibling boundary " + ldstr(d) + ", tol(M) " + ldstr(tol));
            return true;
          }
          if (use_mid) {
            const Point64& u = A.poly[i + 1 == n ? 0 : i + 1];
            int lm = locate(B.poly, B.bb, (i128)v.x + u.x, (i128)v.y + u.y, 2);
            ++ns.mid_located;
            if (lm == LOC_IN) {
              ctx.violation("C04.sibling_disjoint", join_tags({ "midpoint_inside_sibling", which, cls }, sib_class(group[ia], group[ib])), c,
                std::string(which) + " node " + std::to_string(group[ia]) + ": the midpoint of edge " + ptstr(v) + "-" + ptstr(u) + " is strictly inside its sibling polygon node " + std::to_string(group[ib]));
              return true;
            }
          }
        }
      }
    return false;
  };
  if (sib(t.top)) return true;
  for (auto& nd : t.nodes) if (nd.kids.size() > 1 && sib(nd.kids)) return true;
  return false;
}

// exact doubled area and the sum of the absolute shoelace terms (bound for the double summation error)
static void area_terms(const Paths64& pp, ld& exact_area, ld& abs_terms) {
  i128 a2 = 0; ld s = 0;
  for (auto& p : pp) {
    a2 += area2(p);
    size_t n = p.size(); if (n < 3) continue;
    for (size_t i = 0; i < n; ++i) {
      const Point64& u = p[i]; const Point64& v = p[(i + 1) % n];
      s += fabsl(((ld)u.y + (ld)v.y) * ((ld)u.x - (ld)v.x));
    }
  }
  exact_area = (ld)a2 * 0.5L; abs_terms = s * 0.5L;
}

static Paths64 sorted_paths(Paths64 pp) { std::sort(pp.begin(), pp.end(), path_less); return pp; }

static std::string first_diff(const Paths64& a, const Paths64& b) {
  if (a.size() != b.size()) return "tree has " + std::to_string(a.size()) + " paths, paths solution has " + std::to_string(b.size());
  for (size_t i = 0; i < a.size(); ++i) {
    if (a[i].size() != b[i].size() || !same_paths(Paths64(1, a[i]), Paths64(1, b[i])))
      return "canonical path #" + std::to_string(i) + " differs: tree " + std::to_string(a[i].size()) + " vertices starting " + (a[i].empty() ? "-" : ptstr(a[i][0])) +
             ", paths " + std::to_string(b[i].size()) + " vertices starting " + (b[i].empty() ? "-" : ptstr(b[i][0]));
  }
  return "equal";
}

// premise of the rectilinear class: axis-parallel edges, and distinct coordinates at least 2 apart
static bool rect_premise(const Paths64& closed, const Paths64& open) {
  std::vector<int64_t> xs, ys;
  for (auto& p : closed) {
    size_t n = p.size();
    for (size_t i = 0; i < n; ++i) { const Point64& a = p[i]; const Point64& b = p[(i + 1) % n]; if (a.x != b.x && a.y != b.y) return false; xs.push_back(a.x); ys.push_back(a.y); }
  }
  for (auto& p : open) {
    size_t n = p.size();
    for (size_t i = 0; i < n; ++i) { xs.push_back(p[i].x); ys.push_back(p[i].y); if (i + 1 < n && p[i].x != p[i + 1].x && p[i].y != p[i + 1].y) return false; }
  }
  for (auto* v : { &xs, &ys }) {
    std::sort(v->begin(), v->end());
    for (size_t i = 1; i < v->size(); ++i) { int64_t d = (*v)[i] - (*v)[i - 1]; if (d != 0 && d < 2) return false; }
  }
  return true;
}
static bool gp_premise(const Paths64& S, const Paths64& C, const Paths64& O) {
  Paths64 all = concat(concat(S, C), O);          // open paths judged as if closed: stricter, never laxer
  return general_position(all, max_abs_coord(all));
}

// ------------------------------------------------------------------------------------------------ crash pre-screen
// Degenerate rectilinear scenes can send the PolyTree build into unbounded recursion (CheckSplitOwner). A worker that
// dies loses its counters and all its remaining cases, so for the rectilinear class the tree executions are first
// run in a forked child: if the child dies, the case is reported (with its witness) and the parent carries on.
static char* g_stack_ref = nullptr;
static void c04_segv_handler(int, siginfo_t* si, void*) {
  char* a = (char*)si->si_addr;
  // fault far below the frame that started the library call = the stack guard page: stack overflow
  if (g_stack_ref && a < g_stack_ref && g_stack_ref - a > (ptrdiff_t)(2 << 20) && g_stack_ref - a < (ptrdiff_t)(256 << 20)) _exit(77);
  _exit(78);
}
template <class F> static std::string prescreen(F f) {       // "" = survived, else a classifier tag
  pid_t pid = fork();
  if (pid < 0) return "";
  if (pid == 0) {
    static char alt[1 << 16];
    stack_t ss; ss.ss_sp = alt; ss.ss_flags = 0; ss.ss_size = sizeof alt; sigaltstack(&ss, nullptr);
    struct sigaction sa; memset(&sa, 0, sizeof sa); sa.sa_sigaction = c04_segv_handler; sa.sa_flags = SA_SIGINFO | SA_ONSTACK;
    sigaction(SIGSEGV, &sa, nullptr); sigaction(SIGBUS, &sa, nullptr);
    char ref = 0; g_stack_ref = &ref;
    f();
    _exit(0);
  }
  int st = 0;
  if (waitpid(pid, &st, 0) != pid) return "";
  if (WIFEXITED(st)) { int e = WEXITSTATUS(st); return e == 0 ? "" : e == 77 ? "stack_overflow" : e == 78 ? "segv" : "exit_" + std::to_string(e); }
  if (WIFSIGNALED(st)) return "signal_" + std::to_string(WTERMSIG(st));
  return "";
}

static void judge(Ctx& ctx, const Case& c, bool from_replay) {
  const Paths64& S = c.P("S"); const Paths64& C = c.P("C"); const Paths64& O = c.P("O");
  const int ct = (int)c.geti("ct"), fr = (int)c.geti("fr");
  const bool rev = c.geti("rev") != 0, pc = c.geti("pc") != 0, rect = c.geti("rect") != 0;
  const int prec = (int)c.geti("prec", -1);
  Paths64 in = concat(concat(S, C), O);
  const int64_t M = max_abs_coord(in);
  const std::string cls = rect ? "rect" : "gp";

  if (from_replay || rect) {
    // the premise is an exact filter on the input (generated GP scenes were filtered by the generator)
    bool ok = rect ? rect_premise(concat(S, C), O) : gp_premise(S, C, O);
    if (!ok || M > ((int64_t)1 << 61)) { ctx.count("premise_rejected"); return; }
  }
  ctx.begin(c);

  const double dscale = prec >= 0 ? std::pow(2.0, std::ilogb(std::pow(10.0, prec)) + 1) : 1.0;   // as documented in the ClipperD ctor
  const bool do_d = prec >= 0 && (ld)M * (ld)dscale <= 4.5e15L;
  auto toD = [](const Paths64& pp) { PathsD r; for (auto& p : pp) { PathD q; for (auto& pt : p) q.emplace_back((double)pt.x, (double)pt.y); r.push_back(q); } return r; };
  auto scaled = [&](const Paths64& pp) { Paths64 r = pp; const int64_t k = (int64_t)dscale; for (auto& p : r) for (auto& pt : p) { pt.x *= k; pt.y *= k; } return r; };
  if (rect) {
    std::string died = prescreen([&]() {
      { Clipper64 ct0; ct0.PreserveCollinear(pc); ct0.ReverseSolution(rev); ct0.AddSubject(S); ct0.AddClip(C); if (!O.empty()) ct0.AddOpenSubject(O);
        PolyTree64 t0; Paths64 o0; ct0.Execute((ClipType)ct, (FillRule)fr, t0, o0); }
      if (do_d) {
        { ClipperD cd(prec); cd.PreserveCollinear(pc); cd.ReverseSolution(rev); cd.AddSubject(toD(S)); cd.AddClip(toD(C)); if (!O.empty()) cd.AddOpenSubject(toD(O));
          PolyTreeD t1; PathsD o1; cd.Execute((ClipType)ct, (FillRule)fr, t1, o1); }
        { Clipper64 cs; cs.PreserveCollinear(pc); cs.ReverseSolution(rev); cs.AddSubject(scaled(S)); cs.AddClip(scaled(C)); if (!O.empty()) cs.AddOpenSubject(scaled(O));
          PolyTree64 t2; Paths64 o2; cs.Execute((ClipType)ct, (FillRule)fr, t2, o2); }
      }
    });
    ctx.count("tree_executions_prescreened_in_child");
    if (!died.empty()) {
      ctx.evaluated(1);
      ctx.count(std::string("scenes_") + cls);
      ctx.violation("C04.tree_execute_crash", { died, died + "@" + cls, cls }, c,
        "Clipper64/ClipperD::Execute into a PolyTree did not return: the forked child running it ended with " + died);
      return;
    }
  }

  // ---- two objects, one per output form
  Paths64 sol, sol_open, tree_open;
  PolyTree64 tree;
  bool ok1, ok2;
  {
    Clipper64 cp; cp.PreserveCollinear(pc); cp.ReverseSolution(rev);
    cp.AddSubject(S); cp.AddClip(C); if (!O.empty()) cp.AddOpenSubject(O);
    ok1 = cp.Execute((ClipType)ct, (FillRule)fr, sol, sol_open);
  }
  {
    Clipper64 ctree; ctree.PreserveCollinear(pc); ctree.ReverseSolution(rev);
    ctree.AddSubject(S); ctree.AddClip(C); if (!O.empty()) ctree.AddOpenSubject(O);
    ok2 = ctree.Execute((ClipType)ct, (FillRule)fr, tree, tree_open);
  }
  ctx.evaluated(2);
  if (!ok1 || !ok2) { ctx.violation("C04.execute_false", { ok1 ? "tree_execute_false" : "paths_execute_false", cls }, c, "Execute returned false"); return; }

  Flat ft; flatten64(tree, -1, 1, ft);
  const bool nontrivial = ft.depth >= 2;
  if (ctx.optint("show", 0)) {       // debugging aid: --show 1 prints both solutions to stderr
    fprintf(stderr, "paths solution (%zu):\n", sol.size());
    for (auto& p : sol) { fprintf(stderr, "  a2=%s :", ldstr((ld)area2(p)).c_str()); for (auto& pt : p) fprintf(stderr, " %lld,%lld", (long long)pt.x, (long long)pt.y); fprintf(stderr, "\n"); }
    fprintf(stderr, "tree (%zu nodes):\n", ft.nodes.size());
    for (size_t k = 0; k < ft.nodes.size(); ++k) { auto& nd = ft.nodes[k];
      fprintf(stderr, "  %*snode %zu parent %d level %d hole %d a2=%s :", 2 * nd.level, "", k, nd.parent, nd.level, (int)nd.lib_hole, ldstr((ld)nd.a2).c_str());
      for (auto& pt : nd.poly) fprintf(stderr, " %lld,%lld", (long long)pt.x, (long long)pt.y); fprintf(stderr, "\n"); }
  }
  ctx.count("cfg_ct" + std::to_string(ct) + "_fr" + std::to_string(fr) + "_rev" + std::to_string(rev) + "_pc" + std::to_string(pc));
  ctx.count(std::string("scenes_") + cls);
  ctx.count("tree_depth_" + std::to_string(ft.depth) + "_" + cls);
  ctx.count("tree_nodes", (long long)ft.nodes.size());
  ctx.count("tree_nodes_" + cls, (long long)ft.nodes.size());
  for (auto& nd : ft.nodes) { ctx.count("nodes_at_level_" + std::to_string(std::min(nd.level, 9))); ctx.cmax("max_children_of_a_node", (long long)nd.kids.size()); }
  ctx.cmax("max_top_level_polygons", (long long)ft.top.size());
  ctx.cmax("max_tree_depth", ft.depth);
  if (!O.empty()) { ctx.count("scenes_with_open_subjects"); ctx.count("open_solution_paths", (long long)sol_open.size()); }
  if (!from_replay) ctx.note_case(c, nontrivial);
  if (nontrivial) { ctx.count("scenes_nontrivial_" + cls); ctx.count("nontrivial_gen_shape_" + std::to_string(c.geti("shape"))); }

  // ---- (1) same closed paths, same open paths
  Paths64 tp = PolyTreeToPaths64(tree);
  {
    Paths64 own; for (auto& nd : ft.nodes) own.push_back(nd.poly);
    Paths64 ca = canon_paths(tp), cb = canon_paths(sol), co = canon_paths(own);
    if (!same_paths(ca, co)) {
      ctx.violation("C04.paths_equal", { "polytreetopaths_vs_traversal", cls }, c, "PolyTreeToPaths64 does not return the polygons found by walking the tree: " + first_diff(ca, co));
      return;
    }
    if (!same_paths(ca, cb)) {
      ctx.violation("C04.paths_equal", { ca.size() != cb.size() ? "path_count_differs" : "same_count_different_paths", cls }, c, first_diff(ca, cb));
      return;
    }
    Paths64 oa = sorted_paths(tree_open), ob = sorted_paths(sol_open);
    if (!same_paths(oa, ob)) {
      ctx.violation("C04.open_equal", { oa.size() != ob.size() ? "open_count_differs" : "same_count_different_open_paths", cls }, c, "open solution: " + first_diff(oa, ob));
      return;
    }
  }

  // ---- (2) (3) (4)
  NestStats ns;
  if (check_nesting(ctx, c, ft, rev, rect, M, "tree64", ns)) return;

  // ---- (5) area
  {
    double ta = tree.Area(), pa = Area(sol);
    ld exact, absterms; area_terms(sol, exact, absterms);
    ld tolA = 1e-9L * absterms + 1e-6L;
    if (fabsl((ld)ta - (ld)pa) > tolA) {
      ctx.violation("C04.area", { "tree_vs_paths", cls }, c, "tree.Area() = " + ldstr(ta) + " Area(paths) = " + ldstr(pa) + " difference " + ldstr((ld)ta - (ld)pa) + " allowed " + ldstr(tolA));
      return;
    }
    if (fabsl((ld)ta - exact) > tolA) {
      ctx.violation("C04.area", { "tree_vs_exact", cls }, c, "tree.Area() = " + ldstr(ta) + " exact area of the solution paths = " + ldstr(exact) + " allowed " + ldstr(tolA));
      return;
    }
    ctx.count("area_comparisons");
  }

  // ---- (6) PolyTreeD on the same coordinates
  if (prec >= 0) {
    const double scale = dscale;
    const int64_t iscale = (int64_t)scale;
    if (!do_d) { ctx.count("treeD_skipped_not_exact_in_double"); }
    else {
      PathsD Sd = toD(S), Cd = toD(C), Od = toD(O);
      PolyTreeD treeD; PathsD treeD_open, solD, solD_open;
      bool okd1, okd2, ok3;
      {
        ClipperD cd(prec); cd.PreserveCollinear(pc); cd.ReverseSolution(rev);
        cd.AddSubject(Sd); cd.AddClip(Cd); if (!Od.empty()) cd.AddOpenSubject(Od);
        okd1 = cd.Execute((ClipType)ct, (FillRule)fr, treeD, treeD_open);
      }
      {
        ClipperD cd(prec); cd.PreserveCollinear(pc); cd.ReverseSolution(rev);
        cd.AddSubject(Sd); cd.AddClip(Cd); if (!Od.empty()) cd.AddOpenSubject(Od);
        okd2 = cd.Execute((ClipType)ct, (FillRule)fr, solD, solD_open);
      }
      PolyTree64 tree_s; Paths64 tree_s_open;
      {
        Clipper64 cs; cs.PreserveCollinear(pc); cs.ReverseSolution(rev);
        cs.AddSubject(scaled(S)); cs.AddClip(scaled(C)); if (!O.empty()) cs.AddOpenSubject(scaled(O));
        ok3 = cs.Execute((ClipType)ct, (FillRule)fr, tree_s, tree_s_open);
      }
      ctx.evaluated(3);
      ctx.count("treeD_scenes_prec" + std::to_string(prec));
      if (!okd1 || !okd2 || !ok3) { ctx.violation("C04.execute_false", { "treeD_execute_false", cls }, c, "ClipperD/Clipper64 Execute returned false on the PolyTreeD comparison"); return; }

      Flat fd; flattenD(treeD, -1, 1, scale, fd);
      Flat fs; flatten64(tree_s, -1, 1, fs);
      ctx.count("treeD_nodes", (long long)fd.nodes.size());
      if (!fd.convertible) {
        ctx.violation("C04.treeD_shape", { "polygon_differs", "coordinate_not_on_scaled_lattice", cls }, c, "a PolyTreeD coordinate times the scale " + std::to_string(iscale) + " is not an integer");
        return;
      }
      // same shape, node for node, and the same polygons
      if (fd.nodes.size() != fs.nodes.size() || fd.top.size() != fs.top.size()) {
        ctx.violation("C04.treeD_shape", { "child_count_differs", cls }, c, "PolyTreeD has " + std::to_string(fd.nodes.size()) + " nodes (" + std::to_string(fd.top.size()) + " top level), PolyTree64 of the scaled input has " +
          std::to_string(fs.nodes.size()) + " (" + std::to_string(fs.top.size()) + ")");
        return;
      }
      for (size_t k = 0; k < fd.nodes.size(); ++k) {
        if (fd.nodes[k].kids.size() != fs.nodes[k].kids.size() || fd.nodes[k].parent != fs.nodes[k].parent) {
          ctx.violation("C04.treeD_shape", { "child_count_differs", cls }, c, "node " + std::to_string(k) + " (pre-order): PolyTreeD has " + std::to_string(fd.nodes[k].kids.size()) + " children, PolyTree64 of the scaled input has " + std::to_string(fs.nodes[k].kids.size()));
          return;
        }
        if (!same_paths(Paths64(1, fd.nodes[k].poly), Paths64(1, fs.nodes[k].poly))) {
          ctx.violation("C04.treeD_shape", { "polygon_differs", cls }, c, "node " + std::to_string(k) + " (pre-order): PolyTreeD polygon times scale differs from the PolyTree64 polygon of the scaled input");
          return;
        }
      }
      // (1) for the D pair
      {
        bool ex = true;
        PathsD tpd = PolyTreeToPathsD(treeD);
        Paths64 a, b, oa, ob;
        for (auto& p : tpd) a.push_back(d_to_64(p, scale, ex));
        for (auto& p : solD) b.push_back(d_to_64(p, scale, ex));
        for (auto& p : treeD_open) oa.push_back(d_to_64(p, scale, ex));
        for (auto& p : solD_open) ob.push_back(d_to_64(p, scale, ex));
        Paths64 ca = canon_paths(a), cb = canon_paths(b);
        if (!ex || !same_paths(ca, cb)) {
          ctx.violation("C04.paths_equal", { "treeD", !ex ? "coordinate_not_on_scaled_lattice" : (ca.size() != cb.size() ? "path_count_differs" : "same_count_different_paths"), cls }, c, "PolyTreeToPathsD(treeD) vs ClipperD paths solution: " + first_diff(ca, cb));
          return;
        }
        oa = sorted_paths(oa); ob = sorted_paths(ob);
        if (!same_paths(oa, ob)) {
          ctx.violation("C04.open_equal", { "treeD", oa.size() != ob.size() ? "open_count_differs" : "same_count_different_open_paths", cls }, c, "ClipperD open solution: " + first_diff(oa, ob));
          return;
        }
      }
      // (2) (3) (4) on the D tree (coordinates brought back to the integer lattice exactly)
      NestStats nd;
      int64_t Ms = M * iscale;
      if (check_nesting(ctx, c, fd, rev, rect, Ms, "treeD", nd)) return;
      ns.located += nd.located; ns.on_boundary += nd.on_boundary; ns.mid_located += nd.mid_located;
      // (5) for the D tree
      {
        Paths64 all; for (auto& n2 : fd.nodes) all.push_back(n2.poly);
        ld exact, absterms; area_terms(all, exact, absterms);
        ld s2 = (ld)scale * (ld)scale;
        ld tolA = (1e-9L * absterms + 1e-6L) / s2;
        double ta = treeD.Area(), pa = Area(solD);
        if (fabsl((ld)ta - exact / s2) > tolA || fabsl((ld)ta - (ld)pa) > tolA) {
          ctx.violation("C04.area", { "treeD", cls }, c, "treeD.Area() = " + ldstr(ta) + " Area(pathsD) = " + ldstr(pa) + " exact " + ldstr(exact / s2) + " allowed " + ldstr(tolA));
          return;
        }
        ctx.count("area_comparisons");
      }
      ctx.count("treeD_compared_node_for_node");
    }
  }
  ctx.count("points_located", ns.located);
  ctx.count("points_on_boundary", ns.on_boundary);
  ctx.count("midpoints_located", ns.mid_located);
}

// ------------------------------------------------------------------------------------------------ generators
// holes-and-islands scene in a local frame: recursively nested rings, children laid out on a grid inside the
// parent, some deliberately oversized so that they cross the parent or each other (holes that merge / touch
// after clipping)
struct NestPath { Path64 p; int level; };
static void nest_rec(Rng& r, double cx, double cy, double R, int level, int maxlevel, double minR, std::vector<NestPath>& out) {
  if (out.size() >= 36) return;
  int n = r.irange(6, 10);
  out.push_back(NestPath{ gen::star_shaped(r, (int64_t)llround(cx), (int64_t)llround(cy), R, n, 0.86, 1.0, true), level });
  if (level >= maxlevel) return;
  // radius of a disc certainly inside the ring: 0.86 R cos(max half gap); max gap 1.9 * 2pi/n
  double inner = 0.86 * R * std::cos(0.95 * 2 * gen::kPi / n);
  inner *= 0.92;
  int m = r.chance(0.45) ? 1 : (r.chance(0.6) ? 2 : 3);
  double cell = inner / std::sqrt(2.0) / m;      // half-width of a grid cell (grid inside the inscribed square)
  if (cell * 0.8 < minR) return;
  for (int gy = 0; gy < m; ++gy)
    for (int gx = 0; gx < m; ++gx) {
      if (m > 1 && !r.chance(0.75)) continue;
      double ccx = cx + (2 * gx + 1 - m) * cell, ccy = cy + (2 * gy + 1 - m) * cell;
      double rr = cell * r.real(0.55, 0.9);
      if (r.chance(0.12)) rr = cell * r.real(1.05, 2.2);      // oversize: crosses siblings / parent
      nest_rec(r, ccx + cell * r.real(-0.08, 0.08), ccy + cell * r.real(-0.08, 0.08), rr, level + 1, maxlevel, minR, out);
    }
}

static bool gen_nest_scene(Rng& r, int magexp, Paths64& subj, Paths64& clip, int& mode_out) {
  const int64_t Mmax = (int64_t)1 << magexp;
  for (int t = 0; t < 30; ++t) {
    ++g_gc.tries;
    double R; int64_t tx = 0, ty = 0;
    if (magexp <= 20 || r.chance(0.6)) R = (double)Mmax * r.real(0.5, 0.93);
    else {
      int fe = r.irange(std::max(14, magexp - 31), magexp - 1);
      R = std::ldexp(r.real(0.5, 1.0), fe);
      int64_t room = Mmax - (int64_t)R - 2;
      tx = r.range(-room, room); ty = r.range(-room, room);
    }
    std::vector<NestPath> np;
    int maxlevel = r.irange(1, 6);
    double minR = std::max(40.0, std::ldexp((double)Mmax, -44) * 40.0);
    nest_rec(r, 0, 0, R, 0, maxlevel, minR, np);
    subj.clear(); clip.clear();
    int mode = r.irange(0, 3);
    for (auto& e : np) {
      Path64 p = e.p;
      bool to_subj = true;
      switch (mode) {
        case 0: if (e.level % 2) std::reverse(p.begin(), p.end()); break;                       // alternating orientation, all subject
        case 1: if (r.coin()) std::reverse(p.begin(), p.end()); break;                          // random orientation, all subject
        case 2: to_subj = (e.level % 2) == 0; if (r.coin()) std::reverse(p.begin(), p.end()); break;
        default: to_subj = r.chance(0.6); if (r.coin()) std::reverse(p.begin(), p.end()); break;
      }
      (to_subj ? subj : clip).push_back(p);
    }
    // cutters: a thin bar or a star across the scene (splits / merges holes, makes holes touch the outer)
    int ncut = r.chance(0.5) ? 0 : r.irange(1, 2);
    for (int k = 0; k < ncut; ++k) {
      Path64 p;
      if (r.coin()) {
        double a = r.real(0, gen::kPi), w = R * r.real(0.01, 0.08), L = R * r.real(0.3, 1.1);
        double ox = R * r.real(-0.4, 0.4), oy = R * r.real(-0.4, 0.4);
        double ux = std::cos(a), uy = std::sin(a);
        auto mk = [&](double s, double tt) { return Point64((int64_t)llround(ox + s * L * ux - tt * w * uy), (int64_t)llround(oy + s * L * uy + tt * w * ux)); };
        p = Path64{ mk(-1, -1), mk(1, -1), mk(1, 1), mk(-1, 1) };
      } else {
        p = gen::star_shaped(r, (int64_t)(R * r.real(-0.4, 0.4)), (int64_t)(R * r.real(-0.4, 0.4)), R * r.real(0.15, 0.7), r.irange(3, 9), 0.3, 1.0, r.coin());
      }
      if (r.coin()) std::reverse(p.begin(), p.end());
      (r.chance(0.35) ? subj : clip).push_back(p);
    }
    if (subj.empty()) { subj.swap(clip); }
    for (auto& p : subj) strip_dups_closed(p);
    for (auto& p : clip) strip_dups_closed(p);
    gen::translate(subj, tx, ty); gen::translate(clip, tx, ty);
    bool inrange = true;
    for (auto* pp : { &subj, &clip }) for (auto& p : *pp) for (auto& pt : p)
      if (pt.x > Mmax || pt.x < -Mmax || pt.y > Mmax || pt.y < -Mmax) inrange = false;
    if (!inrange) { ++g_gc.rejected; continue; }
    Paths64 all = concat(subj, clip);
    if (!general_position(all, max_abs_coord(all))) { ++g_gc.rejected; continue; }
    mode_out = mode;
    return true;
  }
  ++g_gc.gave_up;
  return false;
}

// rectilinear nesting scene on a GxG lattice (unscaled): concentric frames (some sharing edges with their
// neighbours), sub-grid cells (adjacent cells share edges, diagonal cells touch at corners), random boxes, walks
static void gen_rect_nest(Rng& r, int G, Paths64& subj, Paths64& clip) {
  subj.clear(); clip.clear();
  if (r.coin()) {
    // slab with many holes (cells of a sub-grid: neighbours share edges, diagonal neighbours touch at corners),
    // islands in the holes, holes in the islands
    subj.push_back(gen::box(0, 0, G, G, true));
    const double p_clip = r.real(0.2, 0.9);
    int m = r.irange(2, std::max(2, G / 2));
    int64_t cw = std::max<int64_t>(1, G / m);
    int nh = r.irange(2, 14);
    for (int k = 0; k < nh; ++k) {
      int64_t gx = r.range(0, m - 1), gy = r.range(0, m - 1);
      int64_t inset = (cw >= 3 && r.chance(0.6)) ? 1 : 0;     // inset holes stay clear of the slab border and of each other
      int64_t x0 = gx * cw + inset, y0 = gy * cw + inset, x1 = std::min<int64_t>(G, (gx + 1) * cw) - inset, y1 = std::min<int64_t>(G, (gy + 1) * cw) - inset;
      if (x1 <= x0 || y1 <= y0) continue;
      if (r.chance(p_clip)) clip.push_back(gen::box(x0, y0, x1, y1, r.coin())); else subj.push_back(gen::box(x0, y0, x1, y1, false));
      // island inside the hole (and a hole inside the island)
      if (x1 - x0 >= 3 && y1 - y0 >= 3 && r.chance(0.5)) {
        int64_t ix0 = x0 + r.range(0, 1), iy0 = y0 + r.range(0, 1), ix1 = x1 - r.range(0, 1), iy1 = y1 - r.range(0, 1);
        if (ix1 - ix0 >= 1 && iy1 - iy0 >= 1 && (ix0 > x0 || iy0 > y0 || ix1 < x1 || iy1 < y1)) {
          // under NonZero the island must be added on top of slab (+1) and hole (-1): a third ccw box
          (r.chance(0.8) ? subj : clip).push_back(gen::box(ix0, iy0, ix1, iy1, true));
          if (r.chance(0.3)) subj.push_back(gen::box(ix0, iy0, ix1, iy1, true));
          if (ix1 - ix0 >= 3 && iy1 - iy0 >= 3 && r.chance(0.5)) (r.coin() ? subj : clip).push_back(gen::box(ix0 + 1, iy0 + 1, ix1 - 1, iy1 - 1, false));
        }
      }
    }
    if (r.chance(0.3)) (r.coin() ? subj : clip).push_back(gen::rect_walk(r, G, r.irange(2, 10)));
    return;
  }
  int nb = r.irange(2, 9);
  int frames = 0;
  const bool alt = r.chance(0.6);
  for (int k = 0; k < nb; ++k) {
    Path64 p;
    double u = r.unit();
    if (u < 0.35) {
      // frame number `frames` about the centre, optionally pushed against a neighbour
      int64_t lo = frames, hi = G - frames;
      if (hi - lo < 1) { lo = r.range(0, G - 1); hi = r.range(lo + 1, G); }
      int64_t x0 = lo, y0 = lo, x1 = hi, y1 = hi;
      if (r.chance(0.3)) { int s = r.irange(0, 3); if (s == 0 && x0 > 0) --x0; else if (s == 1 && y0 > 0) --y0; else if (s == 2 && x1 < G) ++x1; else if (y1 < G) ++y1; }
      p = gen::box(x0, y0, x1, y1, alt ? (frames % 2 == 0) : r.coin());
      ++frames;
    } else if (u < 0.65) {
      int m = r.irange(2, std::max(2, G / 2));
      int64_t cw = std::max<int64_t>(1, G / m);
      int64_t gx = r.range(0, m - 1), gy = r.range(0, m - 1);
      int64_t x0 = gx * cw, y0 = gy * cw;
      int64_t x1 = std::min<int64_t>(G, x0 + cw * r.range(1, 2)), y1 = std::min<int64_t>(G, y0 + cw * r.range(1, 2));
      if (x1 <= x0 || y1 <= y0) { x0 = 0; y0 = 0; x1 = 1; y1 = 1; }
      p = gen::box(x0, y0, x1, y1, r.coin());
    } else if (u < 0.85) {
      int64_t x0 = r.range(0, G - 1), y0 = r.range(0, G - 1);
      p = gen::box(x0, y0, r.range(x0 + 1, G), r.range(y0 + 1, G), r.coin());
    } else {
      p = gen::rect_walk(r, G, r.irange(2, 12));
    }
    (r.chance(0.6) ? subj : clip).push_back(p);
  }
  if (subj.empty()) subj.swap(clip);
}

// rectilinear rings assembled from bars: every ring closes through shared / abutting horizontal and vertical
// edges, so its hole only comes into being when horizontal joins split the contour; rings are nested (thickness
// 1, gap g), some bars are missing (C shapes), some bridges connect neighbouring rings, some islands sit in the
// gaps. Lattice coordinates 0..G.
static void gen_rect_rings(Rng& r, int G, Paths64& subj, Paths64& clip) {
  subj.clear(); clip.clear();
  const bool carve = r.chance(0.3);              // subject = slab, the bars go to the clip (Difference carves rings)
  const double p_clip = carve ? 0.9 : r.real(0.0, 0.35);
  const bool alt = r.chance(0.3);
  auto put = [&](int64_t x0, int64_t y0, int64_t x1, int64_t y1, int ring) {
    if (x1 <= x0 || y1 <= y0) return;
    bool ccw = alt ? (ring % 2 == 0) : !r.chance(0.1);
    (r.chance(p_clip) ? clip : subj).push_back(gen::box(x0, y0, x1, y1, ccw));
  };
  if (carve) subj.push_back(gen::box(0, 0, G, G, true));
  int64_t k = carve ? 1 : 0; int ring = 0;
  while (G - 2 * k >= 3 && ring < 6) {
    int64_t lo = k, hi = G - k;
    bool overlap_corners = r.coin();
    int64_t vlo = overlap_corners ? lo : lo + 1, vhi = overlap_corners ? hi : hi - 1;
    double keep = r.chance(0.7) ? 1.0 : 0.8;
    // horizontal bars, possibly in two pieces that abut
    for (int side = 0; side < 2; ++side) {
      int64_t y0 = side ? hi - 1 : lo, y1 = y0 + 1;
      if (!r.chance(keep)) continue;
      if (hi - lo >= 4 && r.chance(0.3)) { int64_t m = r.range(lo + 1, hi - 1); put(lo, y0, m, y1, ring); put(m, y0, hi, y1, ring); }
      else put(lo, y0, hi, y1, ring);
    }
    for (int side = 0; side < 2; ++side) {
      int64_t x0 = side ? hi - 1 : lo, x1 = x0 + 1;
      if (!r.chance(keep)) continue;
      if (vhi - vlo >= 3 && r.chance(0.3)) { int64_t m = r.range(vlo + 1, vhi - 1); put(x0, vlo, x1, m, ring); put(x0, m, x1, vhi, ring); }
      else put(x0, vlo, x1, vhi, ring);
    }
    int64_t gap = r.chance(0.7) ? 1 : 2;
    // bridges across the gap to the next ring, islands in the gap
    if (r.chance(0.25)) { int64_t x = r.range(lo + 1, hi - 2); put(x, lo + 1, x + 1, lo + 1 + gap, ring); }
    if (r.chance(0.25)) { int64_t y = r.range(lo + 1, hi - 2); put(hi - 1 - gap, y, hi - 1, y + 1, ring); }
    if (gap == 2 && hi - lo >= 8 && r.chance(0.5)) { int64_t x = r.range(lo + 2, hi - 3); put(x, lo + 1, x + 1, lo + 2, ring + 1); }   // touches the ring from inside
    k += 1 + gap; ++ring;
  }
  // something in the middle
  if (G - 2 * k >= 1 && r.chance(0.7)) put(k, k, G - k, G - k, ring);
  // a few free boxes
  int nf = r.irange(0, 3);
  for (int q = 0; q < nf; ++q) { int64_t x0 = r.range(0, G - 1), y0 = r.range(0, G - 1); put(x0, y0, r.range(x0 + 1, std::min<int64_t>(G, x0 + 4)), r.range(y0 + 1, std::min<int64_t>(G, y0 + 4)), r.irange(0, 1)); }
  if (subj.empty()) subj.swap(clip);
}

static Path64 rect_polyline(Rng& r, int G, int steps) {
  Path64 p; int64_t x = r.range(0, G), y = r.range(0, G); p.push_back(Point64(x, y));
  bool horiz = r.coin();
  for (int i = 0; i < steps; ++i) { if (horiz) x = r.range(0, G); else y = r.range(0, G); p.push_back(Point64(x, y)); horiz = !horiz; }
  return p;
}

// ---- deep nesting ("arbitrarily deep nesting" in the property's quantifier): chains of 130..700 nested contours, so
// that every depth counter, owner walk and recursion of the tree build is taken past 2^7, 2^8 and 2^9. Rectilinear
// chains are rectangles on a lattice of pitch >= 2 (independent x/y gaps), general-position chains are scaled copies
// of one convex integer polygon, each shifted by less than a third of the ring spacing. The fill rule / orientation
// pattern makes every contour a boundary of the solution (EvenOdd, or alternating orientations under
// NonZero/Positive/Negative), so the tree is as deep as the chain is long.
static bool gen_deep_chain(Rng& r, bool rect, int N, Paths64& S, Paths64& C, int64_t& scale_out) {
  S.clear(); C.clear(); scale_out = 0;
  const int pattern = r.irange(0, 2);           // 0: all one orientation, 1: alternating orientations, 2: alternating, odd rings as clip
  auto put = [&](Path64 p, int k) {
    bool want_pos = (pattern == 0) ? true : (k % 2 == 0);
    if ((area2(p) > 0) != want_pos) std::reverse(p.begin(), p.end());
    if (pattern == 2 && (k % 2 == 1)) C.push_back(p); else S.push_back(p);
  };
  if (rect) {
    static const int64_t kS[] = { 2, 3, 7, 1000, (int64_t)1 << 20, (int64_t)1 << 40 };
    const int64_t s = kS[r.irange(0, 5)]; scale_out = s;
    int64_t l = 0, b = 0, rr = 0, t = 0;
    std::vector<Path64> rings;
    // built from the inside out
    l = -r.irange(1, 4); rr = r.irange(1, 4); b = -r.irange(1, 4); t = r.irange(1, 4);
    for (int k = 0; k < N; ++k) {
      rings.push_back(Path64{ Point64(l * s, b * s), Point64(rr * s, b * s), Point64(rr * s, t * s), Point64(l * s, t * s) });
      l -= r.irange(1, 3); rr += r.irange(1, 3); b -= r.irange(1, 3); t += r.irange(1, 3);
    }
    for (int k = 0; k < N; ++k) put(rings[N - 1 - k], k);      // k = depth from the outside
    const int64_t ox = r.coin() ? r.range(-s * 1000, s * 1000) : 0, oy = r.coin() ? r.range(-s * 1000, s * 1000) : 0;
    for (auto* pp : { &S, &C }) for (auto& p : *pp) for (auto& pt : p) { pt.x += ox; pt.y += oy; }
    return true;
  }
  // general position: convex integer polygon round the origin, n = 3..9 vertices on a jittered circle of radius 40..400
  for (int attempt = 0; attempt < 8; ++attempt) {
    S.clear(); C.clear();
    const int n = r.irange(3, 9); const double R0 = 40 + 360 * r.unit(); const double a0 = 6.283185307179586 * r.unit();
    Path64 P;
    for (int q = 0; q < n; ++q) { double a = a0 + 6.283185307179586 * (q + 0.3 * (r.unit() - 0.5)) / n; P.push_back(Point64((int64_t)std::llround(R0 * std::cos(a)), (int64_t)std::llround(R0 * std::sin(a)))); }
    const double inr = R0 * std::cos(3.141592653589793 * 0.65 / (n < 4 ? 3 : n) * (n == 3 ? 1.54 : 1.0));   // conservative inradius estimate
    const int64_t jit = (int64_t)(inr / 4) - 2;
    if (jit < 1) continue;
    const int64_t mexp = r.irange(0, 3) == 0 ? r.irange(20, 40) : 0;
    const int64_t mul = (int64_t)1 << mexp;
    for (int k = 0; k < N; ++k) {
      const int64_t f = (int64_t)(N - k);      // outermost first
      const int64_t dx = r.range(-jit, jit), dy = r.range(-jit, jit);
      Path64 p; for (auto& v : P) p.push_back(Point64((v.x * f + dx) * mul, (v.y * f + dy) * mul));
      put(p, k);
    }
    if (gp_premise(S, C, Paths64())) return true;
  }
  return false;
}

void vf_case(Ctx& ctx, uint64_t i) {
  Rng& r = ctx.rng;
  if (ctx.optstr("mode", "") == "deep") {
    Case c;
    const bool rect = (i % 2) == 1;
    static const int kN[] = { 130, 200, 255, 256, 257, 300, 400, 511, 513, 700 };
    const int N = kN[(i / 2) % 10] + (int)((i / 20) % 3);
    Paths64 S, C; int64_t s = 0;
    if (!gen_deep_chain(r, rect, N, S, C, s)) { ctx.count("deep_gp_gave_up"); return; }
    // every contour must be a boundary of the solution: uniform orientation -> EvenOdd (Union or Xor with no clip);
    // alternating orientations in the subject -> windings 1,0,1,0: EvenOdd/NonZero/Positive agree (Union);
    // odd rings as clip -> Xor under EvenOdd
    int fr = 0, ct = 2;
    if (!C.empty()) { ct = 4; fr = 0; }
    else if ((area2(S[0]) > 0) == (area2(S[1]) > 0)) { fr = 0; ct = r.coin() ? 2 : 4; }
    else { fr = r.irange(0, 2); ct = 2; }
    c.seti("ct", ct);
    c.seti("fr", fr); c.seti("rev", (int)(i / 2) & 1); c.seti("pc", (int)(i / 4) & 1);
    c.seti("shape", rect ? 31 : 30); c.seti("rect", rect ? 1 : 0);
    if (rect) c.seti("scale", s); else c.seti("mag", 0);
    c.seti("deep_chain", N);
    c.p64["S"] = S; if (!C.empty()) c.p64["C"] = C;
    const int64_t M = max_abs_coord(concat(S, C));
    int prec = -1; if (i % 3 == 0 && (ld)M * 1024.0L <= 4.5e15L) prec = (int)((i / 3) % 3);
    c.seti("prec", prec);
    ctx.count(rect ? "deep_chain_scenes_rect" : "deep_chain_scenes_gp");
    judge(ctx, c, false);
    return;
  }
  const int combo = (int)(i % 64);
  const int kind = (int)((i / 64) % 8);
  Case c;
  c.seti("ct", 1 + (combo & 3)); c.seti("fr", (combo >> 2) & 3);
  c.seti("rev", (combo >> 4) & 1); c.seti("pc", (combo >> 5) & 1);
  bool rect = false; int64_t M = 0;
  if (kind <= 4) {
    // ---- general position
    static const int kMag[] = { 7, 10, 20, 30, 40, 52, 58, 61 };
    int magexp = kMag[(i / 512) % 8];
    Paths64 S, C;
    if (kind <= 1) {
      gen::Scene sc = gen::gp_scene(r, g_gc, magexp, 4);                   // concentric rings to depth 8
      if (!sc.ok) { ctx.count("gp_gave_up"); return; }
      S = sc.subj; C = sc.clip; c.seti("shape", sc.shape);
    } else if (kind == 2) {
      gen::Scene sc = gen::gp_scene(r, g_gc, magexp, -1);                  // any class
      if (!sc.ok) { ctx.count("gp_gave_up"); return; }
      S = sc.subj; C = sc.clip; c.seti("shape", sc.shape);
    } else {
      int mode = 0;
      if (magexp < 20) magexp = 20 + 10 * (int)(r.next() % 3);
      if (!gen_nest_scene(r, magexp, S, C, mode)) { ctx.count("gp_gave_up"); return; }
      c.seti("shape", 10 + mode);
    }
    c.seti("mag", magexp);
    M = max_abs_coord(concat(S, C));
    Paths64 O;
    if (r.chance(0.25)) {
      // open subjects, kept in general position with everything else
      int64_t x0 = 0, y0 = 0, x1 = 0, y1 = 0; bool any = false; bounds(concat(S, C), x0, y0, x1, y1, any);
      for (int t = 0; t < 6 && O.empty(); ++t) {
        Paths64 cand; int np = r.irange(1, 2);
        for (int k = 0; k < np; ++k) { Path64 p; int n = r.irange(3, 6); for (int q = 0; q < n; ++q) p.push_back(Point64(r.range(x0, x1), r.range(y0, y1))); cand.push_back(p); }
        if (gp_premise(S, C, cand)) O = cand; else ctx.count("open_candidates_rejected");
      }
    }
    c.p64["S"] = S; c.p64["C"] = C; if (!O.empty()) c.p64["O"] = O;
    ctx.count("mag_2^" + std::to_string(magexp));
    ctx.count("gen_shape_" + std::to_string(c.geti("shape")));
  } else {
    // ---- rectilinear, features >= 2 apart (lattice scale >= 2)
    rect = true;
    Paths64 S, C, O; int G; int64_t s;
    int sidx = r.irange(1, 6);
    s = gen::kRectScales[sidx];
    if (kind == 5) {
      gen::RectScene rs = gen::rectilinear_scene(r, 8, 6);
      S = rs.subj; C = rs.clip; G = rs.G;
      c.seti("shape", 20);
    } else if (kind == 6) {
      G = r.irange(4, s >= ((int64_t)1 << 58) ? 8 : 14);
      gen_rect_nest(r, G, S, C);
      c.seti("shape", 21);
    } else {
      G = r.irange(5, s >= ((int64_t)1 << 58) ? 8 : 22);
      gen_rect_rings(r, G, S, C);
      c.seti("shape", 22);
    }
    if (r.chance(0.2)) { int np = r.irange(1, 2); for (int k = 0; k < np; ++k) O.push_back(rect_polyline(r, G, r.irange(1, 6))); }
    int64_t ox = 0, oy = 0;
    if (s < ((int64_t)1 << 58) && r.coin()) { int64_t lim = s * 1000; ox = r.range(-lim, lim); oy = r.range(-lim, lim); }
    gen::scale_paths(S, s, ox, oy); gen::scale_paths(C, s, ox, oy); gen::scale_paths(O, s, ox, oy);
    c.p64["S"] = S; c.p64["C"] = C; if (!O.empty()) c.p64["O"] = O;
    c.seti("scale", s);
    M = max_abs_coord(concat(concat(S, C), O));
    ctx.count("rect_scale_" + std::to_string(s));
    ctx.count("gen_shape_" + std::to_string(c.geti("shape")));
  }
  c.seti("rect", rect ? 1 : 0);
  // PolyTreeD on a third of the scenes whose coordinates stay exact in double after scaling
  int prec = -1;
  if (i % 3 == 0) { prec = (int)((i / 3) % 4); if ((ld)M * 1024.0L > 4.5e15L) { prec = -1; ctx.count("treeD_not_attempted_large_coordinates"); } }
  c.seti("prec", prec);
  judge(ctx, c, false);
}

void vf_replay(Ctx& ctx, const Case& c) { judge(ctx, c, true); }

// every violation keeps its witness: the known classes are frequent at the thorough tier (hundreds per run), and a
// rare new class must not lose its witness to the per-claim cap
void vf_begin(Ctx& ctx) { ctx.max_witness_per_claim = 100000; }

void vf_end(Ctx& ctx) {
  ctx.count("gp_candidates_tried", g_gc.tries);
  ctx.count("gp_candidates_rejected", g_gc.rejected); ctx.count("gp_flat_dense_scanline_scenes", g_gc.flat); ctx.count("gp_scenes_with_crossing_a_hair_past_a_scanline", g_gc.tie); ctx.count("gp_scenes_with_a_corner_whose_cross_product_is_an_exact_power_of_two", g_gc.wrap);
}
