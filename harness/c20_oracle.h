// c20_oracle.h — reference predicates for C20 (path utilities keep their contracts).
// Pure functions over integer paths; exact (__int128) wherever a sign or an equality decides. Shares no code with
// the library under test (only the Point/Path typedefs).
#ifndef C20_ORACLE_H
#define C20_ORACLE_H

#include "geom.h"
#include "wrap.h"

namespace c20 {
using namespace vf;

// ---------------------------------------------------------------- subsequence / end points
// r is an order-preserving subsequence of p (points compared by value; greedy matching decides existence)
inline bool is_subseq(const Path64& r, const Path64& p) {
  size_t j = 0;
  for (size_t i = 0; i < r.size(); ++i) {
    while (j < p.size() && !(p[j] == r[i])) ++j;
    if (j == p.size()) return false;
    ++j;
  }
  return true;
}

// open path p, result r (already known to be a subsequence): do the first and the last *vertex* survive?
// n == 0: nothing to keep. n == 1: r must hold that vertex. n >= 2: r must hold two vertices, the first equal to
// p.front() and the last equal to p.back() (then an embedding with r.front()->0 and r.back()->n-1 exists).
inline bool keeps_end_points(const Path64& r, const Path64& p) {
  size_t n = p.size();
  if (n == 0) return true;
  if (n == 1) return r.size() >= 1 && r[0] == p[0];
  return r.size() >= 2 && r.front() == p.front() && r.back() == p.back();
}

// ---------------------------------------------------------------- corners (TrimCollinear)
inline i128 dot3(const Point64& a, const Point64& b, const Point64& c) {  // (b-a).(c-b)
  return (i128)(b.x - a.x) * (i128)(c.x - b.x) + (i128)(b.y - a.y) * (i128)(c.y - b.y);
}

// Premise of the corner claim ("no repeated points or 180-degree reversals") and the expected corner list.
// closed: cyclic neighbours, n >= 3. open: interior vertices, n >= 2; end points always belong to the answer.
// Repeated = two consecutive (cyclically, if closed) vertices equal. Returns false if the premise fails.
inline bool corner_premise(const Path64& p, bool closed, Path64& corners) {
  size_t n = p.size();
  corners.clear();
  if (closed ? n < 3 : n < 2) return false;
  for (size_t i = 0; i < n; ++i) {
    bool endpt = !closed && (i == 0 || i + 1 == n);
    if (closed || i + 1 < n) { if (p[i] == p[(i + 1) % n]) return false; }
    if (endpt) { corners.push_back(p[i]); continue; }
    const Point64& a = p[(i + n - 1) % n]; const Point64& b = p[i]; const Point64& c = p[(i + 1) % n];
    i128 cr = cross(a, b, c);
    if (cr != 0) { corners.push_back(b); continue; }
    if (dot3(a, b, c) <= 0) return false;   // 180-degree reversal (== 0 only with repeated points)
  }
  return true;
}

// index of the first collinear consecutive triple in r (wrap-around if closed), or -1
inline long first_collinear_triple(const Path64& r, bool closed) {
  size_t n = r.size();
  if (n < 3) return -1;
  for (size_t i = 0; i < n; ++i) {
    if (!closed && (i == 0 || i + 1 == n)) continue;
    if (cross(r[(i + n - 1) % n], r[i], r[(i + 1) % n]) == 0) return (long)i;
  }
  return -1;
}

// ---------------------------------------------------------------- distance of v from the line through a,b vs eps
// FAR: certainly > eps; NEAR: certainly <= eps; AMBIG: inside the band where the library's double arithmetic
// (PerpendicDistFromLineSqrd) may legitimately decide either way; DEGEN: a == b, there is no line.
enum { DC_NEAR = -1, DC_AMBIG = 0, DC_FAR = 1, DC_DEGEN = 2 };

inline i128 iabs(i128 v) { return v < 0 ? -v : v; }

// eps4 = 4*eps must be a non-negative integer (all epsilons used are multiples of 1/4)
inline int dist_cmp(const Point64& v, const Point64& a, const Point64& b, int64_t eps4) {
  i128 A = (i128)v.x - a.x, B = (i128)v.y - a.y, C = (i128)b.x - a.x, D = (i128)b.y - a.y;
  if (C == 0 && D == 0) return DC_DEGEN;
  i128 cr = A * D - C * B;
  if (cr == 0) return DC_NEAR;                     // exactly on the line: a*d == c*b also in doubles
  if (eps4 == 0) {
    // library: Sqr(a*d - c*b)/(c*c+d*d) > 0 unless the double cross product cancels to 0
    i128 m = std::max(std::max(iabs(A), iabs(B)), std::max(iabs(C), iabs(D)));
    if (m <= ((i128)1 << 26)) return DC_FAR;       // products < 2^53: exact, non-zero
    ld err = ldexpl(to_ld(iabs(A * D)) + to_ld(iabs(C * B)), -50);
    return to_ld(iabs(cr)) > err ? DC_FAR : DC_AMBIG;
  }
  i128 len2 = C * C + D * D;
  i128 m = std::max(std::max(iabs(A), iabs(B)), std::max(iabs(C), iabs(D)));
  if (m <= 4096) {
    // exact regime: every double intermediate of the library is exact except the final division, whose
    // rounding cannot cross eps^2 (gap >= 2^-29, eps^2 representable): compare 16*cr^2 with (4 eps)^2 * len2
    i128 lhs = 16 * cr * cr, rhs = (i128)eps4 * eps4 * len2;
    return lhs > rhs ? DC_FAR : DC_NEAR;           // tie: distance == eps -> "within", not "farther"
  }
  ld crl = to_ld(iabs(cr));
  ld thr = 0.25L * (ld)eps4 * sqrtl(to_ld(len2));
  ld delta = ldexpl(to_ld(iabs(A * D)) + to_ld(iabs(C * B)), -50) + ldexpl(thr, -40) + 1e-30L;
  if (crl > thr + delta) return DC_FAR;
  if (crl < thr - delta) return DC_NEAR;
  return DC_AMBIG;
}

// ---------------------------------------------------------------- StripDuplicates / StripNearEqual reference
inline Path64 ref_strip_duplicates(const Path64& p, bool closed) {
  Path64 r;
  for (const Point64& q : p) if (r.empty() || !(r.back() == q)) r.push_back(q);
  if (closed) while (r.size() > 1 && r.back() == r.front()) r.pop_back();
  return r;
}

// 1: dist^2 < T (near-equal), 0: dist^2 >= T, 2: too close to T to call given the library's double rounding
inline int near_cmp(const Point64& a, const Point64& b, double T) {
  i128 dx = (i128)a.x - b.x, dy = (i128)a.y - b.y;
  i128 d2 = dx * dx + dy * dy;
  bool small = iabs(dx) <= ((i128)1 << 26) && iabs(dy) <= ((i128)1 << 26);   // squares and sum exact in double
  if (small) return (ld)(int64_t)d2 < (ld)T ? 1 : 0;   // d2 < 2^54: exact in long double, T exact
  ld l = to_ld(d2), t = (ld)T;
  ld band = ldexpl(std::max(l, t), -45);
  if (l < t - band) return 1;
  if (l > t + band) return 0;
  return 2;
}

// greedy from the first point; closed: trailing points near the first are dropped (never the first itself).
// ambiguous is set when a comparison fell into the rounding band (then the reference is not authoritative).
inline Path64 ref_strip_near_equal(const Path64& p, double T, bool closed, bool& ambiguous) {
  Path64 r; ambiguous = false;
  if (p.empty()) return r;
  r.push_back(p[0]);
  for (size_t i = 1; i < p.size(); ++i) {
    int c = near_cmp(p[i], r.back(), T);
    if (c == 2) { ambiguous = true; return r; }
    if (c == 0) r.push_back(p[i]);
  }
  if (closed) while (r.size() > 1) {
    int c = near_cmp(r.back(), r.front(), T);
    if (c == 2) { ambiguous = true; return r; }
    if (c == 0) break;
    r.pop_back();
  }
  return r;
}

// ---------------------------------------------------------------- Length / bounds
inline ld ref_length(const Path64& p, bool closed) {
  ld s = 0; size_t n = p.size();
  if (n < 2) return 0;
  for (size_t i = 0; i + 1 < n; ++i) s += sqrtl(to_ld(dist2(p[i], p[i + 1])));
  if (closed) s += sqrtl(to_ld(dist2(p[n - 1], p[0])));
  return s;
}

inline bool same_path(const Path64& a, const Path64& b) {
  if (a.size() != b.size()) return false;
  for (size_t i = 0; i < a.size(); ++i) if (!(a[i] == b[i])) return false;
  return true;
}

inline std::string pstr(const Path64& p, size_t maxn = 12) {
  std::string s = "[";
  for (size_t i = 0; i < p.size() && i < maxn; ++i) s += (i ? " " : "") + std::to_string(p[i].x) + "," + std::to_string(p[i].y);
  if (p.size() > maxn) s += " ...";
  return s + "]";
}

} // namespace c20
#endif
