// c06_offset_common.h — helpers shared by the offset monitors (C06, reusable by C07):
//   * generator `simple_with_holes` (DESIGN.md 2.6) with its exact premise verifier `swh_verify`,
//   * the signed-distance probe (exact winding model + nearest-edge distance + bevel sweep rectangles),
//   * a rigorous upper bound of the inradius of a polygon-with-holes scene,
//   * exact nesting / orientation analysis of a result.
// Nothing in here uses code of the library under test except the plain Point/Path typedefs.
#ifndef VF_C06_OFFSET_COMMON_H
#define VF_C06_OFFSET_COMMON_H

#include "geom.h"
#include "gen.h"

namespace vf { namespace offs {

static const ld kPiL = 3.14159265358979323846264338327950288L;

// ------------------------------------------------------------------ premise: turning angles
// The property demands turning angles "at least 10 degrees away from a full reversal", i.e. |A| <= 170 deg,
// cos A >= cos(170 deg) = -0.98480775. The filter keeps a margin: cos A >= -0.984 (|A| <= 169.74 deg);
// dot products exact (__int128), the quotient in long double (relative error ~1e-18 << margin 8e-4).
static const ld kMinTurnCos = -0.984L;

inline bool turning_ok(const Path64& p, ld* worst = nullptr) {
  size_t n = p.size();
  if (n < 3) return false;
  for (size_t i = 0; i < n; ++i) {
    const Point64& a = p[(i + n - 1) % n]; const Point64& b = p[i]; const Point64& c = p[(i + 1) % n];
    i128 uu = dist2(a, b), ww = dist2(b, c);
    if (uu == 0 || ww == 0) return false;
    // u = b-a, w = c-b ; u.w
    i128 d = (i128)(b.x - a.x) * (i128)(c.x - b.x) + (i128)(b.y - a.y) * (i128)(c.y - b.y);
    ld cs = to_ld(d) / (sqrtl(to_ld(uu)) * sqrtl(to_ld(ww)));
    if (worst && cs < *worst) *worst = cs;
    if (cs < kMinTurnCos) return false;
  }
  return true;
}

// ------------------------------------------------------------------ exact verifier of the scene premises
// A scene is accepted iff
//  (1) every path has >= 3 vertices, no zero-length edge, and satisfies turning_ok;
//  (2) no two non-adjacent edges of the whole scene touch (exact) -> every path simple, paths mutually disjoint;
//  (3) nesting depth of every path is 0 (outer) or 1 (hole); all outers have the same area sign s, all holes -s;
//  (4) every edge of a hole is >= hole_clear away from every edge of another path (clearance; long double from exact
//      products, accepted only with the margin 0.001).
// Returns 0 when accepted, otherwise the number of the rule that failed. conv = +1 outer positive, -1 reversed scene.
struct SceneInfo {
  int conv = 0;
  std::vector<int> depth;      // per path
  std::vector<int> parent;     // per path: index of the containing outer or -1
  int outers = 0, holes = 0;
  size_t edges = 0;
};

inline bool bbox_far(const Point64& a, const Point64& b, const Point64& c, const Point64& d, int64_t pad) {
  return std::max(a.x, b.x) + pad < std::min(c.x, d.x) || std::max(c.x, d.x) + pad < std::min(a.x, b.x) ||
         std::max(a.y, b.y) + pad < std::min(c.y, d.y) || std::max(c.y, d.y) + pad < std::min(a.y, b.y);
}

inline int swh_verify(const Paths64& P, SceneInfo* info = nullptr, ld hole_clear = 2.0L) {
  struct E { Point64 a, b; size_t path, idx, n; };
  std::vector<E> es;
  if (P.empty()) return 1;
  for (size_t pi = 0; pi < P.size(); ++pi) {
    const Path64& p = P[pi]; size_t n = p.size();
    if (n < 3) return 1;
    if (!turning_ok(p)) return 1;
    for (size_t i = 0; i < n; ++i) es.push_back(E{ p[i], p[(i + 1) % n], pi, i, n });
  }
  for (size_t i = 0; i < es.size(); ++i)
    for (size_t j = i + 1; j < es.size(); ++j) {
      const E& e = es[i]; const E& f = es[j];
      if (e.path == f.path && (f.idx == e.idx + 1 || (e.idx == 0 && f.idx == e.n - 1))) {
        // adjacent edges share exactly one vertex; an overlap would be a full reversal (excluded by turning_ok).
        // For a triangle every pair is adjacent.
        continue;
      }
      if (bbox_far(e.a, e.b, f.a, f.b, 0)) continue;
      if (segs_touch(e.a, e.b, f.a, f.b)) return 2;
    }
  // nesting (valid now that nothing touches: one vertex decides containment)
  size_t np = P.size();
  std::vector<int> depth(np, 0), parent(np, -1), sg(np, 0);
  for (size_t i = 0; i < np; ++i) {
    sg[i] = sgn(area2(P[i]));
    if (sg[i] == 0) return 3;
    for (size_t j = 0; j < np; ++j) {
      if (i == j) continue;
      if (winding1(P[j], P[i][0]) != 0) { ++depth[i]; parent[i] = (int)j; }
    }
  }
  int conv = 0, outers = 0, holes = 0;
  for (size_t i = 0; i < np; ++i) {
    if (depth[i] > 1) return 3;
    if (depth[i] == 0) { ++outers; if (conv == 0) conv = sg[i]; else if (conv != sg[i]) return 3; }
  }
  if (outers == 0) return 3;
  for (size_t i = 0; i < np; ++i)
    if (depth[i] == 1) { ++holes; if (sg[i] != -conv) return 3; if (depth[(size_t)parent[i]] != 0) return 3; }
  // clearance of holes
  if (hole_clear > 0) {
    const ld need = hole_clear + 0.001L;
    const int64_t pad = (int64_t)ceill(need) + 1;
    for (size_t i = 0; i < es.size(); ++i)
      for (size_t j = i + 1; j < es.size(); ++j) {
        const E& e = es[i]; const E& f = es[j];
        if (e.path == f.path) continue;
        if (depth[e.path] == 0 && depth[f.path] == 0) continue;
        if (bbox_far(e.a, e.b, f.a, f.b, pad)) continue;
        // the segments do not touch, so their distance is attained at an end point
        ld d = std::min(std::min(dist_pt_seg(e.a, e.b, f.a), dist_pt_seg(e.a, e.b, f.b)),
                        std::min(dist_pt_seg(f.a, f.b, e.a), dist_pt_seg(f.a, f.b, e.b)));
        if (d < need) return 4;
      }
  }
  if (info) { info->conv = conv; info->depth = depth; info->parent = parent; info->outers = outers; info->holes = holes; info->edges = es.size(); }
  return 0;
}

// ------------------------------------------------------------------ generator simple_with_holes
struct SwhCounters {
  long long scenes = 0, scene_attempts = 0, outer_tries = 0, outer_rejected = 0, hole_tries = 0, hole_rejected = 0,
            holes_dropped = 0, rej_rule1_angle_or_short = 0, rej_rule2_touch = 0, rej_rule3_topology = 0, rej_rule4_clearance = 0,
            gave_up = 0, collinear_inserts = 0, collinear_inserts_undone = 0;
};

// star-shaped polygon about the integer centre c (positive orientation), shape classes:
//  0 random radii in [rmin,1]R   1 alternating R / rmin*R (sharp spikes and deep notches)   2 near regular   3 axis-parallel box
inline Path64 star_about_centre(Rng& r, const Point64& c, double R, int n, double rmin, int shape) {
  Path64 p;
  if (shape == 3) {
    int64_t hx = std::max<int64_t>(1, (int64_t)llround(R * r.real(0.35, 0.7))), hy = std::max<int64_t>(1, (int64_t)llround(R * r.real(0.35, 0.7)));
    p = Path64{ gen::P(c.x - hx, c.y - hy), gen::P(c.x + hx, c.y - hy), gen::P(c.x + hx, c.y + hy), gen::P(c.x - hx, c.y + hy) };
    return p;
  }
  if (n < 3) n = 3;
  double off = r.real(0, 2 * gen::kPi);
  for (int i = 0; i < n; ++i) {
    double a, rad;
    if (shape == 1) { a = off + 2 * gen::kPi * (i + r.real(0.35, 0.65)) / n; rad = R * ((i & 1) ? rmin * r.real(0.9, 1.1) : r.real(0.9, 1.0)); }
    else if (shape == 2) { a = off + 2 * gen::kPi * (i + r.real(0.45, 0.55)) / n; rad = R * r.real(0.93, 1.0); }
    else { a = off + 2 * gen::kPi * (i + r.real(0.05, 0.95)) / n; rad = R * r.real(rmin, 1.0); }
    p.push_back(gen::P(c.x + (int64_t)llround(rad * cos(a)), c.y + (int64_t)llround(rad * sin(a))));
  }
  strip_dups_closed(p);
  return p;
}

// exact: p is positively oriented and star-shaped about c with c strictly inside (every vertex step turns
// counter-clockwise about c by an angle in (0,pi) — "angular gaps < pi" — and the steps go round c exactly once).
inline bool is_star_about(const Path64& p, const Point64& c) {
  size_t n = p.size();
  if (n < 3) return false;
  for (size_t i = 0; i < n; ++i) if (cross(c, p[i], p[(i + 1) % n]) <= 0) return false;
  bool on = false;
  int w = winding1(p, c, &on);
  return !on && w == 1;
}

// radius of the largest disc about c inside a polygon that is star-shaped about c
inline ld kernel_disc_radius(const Path64& p, const Point64& c) {
  ld best = std::numeric_limits<ld>::infinity(); size_t n = p.size();
  for (size_t i = 0; i < n; ++i) best = std::min(best, dist_pt_seg(p[i], p[(i + 1) % n], c));
  return best;
}

// edges of a and b do not touch and are >= sep apart (sep 0: only the exact non-touching test)
inline bool paths_clear(const Path64& a, const Path64& b, ld sep) {
  size_t na = a.size(), nb = b.size();
  const int64_t pad = (int64_t)ceill(sep) + 1;
  for (size_t i = 0; i < na; ++i) for (size_t j = 0; j < nb; ++j) {
    const Point64& p = a[i]; const Point64& q = a[(i + 1) % na]; const Point64& u = b[j]; const Point64& v = b[(j + 1) % nb];
    if (bbox_far(p, q, u, v, pad)) continue;
    if (segs_touch(p, q, u, v)) return false;
    if (sep > 0) {
      ld d = std::min(std::min(dist_pt_seg(p, q, u), dist_pt_seg(p, q, v)), std::min(dist_pt_seg(u, v, p), dist_pt_seg(u, v, q)));
      if (d < sep + 0.001L) return false;
    }
  }
  return true;
}

struct SwhScene {
  Paths64 paths;       // local frame (|coord| <= ~S), positive convention, outers first then their holes
  int outers = 0, holes = 0;
  bool ok = false;
};

// S = half-width of the scene. 1-3 disjoint star-shaped outers, 0-3 holes each. The scene is returned in the positive
// convention; the caller reverses / permutes / translates (rigid integer motions keep every verified premise).
inline SwhScene simple_with_holes(Rng& r, double S, SwhCounters& ct, int max_attempts = 30) {
  SwhScene sc;
  for (int attempt = 0; attempt < max_attempts; ++attempt) {
    ++ct.scene_attempts;
    sc.paths.clear(); sc.outers = sc.holes = 0;
    double u = r.unit();
    int no = u < 0.4 ? 1 : (u < 0.75 ? 2 : 3);
    std::vector<Point64> centres; double Rmax;
    if (no == 1) { centres.push_back(gen::P(0, 0)); Rmax = 0.95 * S; }
    else if (no == 2) {
      bool horiz = r.coin(); int64_t h = (int64_t)llround(0.5 * S);
      centres.push_back(horiz ? gen::P(-h, 0) : gen::P(0, -h)); centres.push_back(horiz ? gen::P(h, 0) : gen::P(0, h));
      Rmax = 0.48 * S;
    } else {
      double a0 = r.real(0, 2 * gen::kPi);
      for (int k = 0; k < 3; ++k) centres.push_back(gen::P((int64_t)llround(0.52 * S * cos(a0 + 2 * gen::kPi * k / 3)), (int64_t)llround(0.52 * S * sin(a0 + 2 * gen::kPi * k / 3))));
      Rmax = 0.44 * S;
    }
    bool fail = false;
    Paths64 outers; std::vector<double> oR;
    for (int k = 0; k < no && !fail; ++k) {
      bool got = false;
      for (int t = 0; t < 12 && !got; ++t) {
        ++ct.outer_tries;
        double R = Rmax * r.real(0.55, 1.0);
        int shape = r.chance(0.12) ? 3 : (r.chance(0.25) ? 1 : (r.chance(0.15) ? 2 : 0));
        int n = r.irange(3, 14); if (shape == 1) n = 2 * r.irange(2, 7);
        double rmin = r.pick(std::vector<double>{ 0.25, 0.4, 0.6, 0.8 });
        Path64 p = star_about_centre(r, centres[(size_t)k], R, n, rmin, shape);
        if (p.size() < 3 || !is_star_about(p, centres[(size_t)k]) || !turning_ok(p)) { ++ct.outer_rejected; continue; }
        bool clear = true;
        for (auto& o : outers) if (!paths_clear(o, p, 0)) { clear = false; break; }
        if (!clear) { ++ct.outer_rejected; continue; }
        outers.push_back(p); oR.push_back(R); got = true;
      }
      if (!got) fail = true;
    }
    if (fail) continue;
    // holes
    Paths64 all = outers;
    int nholes = 0;
    for (int k = 0; k < no; ++k) {
      double v = r.unit();
      int nh = v < 0.3 ? 0 : (v < 0.6 ? 1 : (v < 0.8 ? 2 : 3));
      Paths64 mine;
      ld rho = kernel_disc_radius(outers[(size_t)k], centres[(size_t)k]);
      for (int h = 0; h < nh; ++h) {
        bool got = false;
        for (int t = 0; t < 8 && !got; ++t) {
          ++ct.hole_tries;
          double R = oR[(size_t)k];
          double rh = R * r.real(0.05, 0.32);
          // centre: anywhere in the outer's disc (rejection by the exact tests), later tries inside the kernel disc
          double rr = (t < 5 ? R * 0.9 : std::max(0.0, (double)rho - rh)) * sqrt(r.unit()), th = r.real(0, 2 * gen::kPi);
          Point64 hc(centres[(size_t)k].x + (int64_t)llround(rr * cos(th)), centres[(size_t)k].y + (int64_t)llround(rr * sin(th)));
          int shape = r.chance(0.15) ? 3 : (r.chance(0.2) ? 1 : (r.chance(0.2) ? 2 : 0));
          int n = r.irange(3, 8); if (shape == 1) n = 2 * r.irange(2, 4);
          Path64 p = star_about_centre(r, hc, rh, n, r.pick(std::vector<double>{ 0.35, 0.6, 0.8 }), shape);
          if (p.size() < 3 || !is_star_about(p, hc) || !turning_ok(p)) { ++ct.hole_rejected; continue; }
          // strictly inside the outer with clearance
          bool okh = true;
          for (auto& pt : p) { bool on = false; if (winding1(outers[(size_t)k], pt, &on) == 0 || on) { okh = false; break; } }
          if (okh && !paths_clear(outers[(size_t)k], p, 2.0L)) okh = false;
          for (size_t m = 0; okh && m < mine.size(); ++m) {
            if (!paths_clear(mine[m], p, 2.0L)) okh = false;
            else if (winding1(mine[m], p[0]) != 0 || winding1(p, mine[m][0]) != 0) okh = false;   // nested holes
          }
          if (!okh) { ++ct.hole_rejected; continue; }
          mine.push_back(p); got = true;
        }
        if (!got) ++ct.holes_dropped;
      }
      for (auto& hpath : mine) { Path64 q = hpath; std::reverse(q.begin(), q.end()); all.push_back(q); ++nholes; }
    }
    // near-collinear / exactly collinear extra vertices (exercise the "almost straight" branch of OffsetPoint)
    if (r.chance(0.3)) {
      int ins = r.irange(1, 3);
      for (int e = 0; e < ins; ++e) {
        size_t pi = (size_t)r.irange(0, (int)all.size() - 1);
        Path64 keep = all[pi]; Path64& p = all[pi];
        size_t i = (size_t)r.irange(0, (int)p.size() - 1);
        const Point64 a = p[i], b = p[(i + 1) % p.size()];
        double f = r.real(0.2, 0.8);
        Point64 m((int64_t)llround((double)a.x + f * ((double)b.x - (double)a.x)) + r.range(-1, 1), (int64_t)llround((double)a.y + f * ((double)b.y - (double)a.y)) + r.range(-1, 1));
        if (m == a || m == b) continue;
        p.insert(p.begin() + (long)i + 1, m);
        ++ct.collinear_inserts;
        if (swh_verify(all) != 0) { all[pi] = keep; ++ct.collinear_inserts_undone; }
      }
    }
    SceneInfo si;
    int why = swh_verify(all, &si);
    if (why != 0) {
      if (why == 1) ++ct.rej_rule1_angle_or_short; else if (why == 2) ++ct.rej_rule2_touch; else if (why == 3) ++ct.rej_rule3_topology; else ++ct.rej_rule4_clearance;
      continue;
    }
    if (si.conv != 1 || si.outers != no || si.holes != nholes) { ++ct.rej_rule3_topology; continue; }
    sc.paths = all; sc.outers = no; sc.holes = nholes; sc.ok = true;
    ++ct.scenes;
    return sc;
  }
  ++ct.gave_up;
  return sc;
}

// ------------------------------------------------------------------ signed-distance probe
// One pass over the input edges: exact winding number (half-open crossing rule, exact orientation), exact "on an edge",
// distance to the nearest edge (long double from exact products) and — for bevel joins — whether q lies in the sweep
// rectangle of some edge on the cross>0 (left) or cross<0 (right) side: foot strictly inside the edge by foot_margin and
// perpendicular distance < perp_max (rect tests are skipped when perp_max <= 0).
struct Probe {
  int w = 0; bool on = false; ld d = 0;
  bool rect_left = false, rect_right = false;
};

inline Probe probe(const Paths64& P, const Point64& q, ld perp_max = 0, ld foot_margin = 0) {
  Probe pr; ld best2 = std::numeric_limits<ld>::infinity();
  for (const Path64& p : P) {
    size_t n = p.size();
    if (n < 2) continue;
    for (size_t i = 0; i < n; ++i) {
      const Point64& a = p[i]; const Point64& b = p[(i + 1) % n];
      i128 c = cross(a, b, q), dt = dot(a, b, q), d2 = dist2(a, b);
      if (c == 0 && dt >= 0 && dt <= d2) pr.on = true;
      if (a.y <= q.y) { if (b.y > q.y && c > 0) ++pr.w; }
      else { if (b.y <= q.y && c < 0) --pr.w; }
      ld s2;
      if (d2 == 0 || dt <= 0) s2 = to_ld(dist2(a, q));
      else if (dt >= d2) s2 = to_ld(dist2(b, q));
      else {
        ld cl = to_ld(c); s2 = cl * cl / to_ld(d2);
        if (perp_max > 0 && c != 0) {
          ld len = sqrtl(to_ld(d2)), perp = fabsl(cl) / len, foot = to_ld(dt) / len;
          if (perp < perp_max && foot > foot_margin && len - foot > foot_margin) { if (c > 0) pr.rect_left = true; else pr.rect_right = true; }
        }
      }
      if (s2 < best2) best2 = s2;
    }
  }
  pr.d = sqrtl(best2);
  return pr;
}

inline ld signed_dist(const Probe& pr) { return pr.on ? 0 : (pr.w != 0 ? -pr.d : pr.d); }

// ------------------------------------------------------------------ inradius bounds
// depth(q) = distance of an interior point to the boundary is 1-Lipschitz, so with a grid covering the bounding box of
// the region:  inradius <= half cell diagonal + max(0, max over interior grid points of depth).  lower = that max.
struct Inradius { ld lower = 0, upper = 0; };
inline Inradius inradius_bounds(const Paths64& P, int G = 16) {
  Inradius ir; int64_t x0 = 0, y0 = 0, x1 = 0, y1 = 0; bool any = false;
  bounds(P, x0, y0, x1, y1, any);
  if (!any) return ir;
  ld hx = ((ld)x1 - (ld)x0) / G, hy = ((ld)y1 - (ld)y0) / G;
  ld best = 0;
  for (int iy = 0; iy <= G; ++iy) for (int ix = 0; ix <= G; ++ix) {
    Point64 g((int64_t)llroundl((ld)x0 + hx * ix), (int64_t)llroundl((ld)y0 + hy * iy));
    Probe pr = probe(P, g);
    if (!pr.on && pr.w != 0 && pr.d > best) best = pr.d;
  }
  ir.lower = best;
  ir.upper = best + 0.5L * sqrtl(hx * hx + hy * hy) + 1.0L;   // +1: rounding of the grid points to integers (<= 0.71)
  return ir;
}

// ------------------------------------------------------------------ result analysis: nesting parity and orientation
// For every path of a result: depth = number of other result paths strictly containing it (decided at a vertex that
// is not on the other path's boundary; result paths of a union never cross each other), sign of the exact area.
struct PathNest { int depth = 0; int sign = 0; bool undecided = false; bool sliver = false; };
// A path is a "sliver" when |area| <= 2.5 * perimeter: moving its boundary by the 2 units the property allows can create,
// remove or invert such a path (the clean-up union rounds intersection points to integers, which does invert paths
// thinner than about a unit), so its orientation carries no information outside the tolerance band.
inline bool is_sliver(const Path64& p) {
  ld per = 0; size_t n = p.size();
  for (size_t i = 0; i < n; ++i) per += sqrtl(to_ld(dist2(p[i], p[(i + 1) % n])));
  i128 a2 = area2(p); if (a2 < 0) a2 = -a2;
  return 0.5L * to_ld(a2) <= 2.5L * per;
}
// Containment of path i in path j is accepted only when ALL vertices of i that are not on j's boundary agree. The
// clean-up union works to within its own tolerance: neighbouring result paths may overlap by about a unit (all inside
// the tolerance band of the property), then some vertices of the inner path lie outside the outer one; such a pair is
// "undecided" and the path is not judged.
inline std::vector<PathNest> nesting_of(const Paths64& R) {
  std::vector<PathNest> out(R.size());
  for (size_t i = 0; i < R.size(); ++i) {
    out[i].sign = sgn(area2(R[i]));
    out[i].sliver = is_sliver(R[i]);
    if (out[i].sliver) continue;
    for (size_t j = 0; j < R.size(); ++j) {
      if (i == j || R[j].size() < 3) continue;
      int in = 0, outn = 0;
      Paths64 pj(1, R[j]);
      for (const Point64& v : R[i]) {
        bool on = false; int w = winding(pj, v, &on);
        if (on) continue;
        if (w != 0) ++in; else ++outn;
        if (in && outn) break;
      }
      if (in && outn) out[i].undecided = true;
      else if (in) ++out[i].depth;
      else if (!outn) out[i].undecided = true;
    }
  }
  return out;
}

} } // namespace vf::offs
#endif
