// prelude_portable.h — forces Clipper2's portable (non-__int128) arithmetic branch under gcc (DESIGN.md 2.3).
// Pre-include every standard header clipper.core.h pulls in (they are include-guarded), then lie about
// UINTPTR_MAX so that only the library's own `#if ... UINTPTR_MAX >= UINT64_MAX` takes the #else branch.
#ifndef VF_PRELUDE_PORTABLE_H
#define VF_PRELUDE_PORTABLE_H
#include <cstdint>
#include <cstdlib>
#include <cstring>
#include <cstdio>
#include <cinttypes>
#include <climits>
#include <cmath>
#include <vector>
#include <string>
#include <iostream>
#include <sstream>
#include <fstream>
#include <algorithm>
#include <numeric>
#include <queue>
#include <deque>
#include <functional>
#include <memory>
#include <optional>
#include <map>
#include <set>
#include <unordered_set>
#include <unordered_map>
#include <limits>
#include <type_traits>
#include <atomic>
#include <thread>
#include <mutex>
#include <new>
#include <exception>
#include <stdexcept>
#include <fcntl.h>
#include <unistd.h>
#include <sys/mman.h>
#undef UINTPTR_MAX
#define UINTPTR_MAX 0xFFFFFFFFu
#define VF_PORTABLE_BRANCH 1
#endif
