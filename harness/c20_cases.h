// c20_cases.h — included at the end of mon_c20.cpp: Ellipse judge, case judge, generators, vf_case / vf_replay.

// ------------------------------------------------------------------------------------------------ Ellipse
struct PL { ld x, y; };

static ld ellipse_min_dist(ld cx, ld cy, ld rx, ld ry, PL q) {
  const ld TWO_PI = 6.283185307179586476925286766559L;
  auto d2 = [&](ld t) { ld ex = cx + rx * cosl(t) - q.x, ey = cy + ry * sinl(t) - q.y; return ex * ex + ey * ey; };
  int N = 4096; ld best = 1e300L, bt = 0;
  for (int k = 0; k < N; ++k) { ld t = TWO_PI * k / N; ld v = d2(t); if (v < best) { best = v; bt = t; } }
  ld lo = bt - TWO_PI / N, hi = bt + TWO_PI / N;
  for (int it = 0; it < 200; ++it) { ld a = lo + (hi - lo) / 3, b = hi - (hi - lo) / 3; if (d2(a) < d2(b)) hi = b; else lo = a; }
  return sqrtl(std::min(best, d2(0.5L * (lo + hi))));
}

static void check_ellipse(J& j, const std::vector<PL>& pts, ld cx, ld cy, ld rx, ld ry, long long steps, const char* variant) {
  Ctx& ctx = j.ctx;
  const ld TWO_PI = 6.283185307179586476925286766559L;
  std::string ctxs = std::string(variant) + " Ellipse(centre " + ldstr(cx) + "," + ldstr(cy) + " radii " + ldstr(rx) + "," + ldstr(ry) + " steps " + std::to_string(steps) + ") returned " + std::to_string(pts.size()) + " points";
  if (steps > 2 && (long long)pts.size() != steps) { j.viol("ellipse", { "count_differs_from_steps", variant }, ctxs); return; }
  if (pts.empty()) { j.viol("ellipse", { "no_points", variant }, ctxs); return; }
  size_t m = pts.size();
  for (size_t i = 0; i < m; ++i) {
    ld t = TWO_PI * (ld)i / (ld)m;
    ld ex = cx + rx * cosl(t), ey = cy + ry * sinl(t);
    ld d = sqrtl((pts[i].x - ex) * (pts[i].x - ex) + (pts[i].y - ey) * (pts[i].y - ey));
    ctx.count("ellipse_points_judged");
    if (d <= 1.0L + 1e-6L) continue;
    ld de = ellipse_min_dist(cx, cy, rx, ry, pts[i]);
    j.viol("ellipse", { de > 1.0L + 1e-6L ? "off_ellipse" : "not_at_uniform_angle", variant },
           ctxs + ": point " + std::to_string(i) + " (" + ldstr(pts[i].x) + "," + ldstr(pts[i].y) + ") is " + ldstr(d) + " from centre+radii*(cos,sin)(2 pi i/n) and " + ldstr(de) + " from the ellipse");
    return;
  }
}

static void judge_ellipse(Ctx& ctx, const Case& c, bool from_replay) {
  int64_t cx = c.geti("cx"), cy = c.geti("cy"), rx2 = c.geti("rx2"), ry2 = c.geti("ry2");
  long long steps = c.geti("steps");
  double rx = rx2 / 2.0, ry = ry2 / 2.0;
  ld rye = ry2 > 0 ? (ld)ry : (ld)rx;       // radiusY <= 0 (the default argument) means a circle
  ctx.begin(c);
  J j{ ctx, c, {} };
  auto conv64 = [](const Path64& p) { std::vector<PL> v; for (auto& q : p) v.push_back(PL{ (ld)q.x, (ld)q.y }); return v; };
  auto convd = [](const PathD& p) { std::vector<PL> v; for (auto& q : p) v.push_back(PL{ (ld)q.x, (ld)q.y }); return v; };
  Path64 e64 = CL::Ellipse<int64_t>(Point64(cx, cy), rx, ry, (size_t)steps);
  PathD ed = CL::Ellipse<double>(PointD((double)cx, (double)cy), rx, ry, (size_t)steps);
  ctx.evaluated(2); ctx.count("calls_Ellipse", 2);
  check_ellipse(j, conv64(e64), cx, cy, rx, rye, steps, "path64");
  check_ellipse(j, convd(ed), cx, cy, rx, rye, steps, "pathd");
  if (ry2 > 0) {
    CL::RectD rd(cx - rx, cy - ry, cx + rx, cy + ry);   // exact: half-integers far below 2^52
    PathD erd = CL::Ellipse(rd, (size_t)steps);
    ctx.evaluated(); ctx.count("calls_Ellipse_rect");
    check_ellipse(j, convd(erd), cx, cy, rx, rye, steps, "rectd");
    if (rx2 % 2 == 0 && ry2 % 2 == 0) {                   // integer rectangle with an exact integer mid point
      CL::Rect64 r64(cx - rx2 / 2, cy - ry2 / 2, cx + rx2 / 2, cy + ry2 / 2);
      Path64 er = CL::Ellipse(r64, (size_t)steps);
      ctx.evaluated(); ctx.count("calls_Ellipse_rect");
      check_ellipse(j, conv64(er), cx, cy, rx, rye, steps, "rect64");
    }
  }
  ctx.count(steps > 2 ? "ellipse_explicit_steps" : "ellipse_auto_steps");
  if (!from_replay) ctx.note_case(c, rx2 >= 8 && (ry2 == 0 || ry2 >= 8));
}

// ------------------------------------------------------------------------------------------------ path case
static void judge_path(Ctx& ctx, const Case& c, bool from_replay) {
  static const Path64 none;
  const Path64& p = c.P("P").empty() ? none : c.P("P")[0];
  std::vector<double> eps4 = parse_list(c.gets("eps4", "0,2,6"));
  std::vector<double> thr = parse_list(c.gets("thr", "1,1.5,2.5"));
  int64_t dx = c.geti("dx"), dy = c.geti("dy");
  int prec = (int)c.geti("prec", 2), sh = (int)c.geti("sh", 2);
  ctx.begin(c);
  J j{ ctx, c, {} };
  for (int closed = 0; closed <= 1; ++closed) {
    run_trim(j, p, closed != 0, prec);
    for (double e : eps4) run_simplify(j, p, closed != 0, (int64_t)e, sh);
    run_strip_duplicates(j, p, closed != 0, sh);
    for (double t : thr) run_strip_near_equal(j, p, closed != 0, t, sh);
  }
  for (double e : eps4) run_rdp(j, p, (int64_t)e, sh);
  run_misc(j, p, dx, dy, sh);
  size_t n = p.size();
  ctx.count(n == 0 ? "len_0" : n <= 2 ? "len_1-2" : n <= 4 ? "len_3-4" : n == 5 ? "len_5" : n <= 12 ? "len_6-12" : "len_13-40");
  if (n >= 2 && p.front() == p.back()) ctx.count("paths_with_first_equal_last");
  if (!from_replay) {
    bool alleq = true; for (auto& q : p) if (!(q == p[0])) alleq = false;
    ctx.note_case(c, n >= 3 && !alleq);   // non-trivial: at least three points, not all equal
  }
}

static void judge(Ctx& ctx, const Case& c, bool from_replay) {
  if (c.gets("kind") == "ellipse") judge_ellipse(ctx, c, from_replay); else judge_path(ctx, c, from_replay);
}

// ------------------------------------------------------------------------------------------------ generators
// exhaustive: index -> path over the 16 points of the 4x4 lattice; lengths 0,1,2,... in blocks of 16^k
static bool exh_path(uint64_t idx, Path64& p, int& k) {
  uint64_t block = 1; k = 0;
  while (idx >= block) { idx -= block; block *= 16; ++k; if (k > 7) return false; }
  p.clear();
  for (int i = 0; i < k; ++i) { unsigned d = (unsigned)(idx & 15); idx >>= 4; p.emplace_back((int64_t)(d & 3), (int64_t)(d >> 2)); }
  return true;
}

struct IJ { int64_t i, j; };

// abstract walk on a G x G lattice with collinear runs, repeats, spikes and revisits
// clean: only jumps to a different point and collinear continuations (no repeats, spikes, revisits, forced rings),
// so that the premise of the TrimCollinear corner claim holds often
static std::vector<IJ> lattice_walk(Rng& rng, int G, int n, bool clean) {
  std::vector<IJ> w;
  auto rnd = [&]() { return IJ{ rng.range(0, G - 1), rng.range(0, G - 1) }; };
  auto inside = [&](IJ q) { return q.i >= 0 && q.i < G && q.j >= 0 && q.j < G; };
  IJ dir{ 1, 0 };
  while ((int)w.size() < n) {
    if (w.empty()) { w.push_back(rnd()); continue; }
    IJ cur = w.back();
    double u = rng.unit();
    if (clean) {
      if (u >= 0.5) u = 0.4;                    // collinear continuation
      else { IJ q = rnd(); if (q.i == cur.i && q.j == cur.j) continue; dir = IJ{ q.i - cur.i, q.j - cur.j }; w.push_back(q); continue; }
    }
    if (u < 0.30) { IJ q = rnd(); dir = IJ{ q.i - cur.i, q.j - cur.j }; w.push_back(q); }
    else if (u < 0.58) {                       // continue collinearly (same direction, primitive step)
      int64_t a = dir.i, b = dir.j, g = std::__gcd(a < 0 ? -a : a, b < 0 ? -b : b);
      if (g == 0) { dir = IJ{ rng.range(-1, 1), rng.range(-1, 1) }; continue; }
      IJ q{ cur.i + a / g, cur.j + b / g };
      if (inside(q)) w.push_back(q);
      else if (clean) { IJ t = rnd(); if (t.i == cur.i && t.j == cur.j) continue; dir = IJ{ t.i - cur.i, t.j - cur.j }; w.push_back(t); }
      else { dir = IJ{ -dir.i, -dir.j }; if (rng.chance(0.5)) w.push_back(IJ{ cur.i + dir.i / g, cur.j + dir.j / g }); }
    }
    else if (u < 0.70) w.push_back(cur);        // repeated point
    else if (u < 0.82) { IJ q = rnd(); w.push_back(q); if ((int)w.size() < n) w.push_back(cur); }   // spike
    else if (u < 0.95) w.push_back(w[(size_t)rng.range(0, (int64_t)w.size() - 1)]);                 // revisit
    else w.push_back(w[0]);                      // back to the start
  }
  if (!clean && n >= 2 && rng.chance(0.06)) w[n - 1] = w[0];   // ring handed over with its closing point
  for (auto& q : w) { if (q.i < 0) q.i = 0; if (q.i >= G) q.i = G - 1; if (q.j < 0) q.j = 0; if (q.j >= G) q.j = G - 1; }
  return w;
}

static void gen_path_case(Ctx& ctx, Case& c, uint64_t i) {
  Rng& rng = ctx.rng;
  int cls = (int)((i / 8) % 8);  // (i % 8 == 7 is the ellipse case)  8: long structured paths (1 in 400)  0,1: tiny lattice  2: translated  3: scaled  4: affine lattice at 2^40  5: strip  6: tiny  7: wrap corners
  int n = rng.chance(0.25) ? rng.irange(0, 5) : rng.irange(6, 40);
  Path64 p;
  std::vector<double> thr = { 0, 1, 1.5, 3, 10 };
  std::string magname;
  if ((i / 8) % 400 == 399) cls = 8;
  if (cls == 8) {
    // long structured paths (150-3000 points): amplitude-decaying zigzags and square waves, spirals, x-monotone "time
    // series" - deep, lopsided split trees for the recursive simplifiers, where short random paths only give shallow ones
    n = (int)std::exp(rng.real(std::log(150.0), std::log(3000.0)));
    const int shape = rng.irange(0, 3);
    const int64_t step = rng.range(2, 40), A = rng.range(50, 100000);
    const double decay = rng.real(0.97, 0.9995);
    double amp = (double)A;
    for (int k = 0; k < n; ++k) {
      int64_t x, y;
      if (shape == 0) { x = k * step; y = (k & 1) ? (int64_t)amp : -(int64_t)amp; amp = std::max(3.0, amp * decay); }                      // decaying zigzag
      else if (shape == 1) { x = (k / 2) * step; y = ((k / 2) & 1) ? (int64_t)amp : -(int64_t)amp; if (k & 1) x += step; amp = std::max(3.0, amp * decay); }   // decaying square wave
      else if (shape == 2) { double a = 0.35 * k, rr = 5.0 + (double)A * std::pow(decay, k); x = (int64_t)(rr * std::cos(a)); y = (int64_t)(rr * std::sin(a)); }   // spiral
      else { x = k * step + rng.range(0, step - 1); y = rng.range(-A, A) / (1 + (k % 7)); }                                                 // time series
      if (!p.empty() && p.back().x == x && p.back().y == y) continue;
      p.emplace_back(x, y);
    }
    n = (int)p.size();
    thr = { 0, 1, 1.5, 3, 10, (double)A / 50, (double)A / 5 };
    magname = "long_structured";
    ctx.cmax("max_long_path_points", (long long)p.size());
  } else if (cls == 7) {
    // corners whose cross product is exactly +-2^w (w = 16..96; edge components below 2^38): zero in a w-bit word, so a
    // collinearity test that compares truncated or carry-less products removes a genuine corner
    int64_t x = rng.chance(0.5) ? 0 : rng.range(-((int64_t)1 << 40), (int64_t)1 << 40), y = rng.chance(0.5) ? 0 : rng.range(-((int64_t)1 << 40), (int64_t)1 << 40);
    int made = 0;
    n = std::min(std::max(n, 4), 12);                     // |coordinates| stay below 2^43 (the PathD variant scales by up to 125)
    p.emplace_back(x, y);
    while ((int)p.size() < n) {
      int64_t v[4]; int w = 0;
      if (rng.chance(0.6) && wrap_twin_any(rng, 38, v, &w)) {
        Point64 q = p.back(); p.emplace_back(q.x + v[0], q.y + v[2]); p.emplace_back(q.x + v[0] + v[3], q.y + v[2] + v[1]); ++made;
        if (w == 64) ctx.count("gen_wrap_corners_with_cross_product_exactly_2^64");
      } else { Point64 q = p.back(); p.emplace_back(q.x + rng.range(-((int64_t)1 << 33), (int64_t)1 << 33), q.y + rng.range(-((int64_t)1 << 33), (int64_t)1 << 33)); }
    }
    ctx.count("gen_wrap_corners_made", made);
    thr.push_back(std::ldexp(1.0, 30));
    magname = "wrap_corners";
  } else if (cls == 5) {
    // long thin strip: abscissae up to 2^40, offsets within +-12 of the axis; three orientations
    int orient = rng.irange(0, 2);
    int64_t span = (int64_t)1 << rng.irange(20, 40);
    std::vector<int64_t> xs;
    for (int k = 0; k < n; ++k) {
      int64_t x = (!xs.empty() && rng.chance(0.15)) ? xs[(size_t)rng.range(0, (int64_t)xs.size() - 1)] : rng.range(-span, span);
      int64_t y = rng.chance(0.4) ? 0 : rng.range(-12, 12);
      xs.push_back(x);
      if (orient == 0) p.emplace_back(x, y); else if (orient == 1) p.emplace_back(y, x); else p.emplace_back(x + y, x - y);
    }
    if (n >= 2 && rng.chance(0.05)) p[n - 1] = p[0];
    thr.push_back((double)span / 4);
    magname = "strip_2^40";
  } else {
    static const int Gs[] = { 2, 3, 4, 5, 8, 16, 30, 100 };
    int G = Gs[rng.irange(0, 7)];
    bool clean = rng.chance(0.3);
    if (clean) G = std::max(G, 3);
    int64_t ox = 0, oy = 0, ux = 1, uy = 0, vx = 0, vy = 1;
    magname = "tiny_lattice";
    if (cls == 2) { ox = rng.range(-((int64_t)1 << 40), (int64_t)1 << 40); oy = rng.range(-((int64_t)1 << 40), (int64_t)1 << 40); magname = "tiny_lattice_translated_2^40"; }
    else if (cls == 3) {
      static const int64_t Ss[] = { (int64_t)1 << 38, (int64_t)3 << 36, 1000000007LL, 1000 };
      int64_t s = Ss[rng.irange(0, 3)]; G = std::min(G, 4); ux = s; vy = s;
      if (rng.coin()) { ox = -2 * s; oy = -2 * s; }
      thr.push_back((double)s); thr.push_back(1.5 * (double)s);
      magname = s == 1000 ? "lattice_scaled_1000" : "lattice_scaled_2^40";
    } else if (cls == 4) {
      G = std::min(G, 4);
      int64_t B = (int64_t)1 << 36;
      ux = rng.range(-B, B); uy = rng.range(-B, B); vx = rng.range(-B, B); vy = rng.range(-B, B);
      ox = rng.range(-((int64_t)1 << 39), (int64_t)1 << 39); oy = rng.range(-((int64_t)1 << 39), (int64_t)1 << 39);
      thr.push_back(std::ldexp(1.0, 37));
      magname = "affine_lattice_2^40";
    }
    for (const IJ& q : lattice_walk(rng, G, n, clean)) p.emplace_back(ox + q.i * ux + q.j * vx, oy + q.i * uy + q.j * vy);
  }
  c.set("kind", "path");
  c.p64["P"] = Paths64{ p };
  c.set("eps4", "0,2,4,10,40");
  c.set("thr", fmt_list(thr));
  bool bigshift = rng.coin();
  c.seti("dx", bigshift ? rng.range(-((int64_t)1 << 40), (int64_t)1 << 40) : rng.range(-9, 9));
  c.seti("dy", bigshift ? rng.range(-((int64_t)1 << 40), (int64_t)1 << 40) : rng.range(-9, 9));
  c.seti("prec", rng.irange(-1, 3));
  c.seti("sh", rng.irange(0, 3));
  c.set("gen", magname);
  ctx.count("gen_" + magname);
}

static void gen_ellipse_case(Ctx& ctx, Case& c) {
  Rng& rng = ctx.rng;
  auto radius2 = [&]() -> int64_t {          // twice the radius, log-uniform 1 .. 2^31
    int e = rng.irange(0, 30); return rng.range((int64_t)1 << e, ((int64_t)2 << e) - 1); };
  int64_t rx2 = radius2(), ry2 = rng.chance(0.15) ? 0 : (rng.chance(0.3) ? rx2 : radius2());
  long long steps;
  double u = rng.unit();
  if (u < 0.25) steps = rng.irange(0, 2); else if (u < 0.85) steps = rng.irange(3, 40); else steps = rng.irange(41, 1000);
  if (steps <= 2) {   // automatic step count is pi*sqrt(mean radius): keep it near a thousand points at most
    rx2 = std::min<int64_t>(rx2, ((int64_t)1 << 18) - 1 - rx2 % 7); ry2 = std::min<int64_t>(ry2, ((int64_t)1 << 18) - 1 - ry2 % 5);
  }
  bool far = rng.chance(0.3);
  c.set("kind", "ellipse");
  c.seti("cx", far ? rng.range(-((int64_t)1 << 40), (int64_t)1 << 40) : rng.range(-1000, 1000));
  c.seti("cy", far ? rng.range(-((int64_t)1 << 40), (int64_t)1 << 40) : rng.range(-1000, 1000));
  c.seti("rx2", rx2); c.seti("ry2", ry2); c.seti("steps", steps);
}

void vf_case(Ctx& ctx, uint64_t i) {
  Case c;
  if (ctx.optstr("mode", "rnd") == "exh") {
    Path64 p; int k;
    if (!exh_path(i, p, k)) { ctx.count("exh_index_out_of_range"); return; }
    c.set("kind", "path");
    c.p64["P"] = Paths64{ p };
    c.set("eps4", "0,2,6");
    c.set("thr", "1,1.5,2.5");
    c.seti("dx", (int64_t)(i % 7) - 3); c.seti("dy", (int64_t)(i % 5) - 2);
    c.seti("prec", 2); c.seti("sh", 2);
    c.set("gen", "exh4x4");
    ctx.count("exh_paths_with_" + std::to_string(k) + "_points");
  } else if (i % 8 == 7) gen_ellipse_case(ctx, c);
  else gen_path_case(ctx, c, i);
  judge(ctx, c, false);
}

void vf_replay(Ctx& ctx, const Case& c) { judge(ctx, c, true); }
