// mon_c06 — C06: polygon offsetting moves the boundary by delta.
// Signed-distance sandwich oracle per join type (DESIGN.md section 3, C06) at sample points outside the tolerance
// band, result orientation against nesting parity, shrink beyond the inradius, |delta| < 0.5.
//
// Claims
//   C06.round / C06.miter / C06.square / C06.bevel   region sandwich of the join type (tags: not_covered | covered_beyond,
//                                                     inflate | shrink, sample_on_result_edge)
//   C06.orientation     every result path that is not a sliver (|area| > 2.5 x perimeter) and whose nesting is unambiguous has
//                       area sign = sigma * (-1)^nesting depth; the winding number of the result at every judged sample
//                       (outside the band) is 0 or sigma (sigma = input convention xor ReverseSolution)
//   C06.overshrink      Round/Miter/Square shrink with |delta| > inradius + t leaves a path (band is empty => nothing may remain);
//                       Bevel keeps parts of Nrm legitimately, there the samples alone judge
//   C06.small_delta     |delta| < 0.5 changes the region membership of a sample outside the band
//   C06.error_code      ClipperOffset::ErrorCode() != 0 on a valid input
//
// Oracle corrections made during bring-up (the library was right, the first oracle demanded too much):
//   * the clean-up union truncates intersection points to integers, so neighbouring result paths may overlap by about a
//     unit and slivers thinner than a unit may come out inverted — all inside the tolerance band. Hence no winding-range
//     check inside the band, nesting needs unanimous vertices, slivers are not judged for orientation.
//   * |delta| < 0.5: the union drops "very small triangles" (two vertices within one unit), whose interior points are all
//     within 0.71 of their boundary; the claim is judged, like every other, only outside the tolerance band t.
#include "region.h"
#include "gen.h"
#include "c06_offset_common.h"
#include "clipper2/clipper.h"

using namespace vf;
using namespace Clipper2Lib;

static offs::SwhCounters g_sc;

enum { JT_SQUARE = 0, JT_BEVEL = 1, JT_ROUND = 2, JT_MITER = 3 };   // = Clipper2Lib::JoinType
static const char* kJtName[] = { "square", "bevel", "round", "miter" };
static const ld kMargin = 0.25L;     // own rounding margin on top of the property's tolerance t

enum Expect { EX_NONE = 0, EX_IN = 1, EX_OUT = 2 };

// what the property demands at a point with probe pr (see DESIGN.md C06); tm = t + margin
static Expect expectation(int jt, ld delta, ld tm, ld k, int conv, const offs::Probe& pr) {
  const ld sd = offs::signed_dist(pr);          // 0 for a point on an input edge
  const bool inside = !pr.on && pr.w != 0;
  const bool outside = !pr.on && pr.w == 0;
  if (jt == JT_ROUND) {
    if (sd < delta - tm) return EX_IN;
    if (sd > delta + tm) return EX_OUT;
    return EX_NONE;
  }
  if (jt == JT_MITER || jt == JT_SQUARE) {
    if (delta > 0) { if (sd < delta - tm) return EX_IN; if (sd > k * delta + tm) return EX_OUT; }
    else { if (sd < k * delta - tm) return EX_IN; if (sd > delta + tm) return EX_OUT; }
    return EX_NONE;
  }
  // bevel: outward = right-hand side (cross < 0) of an edge in a positive scene, left-hand side in a reversed one
  const bool rect_outward = conv > 0 ? pr.rect_right : pr.rect_left;
  const bool rect_inward = conv > 0 ? pr.rect_left : pr.rect_right;
  if (delta > 0) {
    if ((inside && pr.d > tm) || rect_outward) return EX_IN;
    if (sd > delta + tm) return EX_OUT;
  } else {
    if (sd < delta - tm) return EX_IN;
    if ((outside && pr.d > tm) || rect_inward) return EX_OUT;
  }
  return EX_NONE;
}

static std::string ptstr(const Point64& q) { return "(" + std::to_string(q.x) + "," + std::to_string(q.y) + ")"; }

static void build_samples(Rng& rng, const Paths64& P, const Paths64& R, int conv, ld delta, ld t, ld k, int jt, bool small, Samples& sp) {
  const ld ad = fabsl(delta);
  int64_t x0 = 0, y0 = 0, x1 = 0, y1 = 0; bool any = false;
  bounds(P, x0, y0, x1, y1, any);
  if (!any) return;
  // uniform: the bounding box grown by the reach of the offset, and the plain bounding box
  {
    ld e = k * ad + 3 * t + 2;
    ld w = (ld)x1 - (ld)x0 + 2 * e, h = (ld)y1 - (ld)y0 + 2 * e;
    for (int i = 0; i < 110; ++i) sp.add((ld)x0 - e + rng.unit() * w, (ld)y0 - e + rng.unit() * h);
    for (int i = 0; i < 50; ++i) sp.add((ld)x0 + rng.unit() * ((ld)x1 - (ld)x0), (ld)y0 + rng.unit() * ((ld)y1 - (ld)y0));
  }
  std::vector<ld> offs_edge, offs_vert;
  if (small) { offs_edge = { -(t + 1), t + 1, -3 * t, 3 * t }; offs_vert = offs_edge; }
  else {
    offs_edge = { delta - (t + 1), delta + (t + 1), delta - 3 * t, delta + 3 * t };
    offs_vert = offs_edge;
    if (jt == JT_MITER || jt == JT_SQUARE) { offs_vert.push_back(k * delta - (t + 1)); offs_vert.push_back(k * delta + (t + 1)); offs_vert.push_back(k * delta - 3 * t); offs_vert.push_back(k * delta + 3 * t); }
    if (jt == JT_BEVEL) { offs_vert.push_back(0.5L * delta); }
  }
  size_t nedges = 0; for (auto& p : P) nedges += p.size();
  const bool thin = nedges > 70;   // keep the sample count bounded on big scenes
  for (const Path64& p : P) {
    size_t n = p.size();
    for (size_t i = 0; i < n; ++i) {
      const Point64& a = p[i]; const Point64& b = p[(i + 1) % n]; const Point64& c = p[(i + 2) % n];
      ld dx = (ld)b.x - (ld)a.x, dy = (ld)b.y - (ld)a.y, len = sqrtl(dx * dx + dy * dy);
      if (len == 0) continue;
      dx /= len; dy /= len;
      // outward normal: right-hand side (dy,-dx) for a positive scene
      ld nx = conv > 0 ? dy : -dy, ny = conv > 0 ? -dx : dx;
      ld f = rng.real(0.15, 0.85) * len;
      for (ld s : offs_edge) { if (thin && rng.coin()) continue; sp.add((ld)a.x + dx * f + nx * s, (ld)a.y + dy * f + ny * s); }
      if (!small && ad > t + 1 && len > 2 * (t + 1.5L) + 1) {
        // just inside a corner of the sweep rectangle of this edge (bevel), on the side the offset goes
        ld ff = rng.coin() ? (t + 1.5L) : len - (t + 1.5L);
        ld s = delta > 0 ? delta - (t + 1) : delta + (t + 1);
        sp.add((ld)a.x + dx * ff + nx * s, (ld)a.y + dy * ff + ny * s);
      }
      // bisector at vertex b
      ld ex = (ld)c.x - (ld)b.x, ey = (ld)c.y - (ld)b.y, el = sqrtl(ex * ex + ey * ey);
      if (el == 0) continue;
      ex /= el; ey /= el;
      ld mx = conv > 0 ? ey : -ey, my = conv > 0 ? -ex : ex;
      ld bx = nx + mx, by = ny + my, bl = sqrtl(bx * bx + by * by);
      if (bl < 1e-6L) continue;
      bx /= bl; by /= bl;
      for (ld s : offs_vert) { if (thin && rng.coin()) continue; sp.add((ld)b.x + bx * s, (ld)b.y + by * s); }
      // two more directions inside the fan between the two normals (arc chords, ends of the arc), just inside and
      // just outside the round front
      if (!small) for (int e = 0; e < 2; ++e) {
        ld f2 = e == 0 ? rng.real(0.0, 1.0) : (rng.coin() ? rng.real(0.0, 0.12) : rng.real(0.88, 1.0));
        ld fx = nx * (1 - f2) + mx * f2, fy = ny * (1 - f2) + my * f2, fl = sqrtl(fx * fx + fy * fy);
        if (fl < 1e-6L) continue;
        fx /= fl; fy /= fl;
        sp.add((ld)b.x + fx * (delta - (t + 1)), (ld)b.y + fy * (delta - (t + 1)));
        if (!thin || rng.coin()) sp.add((ld)b.x + fx * (delta + (t + 1)), (ld)b.y + fy * (delta + (t + 1)));
      }
    }
  }
  // near the output: both sides of a few edges of every result path, and the vertex average
  for (const Path64& p : R) {
    size_t n = p.size(); if (n < 3) continue;
    ld sx = 0, sy = 0; for (auto& v : p) { sx += (ld)v.x; sy += (ld)v.y; }
    sp.add(sx / n, sy / n);
    int take = (int)std::min<size_t>(n, 6);
    for (int e = 0; e < take; ++e) {
      size_t i = (size_t)rng.range(0, (int64_t)n - 1);
      const Point64& a = p[i]; const Point64& b = p[(i + 1) % n];
      ld dx = (ld)b.x - (ld)a.x, dy = (ld)b.y - (ld)a.y, len = sqrtl(dx * dx + dy * dy);
      if (len == 0) continue;
      ld mx = 0.5L * ((ld)a.x + (ld)b.x), my = 0.5L * ((ld)a.y + (ld)b.y);
      sp.add(mx - 1.5L * dy / len, my + 1.5L * dx / len); sp.add(mx + 1.5L * dy / len, my - 1.5L * dx / len);
    }
  }
}

static void judge(Ctx& ctx, const Case& c, bool from_replay) {
  const Paths64& P = c.P("S");
  const double delta_d = c.getd("delta");
  const int jt = (int)c.geti("jt");
  const double ml = c.getd("ml", 2.0), at = c.getd("at", 0.0);
  const bool rev = c.geti("rev") != 0;
  const int api = (int)c.geti("api");
  if (jt < 0 || jt > 3 || !(delta_d == delta_d) || delta_d == 0) { ctx.count("bad_case"); return; }

  // premises (re-verified on replay; the generator verified them already)
  offs::SceneInfo si;
  if (from_replay || c.geti("conv") == 0) {
    if (offs::swh_verify(P, &si) != 0) { ctx.count("replay_premise_not_met"); return; }
  } else si.conv = (int)c.geti("conv");
  const int conv = si.conv;
  const int sigma = conv * (rev ? -1 : 1);

  ctx.begin(c);
  Paths64 R;
  if (api == 0) {
    R = InflatePaths(P, delta_d, (JoinType)jt, EndType::Polygon, ml, at);
  } else {
    ClipperOffset co(ml, at);
    co.ReverseSolution(rev);
    co.AddPaths(P, (JoinType)jt, EndType::Polygon);
    if (api == 2) { PolyTree64 tree; co.Execute(delta_d, tree); R = PolyTreeToPaths64(tree); }
    else co.Execute(delta_d, R);
    if (co.ErrorCode() != 0) { ctx.evaluated(); ctx.violation("C06.error_code", { "error_code" }, c, "ClipperOffset::ErrorCode() = " + std::to_string(co.ErrorCode())); return; }
  }
  ctx.evaluated();
  if (from_replay && ctx.optint("show", 0)) {   // debugging aid: --show 1 prints the result paths
    for (auto& p : R) { fprintf(stderr, "R %zu area2sign %d:", p.size(), sgn(area2(p))); for (auto& v : p) fprintf(stderr, " %lld,%lld", (long long)v.x, (long long)v.y); fprintf(stderr, "\n"); }
  }

  const ld delta = (ld)delta_d, ad = fabsl(delta);
  const bool small = ad < 0.5L;
  const ld arc = at > 0 ? std::min(ad, (ld)at) : ad / 500;
  const ld t = arc + 2 + 0.001L * ad;
  const ld tm = t + kMargin;
  const ld k = jt == JT_MITER ? std::max((ld)ml, sqrtl(2.0L)) : (jt == JT_SQUARE ? sqrtl(2.0L) : 1.0L);
  const std::string claim = std::string("C06.") + kJtName[jt];
  const char* dirtag = delta > 0 ? "inflate" : "shrink";

  // ---- orientation of every result path against nesting parity
  {
    std::vector<offs::PathNest> nest = offs::nesting_of(R);
    for (size_t i = 0; i < R.size(); ++i) {
      if (!nest[i].sliver && nest[i].undecided) { ctx.count("orientation_paths_undecided"); continue; }
      if (nest[i].sliver) { ctx.count("orientation_paths_skipped_sliver"); continue; }
      ctx.count("orientation_paths_checked");
      int want = sigma * ((nest[i].depth & 1) ? -1 : 1);
      if (nest[i].sign != want) {
        ctx.violation("C06.orientation", { "path_sign", nest[i].depth ? "nested_path" : "outer_path", small ? "small_delta" : dirtag }, c,
          "result path " + std::to_string(i) + " (nesting depth " + std::to_string(nest[i].depth) + ") has area sign " + std::to_string(nest[i].sign) +
          ", input convention " + std::to_string(conv) + " ReverseSolution " + std::to_string(rev) + " demand " + std::to_string(want));
        return;
      }
    }
  }

  // ---- shrink beyond the inradius (band empty => nothing may remain); bevel keeps the parts of Nrm, judged by samples only
  bool overshrink = false;
  if (delta < 0 && !small) {
    offs::Inradius ir = offs::inradius_bounds(P, 16);
    if (ad > ir.upper + t + 0.5L) {
      overshrink = true;
      ctx.count(jt == JT_BEVEL ? "overshrink_cases_bevel_samples_only" : "overshrink_cases");
      if (jt != JT_BEVEL) {
        for (size_t i = 0; i < R.size(); ++i) if (area2(R[i]) != 0) {
          ctx.violation("C06.overshrink", { "path_left", kJtName[jt] }, c,
            "shrink by " + ldstr(ad) + " > inradius upper bound " + ldstr(ir.upper) + " + t " + ldstr(t) + " but the result keeps a path of " +
            std::to_string(R[i].size()) + " vertices, first " + ptstr(R[i][0]));
          return;
        }
      }
    } else if (ad > ir.lower) ctx.count("shrink_between_inradius_bounds");
  }

  // ---- the boundary of the result lies inside the band. A result vertex q where the property demands "covered" or
  // "not covered" (with margin) is only a suspicion: a boundary of zero width (exact spike) misclassifies no point. The
  // refutation is a concrete point next to q, on the grid of 1/256 units, that is strictly off every result edge, outside
  // the band, and misclassified (same oracle on the inputs scaled by 256, all exact).
  auto eval_point = [&](const Paths64& Pin, const Paths64& Rin, const Point64& q, ld scale, ld extra_tol, int& W, bool& onR, ld& sd) -> Expect {
    offs::Probe pr = jt == JT_BEVEL && !small ? offs::probe(Pin, q, (ad - tm - extra_tol) * scale, (tm + extra_tol) * scale) : offs::probe(Pin, q);
    Expect ex;
    if (small) ex = pr.on || pr.d <= (tm + extra_tol) * scale ? EX_NONE : (pr.w != 0 ? EX_IN : EX_OUT);
    else ex = expectation(jt, delta * scale, (tm + extra_tol) * scale, k, conv, pr);
    sd = offs::signed_dist(pr) / scale;
    onR = false; W = 0;
    if (ex != EX_NONE) W = winding(Rin, q, &onR);
    return ex;
  };
  {
    const int64_t SC = 256;
    Paths64 Ps, Rs;     // scaled copies, built on first use
    long long bv = 0, suspicious = 0;
    for (const Path64& rp : R) {
      size_t n = rp.size();
      for (size_t i = 0; i < n; ++i) {
        const Point64& q = rp[i];
        int W0; bool on0; ld sd0;
        ++bv;
        if (eval_point(P, R, q, 1, 0, W0, on0, sd0) == EX_NONE) continue;
        ++suspicious;
        if (Ps.empty()) { Ps = P; Rs = R; gen::scale_paths(Ps, SC); gen::scale_paths(Rs, SC); }
        // candidate points: along the bisector of the two result edges at q (both ways), and 8 compass points
        const Point64& a = rp[(i + n - 1) % n]; const Point64& b = rp[(i + 1) % n];
        std::vector<std::pair<ld, ld>> cand;
        ld ax = (ld)a.x - (ld)q.x, ay = (ld)a.y - (ld)q.y, bx = (ld)b.x - (ld)q.x, by = (ld)b.y - (ld)q.y;
        ld al = sqrtl(ax * ax + ay * ay), bl = sqrtl(bx * bx + by * by);
        if (al > 0 && bl > 0) {
          ld ux = ax / al + bx / bl, uy = ay / al + by / bl, ul = sqrtl(ux * ux + uy * uy);
          if (ul < 1e-9L) { ux = -ay / al; uy = ax / al; ul = 1; }
          ux /= ul; uy /= ul;
          for (ld r : { 0.25L, 0.5L, 1.0L, 2.0L }) { cand.push_back({ r * ux, r * uy }); cand.push_back({ -r * ux, -r * uy }); }
        }
        for (int d = 0; d < 8; ++d) cand.push_back({ 0.375L * cosl(d * offs::kPiL / 4), 0.375L * sinl(d * offs::kPiL / 4) });
        for (auto& cd : cand) {
          Point64 ps(q.x * SC + (int64_t)llroundl(cd.first * SC), q.y * SC + (int64_t)llroundl(cd.second * SC));
          int W; bool onR; ld sd;
          Expect ex = eval_point(Ps, Rs, ps, (ld)SC, 0, W, onR, sd);
          if (ex == EX_NONE || onR) continue;
          if (ex == EX_IN ? W == sigma : W == 0) continue;
          int W2; bool on2; ld sd2;
          bool small_excess = eval_point(Ps, Rs, ps, (ld)SC, 1.5L, W2, on2, sd2) == EX_NONE;
          bool at_input_vertex = false;
          for (const Path64& ip : P) for (const Point64& v : ip) if (v == q) at_input_vertex = true;
          char pb[160]; snprintf(pb, sizeof pb, "(%lld%+lld/256, %lld%+lld/256)", (long long)q.x, (long long)(ps.x - q.x * SC), (long long)q.y, (long long)(ps.y - q.y * SC));
          std::vector<std::string> tags = { ex == EX_IN ? "not_covered" : "covered_beyond", small ? "small_delta" : dirtag, kJtName[jt],
            at_input_vertex ? "spike_to_input_vertex" : (small_excess ? "not_at_input_vertex_excess_le_1.5" : "not_at_input_vertex_excess_gt_1.5") };
          // classifier for the larger excesses: q is the tip of a thin wedge of the result (its two edges meet at a small
          // angle theta, e.g. the offset of an outer edge meeting the offset of a hole at a shallow angle); moving either
          // edge by a rounding error of one unit moves the tip by 1/sin(theta). Accepted into this class only if the point is
          // inside the band widened by 1.5/sin(theta) and theta is below 15 degrees.
          if (!at_input_vertex && !small_excess && al > 0 && bl > 0) {
            ld cr = fabsl(ax * by - ay * bx) / (al * bl), dt = (ax * bx + ay * by) / (al * bl);
            if (dt > 0 && cr > 0 && cr < 0.2588L) {
              int W3; bool on3; ld sd3;
              ld widen = std::min<ld>(1.5L / cr, 200.0L);
              if (eval_point(Ps, Rs, ps, (ld)SC, widen, W3, on3, sd3) == EX_NONE) tags.push_back("wedge_tip_excess_le_1.5_over_sine_of_the_tip_angle");
            }
          }
          ctx.violation("C06.boundary", tags, c, std::string("next to result vertex ") + ptstr(q) + (at_input_vertex ? " (= an input vertex)" : "") + " the point " + pb +
            " has signed distance " + ldstr(sd) + " to the input, delta " + ldstr(delta) + " t " + ldstr(t) + " k " + ldstr(k) + ": must " + (ex == EX_IN ? "" : "not ") +
            "be covered, result winding " + std::to_string(W) + ", join " + kJtName[jt] + " ml " + ldstr(ml) + " arc_tol " + ldstr(at) +
            (small_excess ? " (inside the band widened by 1.5)" : " (outside the band even when widened by 1.5)"));
          return;
        }
        ctx.count("result_vertices_outside_band_without_misclassified_neighbour");
      }
    }
    ctx.count("result_vertices_checked", bv);
    ctx.count("result_vertices_outside_band", suspicious);
  }

  // ---- region samples
  Rng srng(c.hash(), 0x5a17);
  Samples sp;
  build_samples(srng, P, R, conv, delta, t, k, jt, small, sp);
  long long jin = 0, jout = 0, band = 0;
  for (const Point64& q : sp.pts) {
    offs::Probe pr = jt == JT_BEVEL && !small ? offs::probe(P, q, ad - tm, tm) : offs::probe(P, q);
    if (!pr.on && pr.w != 0 && pr.w != conv) { ctx.count("input_winding_unexpected"); continue; }   // cannot happen on verified scenes
    Expect ex;
    if (small) ex = pr.on || pr.d <= tm ? EX_NONE : (pr.w != 0 ? EX_IN : EX_OUT);
    else ex = expectation(jt, delta, tm, k, conv, pr);
    if (ex == EX_NONE) { ++band; continue; }
    bool onR = false;
    int W = winding(R, q, &onR);
    if (!onR && W != 0 && W != sigma) {
      // classifier: does some result path cross itself or another result path (exact)? then the clean-up union returned a
      // self-intersecting boundary with an inverted lobe; otherwise a whole path has the wrong orientation
      bool selfx = false; { std::vector<std::pair<Point64, Point64>> es; for (auto& p : R) for (size_t a = 0; a < p.size(); ++a) es.push_back({ p[a], p[(a + 1) % p.size()] });
        for (size_t a = 0; a < es.size() && !selfx; ++a) for (size_t b = a + 1; b < es.size(); ++b) if (proper_cross(es[a].first, es[a].second, es[b].first, es[b].second)) { selfx = true; break; } }
      ctx.violation("C06.orientation", { "winding_out_of_range", small ? "small_delta" : dirtag, selfx ? "winding_out_of_range@result_boundary_crosses_itself" : "winding_out_of_range@result_boundary_simple" }, c,
        "winding number of the result at " + ptstr(q) + " (outside the tolerance band) is " + std::to_string(W) + ", only 0 and " + std::to_string(sigma) + " are possible");
      return;
    }
    if (onR) { ctx.count("samples_on_a_result_edge_not_judged"); continue; }   // boundaries are judged by the vertex check above
    if (ex == EX_IN) ++jin; else ++jout;
    bool bad = ex == EX_IN ? W != sigma : W != 0;
    if (!bad) continue;
    ld sd = offs::signed_dist(pr);
    std::string detail = "at " + ptstr(q) + " signed distance " + ldstr(sd) + " delta " + ldstr(delta) + " t " + ldstr(t) + " k " + ldstr(k) +
      (ex == EX_IN ? ": must be covered" : ": must not be covered") + ", result winding " + std::to_string(W) +
      " join " + kJtName[jt] + " ml " + ldstr(ml) + " arc_tol " + ldstr(at);
    std::vector<std::string> tags = { ex == EX_IN ? "not_covered" : "covered_beyond", small ? "small_delta" : dirtag };
    { int W2; bool on2; ld sd2; tags.push_back(eval_point(P, R, q, 1, 1.5L, W2, on2, sd2) == EX_NONE ? "excess_le_1.5" : "excess_gt_1.5"); }
    // classifier: is the sample next to a result vertex that itself lies outside the band and is not an input vertex (the
    // truncated triple-crossing class recorded for C06.boundary, whose 1/256-grid search did not happen to hit a
    // misclassified point here)?
    if (tags.back() == "excess_le_1.5") {
      bool near_off = false;
      for (const Path64& rp : R) for (const Point64& v : rp) {
        ld dx = (ld)v.x - (ld)q.x, dy = (ld)v.y - (ld)q.y; if (dx * dx + dy * dy > 25) continue;
        int W0; bool on0; ld sd0; if (eval_point(P, R, v, 1, 0, W0, on0, sd0) == EX_NONE) continue;
        bool at_input = false; for (const Path64& ip : P) for (const Point64& u : ip) if (u == v) at_input = true;
        if (!at_input) near_off = true;
      }
      if (near_off) tags.push_back("excess_le_1.5@within_5_units_of_a_result_vertex_that_is_outside_the_band_and_not_an_input_vertex");
      // ... or beside a result edge one of whose end points lies outside the band (the edge is a chord to a misplaced
      // crossing vertex; the sample sits in the sliver between that chord and the ideal boundary)
      ld best = -1; Point64 ea, eb;
      for (const Path64& rp : R) for (size_t a = 0; a < rp.size(); ++a) { const Point64& u = rp[a]; const Point64& v = rp[(a + 1) % rp.size()];
        ld d = dist_pt_seg(u, v, q); if (best < 0 || d < best) { best = d; ea = u; eb = v; } }
      if (best >= 0 && best <= 4) {
        bool off_end = false;
        for (const Point64& v : { ea, eb }) { int W0; bool on0; ld sd0; if (eval_point(P, R, v, 1, 0, W0, on0, sd0) == EX_NONE) continue;
          bool at_input = false; for (const Path64& ip : P) for (const Point64& u : ip) if (u == v) at_input = true;
          if (!at_input) off_end = true; }
        if (off_end) tags.push_back("excess_le_1.5@beside_a_result_edge_that_ends_in_a_vertex_outside_the_band");
      }
      // ... or beside a long result edge whose two end points are both legitimate boundary points (inside the band): the
      // boundary between them is cut short by a straight chord that leaves the band in between
      if (best >= 0 && best <= 1) {
        bool both_in = true;
        for (const Point64& v : { ea, eb }) { int W0; bool on0; ld sd0; if (eval_point(P, R, v, 1, 0, W0, on0, sd0) != EX_NONE) both_in = false; }
        ld len = sqrtl((ld)dist2(ea, eb));
        if (both_in && len >= 30) tags.push_back("excess_le_1.5@beside_a_long_result_chord_between_two_in_band_vertices");
      }
      // ... and is it a coincidence of the integer grid? The same scene (centred) with paths, delta and arc tolerance
      // multiplied by s and s/4+1 must then give the demanded coverage at the scaled point (same classifier as C07's)
      {
        int64_t bx0 = 0, by0 = 0, bx1 = 0, by1 = 0; bool anyb = false; bounds(P, bx0, by0, bx1, by1, anyb);
        const int64_t ccx = bx0 / 2 + bx1 / 2, ccy = by0 / 2 + by1 / 2;
        Paths64 Pc = P; gen::translate(Pc, -ccx, -ccy); const Point64 qc(q.x - ccx, q.y - ccy);
        const ld Mx = std::max<ld>({ (ld)max_abs_coord(Pc), fabsl((ld)qc.x), fabsl((ld)qc.y), ad * 8 });
        int64_t smax = 1024; while (smax > 1 && Mx * (ld)smax > 0x1p46L) smax /= 4;
        if (smax >= 16) {
          int agree = 0;
          for (int64_t sc : { smax, smax / 4 + 1 }) {
            Paths64 Ps = Pc; gen::scale_paths(Ps, sc); const Point64 qs(qc.x * sc, qc.y * sc);
            Paths64 R2; const double d2 = delta_d * (double)sc, at2 = at * (double)sc;
            if (api == 0) R2 = InflatePaths(Ps, d2, (JoinType)jt, EndType::Polygon, ml, at2);
            else { ClipperOffset co2(ml, at2); co2.ReverseSolution(rev); co2.AddPaths(Ps, (JoinType)jt, EndType::Polygon);
              if (api == 2) { PolyTree64 t2; co2.Execute(d2, t2); R2 = PolyTreeToPaths64(t2); } else co2.Execute(d2, R2); }
            int W2 = winding(R2, qs);
            if (ex == EX_IN ? W2 == sigma : W2 == 0) ++agree;
          }
          tags.push_back(agree == 2 ? "isolated_not_reproduced_on_finer_grid" : "reproduced_on_finer_grid");
          if (agree == 2 && std::find(tags.begin(), tags.end(), "excess_le_1.5@beside_a_long_result_chord_between_two_in_band_vertices") != tags.end())
            tags.push_back("cleanup_union_misfill:long_chord_between_in_band_vertices+not_reproduced_on_finer_grid");
        } else tags.push_back("finer_grid_not_tried");
      }
      if (best >= 0) detail += "; nearest result edge " + ptstr(ea) + "-" + ptstr(eb) + " at " + ldstr(best);
    }
    if (jt == JT_BEVEL && !small && (pr.rect_left || pr.rect_right)) tags.push_back("in_sweep_rectangle");
    if (overshrink) tags.push_back("overshrink");
    ctx.violation(small ? "C06.small_delta" : claim, tags, c, detail);
    return;
  }
  ctx.count("samples_judged_must_be_in", jin);
  ctx.count("samples_judged_must_be_out", jout);
  ctx.count("samples_skipped_in_band", band);
  ctx.count(std::string("samples_judged_") + (small ? "small_delta" : kJtName[jt]), jin + jout);
  ctx.count(std::string("cfg_") + (small ? "small" : kJtName[jt]) + "_" + dirtag + "_conv" + (conv > 0 ? "pos" : "neg") + "_rev" + std::to_string(rev));
  ctx.count("api_" + std::to_string(api));
  if (R.empty()) ctx.count("result_empty");
  if (!from_replay) {
    bool nontrivial = !R.empty() && jin + jout >= 50;
    ctx.note_case(c, nontrivial);
    if (jin + jout < 50) ctx.count("scenes_with_fewer_than_50_samples_judged");
  }
}

static const double kSizes[] = { 50, 200, 1000, 16384, 1048576, 1073741824.0, 1099511627776.0 };
static const char* kSizeName[] = { "50", "200", "1000", "2^14", "2^20", "2^30", "2^40" };

void vf_case(Ctx& ctx, uint64_t i) {
  Rng& r = ctx.rng;
  int jt = (int)(i % 4);
  bool shrink = (i / 4) % 2 != 0;
  bool reversed = (i / 8) % 2 != 0;
  int api = (int)((i / 16) % 4);           // 0 InflatePaths, 1 and 3 ClipperOffset->Paths64, 2 ClipperOffset->PolyTree64
  bool rev = false;
  if (api == 3) { api = 1; rev = true; }
  else if (api == 2) rev = r.coin();
  int szi = (int)((i / 64) % 7);
  double S = kSizes[szi];

  offs::SwhScene sc;
  double rho = 0;   // radius of curvature of the finely sampled arcs (0: ordinary scene)
  if (szi >= 3 && szi <= 5 && (i / 448) % 27 == 4) {
    // finely sampled arcs: per-vertex turns of 0.03-0.055 degrees (thousands of vertices per full turn). Concave joins of
    // such arcs are what removes over-shrunk parts of the raw offset curve when |delta| exceeds the radius of curvature.
    rho = S / r.real(6.0, 12.0);
    const double phi = r.real(18.0, 40.0) * offs::kPiL / 180.0, step = r.real(0.03, 0.055) * offs::kPiL / 180.0;
    const int m = std::max(8, (int)(phi / step));
    auto lens = [&](double cx, double cy, double rot, bool ccw) {   // two arcs of radius rho subtending phi, meeting in two tips
      Path64 p; const double d = rho * cos(phi / 2);               // distance from each circle centre to the chord
      for (int side = 0; side < 2; ++side) for (int q = 0; q < m; ++q) {
        double a = -phi / 2 + phi * q / m; double x = rho * sin(a), y = rho * cos(a) - d; if (side) { x = -x; y = -y; }
        double X = x * cos(rot) - y * sin(rot), Y = x * sin(rot) + y * cos(rot);
        p.push_back(Point64((int64_t)llround(cx + X), (int64_t)llround(cy + Y))); }
      Path64 u; for (auto& pt : p) if (u.empty() || !(u.back() == pt)) u.push_back(pt);
      while (u.size() > 1 && u.back() == u.front()) u.pop_back();
      if ((area2(u) > 0) != ccw) std::reverse(u.begin(), u.end());
      return u; };
    int kind = r.irange(0, 2);
    Paths64 P0;
    if (kind == 0) { P0.push_back(gen::box((int64_t)-S, (int64_t)-S, (int64_t)S, (int64_t)S, true)); P0.push_back(lens(r.real(-S / 4, S / 4), r.real(-S / 4, S / 4), r.real(0, 3.1), false)); sc.outers = 1; sc.holes = 1; }
    else if (kind == 1) { P0.push_back(lens(0, 0, r.real(0, 3.1), true)); sc.outers = 1; sc.holes = 0; }
    else { P0.push_back(gen::box((int64_t)-S, (int64_t)-S, (int64_t)S, (int64_t)S, true)); P0.push_back(lens(-S / 3, r.real(-S / 5, S / 5), r.real(0, 3.1), false)); P0.push_back(lens(S / 3, r.real(-S / 5, S / 5), r.real(0, 3.1), false)); sc.outers = 1; sc.holes = 2; }
    if (offs::swh_verify(P0) != 0) { ctx.count("fine_arc_scene_rejected_by_premise_verifier"); return; }
    sc.paths = P0; sc.ok = true; ctx.count("fine_arc_scenes");
  } else {
    sc = offs::simple_with_holes(r, S, g_sc);
  }
  if (!sc.ok) { ctx.count("generator_gave_up"); return; }
  Paths64 P = sc.paths;
  // satellite (8% of the ordinary scenes): one more small outer polygon very far from the rest of the group - spread/size
  // ratios of 2^10 .. 2^35. Anything a group computes once for all its paths (orientation of the lowest path, bounds,
  // a common origin) is then decided by numbers of very different magnitude
  bool has_satellite = false;
  if (rho == 0 && szi <= 4 && r.chance(0.08)) {
    const double sz = r.real(8, 200); const int64_t D = (int64_t)1 << r.irange(std::max(14, (int)std::log2(S) + 3), 38);
    const int64_t sx = (r.coin() ? 1 : -1) * (D + r.range(0, D / 2)), sy = (r.coin() ? 1 : -1) * (D + r.range(0, D / 2));
    for (int t = 0; t < 6; ++t) {
      Paths64 P2 = P; P2.push_back(gen::star_shaped(r, sx, sy, sz, r.irange(3, 8), 0.55, 1.0, true));
      offs::SceneInfo si;
      if (offs::swh_verify(P2, &si) == 0 && si.conv == 1 && si.outers == sc.outers + 1 && si.holes == sc.holes) { P.swap(P2); ++sc.outers; has_satellite = true; ctx.count("scenes_with_a_far_satellite_polygon"); break; }
    }
  }
  // rigid integer motions / relabelling: keep every verified premise
  for (auto& p : P) std::rotate(p.begin(), p.begin() + (long)r.range(0, (int64_t)p.size() - 1), p.end());
  r.shuffle(P);
  if (reversed) gen::reverse_all(P);
  if (szi <= 5 && r.chance(0.2) && !has_satellite) {
    int64_t room = ((int64_t)1 << 40);
    gen::translate(P, r.range(-room, room), r.range(-room, room));
    ctx.count("translated_far");
  }

  // delta
  double ad; const char* dclass;
  double u = r.unit();
  if (u < 0.08) { ad = r.pick(std::vector<double>{ 0.4, 0.45, 0.49, 0.4999999 }); dclass = "lt_0.5"; }
  else if (u < 0.16) { ad = r.chance(0.3) ? 0.5 : r.real(0.5, 3.0); dclass = "0.5_to_3"; }
  else if (shrink && u < 0.45) {
    offs::Inradius ir = offs::inradius_bounds(P, 12);
    ad = std::max(0.6, (double)ir.lower * r.real(0.5, 1.5)); dclass = "around_inradius";
  }
  else if (u < 0.75) { ad = exp(r.real(log(1.0), log(0.6 * S))); dclass = "log_uniform"; }
  else { ad = r.real(0.02, 0.6) * S; dclass = "uniform_to_0.6_size"; }
  if (rho > 0) { ad = rho * r.pick(std::vector<double>{ 0.02, 0.3, 0.9, 1.1, 1.5, 2.5 }); dclass = "relative_to_radius_of_curvature"; }
  if (ad > 0.6 * S) ad = 0.6 * S;
  if (r.chance(0.3) && ad >= 1) ad = floor(ad);
  double delta = shrink ? -ad : ad;
  double ml = r.pick(std::vector<double>{ 1.0, 2.0, 5.0 });
  int ati = r.irange(0, 2);
  // 0.25 asks for pi/acos(1-0.25/|delta|) steps per circle, i.e. millions of vertices per join for |delta| >= 2^30: the
  // fixed tolerance is therefore raised to |delta|/32768 (<= ~400 steps per circle) for large deltas
  double at = ati == 0 ? 0.0 : (ati == 1 ? std::max(0.25, ad / 32768.0) : 0.01 * S);

  Case c;
  c.p64["S"] = P;
  c.setd("delta", delta); c.seti("jt", jt); c.setd("ml", ml); c.setd("at", at);
  c.seti("rev", rev); c.seti("api", api); c.seti("conv", reversed ? -1 : 1);
  c.set("size", kSizeName[szi]); c.seti("outers", sc.outers); c.seti("holes", sc.holes);
  ctx.count(std::string("size_") + kSizeName[szi]);
  ctx.count(std::string("delta_class_") + dclass);
  ctx.count("miter_limit_" + std::to_string((int)ml));
  ctx.count("arc_tol_class_" + std::to_string(ati));
  ctx.count("scene_outers_" + std::to_string(sc.outers) + "_holes_" + std::to_string(sc.holes));
  judge(ctx, c, false);
}

void vf_replay(Ctx& ctx, const Case& c) { judge(ctx, c, true); }

void vf_end(Ctx& ctx) {
  ctx.count("gen_scenes", g_sc.scenes);
  ctx.count("gen_scene_attempts", g_sc.scene_attempts);
  ctx.count("gen_outer_tries", g_sc.outer_tries);
  ctx.count("gen_outer_rejected", g_sc.outer_rejected);
  ctx.count("gen_hole_tries", g_sc.hole_tries);
  ctx.count("gen_hole_rejected", g_sc.hole_rejected);
  ctx.count("gen_holes_dropped", g_sc.holes_dropped);
  ctx.count("gen_rejected_rule1_angle_or_short", g_sc.rej_rule1_angle_or_short);
  ctx.count("gen_rejected_rule2_touching", g_sc.rej_rule2_touch);
  ctx.count("gen_rejected_rule3_topology", g_sc.rej_rule3_topology);
  ctx.count("gen_rejected_rule4_hole_clearance", g_sc.rej_rule4_clearance);
  ctx.count("gen_collinear_inserts", g_sc.collinear_inserts);
  ctx.count("gen_collinear_inserts_undone", g_sc.collinear_inserts_undone);
  ctx.count("gen_gave_up", g_sc.gave_up);
}
