// c10_alloc.h — counting / failing replacement of the global operator new (single-threaded monitors only).
// * counts allocations and live blocks/bytes (leak-per-case check, heap ceiling watchdog)
// * countdown failure injection: the k-th allocation inside an armed scope throws std::bad_alloc
//   (nothrow forms return nullptr instead and are recorded separately)
#ifndef VF_C10_ALLOC_H
#define VF_C10_ALLOC_H
#include <new>
#include <cstdlib>
#include <cstdio>
#include <unistd.h>
#include <malloc.h>

namespace vfalloc {
static long long g_live_count = 0, g_live_bytes = 0, g_total = 0, g_peak_bytes = 0;
static long long g_seq = 0, g_fail_at = 0;      // armed iff g_fail_at > 0
static bool g_fired_throw = false, g_fired_nothrow = false;
static long long g_ceiling = (long long)1 << 30;
static bool g_track = true;

inline void heap_overrun() {
  static const char msg[] = "VF-WATCHDOG heap ceiling exceeded\n";
  ssize_t w = write(2, msg, sizeof msg - 1); (void)w;
  abort();
}
inline void* alloc(size_t n, bool nothrow) {
  ++g_total;
  if (g_fail_at > 0 && ++g_seq == g_fail_at) {
    if (nothrow) { g_fired_nothrow = true; return nullptr; }
    g_fired_throw = true;
    throw std::bad_alloc();
  }
  void* p = malloc(n ? n : 1);
  if (!p) { if (nothrow) return nullptr; throw std::bad_alloc(); }
  if (g_track) {
    ++g_live_count; g_live_bytes += (long long)malloc_usable_size(p);
    if (g_live_bytes > g_peak_bytes) g_peak_bytes = g_live_bytes;
    if (g_live_bytes > g_ceiling) heap_overrun();
  }
  return p;
}
inline void dealloc(void* p) {
  if (!p) return;
  if (g_track) { --g_live_count; g_live_bytes -= (long long)malloc_usable_size(p); }
  free(p);
}
inline void arm(long long k) { g_seq = 0; g_fail_at = k; g_fired_throw = g_fired_nothrow = false; }
inline void disarm() { g_fail_at = 0; }
inline void count_begin() { g_seq = 0; g_fail_at = (long long)1 << 62; }
inline long long count_end() { long long n = g_seq; g_fail_at = 0; return n; }
} // namespace vfalloc

void* operator new(size_t n) { return vfalloc::alloc(n, false); }
void* operator new[](size_t n) { return vfalloc::alloc(n, false); }
void* operator new(size_t n, const std::nothrow_t&) noexcept { try { return vfalloc::alloc(n, true); } catch (...) { return nullptr; } }
void* operator new[](size_t n, const std::nothrow_t&) noexcept { try { return vfalloc::alloc(n, true); } catch (...) { return nullptr; } }
void operator delete(void* p) noexcept { vfalloc::dealloc(p); }
void operator delete[](void* p) noexcept { vfalloc::dealloc(p); }
void operator delete(void* p, size_t) noexcept { vfalloc::dealloc(p); }
void operator delete[](void* p, size_t) noexcept { vfalloc::dealloc(p); }
void operator delete(void* p, const std::nothrow_t&) noexcept { vfalloc::dealloc(p); }
void operator delete[](void* p, const std::nothrow_t&) noexcept { vfalloc::dealloc(p); }

#endif
