// mon_c15 — C15: USINGZ builds compute the same geometry and account for every Z.
// The same source is compiled without and with USINGZ. For the same seed, case i has identical inputs in both
// builds (Z values and the callback choice come from a separate PRNG stream); each build logs
// {"t":"h","i":i,"h":hash(ordered x,y result)} and the orchestrator joins the two streams (vf/p_c15.py).
// In the USINGZ build the Z accounting is checked as well: inputs carry unique Z ids, the callback logs its
// arguments and issues fresh ids >= 10^12.
#include "region.h"
#include "gen.h"
#include "c05_open.h"
#include "clipper2/clipper.h"
#include <unordered_map>

using namespace vf;
using namespace Clipper2Lib;

static gen::GpCounters g_gc;
static const int64_t kCbBase = 1000000000000LL;

struct XY { int64_t x, y; bool operator==(const XY& o) const { return x == o.x && y == o.y; } };
struct XYH { size_t operator()(const XY& a) const { return (size_t)((uint64_t)a.x * 0x9E3779B97F4A7C15ull ^ (uint64_t)a.y * 0xC2B2AE3D27D4EB4Full); } };

#ifdef USINGZ
struct ZBook {
  std::unordered_map<int64_t, XY> input_at;         // input id -> location
  std::unordered_map<XY, std::vector<int64_t>, XYH> ids_at;   // location -> input ids given there
  std::unordered_map<int64_t, XY> issued;           // callback id -> point it was issued for
  int64_t next_in = 1, next_cb = kCbBase;
  long long cb_calls = 0;
  void label(Paths64& pp) { for (auto& p : pp) for (auto& pt : p) { pt.z = next_in++; input_at[pt.z] = XY{ pt.x, pt.y }; ids_at[XY{ pt.x, pt.y }].push_back(pt.z); } }
};
#endif

static uint64_t g_hash;
static void hmix(uint64_t v) { g_hash ^= v; g_hash *= 0x100000001b3ull; g_hash ^= g_hash >> 29; }
static void hpaths(const Paths64& pp) { hmix(pp.size() + 11); for (auto& p : pp) { hmix(p.size() + 5); for (auto& pt : p) { hmix((uint64_t)pt.x); hmix((uint64_t)pt.y); } } }
static void hpathsd(const PathsD& pp) { hmix(pp.size() + 13); for (auto& p : pp) { hmix(p.size() + 7); for (auto& pt : p) { uint64_t a, b; memcpy(&a, &pt.x, 8); memcpy(&b, &pt.y, 8); hmix(a); hmix(b); } } }
static void htree(const PolyPath64& t) { hmix(t.Count() + 17); hpaths(Paths64{ t.Polygon() }); for (auto& c : t) htree(*c); }

#ifdef USINGZ
// check z of every solution vertex of a boolean operation on general-position inputs
static bool check_z(Ctx& ctx, const Case& c, const Paths64& sol, const ZBook& zb, int cbmode, int64_t defz, const char* what) {
  for (auto& p : sol) for (auto& pt : p) {
    XY at{ pt.x, pt.y };
    auto in_here = zb.ids_at.find(at);
    if (cbmode == 1) {
      if (pt.z >= kCbBase) {
        auto it = zb.issued.find(pt.z);
        if (it == zb.issued.end()) { ctx.violation("C15.z_never_issued", { what, "cb_unique" }, c, "solution vertex carries callback id " + std::to_string(pt.z) + " that the callback never assigned"); return false; }
        if (!(it->second == at)) { ctx.violation("C15.z_issued_for_other_point", { what, "cb_unique" }, c, "vertex (" + std::to_string(pt.x) + "," + std::to_string(pt.y) + ") carries a callback id issued for (" + std::to_string(it->second.x) + "," + std::to_string(it->second.y) + ")"); return false; }
        ctx.count("z_vertices_from_callback");
      } else {
        bool ok = false;
        if (in_here != zb.ids_at.end()) for (int64_t id : in_here->second) if (id == pt.z) ok = true;
        std::string cls = "other_value";
        if (!ok && pt.z == 0 && in_here == zb.ids_at.end()) {
          // classifier: was the callback invoked at this very point (its id then went to another output vertex), or never?
          bool called_here = false; for (auto& e : zb.issued) if (e.second == at) { called_here = true; break; }
          cls = called_here ? "z0_new_vertex_twin_of_a_vertex_that_got_the_callback_id" : "z0_new_vertex_callback_never_called_here";
        }
        if (!ok) { ctx.violation("C15.z_unaccounted", { what, "cb_unique", in_here == zb.ids_at.end() ? "not_at_input_vertex" : "at_input_vertex_wrong_id", cls }, c,
          "vertex (" + std::to_string(pt.x) + "," + std::to_string(pt.y) + ") carries z=" + std::to_string(pt.z) + " which is neither a value given at that location nor assigned by the callback"); return false; }
        ctx.count("z_vertices_from_input");
      }
    } else if (cbmode == 0 || cbmode == 2) {
      // no callback: new vertices carry 0 (the default value of z). A callback that leaves z untouched sees the value
      // the library preset: DefaultZ at ordinary intersections, 0 at intersections repaired by DoSplitOp (found by
      // this monitor at seed 2); the property does not say which, so either is accepted and the latter is counted.
      if (in_here == zb.ids_at.end()) {
        bool ok = cbmode == 0 ? pt.z == 0 : (pt.z == defz || pt.z == 0);
        if (cbmode == 2 && pt.z == 0) ctx.count("z_passive_callback_vertices_with_0_instead_of_DefaultZ");
        if (!ok) { ctx.violation("C15.z_default", { what, cbmode == 0 ? "no_callback" : "passive_callback" }, c, "new vertex (" + std::to_string(pt.x) + "," + std::to_string(pt.y) + ") carries z=" + std::to_string(pt.z) + " expected " + (cbmode == 0 ? std::string("0") : std::string("DefaultZ or 0"))); return false; }
        ctx.count("z_new_vertices_default");
      }
    }
  }
  return true;
}
#endif

static void judge(Ctx& ctx, const Case& c, bool from_replay) {
  ctx.begin(c);
  g_hash = 0xcbf29ce484222325ull;
  const int fam = (int)c.geti("fam");
  Paths64 S = c.P("S"), C = c.P("C"), O = c.P("O");
  const int ct = (int)c.geti("ct"), fr = (int)c.geti("fr"); const bool pc = c.geti("pc") != 0, rev = c.geti("rev") != 0;
  Rng zr((uint64_t)c.geti("zseed"), 4242);
  const int cbmode = (int)c.geti("cbmode");      // 0 none, 1 unique-id logger, 2 passive (leaves z), 3 scribbler
  bool gp = c.geti("gp") != 0;
  // Z clause premise with open subjects: general position of the whole input, open paths included - every vertex and every
  // pairwise crossing (open x closed ones too) at least 3 units from every edge it does not lie on. (An open path that
  // crosses a sliver where two closed edges run less than 3 units apart is a near-triple point: excluded.)
  if (gp && !O.empty()) {
    Paths64 closed_in = concat(S, C);
    gp = c05::mixed_general_position(closed_in, O, std::max(max_abs_coord(closed_in), max_abs_coord(O)), nullptr, false);
    ctx.count(gp ? "z_premise_open_and_closed_in_general_position" : "z_premise_rejected_open_crossing_within_3_units_of_third_edge");
  }
  (void)zr; (void)cbmode; (void)gp;
#ifdef USINGZ
  ZBook zb; const int64_t defz = -777;
  if (cbmode == 3) { for (auto* pp : { &S, &C, &O }) for (auto& p : *pp) for (auto& pt : p) pt.z = (int64_t)zr.next(); }
  else { zb.label(S); zb.label(C); zb.label(O); }
  auto cb64 = [&](const Point64&, const Point64&, const Point64&, const Point64&, Point64& pt) {
    ++zb.cb_calls;
    if (cbmode == 1) { pt.z = zb.next_cb++; zb.issued[pt.z] = XY{ pt.x, pt.y }; }
    else if (cbmode == 3) pt.z = (int64_t)zr.next();
  };
#endif
  ctx.evaluated();
  ctx.count("fam_" + std::to_string(fam));
  switch (fam) {
    case 0: case 1: case 5: {   // Clipper64 paths / tree
      Clipper64 cl; cl.PreserveCollinear(pc); cl.ReverseSolution(rev);
#ifdef USINGZ
      if (cbmode) cl.SetZCallback(cb64);
      cl.DefaultZ = defz;
#endif
      cl.AddSubject(S); cl.AddOpenSubject(O); cl.AddClip(C);
      Paths64 sol, solo; bool ok = cl.Execute((ClipType)ct, (FillRule)fr, sol, solo);
      hmix(ok); hpaths(sol); hpaths(solo);
      PolyTree64 t; Paths64 so2; ok = cl.Execute((ClipType)ct, (FillRule)fr, t, so2); hmix(ok); htree(t); hpaths(so2);
#ifdef USINGZ
      if (gp && fam != 5) { if (!check_z(ctx, c, sol, zb, cbmode, defz, "closed")) return; if (!check_z(ctx, c, solo, zb, cbmode, defz, "open")) return; ctx.count("z_accounting_cases"); }
#endif
      break; }
    case 2: {   // ClipperD, precision 2, coordinates / 4
      auto td = [&](const Paths64& pp) { PathsD r; for (auto& p : pp) { PathD q; for (auto& pt : p) { PointD d((double)pt.x / 4.0, (double)pt.y / 4.0);
#ifdef USINGZ
        d.z = pt.z;
#endif
        q.push_back(d); } r.push_back(q); } return r; };
      ClipperD cl(2); cl.PreserveCollinear(pc); cl.ReverseSolution(rev);
#ifdef USINGZ
      std::unordered_map<int64_t, std::pair<double, double>> issuedD;
      auto cbD = [&](const PointD&, const PointD&, const PointD&, const PointD&, PointD& pt) { ++zb.cb_calls; if (cbmode == 1) { pt.z = zb.next_cb++; issuedD[pt.z] = { pt.x, pt.y }; } else if (cbmode == 3) pt.z = (int64_t)zr.next(); };
      if (cbmode) cl.SetZCallback(cbD);
      cl.DefaultZ = defz;
#endif
      cl.AddSubject(td(S)); cl.AddOpenSubject(td(O)); cl.AddClip(td(C));
      PathsD sol, solo; bool ok = cl.Execute((ClipType)ct, (FillRule)fr, sol, solo); hmix(ok); hpathsd(sol); hpathsd(solo);
#ifdef USINGZ
      if (gp && cbmode == 1) {
        for (auto* pp : { &sol, &solo }) for (auto& p : *pp) for (auto& pt : p) {
          if (pt.z >= kCbBase) { auto it = issuedD.find(pt.z);
            if (it == issuedD.end()) { ctx.violation("C15.z_never_issued", { "clipperd", "cb_unique" }, c, "ClipperD solution vertex carries an id the callback never assigned"); return; }
            if (it->second.first != pt.x || it->second.second != pt.y) { ctx.violation("C15.z_issued_for_other_point", { "clipperd", "cb_unique" }, c, "ClipperD vertex carries a callback id issued for another point"); return; }
            ctx.count("z_vertices_from_callback");
          } else { auto it = zb.input_at.find(pt.z);
            if (it == zb.input_at.end() || (double)it->second.x / 4.0 != pt.x || (double)it->second.y / 4.0 != pt.y) { ctx.violation("C15.z_unaccounted", { "clipperd", "cb_unique" }, c, "ClipperD vertex carries z=" + std::to_string(pt.z) + " that was neither given at that location nor assigned by the callback"); return; }
            ctx.count("z_vertices_from_input"); }
        }
        ctx.count("z_accounting_cases");
      }
#endif
      break; }
    case 3: {   // offsetting
      ClipperOffset co(c.getd("miter", 2.0), c.getd("arc", 0.0), pc, rev);
#ifdef USINGZ
      if (cbmode) co.SetZCallback(cb64);
#endif
      co.AddPaths(S, (JoinType)c.geti("jt"), EndType::Polygon);
      if (!O.empty()) co.AddPaths(O, (JoinType)c.geti("jt"), (EndType)c.geti("et"));
      Paths64 sol; co.Execute(c.getd("delta"), sol); hpaths(sol);
      PolyTree64 t; co.Execute(-c.getd("delta"), t); htree(t);
#ifdef USINGZ
      if (cbmode == 1) {   // every z is an input id, a callback id issued for that very point, or 0
        for (auto& p : sol) for (auto& pt : p) {
          if (pt.z >= kCbBase) { auto it = zb.issued.find(pt.z); if (it == zb.issued.end() || !(it->second == XY{ pt.x, pt.y })) { ctx.violation("C15.z_never_issued", { "offset", "cb_unique" }, c, "offset solution vertex carries a callback id that was not issued for it"); return; } }
          else if (pt.z != 0 && !zb.input_at.count(pt.z)) { ctx.violation("C15.z_unaccounted", { "offset", "cb_unique" }, c, "offset solution vertex carries z=" + std::to_string(pt.z) + " which is no input id"); return; }
        }
        ctx.count("z_accounting_cases_offset");
      }
#endif
      break; }
    case 6: {   // rounding ties: double -> integer conversions of exact half-integers (Point<T>::Init) must agree in both builds
      const int sub = (int)c.geti("sub"); const double q = c.getd("quantum", 0.5);
      auto td = [&](const Paths64& pp) { PathsD r; for (auto& p : pp) { PathD qd; for (auto& pt : p) { PointD d((double)pt.x * q, (double)pt.y * q);
#ifdef USINGZ
        d.z = pt.z;
#endif
        qd.push_back(d); } r.push_back(qd); } return r; };
      if (sub == 0) { ClipperOffset co(c.getd("miter", 2.0), 0.0, pc, rev); co.AddPaths(S, (JoinType)c.geti("jt"), EndType::Polygon); if (!O.empty()) co.AddPaths(O, (JoinType)c.geti("jt"), (EndType)c.geti("et"));
        Paths64 sol; co.Execute(c.getd("delta"), sol); hpaths(sol); }
      else if (sub == 1) { ClipperD cl(0); cl.PreserveCollinear(pc); cl.ReverseSolution(rev); cl.AddSubject(td(S)); cl.AddClip(td(C)); cl.AddOpenSubject(td(O));
        PathsD sol, solo; cl.Execute((ClipType)ct, (FillRule)fr, sol, solo); hpathsd(sol); hpathsd(solo); }
      else if (sub == 2) { hpathsd(InflatePaths(td(S), c.getd("delta"), (JoinType)c.geti("jt"), EndType::Polygon, c.getd("miter", 2.0), 0, 0.0)); }
      else { const Path64 rp = c.P("rect")[0]; RectD rect((double)rp[0].x * q, (double)rp[0].y * q, (double)rp[1].x * q, (double)rp[1].y * q);
        hpathsd(RectClip(rect, td(S), 0)); hpathsd(RectClipLines(rect, td(O), 0)); }
      ctx.count("tie_cases_sub" + std::to_string(sub));
      break; }
    default: {  // 4: rectangle clipping
      const Path64 rp = c.P("rect")[0]; Rect64 rect(rp[0].x, rp[0].y, rp[1].x, rp[1].y);
      hpaths(RectClip(rect, S)); hpaths(RectClipLines(rect, O)); hpaths(RectClip(rect, C));
      break; }
  }
#ifdef USINGZ
  ctx.count("callback_calls", zb.cb_calls);
  ctx.count("cbmode_" + std::to_string(cbmode));
#endif
  if (ctx.log) { fprintf(ctx.log, "{\"t\":\"h\",\"i\":%" PRIu64 ",\"h\":\"%016" PRIx64 "\"}\n", ctx.cur_index, g_hash); }
  if (!from_replay) ctx.note_case(c, !S.empty());
}

void vf_case(Ctx& ctx, uint64_t i) {
  Rng& r = ctx.rng; Case c; int fam = (int)(i % 7); c.seti("fam", fam);
  c.seti("ct", r.irange(1, 4)); c.seti("fr", r.irange(0, 3)); c.seti("pc", r.coin()); c.seti("rev", r.coin());
  c.seti("cbmode", r.irange(0, 3)); c.seti("zseed", (long long)(r.next() >> 2)); c.seti("gp", 0);
  if (fam <= 2) {
    static const int mags[] = { 7, 10, 20, 30, 40, 52 };
    gen::Scene sc;
    // a third of the Clipper64 cases: dense-scanline flat scenes with one crossing a hair past a scanline (the sweep's
    // intersection-repair branches build the new vertex from other points there - where a Z can leak from)
    if (fam <= 1 && r.chance(0.35) && gen::flat_scene(r, g_gc, sc)) { ++g_gc.flat; gen::g_nudge_attempts = 200; if (gen::nudge_crossing_past_scanline(r, sc)) { ++g_gc.tie; if (r.coin()) c.seti("cbmode", 0); } gen::g_nudge_attempts = 48; }
    else sc = gen::gp_scene(r, g_gc, fam == 2 ? std::min(mags[r.irange(0, 5)], 40) : mags[r.irange(0, 5)]);
    if (!sc.ok) { ctx.count("gp_gave_up"); return; }
    c.p64["S"] = sc.subj; c.p64["C"] = sc.clip; c.seti("gp", 1);
    if (fam >= 1) {   // open subjects in general position w.r.t. the closed paths: simple rejection on vertex distance
      int64_t x0 = 0, y0 = 0, x1 = 0, y1 = 0; bool any = false; Paths64 all = concat(sc.subj, sc.clip); bounds(all, x0, y0, x1, y1, any);
      Paths64 O;
      for (int t = 0; t < 20 && O.size() < 1; ++t) { Path64 p; int n = r.irange(2, 4); for (int k = 0; k < n; ++k) p.push_back(Point64(r.range(x0, x1), r.range(y0, y1)));
        Paths64 trial = all; Path64 closed = p; for (int k = (int)p.size() - 2; k >= 1; --k) closed.push_back(p[(size_t)k]);   // out-and-back: same edges, so the filter applies
        bool ok = true; for (auto& pt : p) if (min_dist_to_edges(all, pt) < tol_of(sc.M) + 4) ok = false;
        for (auto& cp : all) for (auto& pt : cp) if (min_dist_to_edges(Paths64{ p }, pt, false) < tol_of(sc.M) + 4) ok = false;
        if (ok) O.push_back(p); }
      c.p64["O"] = O;
      if (fam == 1 && O.empty()) c.seti("gp", 1);
      // (the judge re-checks general position of open and closed paths together before the Z clause is applied)
    }
  } else if (fam == 3) {
    int64_t R = (int64_t)1 << r.irange(6, 30);
    Paths64 S; int n = r.irange(1, 3);
    for (int k = 0; k < n; ++k) S.push_back(gen::star_shaped(r, k * 3 * R, 0, (double)R, r.irange(3, 12), 0.5, 1.0, true));
    if (r.coin()) S.push_back(gen::star_shaped(r, 0, 0, (double)R * 0.3, r.irange(3, 8), 0.6, 1.0, false));   // a hole
    c.p64["S"] = S; if (r.coin()) c.p64["O"] = Paths64{ gen::polyline(r, 0, 4 * R, R, r.irange(1, 6)) };
    c.seti("jt", r.irange(0, 3)); c.seti("et", r.irange(1, 4)); c.setd("delta", (double)R * r.real(0.02, 0.4)); c.setd("miter", r.pick(std::vector<double>{ 1.0, 2.0, 4.0 })); c.setd("arc", r.coin() ? 0.0 : (double)R * 0.01);
  } else if (fam == 4) {
    int64_t s = (int64_t)1 << r.irange(0, 30); int G = 10;
    auto lp = [&](int n) { Path64 p; for (int k = 0; k < n; ++k) p.push_back(Point64(r.range(0, G) * s, r.range(0, G) * s)); return p; };
    c.p64["S"] = Paths64{ lp(r.irange(3, 12)), lp(r.irange(3, 8)) }; c.p64["C"] = Paths64{ gen::random_poly(r, 5 * s, 5 * s, 7 * s, r.irange(3, 10)) }; c.p64["O"] = Paths64{ lp(r.irange(2, 8)) };
    int64_t a = r.range(0, G - 1), b = r.range(0, G - 1); c.p64["rect"] = Paths64{ Path64{ Point64(a * s, b * s), Point64(r.range(a + 1, G) * s, r.range(b + 1, G) * s) } };
  } else if (fam == 6) {
    // lattice (mostly axis-parallel) shapes in integer units; quantum 0.5 or 0.25 turns them into exact half / quarter
    // units, half-integer deltas put mitered offsets exactly on .5 before rounding
    int sub = r.irange(0, 3); c.seti("sub", sub);
    int G = 12; auto lat = [&](int n) { Path64 p; for (int k = 0; k < n; ++k) p.push_back(Point64(r.range(-G, G), r.range(-G, G))); return p; };
    Paths64 S; int n = r.irange(1, 3); for (int k = 0; k < n; ++k) { if (r.coin()) { int64_t a = r.range(-G, G - 1), b = r.range(-G, G - 1); S.push_back(gen::box(a, b, r.range(a + 1, G), r.range(b + 1, G), true)); } else S.push_back(lat(r.irange(3, 7))); }
    c.p64["S"] = S; c.p64["C"] = Paths64{ lat(r.irange(3, 6)) }; c.p64["O"] = Paths64{ lat(r.irange(2, 5)) };
    c.seti("jt", r.irange(0, 3)); c.seti("et", r.irange(1, 4)); c.setd("miter", r.pick(std::vector<double>{ 1.0, 2.0, 4.0 }));
    c.setd("delta", (double)r.irange(-6, 6) + 0.5); c.setd("quantum", sub == 1 ? 0.25 : 0.5);
    int64_t a = r.range(-G, G - 1), b = r.range(-G, G - 1); c.p64["rect"] = Paths64{ Path64{ Point64(a, b), Point64(r.range(a + 1, G), r.range(b + 1, G)) } };
    if (sub == 0) for (auto* k : { "S", "O" }) for (auto& p : c.p64[k]) for (auto& pt : p) { pt.x *= 3; pt.y *= 3; }
  } else {
    int64_t R = (int64_t)1 << r.irange(3, 40);
    c.p64["S"] = gen::zoo_paths(r, R, 4); c.p64["C"] = gen::zoo_paths(r, R, 4); c.p64["O"] = r.coin() ? gen::zoo_paths(r, R, 2) : Paths64();
  }
  judge(ctx, c, false);
}
void vf_replay(Ctx& ctx, const Case& c) { judge(ctx, c, true); }
void vf_end(Ctx& ctx) { ctx.count("gp_candidates_rejected", g_gc.rejected); ctx.count("gp_flat_dense_scanline_scenes", g_gc.flat); ctx.count("gp_scenes_with_crossing_a_hair_past_a_scanline", g_gc.tie); ctx.count("gp_scenes_with_a_corner_whose_cross_product_is_an_exact_power_of_two", g_gc.wrap); }
