// mon_c09 — C09: RectClipLines returns exactly the parts of each polyline inside the rectangle.
// Oracle: Liang–Barsky on every input segment with exact rational parameters (128-bit comparisons), lengths in
// long double; containment, order/direction (monotone arc-length parameters) and total length (DESIGN.md section 3, C09).
#include "geom.h"
#include "gen.h"
#include "c08_corner.h"
#include "clipper2/clipper.h"

using namespace vf;
using namespace Clipper2Lib;

namespace {

struct RB { int64_t l, t, r, b; };
inline bool on_boundary(const RB& R, const Point64& p) {
  return p.x >= R.l && p.x <= R.r && p.y >= R.t && p.y <= R.b && (p.x == R.l || p.x == R.r || p.y == R.t || p.y == R.b);
}

struct Rat { i128 n; i128 d; };   // d > 0
inline bool rless(const Rat& a, const Rat& b) { return a.n * b.d < b.n * a.d; }
inline ld rval(const Rat& a) { return to_ld(a.n) / to_ld(a.d); }

struct Clip { bool nonempty; Rat t0, t1; bool cut0, cut1; bool along; };

// exact Liang–Barsky of segment a->b against the closed rectangle
static Clip liang_barsky(const Point64& a, const Point64& b, const RB& R) {
  Clip c; c.nonempty = true; c.t0 = Rat{ 0, 1 }; c.t1 = Rat{ 1, 1 }; c.cut0 = c.cut1 = false;
  const i128 dx = (i128)b.x - a.x, dy = (i128)b.y - a.y;
  c.along = (dx == 0 && dy != 0 && (a.x == R.l || a.x == R.r)) || (dy == 0 && dx != 0 && (a.y == R.t || a.y == R.b));
  const i128 p[4] = { -dx, dx, -dy, dy };
  const i128 q[4] = { (i128)a.x - R.l, (i128)R.r - a.x, (i128)a.y - R.t, (i128)R.b - a.y };
  for (int k = 0; k < 4; ++k) {
    if (p[k] == 0) { if (q[k] < 0) { c.nonempty = false; return c; } continue; }
    // constraint p*t <= q
    if (p[k] < 0) { Rat t{ -q[k], -p[k] };   // t >= q/p  (both negated so that d > 0)
      if (rless(c.t0, t)) { c.t0 = t; c.cut0 = true; } }
    else { Rat t{ q[k], p[k] };
      if (rless(t, c.t1)) { c.t1 = t; c.cut1 = true; } }
  }
  if (rless(c.t1, c.t0)) c.nonempty = false;
  return c;
}

struct Expect { ld L_open = 0, L_closed = 0, L_total = 0; long long cuts = 0, bverts = 0, segs_inside = 0, segs_along = 0; };

static Expect expect_of(const Path64& P, const RB& R) {
  Expect e;
  for (auto& v : P) if (on_boundary(R, v)) ++e.bverts;
  for (size_t k = 0; k + 1 < P.size(); ++k) {
    const Point64& a = P[k]; const Point64& b = P[k + 1];
    ld len = sqrtl(to_ld(dist2(a, b)));
    e.L_total += len;
    Clip c = liang_barsky(a, b, R);
    if (!c.nonempty) continue;
    e.cuts += (c.cut0 ? 1 : 0) + (c.cut1 ? 1 : 0);
    ld part = len * (rval(c.t1) - rval(c.t0));
    if (part < 0) part = 0;
    e.L_closed += part;
    if (c.along) ++e.segs_along; else { e.L_open += part; if (part > 0) ++e.segs_inside; }
  }
  return e;
}

// ---- arc-length parameter intervals (doubled coordinates so that edge midpoints are integral)
// Feasible parameters of point v2 (doubled coords) on segment k of P: { k + t : |P_k(t) - v| <= r } as [lo, hi].
static bool feasible_on_seg(const Point64& a, const Point64& b, const Point64& v2, ld r2, ld& lo, ld& hi) {
  ld ax = 2.0L * (ld)a.x, ay = 2.0L * (ld)a.y, bx = 2.0L * (ld)b.x, by = 2.0L * (ld)b.y;
  ld dx = bx - ax, dy = by - ay, px = (ld)v2.x - ax, py = (ld)v2.y - ay;
  ld d2 = dx * dx + dy * dy;
  if (d2 == 0) { if (px * px + py * py <= r2 * r2) { lo = 0; hi = 1; return true; } return false; }
  ld len = sqrtl(d2);
  ld perp = fabsl(px * dy - py * dx) / len;
  if (perp > r2) return false;
  ld t0 = (px * dx + py * dy) / d2;
  ld hc = sqrtl(std::max<ld>(0, r2 * r2 - perp * perp)) / len;
  lo = std::max<ld>(0, t0 - hc); hi = std::min<ld>(1, t0 + hc);
  return lo <= hi;
}

// exact-product distance from doubled point v2 to the doubled polyline (set of polylines)
static ld dist2x_to_lines(const Paths64& PP, const Point64& v2) {
  ld best = std::numeric_limits<ld>::infinity();
  for (auto& P : PP) {
    if (P.empty()) continue;
    if (P.size() == 1) { best = std::min(best, sqrtl(to_ld(dist2(Point64(2 * P[0].x, 2 * P[0].y), v2)))); continue; }
    for (size_t k = 0; k + 1 < P.size(); ++k)
      best = std::min(best, dist_pt_seg(Point64(2 * P[k].x, 2 * P[k].y), Point64(2 * P[k + 1].x, 2 * P[k + 1].y), v2));
  }
  return best;
}

static std::string pstr(const Point64& p) { return "(" + std::to_string(p.x) + "," + std::to_string(p.y) + ")"; }

// Judge `res` = RectClipLines(rect, PP) against the polylines PP (in this order); strict_cuts = Liang-Barsky cut points.
static bool judge_call(Ctx& ctx, const Case& c, const RB& R, const Paths64& PP, const Paths64& res, const std::string& what,
                       long long& strict_cuts) {
  const std::string multi = PP.size() > 1 ? "multi" : "single";
  // ---- expected lengths
  Expect tot;
  for (auto& P : PP) { Expect e = expect_of(P, R); tot.L_open += e.L_open; tot.L_closed += e.L_closed; tot.L_total += e.L_total;
    tot.cuts += e.cuts; tot.bverts += e.bverts; tot.segs_inside += e.segs_inside; tot.segs_along += e.segs_along; }
  strict_cuts = tot.cuts;
  const long long cross = tot.cuts + tot.bverts;   // boundary crossings: cut points plus input vertices lying on the boundary

  // ---- containment: vertices and edge midpoints within 1.5 of the input; vertices at most 1 outside the rectangle
  long long pts = 0;
  for (int pass = 0; pass < 2; ++pass)        // all vertices first, then the midpoints
    for (auto& piece : res) for (size_t i = 0; i + (size_t)pass < piece.size(); ++i) {
      const Point64& v = piece[i];
      Point64 probe = pass == 0 ? Point64(2 * v.x, 2 * v.y) : Point64(v.x + piece[i + 1].x, v.y + piece[i + 1].y);
      ++pts;
      ld d = dist2x_to_lines(PP, probe) * 0.5L;
      if (d > 1.5L + 1e-6L) {
        std::vector<std::string> tags = { pass == 0 ? "vertex_off_input" : "midpoint_off_input", multi };
        // classifier of the known defect: the vertex is exactly the origin (a default-constructed Point64) and some input
        // segment passes within one unit of a rectangle corner, not through it, reaching >= 2^26 away (c08_corner.h)
        if (pass == 0 && v.x == 0 && v.y == 0) {
          bool graze = false;
          for (auto& P : PP) if (c08::passes_near_corner(P, false, c08::RBox{ R.l, R.t, R.r, R.b })) graze = true;
          if (graze) tags = { "origin_vertex_from_corner_graze", multi };
        }
        ctx.violation("C09.on_input", tags, c,
          what + (pass == 0 ? "result vertex " : "midpoint of the result edge starting at ") + pstr(v) + " is " + ldstr(d) + " from the input polyline(s)");
        return true;
      }
      if (pass == 0) {
        int64_t ex = std::max<int64_t>(std::max(R.l - v.x, v.x - R.r), 0), ey = std::max<int64_t>(std::max(R.t - v.y, v.y - R.b), 0);
        if (ex > 1 || ey > 1) {
          ctx.violation("C09.inside_rect", { "vertex_outside_rect", multi }, c, what + "result vertex " + pstr(v) + " is " + std::to_string(std::max(ex, ey)) + " units outside the rectangle");
          return true;
        }
      }
    }
  ctx.count("result_points_checked", pts);

  // ---- order and direction: greedy monotone assignment of arc-length parameters over the concatenated inputs.
  // Global parameter = (segment ordinal over all polylines) + t; each vertex and each edge midpoint of each piece, in
  // output order, must admit a parameter >= the previous one with distance <= 1.5 (+margin) to the input there.
  {
    struct Seg { Point64 a, b; };
    std::vector<Seg> segs;
    for (auto& P : PP) {
      if (P.size() == 1) segs.push_back(Seg{ P[0], P[0] });
      for (size_t k = 0; k + 1 < P.size(); ++k) segs.push_back(Seg{ P[k], P[k + 1] });
      // a virtual break between polylines is not needed: parameters only have to be non-decreasing
    }
    const ld r2 = 2.0L * 1.5L + 0.02L;   // doubled radius + margin
    ld cur = 0;
    size_t kcur = 0;
    long long mapped = 0;
    for (size_t pi = 0; pi < res.size(); ++pi) {
      const Path64& piece = res[pi];
      for (size_t i = 0; i < piece.size(); ++i) {
        for (int half = 0; half < 2; ++half) {
          Point64 q2;
          if (half == 0) q2 = Point64(2 * piece[i].x, 2 * piece[i].y);
          else { if (i + 1 >= piece.size()) break; q2 = Point64(piece[i].x + piece[i + 1].x, piece[i].y + piece[i + 1].y); }
          bool found = false;
          for (size_t k = kcur; k < segs.size(); ++k) {
            ld lo, hi;
            if (!feasible_on_seg(segs[k].a, segs[k].b, q2, r2, lo, hi)) continue;
            ld glo = (ld)k + lo, ghi = (ld)k + hi;
            if (ghi + 1e-9L < cur) continue;
            cur = std::max(cur, glo); kcur = k; found = true; break;
          }
          ++mapped;
          if (!found) {
            ctx.violation("C09.order_direction", { half == 0 ? "vertex_out_of_order" : "midpoint_out_of_order", multi }, c,
              what + "piece #" + std::to_string(pi) + (half == 0 ? " vertex " : " midpoint after vertex ") + std::to_string(i) + " " + pstr(piece[i]) +
              " cannot be matched to the input at or after arc parameter " + ldstr(cur) + " (pieces out of input order or direction)");
            return true;
          }
        }
      }
    }
    ctx.count("order_points_mapped", mapped);
  }

  // ---- total length
  ld L = 0;
  for (auto& piece : res) for (size_t i = 0; i + 1 < piece.size(); ++i) L += sqrtl(to_ld(dist2(piece[i], piece[i + 1])));
  const ld slack = 2.0L * (ld)cross + 0.01L + ldexpl(tot.L_total, -50);
  ctx.count("length_checked");
  if (L < tot.L_open - slack || L > tot.L_closed + slack) {
    bool shorter = L < tot.L_open - slack;
    ctx.violation("C09.length", { shorter ? "too_short" : "too_long", multi }, c,
      what + "total result length " + ldstr(L) + " outside [" + ldstr(tot.L_open) + " - " + ldstr(slack) + ", " + ldstr(tot.L_closed) + " + " + ldstr(slack) + "] (" +
      std::to_string(cross) + " crossings, " + std::to_string(res.size()) + " pieces)");
    return true;
  }
  if (tot.L_closed > tot.L_open) ctx.count("calls_with_segments_along_a_side");
  if (tot.L_closed > 0 && slack * 4 < tot.L_closed) ctx.count("length_checks_with_slack_below_quarter_of_length");
  return false;
}

static void judge(Ctx& ctx, const Case& c, bool from_replay) {
  const Paths64& RR = c.P("R"); const Paths64& PP = c.P("L");
  if (RR.size() != 1 || RR[0].size() != 2 || PP.empty()) return;
  RB R{ RR[0][0].x, RR[0][0].y, RR[0][1].x, RR[0][1].y };
  if (R.l >= R.r || R.t >= R.b) return;
  for (auto& P : PP) if (P.empty()) return;
  Rect64 rect(R.l, R.t, R.r, R.b);
  ctx.begin(c);

  long long cuts_total = 0;
  Paths64 cat;
  for (size_t i = 0; i < PP.size(); ++i) {
    Paths64 res = (i & 1) ? RectClipLines(rect, PP[i]) : RectClipLines(rect, Paths64{ PP[i] });
    ctx.evaluated();
    ctx.count("polylines_judged");
    ctx.count("pieces", (long long)res.size());
    long long cuts = 0;
    if (judge_call(ctx, c, R, Paths64{ PP[i] }, res, "polyline #" + std::to_string(i) + " alone: ", cuts)) return;
    cuts_total += cuts;
    if (cuts > 0) ctx.count("polylines_crossing_the_boundary");
    cat.insert(cat.end(), res.begin(), res.end());
  }
  if (PP.size() > 1) {
    Paths64 multi = RectClipLines(rect, PP);
    ctx.evaluated();
    ctx.count("multi_polyline_calls");
    long long cuts = 0;
    if (judge_call(ctx, c, R, PP, multi, "all " + std::to_string(PP.size()) + " polylines in one call: ", cuts)) return;
    if (!same_paths(multi, cat)) ctx.count("multi_call_differs_from_concatenation(both_valid,not_a_violation)");
  }
  if (!from_replay) ctx.note_case(c, cuts_total > 0);
}

// ------------------------------------------------------------------ generators
static const int64_t kLim = (int64_t)1 << 40;
static const int64_t kLatScales[] = { 1, 2, 3, 10, 1000, (int64_t)1 << 20, (int64_t)1 << 30, (int64_t)1 << 36 };
static const int kMag[] = { 6, 8, 10, 16, 24, 32, 38, 40 };

static bool gen_lattice(Ctx& ctx, Case& c) {
  Rng& r = ctx.rng;
  int G = r.irange(3, 10);
  int64_t s = kLatScales[r.irange(0, 7)];
  int64_t room = kLim - s * (G + 1);
  int64_t span = std::min<int64_t>(room, s * 1000);
  int64_t ox = r.chance(0.4) ? 0 : r.range(-span, span - s * G), oy = r.chance(0.4) ? 0 : r.range(-span, span - s * G);
  int64_t x0 = r.range(0, G - 1), x1 = r.range(x0 + 1, G), y0 = r.range(0, G - 1), y1 = r.range(y0 + 1, G);
  if (r.chance(0.6) && G >= 4) { x0 = r.range(1, G - 2); x1 = r.range(x0 + 1, G - 1); y0 = r.range(1, G - 2); y1 = r.range(y0 + 1, G - 1); }
  auto rndpt = [&]() { return Point64(r.range(0, G), r.range(0, G)); };
  auto bndpt = [&]() {
    if (r.chance(0.35)) return Point64(r.coin() ? x0 : x1, r.coin() ? y0 : y1);
    if (r.coin()) return Point64(r.range(x0, x1), r.coin() ? y0 : y1);
    return Point64(r.coin() ? x0 : x1, r.range(y0, y1));
  };
  int k = r.chance(0.5) ? 1 : r.irange(2, 4);
  Paths64 PP;
  for (int i = 0; i < k; ++i) {
    Path64 P;
    int kind = r.irange(0, 4);
    switch (kind) {
      case 0: { int n = r.irange(2, 12); for (int j = 0; j < n; ++j) P.push_back(rndpt()); break; }
      case 1: { int n = r.irange(2, 10); for (int j = 0; j < n; ++j) P.push_back(r.chance(0.5) ? bndpt() : rndpt()); break; }
      case 2: { // axis-parallel walk: collinear with sides common
        int n = r.irange(2, 10); Point64 q = r.coin() ? bndpt() : rndpt(); P.push_back(q); bool hz = r.coin();
        for (int j = 1; j < n; ++j) { if (hz) q.x = r.range(0, G); else q.y = r.range(0, G); P.push_back(q); hz = !hz; } break; }
      case 3: { // long segments crossing completely
        int n = r.irange(2, 6);
        for (int j = 0; j < n; ++j) { Point64 q = rndpt(); switch (r.irange(0, 3)) { case 0: q.x = 0; break; case 1: q.x = G; break; case 2: q.y = 0; break; default: q.y = G; break; } P.push_back(q); }
        break; }
      default: { int n = r.irange(1, 3); for (int j = 0; j < n; ++j) P.push_back(r.chance(0.4) ? bndpt() : rndpt()); break; }
    }
    if (r.chance(0.1) && !P.empty()) P.insert(P.begin() + r.irange(0, (int)P.size() - 1), P[(size_t)r.irange(0, (int)P.size() - 1)]);
    ctx.count("gen_lattice_kind_" + std::to_string(kind));
    for (auto& q : P) { q.x = ox + q.x * s; q.y = oy + q.y * s; }
    PP.push_back(P);
  }
  c.p64["L"] = PP;
  c.p64["R"] = Paths64{ Path64{ Point64(ox + x0 * s, oy + y0 * s), Point64(ox + x1 * s, oy + y1 * s) } };
  c.set("class", "lattice");
  ctx.count("scale_lattice_" + std::to_string(s));
  return true;
}

static bool gen_random(Ctx& ctx, Case& c) {
  Rng& r = ctx.rng;
  int e = kMag[r.irange(0, 7)];
  const int64_t M = (int64_t)1 << e;
  int64_t hw = std::max<int64_t>(1, (int64_t)(M * r.real(0.02, 0.3))), hh = std::max<int64_t>(1, (int64_t)(M * r.real(0.02, 0.3)));
  if (r.chance(0.2)) hh = std::max<int64_t>(1, hw / r.irange(4, 40));
  int64_t cx = r.range(-M / 8, M / 8), cy = r.range(-M / 8, M / 8);
  if (r.chance(0.3)) {                                       // rectangle far from the origin (absolute coordinates >> its size)
    hw = std::max<int64_t>(1, hw >> r.irange(0, 12)); hh = std::max<int64_t>(1, hh >> r.irange(0, 12));
    cx = r.coin() ? r.range(-(M - hw - 1), M - hw - 1) : (r.coin() ? 1 : -1) * (M - hw - 1 - r.range(0, M / 64));
    cy = r.coin() ? r.range(-(M - hh - 1), M - hh - 1) : (r.coin() ? 1 : -1) * (M - hh - 1 - r.range(0, M / 64));
    ctx.count("gen_random_rect_far_from_origin");
  }
  RB R{ cx - hw, cy - hh, cx + hw, cy + hh };
  auto clampM = [&](int64_t v) { return std::min(std::max(v, -M), M); };
  auto anyp = [&]() { int64_t Rr = (int64_t)(std::max(hw, hh) * r.real(0.5, 2.5)) + 2; return Point64(clampM(cx + r.range(-Rr, Rr)), clampM(cy + r.range(-Rr, Rr))); };
  auto inp = [&]() { return Point64(r.range(R.l, R.r), r.range(R.t, R.b)); };
  auto bnd = [&]() {
    if (r.chance(0.3)) return Point64(r.coin() ? R.l : R.r, r.coin() ? R.t : R.b);
    if (r.coin()) return Point64(r.range(R.l, R.r), r.coin() ? R.t : R.b);
    return Point64(r.coin() ? R.l : R.r, r.range(R.t, R.b));
  };
  int k = r.chance(0.5) ? 1 : r.irange(2, 4);
  Paths64 PP;
  for (int i = 0; i < k; ++i) {
    Path64 P;
    int kind = r.irange(0, 6);
    switch (kind) {
      case 0: { int n = r.irange(2, 12); for (int j = 0; j < n; ++j) P.push_back(anyp()); break; }
      case 1: { int n = r.irange(2, 10); for (int j = 0; j < n; ++j) P.push_back(r.chance(0.35) ? bnd() : (r.coin() ? inp() : anyp())); break; }
      case 2: { // far points: segments crossing the rectangle completely
        int n = r.irange(2, 8);
        for (int j = 0; j < n; ++j) { double a = r.real(0, 6.2831853), rad = std::min<double>((double)M * 0.8, 3.0 * std::max(hw, hh)) * r.real(0.6, 1.0);
          P.push_back(Point64(clampM(cx + (int64_t)(rad * cos(a))), clampM(cy + (int64_t)(rad * sin(a))))); }
        break; }
      case 3: { // grazing corners: segments through a corner that do not enter the interior, and through a corner into it
        int n = r.irange(1, 4);
        for (int j = 0; j < n; ++j) {
          bool rightc = r.coin(), bottomc = r.coin();
          Point64 cn(rightc ? R.r : R.l, bottomc ? R.b : R.t);
          int64_t dx = r.range(1, std::max<int64_t>(1, hw)), dy = r.range(1, std::max<int64_t>(1, hh));
          // outward tangential direction: sign chosen so that both rays leave the rectangle
          int64_t sx = rightc ? 1 : -1, sy = bottomc ? -1 : 1;   // (sx*dx, sy*dy): along one ray x leaves, along the other y leaves
          if (r.chance(0.3)) sy = -sy;                           // 30%: the line passes through the corner into the interior
          int64_t m1 = r.range(1, 3), m2 = r.range(1, 3);
          P.push_back(Point64(clampM(cn.x + sx * dx * m1), clampM(cn.y + sy * dy * m1)));
          if (r.chance(0.3)) P.push_back(cn);
          P.push_back(Point64(clampM(cn.x - sx * dx * m2), clampM(cn.y - sy * dy * m2)));
        }
        break; }
      case 4: { // axis-parallel runs on or next to the sides' lines
        int n = r.irange(2, 8); Point64 q = r.coin() ? bnd() : anyp(); P.push_back(q); bool hz = r.coin();
        for (int j = 1; j < n; ++j) {
          if (hz) q.x = r.chance(0.3) ? (r.coin() ? R.l : R.r) : anyp().x; else q.y = r.chance(0.3) ? (r.coin() ? R.t : R.b) : anyp().y;
          P.push_back(q); hz = !hz; }
        break; }
      case 6: { // shallow crossings: long segments nearly parallel to a side that cross that side's line (run : rise up to 2^32 : 1)
        int n = r.irange(1, 3);
        for (int j = 0; j < n; ++j) {
          bool horz_side = r.coin();                               // the side crossed is a horizontal one (top/bottom)
          int64_t side = horz_side ? (r.coin() ? R.t : R.b) : (r.coin() ? R.l : R.r);
          int64_t lo = horz_side ? R.l : R.t, hi = horz_side ? R.r : R.b, len = hi - lo;
          int64_t along = r.chance(0.7) ? r.range(lo, hi) : (r.coin() ? lo - r.range(0, len / 4 + 2) : hi + r.range(0, len / 4 + 2));
          int64_t rise = r.range(1, 1 + (r.chance(0.5) ? 16 : 4096));
          int64_t run = (int64_t)std::ldexp(r.real(1.0, 2.0), r.irange(4, std::max(5, e - 1)));
          int64_t t1 = r.range(0, 3), t2 = r.range(1, 3);          // end points at crossing -t1*(run,rise) and +t2*(run,rise), up to a sub-step shift
          int64_t sh = r.range(0, run - 1);
          int64_t sgn = r.coin() ? 1 : -1, sg2 = r.coin() ? 1 : -1;
          Point64 a, b;
          if (horz_side) { a = Point64(clampM(along - sgn * (t1 * run + sh)), clampM(side - sg2 * (t1 * rise + (sh ? 1 : 0)))); b = Point64(clampM(along + sgn * t2 * run), clampM(side + sg2 * t2 * rise)); }
          else { a = Point64(clampM(side - sg2 * (t1 * rise + (sh ? 1 : 0))), clampM(along - sgn * (t1 * run + sh))); b = Point64(clampM(side + sg2 * t2 * rise), clampM(along + sgn * t2 * run)); }
          if (r.coin()) std::swap(a, b);
          P.push_back(a); P.push_back(b);
          ctx.count("gen_shallow_crossing_segments");
        }
        break; }
      default: { int n = r.irange(1, 3); for (int j = 0; j < n; ++j) P.push_back(r.chance(0.4) ? bnd() : (r.coin() ? inp() : anyp())); break; }
    }
    ctx.count("gen_random_kind_" + std::to_string(kind));
    PP.push_back(P);
  }
  c.p64["L"] = PP;
  c.p64["R"] = Paths64{ Path64{ Point64(R.l, R.t), Point64(R.r, R.b) } };
  c.set("class", "random");
  ctx.count("mag_2^" + std::to_string(e));
  return true;
}

// adversarial: segments whose line passes through a corner exactly or within a tiny fraction of a unit (c08_corner.h)
static bool gen_corner(Ctx& ctx, Case& c) {
  Rng& r = ctx.rng;
  static const int mags[] = { 12, 20, 28, 32, 36, 38, 40 };
  int e = mags[r.irange(0, 6)];
  const int64_t M = (int64_t)1 << e;
  int64_t hw = std::max<int64_t>(1, (int64_t)(M * r.real(0.02, 0.3))), hh = std::max<int64_t>(1, (int64_t)(M * r.real(0.02, 0.3)));
  int64_t cx = r.range(-M / 8, M / 8), cy = r.range(-M / 8, M / 8);
  RB R{ cx - hw, cy - hh, cx + hw, cy + hh };
  int k = r.chance(0.6) ? 1 : r.irange(2, 3);
  Paths64 PP;
  for (int i = 0; i < k; ++i) {
    Path64 P;
    auto rnd = [&]() { return r.chance(0.4) ? Point64(r.range(R.l, R.r), r.range(R.t, R.b)) : Point64(r.range(-M, M), r.range(-M, M)); };
    int pre = r.irange(0, 2), nseg = r.irange(1, 2), post = r.irange(0, 2);
    for (int j = 0; j < pre; ++j) P.push_back(rnd());
    for (int j = 0; j < nseg; ++j) {
      Point64 p1, p2; bool into; int offs;
      if (!c08::near_corner_segment(r, c08::RBox{ R.l, R.t, R.r, R.b }, M, p1, p2, into, offs)) continue;
      P.push_back(p1); P.push_back(p2);
      ctx.count(into ? "gen_corner_into_interior" : "gen_corner_grazing");
      if (offs) ctx.count("gen_corner_with_sub_unit_offset");
    }
    for (int j = 0; j < post; ++j) P.push_back(rnd());
    if (P.empty()) continue;
    PP.push_back(P);
  }
  if (PP.empty()) return false;
  c.p64["L"] = PP;
  c.p64["R"] = Paths64{ Path64{ Point64(R.l, R.t), Point64(R.r, R.b) } };
  c.set("class", "corner");
  ctx.count("mag_2^" + std::to_string(e));
  return true;
}

} // namespace

void vf_case(Ctx& ctx, uint64_t i) {
  Case c;
  int sel = (int)(i % 10);
  bool ok = sel < 4 ? gen_lattice(ctx, c) : sel < 5 ? gen_corner(ctx, c) : gen_random(ctx, c);
  if (!ok) { ctx.count("gen_gave_up"); return; }
  ctx.count("class_" + c.gets("class"));
  judge(ctx, c, false);
}

void vf_replay(Ctx& ctx, const Case& c) { judge(ctx, c, true); }
