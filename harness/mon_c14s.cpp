// mon_c14s — C14, first sentence: "the library keeps no mutable state outside the objects a caller creates".
// A write barrier on the static storage of the process image: while a library operation runs, the pages holding the
// executable's .data and .bss (everything with static storage duration that the library, or header code instantiated
// for it, could own) are mapped read-only; a write raises SIGSEGV, the handler records the address, lifts the barrier
// and lets the write proceed. Thread-local storage: the image must not have a PT_TLS segment at all (this harness
// defines no thread_local object, so any would come from the library); if it has one, the calling thread's block is
// compared before and after every operation as well.
// The harness keeps its own mutable state on the stack / heap / in a separate anonymous mapping while the barrier is up.
// Link with -Wl,-z,now (the GOT becomes read-only after start-up, so lazy binding does not write into the protected pages)
// and -rdynamic (dladdr can then name global and inline-function statics).
#include "c10_ops.h"
#include <sys/mman.h>
#include <signal.h>
#include <link.h>
#include <dlfcn.h>
#include <unistd.h>

using namespace vf;
using namespace c10;

extern "C" char __data_start, _edata, __bss_start, _end;

struct Shared { volatile uintptr_t addr[8]; volatile int n; volatile int armed; volatile uintptr_t lo, hi; };
static Shared* g_sh = nullptr;          // separate anonymous mapping; the pointer is written once, before the barrier exists
static uintptr_t g_tls_addr = 0; static size_t g_tls_size = 0;

static void on_segv(int, siginfo_t* si, void*) {
  const uintptr_t a = (uintptr_t)si->si_addr;
  Shared* s = g_sh;
  if (s && s->armed && a >= s->lo && a < s->hi) {
    if (s->n < 8) s->addr[s->n] = a;
    s->n = s->n + 1;
    mprotect((void*)s->lo, s->hi - s->lo, PROT_READ | PROT_WRITE);
    s->armed = 0;
    return;                               // the faulting store is executed again and succeeds
  }
  signal(SIGSEGV, SIG_DFL);               // a genuine crash: die on the re-executed instruction
}

static int phdr_cb(struct dl_phdr_info* info, size_t, void*) {
  if (info->dlpi_name && info->dlpi_name[0]) return 0;   // the main program has the empty name
  for (int k = 0; k < info->dlpi_phnum; ++k) if (info->dlpi_phdr[k].p_type == PT_TLS) { g_tls_size = info->dlpi_phdr[k].p_memsz; g_tls_addr = (uintptr_t)info->dlpi_tls_data; }
  return 1;
}

void vf_begin(Ctx& ctx) {
  const uintptr_t pg = (uintptr_t)sysconf(_SC_PAGESIZE);
  g_sh = (Shared*)mmap(nullptr, sizeof(Shared), PROT_READ | PROT_WRITE, MAP_PRIVATE | MAP_ANONYMOUS, -1, 0);
  if (g_sh == MAP_FAILED) { perror("mmap"); exit(2); }
  uintptr_t lo = std::min((uintptr_t)&__data_start, (uintptr_t)&__bss_start), hi = (uintptr_t)&_end;
  g_sh->lo = lo & ~(pg - 1); g_sh->hi = (hi + pg - 1) & ~(pg - 1); g_sh->n = 0; g_sh->armed = 0;
  dl_iterate_phdr(phdr_cb, nullptr);
  struct sigaction sa; memset(&sa, 0, sizeof sa); sa.sa_sigaction = on_segv; sa.sa_flags = SA_SIGINFO | SA_NODEFER; sigemptyset(&sa.sa_mask);
  sigaction(SIGSEGV, &sa, nullptr);
  // warm up lazy one-time initialisation of the C++ runtime that this harness itself triggers (iostream, locale)
  { std::ostringstream os; os << 1.5 << 7 << "x"; Paths64 p{ Path64{ Point64(0, 0), Point64(1, 1) } }; os << p; }
  // ... and every lazily initialised function-local static of the harness code that run_op reaches (Case::P's empty
  // path set, tables in c10_ops.h): two dry runs of every family without the barrier. One-time initialisation of a
  // *constant* inside the library is warmed up with it and is not what this monitor is after; a cache that keeps being
  // written is.
  { Rng wr(12345, 1); GenLimits lim; lim.maxexp_bool = 20; lim.maxexp_other = 16;
    for (int rep = 0; rep < 2; ++rep) for (int op = 0; op < NOPS; ++op) { Case c = gen_op(wr, op, lim); if (c.getd("arc") > 0 && std::fabs(c.getd("delta")) / c.getd("arc") > 1e4) c.setd("arc", std::fabs(c.getd("delta")) / 1e4);
      (void)c.P("no such key"); Acc a; try { run_op(c, a); } catch (...) {} } }
  ctx.count("static_storage_bytes_guarded", (long long)((uintptr_t)&_end - lo));
  ctx.count("thread_local_bytes_in_image", (long long)g_tls_size);
}

static std::string where(uintptr_t a) {
  char buf[256]; Dl_info di; memset(&di, 0, sizeof di);
  const char* sec = (a >= (uintptr_t)&__bss_start && a < (uintptr_t)&_end) ? ".bss" : ((a >= (uintptr_t)&__data_start && a < (uintptr_t)&_edata) ? ".data" : "page_slack");
  if (dladdr((void*)a, &di) && di.dli_sname && di.dli_saddr && (uintptr_t)di.dli_saddr <= a && a - (uintptr_t)di.dli_saddr < 4096)
    snprintf(buf, sizeof buf, "%s+%lu (%s)", di.dli_sname, (unsigned long)(a - (uintptr_t)di.dli_saddr), sec);
  else snprintf(buf, sizeof buf, "image offset 0x%lx (%s; resolve with nm -n)", (unsigned long)(a - (uintptr_t)(di.dli_fbase ? di.dli_fbase : 0)), sec);
  return buf;
}

static void judge(Ctx& ctx, const Case& c, bool from_replay) {
  ctx.begin(c);
  std::vector<unsigned char> tls0, tls1;
  if (g_tls_size) { tls0.assign((unsigned char*)g_tls_addr, (unsigned char*)g_tls_addr + g_tls_size); tls1.resize(g_tls_size); }
  Shared* s = g_sh;
  uint64_t h = 0; bool threw = false;
  {
    Acc a;
    s->n = 0;
    mprotect((void*)s->lo, s->hi - s->lo, PROT_READ); s->armed = 1;
    try { run_op(c, a); } catch (...) { threw = true; }
    s->armed = 0; mprotect((void*)s->lo, s->hi - s->lo, PROT_READ | PROT_WRITE);
    h = a.h;
  }
  (void)h;
  if (g_tls_size) memcpy(tls1.data(), (void*)g_tls_addr, g_tls_size);
  ctx.evaluated();
  ctx.count(std::string("ops_under_write_barrier_") + kOpName[c.geti("op")]);
  if (threw) ctx.count("ops_that_threw_a_non_clipper_exception");
  if (s->n > 0) {
    std::string w = where(s->addr[0]);
    // page slack: the barrier works on whole pages, the first and last page also hold bytes outside .data/.bss
    const bool slack = w.find("page_slack") != std::string::npos;
    if (slack) { ctx.count("writes_into_page_slack_outside_data_and_bss(not_judged)"); }
    else {
      ctx.violation("C14.static_storage", { "write_to_static_storage", kOpName[c.geti("op")] }, c,
        std::string("a library operation wrote to static storage of the image: ") + w + " - mutable state outside the caller's objects");
      return;
    }
  }
  if (g_tls_size && tls0 != tls1) {
    size_t off = 0; while (off < g_tls_size && tls0[off] == tls1[off]) ++off;
    ctx.violation("C14.static_storage", { "thread_local_storage_changed", kOpName[c.geti("op")] }, c,
      "the calling thread's thread-local block of the image differs after the operation (offset " + std::to_string(off) + " of " + std::to_string(g_tls_size) + ")");
    return;
  }
  if (!from_replay) ctx.note_case(c, true);
}

void vf_case(Ctx& ctx, uint64_t i) {
  GenLimits lim; lim.maxexp_bool = 24; lim.maxexp_other = 20;
  int op = (int)(i % NOPS);
  if (i % 3 == 1) lim.force_lattice = true;     // boolean families: degenerate rectilinear lattices every third case
  Case c = gen_op(ctx.rng, op, lim);
  if (c.getd("arc") > 0 && std::fabs(c.getd("delta")) / c.getd("arc") > 1e4) c.setd("arc", std::fabs(c.getd("delta")) / 1e4);
  judge(ctx, c, false);
}
void vf_replay(Ctx& ctx, const Case& c) { judge(ctx, c, true); }

void vf_end(Ctx& ctx) {
  // the image-level half of the claim, checked once per process
  if (g_tls_size) {
    Case c; c.seti("tls_bytes", (long long)g_tls_size);
    ctx.begin(c);
    ctx.violation("C14.static_storage", { "thread_local_segment_in_image" }, c,
      "the process image has a PT_TLS segment of " + std::to_string(g_tls_size) + " bytes although this harness defines no thread_local object: the library keeps per-thread state outside the caller's objects");
  }
}
