// mon_c12 — C12: results depend only on the current inputs, not on an object's history.
// History checker against the "fresh object" model: the abstract state of an object is (ordered list of path sets
// added since the last Clear, option values, installed callback); after every Execute in a history a fresh object is
// built from the abstract state and must return exactly the same result.
//   --mode c64|cd|off|rect : exhaustive bounded histories over a small alphabet (case index = bundle, sequence)
//   --mode long            : random long histories (50-200 operations) on random bundles, all object kinds
//   --mode shared          : two clippers alternating on one shared ReuseableDataContainer64
//   --mode indep           : offset independence: distant paths / groups in any order offset as they would alone
// Every Execute also logs a result hash ({"t":"hash"}): the orchestrator compares two processes bit for bit.
#include "region.h"
#include "gen.h"
#include "clipper2/clipper.h"

using namespace vf;
using namespace Clipper2Lib;

static uint64_t g_run_hash = 0xcbf29ce484222325ull;   // hash of everything this process computed
static void fold(uint64_t v) { g_run_hash ^= v; g_run_hash *= 0x100000001b3ull; g_run_hash ^= g_run_hash >> 29; }

static bool tree_eq(const PolyPath64& a, const PolyPath64& b) {
  if (a.Count() != b.Count() || a.Polygon().size() != b.Polygon().size()) return false;
  for (size_t i = 0; i < a.Polygon().size(); ++i) if (!(a.Polygon()[i] == b.Polygon()[i])) return false;
  for (size_t i = 0; i < a.Count(); ++i) if (!tree_eq(*a.Child(i), *b.Child(i))) return false;
  return true;
}
static uint64_t tree_hash(const PolyPath64& a) { uint64_t h = hash_paths(Paths64{ a.Polygon() }) ^ (a.Count() * 1315423911ull); for (auto& c : a) h = h * 31 + tree_hash(*c); return h; }
static bool treed_eq(const PolyPathD& a, const PolyPathD& b) {
  if (a.Count() != b.Count() || a.Polygon().size() != b.Polygon().size()) return false;
  for (size_t i = 0; i < a.Polygon().size(); ++i) if (memcmp(&a.Polygon()[i].x, &b.Polygon()[i].x, 8) || memcmp(&a.Polygon()[i].y, &b.Polygon()[i].y, 8)) return false;
  for (size_t i = 0; i < a.Count(); ++i) if (!treed_eq(*a.Child(i), *b.Child(i))) return false;
  return true;
}
static bool pd_eq(const PathsD& a, const PathsD& b) {
  if (a.size() != b.size()) return false;
  for (size_t i = 0; i < a.size(); ++i) { if (a[i].size() != b[i].size()) return false;
    for (size_t j = 0; j < a[i].size(); ++j) if (memcmp(&a[i][j].x, &b[i][j].x, 8) || memcmp(&a[i][j].y, &b[i][j].y, 8)) return false; }
  return true;
}
static PathsD toD(const Paths64& pp, double div) { PathsD r; for (auto& p : pp) { PathD q; for (auto& pt : p) q.emplace_back((double)pt.x / div, (double)pt.y / div); r.push_back(q); } return r; }

static std::vector<int> parse_seq(const std::string& s) { std::vector<int> v; std::istringstream is(s); std::string t; while (std::getline(is, t, ',')) if (!t.empty()) v.push_back(atoi(t.c_str())); return v; }
static std::string seq_str(const std::vector<int>& v) { std::string s; for (size_t i = 0; i < v.size(); ++i) s += (i ? "," : "") + std::to_string(v[i]); return s; }
// index -> sequence over an alphabet of A symbols, lengths 1..maxlen; returns false past the end
static bool decode_seq(uint64_t j, int A, int maxlen, std::vector<int>& out) {
  uint64_t block = A;
  for (int L = 1; L <= maxlen; ++L) { if (j < block) { out.assign((size_t)L, 0); for (int k = L - 1; k >= 0; --k) { out[(size_t)k] = (int)(j % A); j /= A; } return true; } j -= block; block *= A; }
  return false;
}
static uint64_t count_seqs(int A, int maxlen) { uint64_t n = 0, b = A; for (int L = 1; L <= maxlen; ++L) { n += b; b *= A; } return n; }

// ------------------------------------------------------------------ bundles
static void make_bundle(Case& c, int b, Rng& r) {
  auto& P1 = c.p64["P1"]; auto& P2 = c.p64["P2"]; auto& L = c.p64["L"]; auto& Q = c.p64["Q"]; auto& RP = c.p64["RP"]; auto& RO = c.p64["RO"];
  if (b == 0) {   // general position, crossing
    P1 = { Path64{ Point64(0, 0), Point64(100, 7), Point64(93, 110), Point64(11, 95) }, Path64{ Point64(30, 30), Point64(35, 70), Point64(71, 66), Point64(64, 28) } };
    P2 = { Path64{ Point64(50, -20), Point64(140, 45), Point64(55, 130), Point64(-15, 52) } };
    L = { Path64{ Point64(-30, 40), Point64(150, 61), Point64(20, 140) }, Path64{ Point64(60, -40), Point64(62, 160) } };
    Q = { Path64{ Point64(20, 20), Point64(120, 33), Point64(70, 150) } };
    RP = { Path64{ Point64(-10, 60), Point64(75, -12), Point64(130, 80), Point64(48, 125) } };
    RO = { Path64{ Point64(-40, -10), Point64(160, 100) } };
  } else if (b == 1) {   // rectilinear, degenerate: shared edges, touching corners, duplicates
    P1 = { gen::box(0, 0, 40, 40), gen::box(40, 0, 80, 40), Path64{ Point64(0, 40), Point64(40, 40), Point64(40, 80), Point64(0, 80), Point64(0, 80) } };
    P2 = { gen::box(20, 20, 60, 60, false), gen::box(60, 60, 90, 90) };
    L = { Path64{ Point64(-10, 40), Point64(100, 40) }, Path64{ Point64(40, -10), Point64(40, 100), Point64(80, 100) } };
    Q = { gen::box(10, 10, 70, 70), gen::box(30, 30, 50, 50, false) };
    RP = { gen::box(0, 20, 80, 60) };
    RO = { Path64{ Point64(0, 0), Point64(80, 80) } };
  } else if (b == 3) {   // scanline-sensitive (seeded): long nearly parallel edges crossing at shallow angles; the vertices of
    // P2, L, RP and RO sit at the integer y levels around those crossings, so any scanline that should not be there (or is
    // missing) moves the rounded intersection points of P1 x Q
    int64_t W = (int64_t)1 << r.irange(9, 16); int nb = r.irange(3, 6);
    auto band = [&](int64_t yl, int64_t yr, int64_t h) { return Path64{ Point64(-W, yl), Point64(W, yr), Point64(W, yr + h), Point64(-W, yl + h) }; };
    std::vector<int64_t> ycs;
    for (int q = 0; q < nb; ++q) { int64_t y0 = q * 40 + r.range(-5, 5); int64_t t1 = r.range(3, 17), t2 = r.range(3, 17);
      P1.push_back(band(y0, y0 + t1, r.range(6, 12))); Q.push_back(band(y0 + t2, y0 - r.range(1, 9), r.range(6, 12))); }
    for (auto& a : P1) for (auto& c2 : Q) for (size_t i = 0; i < 4; ++i) for (size_t j = 0; j < 4; ++j)
      if (proper_cross(a[i], a[(i + 1) % 4], c2[j], c2[(j + 1) % 4])) ycs.push_back((int64_t)floorl(line_cross(a[i], a[(i + 1) % 4], c2[j], c2[(j + 1) % 4]).y));
    if (ycs.empty()) ycs.push_back(7);
    auto at_levels = [&](int n, int64_t xoff) { Path64 p; for (int q = 0; q < n; ++q) p.push_back(Point64(xoff + r.range(-W / 2, W / 2), ycs[(size_t)r.irange(0, (int)ycs.size() - 1)] + r.range(0, 1))); strip_dups_closed(p); if (p.size() < 3) p = gen::box(xoff, ycs[0], xoff + 9, ycs[0] + 1); return p; };
    P2 = Paths64{ at_levels(r.irange(3, 7), 3 * W) }; RP = Paths64{ at_levels(r.irange(3, 6), -3 * W) };
    L = Paths64{ Path64{ Point64(-W, ycs[0]), Point64(W, ycs.back() + 1), Point64((int64_t)0, ycs[ycs.size() / 2]) } };
    RO = Paths64{ Path64{ Point64(-2 * W, ycs.back()), Point64(2 * W, ycs[0] + 1) } };
  } else {               // seeded
    int64_t R = (int64_t)1 << r.irange(5, 30);
    auto poly = [&]() { return r.coin() ? gen::star_shaped(r, r.range(-R / 4, R / 4), r.range(-R / 4, R / 4), (double)R * 0.7, r.irange(3, 9), 0.3, 1.0, r.coin()) : gen::random_poly(r, 0, 0, R, r.irange(3, 8)); };
    P1 = { poly() }; if (r.coin()) P1.push_back(gen::zoo_path(r, R));
    P2 = { poly() };
    L = { gen::polyline(r, 0, 0, R, r.irange(2, 5)) };
    Q = { poly() }; if (r.coin()) Q.push_back(poly());
    RP = { poly() };
    RO = { gen::polyline(r, 0, 0, R, r.irange(2, 4)) };
  }
}

struct Fail { bool bad = false; std::string detail; int step = -1; std::vector<std::string> tags; };

// every vertex of a within lim of some edge of b (closed paths)
static bool verts_near(const Paths64& a, const Paths64& b, ld lim) {
  for (auto& p : a) for (auto& pt : p) if (min_dist_to_edges(b, pt, true) > lim) return false;
  return true;
}

// ------------------------------------------------------------------ Clipper64 / ClipperD histories
// symbols: 0 AddSubject P1, 1 AddSubject P2, 2 AddOpenSubject L, 3 AddClip Q, 4 AddReuseableData R (c64) / AddClip P2 (cd),
//          5 toggle PreserveCollinear, 6 toggle ReverseSolution, 7 Exec paths (Intersection, NonZero), 8 Exec paths (Union, EvenOdd),
//          9 Exec tree (Difference, Positive), 10 Exec tree (Xor, Negative), 11 Clear
#ifdef USINGZ
static const int A_CLIP = 16;   // 12: Exec paths (NoClip), 13: Exec tree (NoClip), 14: SetZCallback(f), 15: SetZCallback(nullptr)
#else
static const int A_CLIP = 14;   // 12: Exec paths (NoClip), 13: Exec tree (NoClip)
#endif
#ifdef USINGZ
// Z build: results are compared including z; the callback is a pure function of its arguments
static void zcb64(const Point64& a, const Point64& b, const Point64& c2, const Point64& d, Point64& pt) { pt.z = 1000 + ((a.z + 3 * b.z + 5 * c2.z + 7 * d.z) & 0xffff); }
static void zcbd(const PointD& a, const PointD& b, const PointD& c2, const PointD& d, PointD& pt) { pt.z = 1000 + ((a.z + 3 * b.z + 5 * c2.z + 7 * d.z) & 0xffff); }
static bool z_eq(const Paths64& a, const Paths64& b) { if (a.size() != b.size()) return false; for (size_t i = 0; i < a.size(); ++i) { if (a[i].size() != b[i].size()) return false; for (size_t j = 0; j < a[i].size(); ++j) if (a[i][j].z != b[i][j].z) return false; } return true; }
static bool z_eq(const PathsD& a, const PathsD& b) { if (a.size() != b.size()) return false; for (size_t i = 0; i < a.size(); ++i) { if (a[i].size() != b[i].size()) return false; for (size_t j = 0; j < a[i].size(); ++j) if (a[i][j].z != b[i][j].z) return false; } return true; }
static void zlabel(Paths64& pp, int64_t base) { for (auto& p : pp) for (auto& pt : p) pt.z = base++; }
static void zlabel(PathsD& pp, int64_t base) { for (auto& p : pp) for (auto& pt : p) pt.z = base++; }
#else
template <class T> static bool z_eq(const T&, const T&) { return true; }
#endif
// an Execute that throws is a result too (e.g. a stale callback proxy calling an empty std::function)
template <class F> static int guarded(F f) { try { return f() ? 1 : 0; } catch (const std::exception&) { return 2; } }
static bool admissible_clip(const std::vector<int>& seq, bool c64) {
  if (!c64) return true;
  int n = 0; for (int s : seq) { if (s == 11) n = 0; if (s == 4 && ++n > 1) return false; } return true;   // a container at most once between Clears
}

static Fail run_c64(const Case& c, const std::vector<int>& seq, long long& compared) {
  Fail f;
  ReuseableDataContainer64 rd; rd.AddPaths(c.P("RP"), PathType::Subject, false); rd.AddPaths(c.P("RO"), PathType::Subject, true);
  Clipper64 used; bool pc = true, rev = false, zcb = false; std::vector<int> adds;
  Paths64 P1 = c.P("P1"), P2 = c.P("P2"), L = c.P("L"), Q = c.P("Q");
#ifdef USINGZ
  zlabel(P1, 1); zlabel(P2, 101); zlabel(L, 201); zlabel(Q, 301);
#endif
  (void)zcb;
  auto apply_add = [&](Clipper64& cl, int s) {
    switch (s) { case 0: cl.AddSubject(P1); break; case 1: cl.AddSubject(P2); break; case 2: cl.AddOpenSubject(L); break;
      case 3: cl.AddClip(Q); break; default: cl.AddReuseableData(rd); break; }
  };
  for (size_t k = 0; k < seq.size(); ++k) {
    int s = seq[k];
    if (s <= 4) { apply_add(used, s); adds.push_back(s); }
    else if (s == 5) { pc = !pc; used.PreserveCollinear(pc); }
    else if (s == 6) { rev = !rev; used.ReverseSolution(rev); }
    else if (s == 11) { used.Clear(); adds.clear(); }
#ifdef USINGZ
    else if (s == 14) { used.SetZCallback(zcb64); zcb = true; }
    else if (s == 15) { used.SetZCallback(nullptr); zcb = false; }
#endif
    else {
      Clipper64 fresh; fresh.PreserveCollinear(pc); fresh.ReverseSolution(rev);
#ifdef USINGZ
      if (zcb) fresh.SetZCallback(zcb64);
#endif
      for (int a : adds) apply_add(fresh, a);
      ++compared;
      if (s == 7 || s == 8 || s == 12) {
        ClipType ct = s == 7 ? ClipType::Intersection : s == 8 ? ClipType::Union : ClipType::NoClip; FillRule fr = s == 7 ? FillRule::NonZero : FillRule::EvenOdd;
        Paths64 a, ao, b, bo; int ra = guarded([&] { return used.Execute(ct, fr, a, ao); }), rb = guarded([&] { return fresh.Execute(ct, fr, b, bo); });
        fold(hash_paths(a)); fold(hash_paths(ao));
        if (ra != rb || !same_paths(a, b) || !same_paths(ao, bo) || !z_eq(a, b) || !z_eq(ao, bo)) { f.bad = true; f.step = (int)k; f.detail = std::string("Execute(paths) on the used object differs from a fresh object with the same inputs") + (ra == 2 && rb != 2 ? " (the used object threw)" : ""); if (ra == 2 && rb != 2) f.tags.push_back("used_object_threw"); return f; }
      } else {
        ClipType ct = s == 9 ? ClipType::Difference : s == 10 ? ClipType::Xor : ClipType::NoClip; FillRule fr = s == 9 ? FillRule::Positive : FillRule::Negative;
        PolyTree64 a, b; Paths64 ao, bo; int ra = guarded([&] { return used.Execute(ct, fr, a, ao); }), rb = guarded([&] { return fresh.Execute(ct, fr, b, bo); });
        fold(tree_hash(a)); fold(hash_paths(ao));
        if (ra != rb || !tree_eq(a, b) || !same_paths(ao, bo) || !z_eq(PolyTreeToPaths64(a), PolyTreeToPaths64(b)) || !z_eq(ao, bo)) { f.bad = true; f.step = (int)k; f.detail = "Execute(tree) on the used object differs from a fresh object with the same inputs"; return f; }
      }
    }
  }
  return f;
}

static Fail run_cd(const Case& c, const std::vector<int>& seq, long long& compared) {
  Fail f; const int prec = (int)c.geti("prec", 2); const double div = c.getd("div", 4.0);
  PathsD P1 = toD(c.P("P1"), div), P2 = toD(c.P("P2"), div), L = toD(c.P("L"), div), Q = toD(c.P("Q"), div);
  ClipperD used(prec); bool pc = true, rev = false, zcb = false; std::vector<int> adds;
#ifdef USINGZ
  zlabel(P1, 1); zlabel(P2, 101); zlabel(L, 201); zlabel(Q, 301);
#endif
  (void)zcb;
  auto apply_add = [&](ClipperD& cl, int s) {
    switch (s) { case 0: cl.AddSubject(P1); break; case 1: cl.AddSubject(P2); break; case 2: cl.AddOpenSubject(L); break; case 3: cl.AddClip(Q); break; default: cl.AddClip(P2); break; }
  };
  for (size_t k = 0; k < seq.size(); ++k) {
    int s = seq[k];
    if (s <= 4) { apply_add(used, s); adds.push_back(s); }
    else if (s == 5) { pc = !pc; used.PreserveCollinear(pc); }
    else if (s == 6) { rev = !rev; used.ReverseSolution(rev); }
    else if (s == 11) { used.Clear(); adds.clear(); }
#ifdef USINGZ
    else if (s == 14) { used.SetZCallback(zcbd); zcb = true; }
    else if (s == 15) { used.SetZCallback(nullptr); zcb = false; }
#endif
    else {
      ClipperD fresh(prec); fresh.PreserveCollinear(pc); fresh.ReverseSolution(rev);
#ifdef USINGZ
      if (zcb) fresh.SetZCallback(zcbd);
#endif
      for (int a : adds) apply_add(fresh, a);
      ++compared;
      if (s == 7 || s == 8 || s == 12) {
        ClipType ct = s == 7 ? ClipType::Intersection : s == 8 ? ClipType::Union : ClipType::NoClip; FillRule fr = s == 7 ? FillRule::NonZero : FillRule::EvenOdd;
        PathsD a, ao, b, bo; int ra = guarded([&] { return used.Execute(ct, fr, a, ao); }), rb = guarded([&] { return fresh.Execute(ct, fr, b, bo); });
        fold(hash_pathsd(a)); fold(hash_pathsd(ao));
        if (ra != rb || !pd_eq(a, b) || !pd_eq(ao, bo) || !z_eq(a, b) || !z_eq(ao, bo)) { f.bad = true; f.step = (int)k; f.detail = std::string("ClipperD::Execute(paths) on the used object differs from a fresh object") + (ra == 2 && rb != 2 ? " (the used object threw)" : ""); if (ra == 2 && rb != 2) f.tags.push_back("used_object_threw"); return f; }
      } else {
        ClipType ct = s == 9 ? ClipType::Difference : s == 10 ? ClipType::Xor : ClipType::NoClip; FillRule fr = s == 9 ? FillRule::Positive : FillRule::Negative;
        PolyTreeD a, b; PathsD ao, bo; int ra = guarded([&] { return used.Execute(ct, fr, a, ao); }), rb = guarded([&] { return fresh.Execute(ct, fr, b, bo); });
        fold(hash_pathsd(PolyTreeToPathsD(a)));
        if (ra != rb || !treed_eq(a, b) || !pd_eq(ao, bo) || !z_eq(PolyTreeToPathsD(a), PolyTreeToPathsD(b)) || !z_eq(ao, bo)) { f.bad = true; f.step = (int)k; f.detail = "ClipperD::Execute(tree) on the used object differs from a fresh object"; return f; }
      }
    }
  }
  return f;
}

// ------------------------------------------------------------------ ClipperOffset histories
// symbols: 0 AddPaths G1 (Polygon, jt from bundle), 1 AddPaths G2 (Joined, Round), 2 AddPaths G3 (Round ends, Miter), 3 Execute(+d), 4 Execute(-d),
//          5 Execute tree(+d), 6 Execute(callback), 7 SetDeltaCallback(null), 8 Clear, 9 toggle MiterLimit 2<->4, 10 toggle ArcTolerance 0<->d/20,
//          11 toggle PreserveCollinear, 12 toggle ReverseSolution
static const int A_OFF = 13;
static Fail run_off(const Case& c, const std::vector<int>& seq, long long& compared) {
  Fail f; const double d = c.getd("delta", 6.0);
  const Paths64& G1 = c.P("P1"); const Paths64& G2 = c.P("L"); const Paths64& G3 = c.P("RO");
  auto cb = [d](const Path64&, const PathD&, size_t curr, size_t) { return d * (1.0 + 0.25 * (double)(curr % 3)); };
  double miter = 2.0, arc = 0.0; bool pc = false, rev = false, has_cb = false; std::vector<int> adds;
  ClipperOffset used(miter, arc, pc, rev);
  auto apply_add = [&](ClipperOffset& co, int s) {
    if (s == 0) co.AddPaths(G1, (JoinType)c.geti("jt", 2), EndType::Polygon); else if (s == 1) co.AddPaths(G2, JoinType::Round, EndType::Joined); else co.AddPaths(G3, JoinType::Miter, EndType::Round);
  };
  for (size_t k = 0; k < seq.size(); ++k) {
    int s = seq[k];
    if (s <= 2) { apply_add(used, s); adds.push_back(s); }
    else if (s == 7) { used.SetDeltaCallback(nullptr); has_cb = false; }
    else if (s == 8) { used.Clear(); adds.clear(); }
    else if (s == 9) { miter = miter == 2.0 ? 4.0 : 2.0; used.MiterLimit(miter); }
    else if (s == 10) { arc = arc == 0.0 ? d / 20 : 0.0; used.ArcTolerance(arc); }
    else if (s == 11) { pc = !pc; used.PreserveCollinear(pc); }
    else if (s == 12) { rev = !rev; used.ReverseSolution(rev); }
    else {
      if (s == 6) has_cb = true;   // Execute(callback) installs the callback (documented equivalent: SetDeltaCallback + Execute(1.0))
      ClipperOffset fresh(miter, arc, pc, rev);
      if (has_cb) fresh.SetDeltaCallback(cb);
      for (int a : adds) apply_add(fresh, a);
      ++compared;
      if (s == 5) { PolyTree64 a, b; used.Execute(d, a); fresh.Execute(d, b); fold(tree_hash(a));
        if (!tree_eq(a, b)) { f.bad = true; f.step = (int)k; f.detail = "ClipperOffset::Execute(tree) on the used object differs from a fresh object"; return f; } }
      else { Paths64 a, b;
        if (s == 6) { used.Execute(cb, a); fresh.Execute(1.0, b); } else { double dd = s == 3 ? d : -d; used.Execute(dd, a); fresh.Execute(dd, b); }
        fold(hash_paths(a));
        if (!same_paths(a, b)) { f.bad = true; f.step = (int)k; f.detail = "ClipperOffset::Execute on the used object differs from a fresh object"; return f; } }
    }
  }
  return f;
}

// ------------------------------------------------------------------ RectClip64 / RectClipLines64 reuse: symbols 0..3 = Execute on path set k; 4..7 = lines variant
static const int A_RECT = 8;
static Fail run_rect(const Case& c, const std::vector<int>& seq, long long& compared) {
  Fail f; const Path64& rp = c.P("rect")[0]; Rect64 rect(rp[0].x, rp[0].y, rp[1].x, rp[1].y);
  const Paths64* sets[4] = { &c.P("P1"), &c.P("P2"), &c.P("Q"), &c.P("L") };
  RectClip64 used(rect); RectClipLines64 usedl(rect);
  for (size_t k = 0; k < seq.size(); ++k) {
    int s = seq[k]; ++compared;
    if (s < 4) { RectClip64 fresh(rect); Paths64 a = used.Execute(*sets[s]), b = fresh.Execute(*sets[s]); fold(hash_paths(a));
      if (!same_paths(a, b)) { f.bad = true; f.step = (int)k; f.detail = "RectClip64::Execute on a used object differs from a fresh one"; return f; } }
    else { RectClipLines64 fresh(rect); Paths64 a = usedl.Execute(*sets[s - 4]), b = fresh.Execute(*sets[s - 4]); fold(hash_paths(a));
      if (!same_paths(a, b)) { f.bad = true; f.step = (int)k; f.detail = "RectClipLines64::Execute on a used object differs from a fresh one"; return f; } }
  }
  return f;
}

// ------------------------------------------------------------------ shared container, two clippers alternating
static Fail run_shared(const Case& c, const std::vector<int>& seq, long long& compared) {
  Fail f;
  ReuseableDataContainer64 rd; rd.AddPaths(c.P("RP"), PathType::Subject, false); rd.AddPaths(c.P("RO"), PathType::Subject, true); rd.AddPaths(c.P("P2"), PathType::Clip, false);
  Clipper64 c1, c2; c1.AddReuseableData(rd); c1.AddClip(c.P("Q")); c2.AddSubject(c.P("P1")); c2.AddReuseableData(rd);
  for (size_t k = 0; k < seq.size(); ++k) {
    int s = seq[k]; ClipType ct = (ClipType)(1 + (s % 4)); FillRule fr = (FillRule)((s / 4) % 4); bool first = ((s / 16) & 1) == 0;
    Clipper64 fresh; if (first) { fresh.AddReuseableData(rd); fresh.AddClip(c.P("Q")); } else { fresh.AddSubject(c.P("P1")); fresh.AddReuseableData(rd); }
    Paths64 a, ao, b, bo; bool ra = (first ? c1 : c2).Execute(ct, fr, a, ao), rb = fresh.Execute(ct, fr, b, bo);
    ++compared; fold(hash_paths(a));
    if (ra != rb || !same_paths(a, b) || !same_paths(ao, bo)) { f.bad = true; f.step = (int)k; f.detail = "clipper sharing a ReuseableDataContainer64 gives a different result than a fresh clipper on the same container"; return f; }
  }
  return f;
}

// ------------------------------------------------------------------ offset independence
// members (paths with their own join/end type) pairwise farther than 4*k*|delta| apart; the part of the joint result
// inside a member's neighbourhood must equal the member's stand-alone result (canonical path sets)
static double kfactor(int jt, int et, double miter) { double k = jt == 3 ? std::max(miter, 1.4143) : (jt == 2 ? 1.0 : 1.4143); if (et == 3) k = std::max(k, 1.4143); return k; }
static Fail run_indep(const Case& c0, long long& compared, int64_t fine = 1) {
  // fine > 1: the same scene on a grid `fine` times finer (coordinates and delta multiplied) - used by the classifier below
  Case cs; const Case& c = fine == 1 ? c0 : cs;
  if (fine != 1) { cs = c0; for (auto& p : cs.p64["M"]) for (auto& pt : p) { pt.x *= fine; pt.y *= fine; } cs.setd("delta", c0.getd("delta") * (double)fine); }
  Fail f; const double d = c.getd("delta"), miter = c.getd("miter", 2.0); const int nm = (int)c.geti("nm"); const bool grouped = c.geti("grouped") != 0;
  const int jt = (int)c.geti("jt"), et = (int)c.geti("et");
  std::vector<int> order = parse_seq(c.gets("order"));
  // stand-alone results
  std::vector<Paths64> alone((size_t)nm);
  for (int m = 0; m < nm; ++m) { ClipperOffset co(miter, 0.0); co.AddPaths(Paths64{ c.P("M")[(size_t)m] }, (JoinType)jt, (EndType)et); co.Execute(d, alone[(size_t)m]); ++compared; }
  // joint result in the given order: one group, or one group per member
  ClipperOffset co(miter, 0.0);
  if (grouped) { Paths64 g; for (int m : order) g.push_back(c.P("M")[(size_t)m]); co.AddPaths(g, (JoinType)jt, (EndType)et); }
  else for (int m : order) co.AddPaths(Paths64{ c.P("M")[(size_t)m] }, (JoinType)jt, (EndType)et);
  Paths64 joint; co.Execute(d, joint); ++compared; fold(hash_paths(joint));
  const double reach = kfactor(jt, et, miter) * std::fabs(d) + 3;
  std::vector<Paths64> part((size_t)nm);
  for (auto& p : joint) {
    int owner = -1;
    for (int m = 0; m < nm && owner < 0; ++m) {
      int64_t x0 = 0, y0 = 0, x1 = 0, y1 = 0; bool any = false; bounds(Paths64{ c.P("M")[(size_t)m] }, x0, y0, x1, y1, any);
      bool in = true; for (auto& pt : p) if ((double)pt.x < (double)x0 - reach || (double)pt.x > (double)x1 + reach || (double)pt.y < (double)y0 - reach || (double)pt.y > (double)y1 + reach) { in = false; break; }
      if (in) owner = m;
    }
    if (owner < 0) { f.bad = true; f.tags.push_back("unowned_result_path"); f.detail = "a result path of the joint call (first vertex " + std::to_string(p[0].x) + "," + std::to_string(p[0].y) + ") lies outside the reach of every member"; return f; }
    part[(size_t)owner].push_back(p);
  }
  for (int m = 0; m < nm; ++m)
    if (!same_paths(canon_paths(part[(size_t)m]), canon_paths(alone[(size_t)m]))) { f.bad = true; f.step = m;
      // classifier: do the two results cover the same region at every sample point farther than 3 units from BOTH boundaries?
      // (a difference confined to that band is integer rounding of the clean-up union, whose scanbeams depend on the
      // other members; a leaked join/end type or delta changes the region by about |delta|)
      { Samples sp; Paths64 both = concat(part[(size_t)m], alone[(size_t)m]);
        near_output_samples(both, { 4.0L, (ld)std::fabs(d) / 2 }, sp); Rng rr(12345, (uint64_t)m); random_samples(rr, both, 200, sp);
        { int64_t x0 = 0, y0 = 0, x1 = 0, y1 = 0; bool any = false; bounds(both, x0, y0, x1, y1, any);   // 24x24 lattice over the bounding box
          if (any) for (int gy = 0; gy <= 24; ++gy) for (int gx = 0; gx <= 24; ++gx) sp.pts.emplace_back(x0 + (x1 - x0) * gx / 24, y0 + (y1 - y0) * gy / 24); }
        long long judged = 0; bool differ = false;
        for (auto& q : sp.pts) {
          if (min_dist_to_edges(part[(size_t)m], q) <= 3 || min_dist_to_edges(alone[(size_t)m], q) <= 3) continue;
          ++judged; if (winding(part[(size_t)m], q) != winding(alone[(size_t)m], q)) { differ = true; break; }
        }
        // no sample clear of both bands disagrees: whatever differs lies within 3 units of one of the two boundaries
        (void)judged;
        if (differ && fine == 1) {
          // a leaked join/end type or delta does not care about the grid; a mis-filled face of the clean-up union (the boolean
          // engine on raw outlines that are not in general position: C07's recorded finding) does: repeat on a 257x finer grid
          long long dummy = 0; Fail ff = run_indep(c0, dummy, 257);
          bool still = ff.bad && std::find(ff.tags.begin(), ff.tags.end(), std::string("gross_difference")) != ff.tags.end();
          f.tags.push_back(still ? "gross_difference" : "gross_difference_only_on_this_grid");
        } else f.tags.push_back(differ ? "gross_difference" : "same_region_up_to_rounding"); }
      f.tags.push_back(c.geti("stack") ? "members_stacked_vertically" : "members_side_by_side");
      f.detail = "member " + std::to_string(m) + " (" + std::to_string(c.P("M")[(size_t)m].size()) + " points) is offset differently in a joint call (order " + c.gets("order") + (grouped ? ", one group" : ", one group each") + ") than alone"; return f; }
  return f;
}

// ------------------------------------------------------------------ driver
static void judge(Ctx& ctx, const Case& c, bool from_replay) {
  ctx.begin(c);
  const std::string kind = c.gets("kind");
  std::vector<int> seq = parse_seq(c.gets("seq"));
  long long compared = 0; Fail f;
  if (kind == "c64") f = run_c64(c, seq, compared);
  else if (kind == "cd") f = run_cd(c, seq, compared);
  else if (kind == "off") f = run_off(c, seq, compared);
  else if (kind == "rect") f = run_rect(c, seq, compared);
  else if (kind == "shared") f = run_shared(c, seq, compared);
  else if (kind == "indep") f = run_indep(c, compared);
  ctx.evaluated(compared);
  ctx.count("executions_compared_" + kind, compared);
  ctx.count("histories_" + kind);
  if (compared == 0) ctx.count("histories_without_execute");
  if (f.bad) {
    std::vector<std::string> tags = { "kind_" + kind };
    for (auto& t : f.tags) tags.push_back(t);
    if (kind == "indep" && f.tags.size() == 2) tags.push_back(f.tags[0] + "@" + f.tags[1]);
    ctx.violation("C12.history_dependence", tags, c, f.detail + (f.step >= 0 ? " (step " + std::to_string(f.step) + " of sequence " + c.gets("seq") + ")" : ""));
    return;
  }
  if (!from_replay) ctx.note_case(c, compared > 0);
}

void vf_case(Ctx& ctx, uint64_t i) {
  const std::string mode = ctx.optstr("mode", "c64");
  const int maxlen = (int)ctx.optint("maxlen", 4);
  Rng& r = ctx.rng; Case c;
  if (mode == "c64" || mode == "cd" || mode == "off" || mode == "rect") {
    int A = mode == "off" ? A_OFF : mode == "rect" ? A_RECT : A_CLIP;
    int b = (int)(i % 4); uint64_t j = i / 4;
    std::vector<int> seq;
    if (!decode_seq(j, A, maxlen, seq)) return;
    if ((mode == "c64" || mode == "cd") && !admissible_clip(seq, mode == "c64")) { ctx.count("inadmissible_histories_skipped"); return; }
    Rng br(ctx.seed, 7777 + (uint64_t)b);   // bundle 2 depends on the seed only, not on the case index
    make_bundle(c, b, br);
    c.set("kind", mode); c.seti("bundle", b); c.set("seq", seq_str(seq));
    if (mode == "cd") { c.seti("prec", b == 1 ? 0 : 2); c.setd("div", b == 1 ? 1.0 : 4.0); }
    if (mode == "off") { int64_t x0 = 0, y0 = 0, x1 = 0, y1 = 0; bool any = false; bounds(c.P("P1"), x0, y0, x1, y1, any); c.setd("delta", std::max(2.0, (double)(x1 - x0) / 16.0)); c.seti("jt", b); }
    if (mode == "rect") { int64_t x0 = 0, y0 = 0, x1 = 0, y1 = 0; bool any = false; bounds(c.P("P1"), x0, y0, x1, y1, any);
      c.p64["rect"] = Paths64{ Path64{ Point64(x0 + (x1 - x0) / 4, y0 + (y1 - y0) / 4), Point64(x1 - (x1 - x0) / 5, y1 - (y1 - y0) / 3) } }; }
    judge(ctx, c, false);
  } else if (mode == "long") {
    static const char* kinds[] = { "c64", "cd", "off", "rect" };
    std::string kind = kinds[i % 4]; int A = kind == "off" ? A_OFF : kind == "rect" ? A_RECT : A_CLIP;
    const bool directed = (kind == "c64" || kind == "cd") && r.coin();
    make_bundle(c, directed ? 3 : (r.coin() ? 2 : 3), r);
    std::vector<int> seq; int n = directed ? r.irange(3, 9) : r.irange(50, 200); int rcount = 0;
    if (directed) {   // "pollution prefix": inputs that are then discarded, an Execute that returns early, Clear
      int na = r.irange(1, 3); for (int q = 0; q < na; ++q) seq.push_back(r.irange(0, 3));
      seq.push_back(r.coin() ? 12 : 13); if (r.coin()) seq.push_back(r.coin() ? 12 : 13);
      seq.push_back(11);
      int nb2 = r.irange(1, 3); for (int q = 0; q < nb2; ++q) seq.push_back(r.irange(0, 3));
      seq.push_back(r.irange(7, 10)); seq.push_back(r.irange(7, 10));
    }
    for (int k = 0; k < n; ++k) { int s = r.irange(0, A - 1);
      if (kind == "c64" && s == 4) { if (rcount) { --k; continue; } rcount = 1; } if ((kind == "c64") && s == 11) rcount = 0;
      seq.push_back(s); }
    c.set("kind", kind); c.seti("bundle", 2); c.set("seq", seq_str(seq));
    if (kind == "cd") { c.seti("prec", r.irange(0, 4)); c.setd("div", std::pow(10.0, r.irange(0, 2))); }
    if (kind == "off") { int64_t x0 = 0, y0 = 0, x1 = 0, y1 = 0; bool any = false; bounds(c.P("P1"), x0, y0, x1, y1, any); c.setd("delta", std::max(2.0, (double)(x1 - x0) * r.real(0.02, 0.1))); c.seti("jt", r.irange(0, 3)); }
    if (kind == "rect") { int64_t x0 = 0, y0 = 0, x1 = 0, y1 = 0; bool any = false; bounds(c.P("P1"), x0, y0, x1, y1, any);
      c.p64["rect"] = Paths64{ Path64{ Point64(x0 + (x1 - x0) / 4, y0 + (y1 - y0) / 4), Point64(x1 - (x1 - x0) / 5, y1 - (y1 - y0) / 3) } }; }
    judge(ctx, c, false);
  } else if (mode == "shared") {
    make_bundle(c, (int)(i % 4), r); c.set("kind", "shared");
    std::vector<int> seq; int n = r.irange(4, 40); for (int k = 0; k < n; ++k) seq.push_back(r.irange(0, 31)); c.set("seq", seq_str(seq));
    judge(ctx, c, false);
  } else {   // indep
    c.set("kind", "indep");
    int nm = r.irange(2, 5); int jt = r.irange(0, 3), et = r.irange(0, 4); double miter = r.pick(std::vector<double>{ 1.0, 2.0, 4.0 });
    double d = r.real(12, 60); if (et != 0 ? false : r.coin()) d = -d;
    double k = kfactor(jt, et, miter); int64_t size = (int64_t)r.range(60, 400);
    int64_t pitch = size + (int64_t)(8 * k * std::fabs(d)) + 20;     // centres on a line, gaps > 4k|d| (+ reach of both)
    Paths64 M; const bool stack = r.coin(); c.seti("stack", stack);
    for (int m = 0; m < nm; ++m) {
      int64_t cx = stack ? (m % 2) * 7 : m * pitch, cy = stack ? m * pitch : (m % 2) * 7;
      int t = r.irange(0, 9); Path64 p;
      if (t == 0) p = Path64{ Point64(cx, cy) };
      else if (t <= 2) p = Path64{ Point64(cx - size / 3, cy - size / 5), Point64(cx + size / 4, cy + size / 3) };
      else if (et == 0) p = gen::star_shaped(r, cx, cy, (double)size / 2, r.irange(3, 9), 0.5, 1.0, true);   // one orientation convention per call
      else { p = gen::polyline(r, cx, cy, size / 2, r.irange(3, 6)); }
      M.push_back(p);
    }
    if (et == 0) for (auto& p : M) if (p.size() < 3) { p = gen::star_shaped(r, p[0].x, p[0].y, (double)size / 2, 4, 0.6, 1.0, true); }
    // premise (CheckReverseOrientation documents it): one orientation convention per call - make every polygon positive
    if (et == 0) for (auto& p : M) { i128 a2 = area2(p); if (a2 < 0) std::reverse(p.begin(), p.end()); else if (a2 == 0) p = gen::box(p[0].x - size / 4, p[0].y - size / 4, p[0].x + size / 4, p[0].y + size / 4); }
    c.p64["M"] = M; c.seti("nm", nm); c.seti("jt", jt); c.seti("et", et); c.setd("miter", miter); c.setd("delta", d); c.seti("grouped", r.coin());
    std::vector<int> order; for (int m = 0; m < nm; ++m) order.push_back(m); r.shuffle(order); c.set("order", seq_str(order));
    judge(ctx, c, false);
  }
}
void vf_replay(Ctx& ctx, const Case& c) { judge(ctx, c, true); }
void vf_end(Ctx& ctx) { ctx.info("run_hash", "\"" + std::to_string(g_run_hash) + "\""); }
