// c08_corner.h — adversarial segments for the RectClip / RectClipLines monitors (C08, C09):
// a segment whose supporting line passes through a rectangle corner exactly, or misses it by a tiny fraction of a
// unit, with coordinate differences so large that the library's double-precision cross products
// (GetSegmentIntersection) are dominated by rounding. The property quantifies over all inputs up to 2^40, and
// "passing through corners" is named explicitly; these inputs are ordinary members of that space.
#ifndef VF_C08_CORNER_H
#define VF_C08_CORNER_H

#include "geom.h"

namespace vf { namespace c08 {

struct RBox { int64_t l, t, r, b; };

inline int64_t gcd64(int64_t a, int64_t b) { while (b) { int64_t t = a % b; a = b; b = t; } return a < 0 ? -a : a; }

// (u, v) with a*v - b*u == 1 for coprime a, b > 0 (|u| <= a, |v| <= b)
inline void bezout(int64_t a, int64_t b, int64_t& u, int64_t& v) {
  // extended Euclid on (a, b): a*x + b*y = 1  =>  v = x, u = -y
  int64_t r0 = a, r1 = b, x0 = 1, x1 = 0, y0 = 0, y1 = 1;
  while (r1 != 0) { int64_t q = r0 / r1, t;
    t = r0 - q * r1; r0 = r1; r1 = t; t = x0 - q * x1; x0 = x1; x1 = t; t = y0 - q * y1; y0 = y1; y1 = t; }
  v = x0; u = -y0;
}

// classifier predicate of the known defect "origin vertex": some segment of the path passes within one unit of a
// corner of R without passing through it exactly, and reaches at least 2^26 away from that corner (so that the
// library's double-precision cross products about the corner, of magnitude >= 2^53, are rounded)
inline bool passes_near_corner(const Path64& p, bool closed, const RBox& R) {
  size_t n = p.size(); if (n < 2) return false;
  size_t m = closed ? n : n - 1;
  const Point64 cs[4] = { Point64(R.l, R.t), Point64(R.r, R.t), Point64(R.r, R.b), Point64(R.l, R.b) };
  const int64_t far = (int64_t)1 << 26;
  auto absd = [](int64_t a, int64_t b) { return a > b ? a - b : b - a; };
  for (size_t i = 0; i < m; ++i) for (int k = 0; k < 4; ++k) {
    const Point64& a = p[i]; const Point64& b = p[(i + 1) % n]; const Point64& c = cs[k];
    if (cross(a, b, c) == 0) continue;
    if (std::max(std::max(absd(a.x, c.x), absd(a.y, c.y)), std::max(absd(b.x, c.x), absd(b.y, c.y))) < far) continue;
    if (dist_pt_seg(a, b, c) <= 1.0L) return true;
  }
  return false;
}

// Returns false when no room. On success p1 -> p2 passes the chosen corner of R: `into` = the line continues into the
// interior (otherwise it only grazes the corner), j1/j2 = lateral offsets in units of 1/|d| (0 = exactly through).
inline bool near_corner_segment(Rng& r, const RBox& R, int64_t lim, Point64& p1, Point64& p2, bool& into, int& offs) {
  bool rightc = r.coin(), bottomc = r.coin();
  const int64_t cx = rightc ? R.r : R.l, cy = bottomc ? R.b : R.t;
  int k = r.irange(1, 22);
  int64_t a = r.range(1, (int64_t)1 << k), b = r.range(1, (int64_t)1 << k);
  int64_t g = gcd64(a, b); a /= g; b /= g;
  int64_t u0, v0; bezout(a, b, u0, v0);
  int64_t sx = rightc ? 1 : -1, sy = bottomc ? -1 : 1;      // +d leaves through x, -d leaves through y: grazing
  into = r.chance(0.4);
  if (into) sy = -sy;                                        // +d leaves the rectangle diagonally, -d enters the interior
  const int64_t dx = sx * a, dy = sy * b, u = sy * u0, v = sx * v0;   // dx*v - dy*u == 1
  auto room = [&](int64_t c0, int64_t d) -> int64_t {       // largest m with |c0 + m*d| <= lim - 2^23
    int64_t L = lim - ((int64_t)1 << 23);
    if (d == 0) return L;
    int64_t ad = d < 0 ? -d : d;
    int64_t lo = d > 0 ? (L - c0) / ad : (L + c0) / ad;
    return lo;
  };
  int64_t m1max = std::min(room(cx, -dx), room(cy, -dy)), m2max = std::min(room(cx, dx), room(cy, dy));
  if (m1max < 1 || m2max < 1) return false;
  auto pickm = [&](int64_t mmax) -> int64_t {
    if (r.chance(0.6)) return std::max<int64_t>(1, (int64_t)(mmax * r.real(0.3, 1.0)));
    return r.range(1, mmax);
  };
  int64_t m1 = pickm(m1max), m2 = pickm(m2max);
  int j1 = r.chance(0.5) ? 0 : r.irange(-3, 3), j2 = r.chance(0.5) ? 0 : r.irange(-3, 3);
  offs = (j1 != 0 || j2 != 0) ? 1 : 0;
  p1 = Point64(cx - m1 * dx + j1 * u, cy - m1 * dy + j1 * v);
  p2 = Point64(cx + m2 * dx + j2 * u, cy + m2 * dy + j2 * v);
  if (r.coin()) std::swap(p1, p2);
  auto inr = [&](const Point64& p) { return p.x <= lim && p.x >= -lim && p.y <= lim && p.y >= -lim; };
  return inr(p1) && inr(p2);
}

} } // namespace vf::c08
#endif
