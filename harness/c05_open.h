// c05_open.h — helpers of the C05 monitor: exact general-position filter for mixed open/closed path sets and the
// exact kept-interval oracle for open subjects. Shares no code with the library (plain Point/Path typedefs only).
#ifndef VF_C05_OPEN_H
#define VF_C05_OPEN_H

#include "geom.h"

namespace vf { namespace c05 {

// ------------------------------------------------------------------ exact comparison of rationals (256-bit products)
struct U256 { u128 hi, lo; };
inline U256 mul128(u128 a, u128 b) {
  uint64_t a0 = (uint64_t)a, a1 = (uint64_t)(a >> 64), b0 = (uint64_t)b, b1 = (uint64_t)(b >> 64);
  u128 p00 = (u128)a0 * b0, p01 = (u128)a0 * b1, p10 = (u128)a1 * b0, p11 = (u128)a1 * b1;
  u128 mid = (p00 >> 64) + (u128)(uint64_t)p01 + (u128)(uint64_t)p10;
  U256 r;
  r.lo = (u128)(uint64_t)p00 | (mid << 64);
  r.hi = p11 + (p01 >> 64) + (p10 >> 64) + (mid >> 64);
  return r;
}
// sign of n1/d1 - n2/d2 for n >= 0, d > 0
inline int cmp_frac(i128 n1, i128 d1, i128 n2, i128 d2) {
  U256 l = mul128((u128)n1, (u128)d2), r = mul128((u128)n2, (u128)d1);
  if (l.hi != r.hi) return l.hi < r.hi ? -1 : 1;
  if (l.lo != r.lo) return l.lo < r.lo ? -1 : 1;
  return 0;
}

inline Path64 strip_dups_open(const Path64& p) {
  Path64 r;
  for (auto& pt : p) if (r.empty() || !(r.back() == pt)) r.push_back(pt);
  return r;
}
inline Paths64 strip_dups_open(const Paths64& pp) { Paths64 r; for (auto& p : pp) r.push_back(strip_dups_open(p)); return r; }

// ------------------------------------------------------------------ general position of a mixed set
// closed paths: >= 3 vertices, cyclic edges; open paths: >= 2 vertices, n-1 edges; no consecutive duplicates.
// (i) every vertex is >= need from every edge not incident to it (all paths, open and closed alike);
// (ii) every proper crossing of two edges is >= need from every third edge.
// need = base + 0.001 + M*2^-50. With relax_oo the requirements that involve ONLY open edges (open vertex vs
// open edge; the open-open crossing vs a third OPEN edge) are dropped; anything involving a closed edge stays.
struct MixedStats { long long cross_oc = 0, cross_oo = 0, cross_cc = 0; };
struct MEdge { Point64 a, b; size_t path, idx, n; bool closed; };

inline bool collect_edges(const Paths64& closed, const Paths64& open, std::vector<MEdge>& es) {
  size_t pid = 0;
  for (const Path64& p : closed) {
    size_t n = p.size();
    if (n < 3) return false;
    for (size_t i = 0; i < n; ++i) {
      if (p[i] == p[(i + 1) % n]) return false;
      es.push_back(MEdge{ p[i], p[(i + 1) % n], pid, i, n, true });
    }
    ++pid;
  }
  for (const Path64& p : open) {
    size_t n = p.size();
    if (n < 2) return false;
    for (size_t i = 0; i + 1 < n; ++i) {
      if (p[i] == p[i + 1]) return false;
      es.push_back(MEdge{ p[i], p[i + 1], pid, i, n, false });
    }
    ++pid;
  }
  return true;
}

inline bool mixed_general_position(const Paths64& closed, const Paths64& open, int64_t M, MixedStats* st = nullptr,
                                   bool relax_oo = false, ld base = 3.0L) {
  std::vector<MEdge> es;
  if (!collect_edges(closed, open, es)) return false;
  const ld need = base + 0.001L + ldexpl((ld)M, -50);
  // (i) vertices vs non-incident edges
  size_t pid = 0;
  for (int pass = 0; pass < 2; ++pass) {
    const Paths64& pp = pass == 0 ? closed : open;
    bool vclosed = pass == 0;
    for (const Path64& p : pp) {
      size_t n = p.size();
      for (size_t i = 0; i < n; ++i) {
        for (const MEdge& e : es) {
          if (e.path == pid && (e.idx == i || (e.idx + 1) % e.n == i)) continue;
          if (relax_oo && !vclosed && !e.closed) continue;
          int64_t lox = std::min(e.a.x, e.b.x), hix = std::max(e.a.x, e.b.x);
          int64_t loy = std::min(e.a.y, e.b.y), hiy = std::max(e.a.y, e.b.y);
          ld nd = need + 1;
          if ((ld)p[i].x < (ld)lox - nd || (ld)p[i].x > (ld)hix + nd || (ld)p[i].y < (ld)loy - nd || (ld)p[i].y > (ld)hiy + nd) continue;
          if (dist_pt_seg(e.a, e.b, p[i]) < need) return false;
        }
      }
      ++pid;
    }
  }
  // (ii) crossings vs third edges
  for (size_t i = 0; i < es.size(); ++i)
    for (size_t j = i + 1; j < es.size(); ++j) {
      const MEdge& e = es[i]; const MEdge& f = es[j];
      if (std::max(e.a.x, e.b.x) < std::min(f.a.x, f.b.x) || std::max(f.a.x, f.b.x) < std::min(e.a.x, e.b.x) ||
          std::max(e.a.y, e.b.y) < std::min(f.a.y, f.b.y) || std::max(f.a.y, f.b.y) < std::min(e.a.y, e.b.y)) continue;
      if (!proper_cross(e.a, e.b, f.a, f.b)) continue;
      if (st) { if (e.closed && f.closed) st->cross_cc++; else if (!e.closed && !f.closed) st->cross_oo++; else st->cross_oc++; }
      PtL x = line_cross(e.a, e.b, f.a, f.b);
      bool both_open = !e.closed && !f.closed;
      for (size_t k = 0; k < es.size(); ++k) {
        if (k == i || k == j) continue;
        if (relax_oo && both_open && !es[k].closed) continue;
        if (dist_ptl_seg(es[k].a, es[k].b, x) < need) return false;
      }
    }
  return true;
}

// Allowance classifier for the known deviation "cut displaced along a shallow crossing": the engine's cut point
// stays within about a unit of BOTH lines, which along the open path is 1/sine(crossing angle) units.
inline ld shallow_allowance(ld sine) { return std::max<ld>(3.0L, 1.5L / std::max<ld>(sine, 1e-12L)); }

// ------------------------------------------------------------------ the kept-interval oracle
// Region that decides membership of a point of an open subject (property text; IsContributingOpen agrees):
//   Intersection: inside clip region; Difference, Xor: outside clip region; Union: outside subject AND clip regions.
inline bool member(int wS, int wC, int ct, int fr) {
  bool inS = filled(wS, fr), inC = filled(wC, fr);
  if (ct == CT_INTERSECTION) return inC;
  if (ct == CT_UNION) return !inS && !inC;
  return !inC;
}

struct Interval {          // one sub-interval of one open segment between consecutive crossings with relevant edges
  size_t path, seg;
  ld t0, t1;               // parameters on the segment
  ld arc0, arc1;           // arc-length positions on the path
  bool in;                 // membership (exact)
  size_t run;              // index into runs (kept only), else npos
  ld sin_lo, sin_hi;       // |sine| of the crossing angle at either end (1 at a path vertex)
};
struct Run {               // maximal kept stretch of one open path
  size_t path; ld arc0, arc1; bool cut0, cut1;   // cutX: that end is a membership change (not a path end)
  ld sin0, sin1;                                 // |sine| of the crossing angle at a cut end
};
struct KeptPoint { PtL p; size_t run; ld arc; };
struct Cut {               // a crossing at which membership changes
  PtL p; ld sin_angle;     // position, |sine| of the angle between the open segment and the closed edge
  size_t path, seg; Point64 c, d; ld arc;
};

struct Expect {
  std::vector<Interval> iv;
  std::vector<Run> runs;
  std::vector<KeptPoint> pts;      // midpoints and thirds of every kept sub-interval
  std::vector<Cut> cutlist;        // one entry per cut
  ld kept_len = 0, total_len = 0;
  long long cuts = 0;              // sub-interval boundaries where membership changes
  long long crossings = 0;         // proper crossings of open segments with relevant closed edges
  long long segments = 0;
  bool selfcheck_ok = true;        // accumulated winding == direct winding at every open vertex
  bool degenerate_contact = false; // an open segment touches a relevant closed edge without properly crossing it
};

// S, C closed (as given), O open paths without consecutive duplicates and >= 2 points each.
inline Expect expected_open(const Paths64& S, const Paths64& C, const Paths64& O, int ct, int fr) {
  Expect ex;
  const bool useS = ct == CT_UNION;
  struct X { i128 num, den; ld t; int which; int delta; Point64 c, d; ld sine; };
  for (size_t pi = 0; pi < O.size(); ++pi) {
    const Path64& p = O[pi];
    if (p.size() < 2) continue;
    int wS = useS ? winding(S, p[0]) : 0, wC = winding(C, p[0]);
    ld arc = 0;
    size_t first_iv = ex.iv.size();
    for (size_t si = 0; si + 1 < p.size(); ++si) {
      const Point64& a = p[si]; const Point64& b = p[si + 1];
      ++ex.segments;
      ld len = sqrtl(to_ld(dist2(a, b)));
      std::vector<X> xs;
      for (int which = useS ? 0 : 1; which < 2; ++which) {
        const Paths64& pp = which == 0 ? S : C;
        for (const Path64& q : pp) {
          size_t n = q.size(); if (n < 2) continue;
          for (size_t k = 0; k < n; ++k) {
            const Point64& c = q[k]; const Point64& d = q[(k + 1) % n];
            if (c == d) continue;
            if (std::max(a.x, b.x) < std::min(c.x, d.x) || std::max(c.x, d.x) < std::min(a.x, b.x) ||
                std::max(a.y, b.y) < std::min(c.y, d.y) || std::max(c.y, d.y) < std::min(a.y, b.y)) continue;
            i128 fa = cross(c, d, a), fb = cross(c, d, b);
            int oa = sgn(fa), ob = sgn(fb), oc = orient(a, b, c), od = orient(a, b, d);
            if (oa * ob < 0 && oc * od < 0) {
              X x; x.num = fa; x.den = fa - fb;
              if (x.den < 0) { x.num = -x.num; x.den = -x.den; }
              x.t = to_ld(x.num) / to_ld(x.den);
              x.which = which; x.c = c; x.d = d;
              { i128 cr = (i128)(b.x - a.x) * (i128)(d.y - c.y) - (i128)(b.y - a.y) * (i128)(d.x - c.x);
                x.sine = fabsl(to_ld(cr)) / (len * sqrtl(to_ld(dist2(c, d)))); }
              x.delta = oa > 0 ? -1 : +1;    // a on the left of c->d: leaving the left side lowers the winding number
              xs.push_back(x);
            } else if (segs_touch(a, b, c, d)) ex.degenerate_contact = true;
          }
        }
      }
      std::sort(xs.begin(), xs.end(), [](const X& l, const X& r) { return cmp_frac(l.num, l.den, r.num, r.den) < 0; });
      ex.crossings += (long long)xs.size();
      ld t0 = 0;
      for (size_t k = 0; k <= xs.size(); ++k) {
        ld t1 = k < xs.size() ? xs[k].t : 1.0L;
        Interval iv; iv.path = pi; iv.seg = si; iv.t0 = t0; iv.t1 = t1;
        iv.arc0 = arc + t0 * len; iv.arc1 = arc + t1 * len;
        iv.in = member(wS, wC, ct, fr); iv.run = (size_t)-1;
        iv.sin_lo = k > 0 ? xs[k - 1].sine : 1.0L; iv.sin_hi = k < xs.size() ? xs[k].sine : 1.0L;
        ex.iv.push_back(iv);
        if (k < xs.size()) {
          bool before = iv.in;
          if (xs[k].which == 0) wS += xs[k].delta; else wC += xs[k].delta;
          if (member(wS, wC, ct, fr) != before) {
            Cut cu; cu.p = PtL{ (ld)a.x + t1 * ((ld)b.x - (ld)a.x), (ld)a.y + t1 * ((ld)b.y - (ld)a.y) };
            cu.sin_angle = xs[k].sine;
            cu.path = pi; cu.seg = si; cu.c = xs[k].c; cu.d = xs[k].d; cu.arc = arc + t1 * len;
            ex.cutlist.push_back(cu);
          }
        }
        t0 = t1;
      }
      arc += len;
      // self-check of the incremental winding numbers at the (integer) end vertex of the segment
      if ((useS && wS != winding(S, b)) || wC != winding(C, b)) ex.selfcheck_ok = false;
    }
    ex.total_len += arc;
    // runs, cuts, kept length, sample points for this path
    for (size_t k = first_iv; k < ex.iv.size(); ++k) {
      Interval& iv = ex.iv[k];
      if (k > first_iv && ex.iv[k - 1].in != iv.in) ++ex.cuts;
      if (!iv.in) continue;
      ex.kept_len += iv.arc1 - iv.arc0;
      if (k > first_iv && ex.iv[k - 1].in) { iv.run = ex.iv[k - 1].run; ex.runs[iv.run].arc1 = iv.arc1; }
      else { iv.run = ex.runs.size(); ex.runs.push_back(Run{ pi, iv.arc0, iv.arc1, k > first_iv, false, iv.sin_lo, 1.0L }); }
      ex.runs[iv.run].cut1 = (k + 1 < ex.iv.size()) && !ex.iv[k + 1].in;   // stays false at the path end
      ex.runs[iv.run].sin1 = iv.sin_hi;
      const Point64& a = p[iv.seg]; const Point64& b = p[iv.seg + 1];
      const ld fr3[3] = { 0.5L, 1.0L / 3, 2.0L / 3 };
      for (ld f : fr3) {
        ld t = iv.t0 + f * (iv.t1 - iv.t0);
        KeptPoint kp; kp.p = PtL{ (ld)a.x + t * ((ld)b.x - (ld)a.x), (ld)a.y + t * ((ld)b.y - (ld)a.y) };
        kp.run = iv.run; kp.arc = iv.arc0 + f * (iv.arc1 - iv.arc0);
        ex.pts.push_back(kp);
      }
    }
  }
  return ex;
}

inline ld open_length(const Paths64& pp) {
  ld s = 0;
  for (auto& p : pp) for (size_t i = 0; i + 1 < p.size(); ++i) s += sqrtl(to_ld(dist2(p[i], p[i + 1])));
  return s;
}

// distance from a long-double point to a set of open paths (1-point paths count as points)
inline ld dist_ptl_open(const Paths64& pp, const PtL& q) {
  ld best = std::numeric_limits<ld>::infinity();
  for (auto& p : pp) {
    if (p.size() == 1) { ld dx = q.x - (ld)p[0].x, dy = q.y - (ld)p[0].y; best = std::min(best, sqrtl(dx * dx + dy * dy)); }
    for (size_t i = 0; i + 1 < p.size(); ++i) best = std::min(best, dist_ptl_seg(p[i], p[i + 1], q));
  }
  return best;
}

} } // namespace vf::c05
#endif
