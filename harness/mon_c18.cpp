// mon_c18 — C18: geometric predicates are exact and measurements accurate.
// Ground truth is __int128 / unsigned __int128 / rational arithmetic written here; nothing of the library is used to
// judge the library. One "case" is a bundle of elementary items of one kind (so that the per-case overhead and the
// distinct-case bookkeeping stay small); every library call is counted (ctx.evaluated, counters "*_calls").
//
//   kind   items (stored in the Case)                       library calls judged per item
//   mul    T: 1-point paths (a,b) = uint64 bit patterns     Multiply(a,b)
//   pae    T: 2-point paths (a,b),(c,d)                     ProductsAreEqual(a,b,c,d)
//   tri    T: 3-point paths p1,p2,p3                        CrossProductSign(p1,p2,p3), IsCollinear(p1,p2,p3)
//   pip    POLY: polygons, Q: query points of POLY[i] in Q[i] PointInPolygon(q, poly) per query point
//   isect  SEG: 4-point paths a,b,c,d                       GetSegmentIntersectPt(a,b,c,d,ip)
//   area   PATHS: a list of paths                           Area(path) per path, Area(paths)
//
// --mode grid : indexable exhaustive enumeration (22^4 ProductsAreEqual tuples, T^6 point triples, Multiply pairs,
//               all 3- and 4-vertex polygons of a 4x4 lattice against a 9x9 query lattice);
// --mode rand : random + adversarial bundles, kinds chosen by --kinds.
//
// Claims (each a consequence of the property text):
//   C18.multiply               Multiply(a,b) == (unsigned __int128)a*b
//   C18.products_equal         ProductsAreEqual(a,b,c,d) == (a*b == c*d), all int64 arguments
//   C18.cross_sign             CrossProductSign == sign((p2-p1)x(p3-p2)), premise: the four differences are representable
//   C18.is_collinear           IsCollinear == (that cross product == 0), same premise
//   C18.point_in_polygon       == exact {on, inside by even-odd, outside}; |coord| <= 2^25, >= 3 points, not all on one horizontal line
//   C18.isect_parallel         GetSegmentIntersectPt returns false iff the exact determinant is 0; |coord| <= 2^40
//   C18.isect_accuracy         crossing on both closed segments: |ip - crossing| <= 1 on each axis (exact rational test)
//   C18.isect_on_first_segment same premise: ip inside the bounding box of the first segment and |cross(a,b,ip)| <= |dx|+|dy|
//                              (DESIGN.md's |cross| <= max(|dx|,|dy|) is NOT implied by "within one unit per axis": the
//                              truncating default variant legitimately exceeds it on ~3% of the calls; corrected here)
//   C18.area                   |2*Area - exact doubled shoelace| <= (n+2)*2^-52*sum|term|; Area(paths) accordingly
// Classifier tags of the genuine GetSegmentIntersectPt defects seen on the unchanged tree (first tag of the violation):
//   det_below_double_ulp, ill_conditioned, trunc_plus_rounding, trunc_plus_rounding_M_le_2^35,
//   rounding_amplified_by_conditioning, hp_one_unit_outside_bounding_box   (definitions at the place of use)
#include "geom.h"
#include "wrap.h"
#include "clipper2/clipper.core.h"
#include <cmath>

using namespace vf;
using namespace Clipper2Lib;

// the branch of ProductsAreEqual / CrossProductSign that the library header compiled in THIS translation unit
#if (defined(__clang__) || defined(__GNUC__)) && UINTPTR_MAX >= UINT64_MAX
#define C18_BRANCH "int128"
#ifdef VF_PORTABLE_BRANCH
#error "portable prelude active but the library condition still selects the __int128 branch"
#endif
#else
#define C18_BRANCH "portable"
#endif
#if CLIPPER2_HI_PRECISION
#define C18_ISECT "hp"
#else
#define C18_ISECT "default"
#endif

// ------------------------------------------------------------------------------------------------ small helpers
static const int64_t I64MAX = INT64_MAX, I64MIN = INT64_MIN;
static inline i128 abs128(i128 v) { return v < 0 ? -v : v; }
static std::string s128(i128 v) {
  if (v == 0) return "0";
  bool neg = v < 0; u128 u = neg ? (u128)0 - (u128)v : (u128)v; std::string s;
  while (u) { s += (char)('0' + (int)(u % 10)); u /= 10; }
  if (neg) s += '-';
  std::reverse(s.begin(), s.end()); return s;
}
static std::string su64(uint64_t v) { return std::to_string((unsigned long long)v); }
static std::string spt(const Point64& p) { return "(" + std::to_string(p.x) + "," + std::to_string(p.y) + ")"; }
static inline int64_t iabs64(int64_t v) { return v < 0 ? -v : v; }
static int64_t gcd64(int64_t a, int64_t b) { a = iabs64(a); b = iabs64(b); while (b) { int64_t t = a % b; a = b; b = t; } return a; }
static int bitlen(i128 v) { v = abs128(v); int n = 0; while (v) { ++n; v >>= 1; } return n; }

// value with at most `bits` magnitude bits (0..63), random sign
static int64_t rbits(Rng& r, int bits) {
  if (bits <= 0) return 0;
  if (bits > 63) bits = 63;
  uint64_t m = (bits == 63) ? 0x7FFFFFFFFFFFFFFFull : ((1ull << bits) - 1);
  int64_t v = (int64_t)(r.next() & m);
  return r.coin() ? v : -v;
}
// value with exactly `bits` magnitude bits (top bit set), random sign; bits in 1..63
static int64_t rexact(Rng& r, int bits) {
  if (bits <= 0) return 0;
  if (bits > 63) bits = 63;
  uint64_t top = 1ull << (bits - 1);
  int64_t v = (int64_t)(top | (r.next() & (top - 1)));
  return r.coin() ? v : -v;
}
static int64_t clampi(int64_t v, int64_t lo, int64_t hi) { return v < lo ? lo : (v > hi ? hi : v); }

static Case reduced(const Case& c, const std::string& key, const Path64& item) {
  Case r; r.kv = c.kv; r.kv.erase("bundle"); r.p64[key] = Paths64(1, item); return r;
}


// Violations are logged at most kLogCap times per (claim, tags) signature and process; further ones are only counted
// (known findings are matched by claim + tag, so more lines of the same signature add nothing but log volume).
static const int kLogCap = 25;
static void vio(Ctx& ctx, const std::string& claim, const std::vector<std::string>& tags, const Case& w, const std::string& detail) {
  static std::map<std::string, int> seen;
  std::string sig = claim; for (auto& t : tags) sig += "|" + t;
  ctx.count("violating_items_" + claim.substr(4) + "_" + (tags.empty() ? std::string("untagged") : tags[0]));
  if (++seen[sig] > kLogCap) { ctx.count("violations_counted_but_not_logged_beyond_cap"); return; }
  // vf.h writes at most 8 witness files per claim; make sure that the first two violations of every class
  // (claim + first tag) have a replayable witness even when a frequent known class used up that allowance
  static std::map<std::string, int> cls_seen;
  int save = ctx.max_witness_per_claim;
  if (++cls_seen[claim + "|" + (tags.empty() ? std::string() : tags[0])] <= 2) ctx.max_witness_per_claim = 1 << 30;
  ctx.violation(claim, tags, w, detail);
  ctx.max_witness_per_claim = save;
}

// ------------------------------------------------------------------------------------------------ boundary grids
static const int64_t P31 = 1ll << 31, P32 = 1ll << 32, P61 = 1ll << 61, P62 = 1ll << 62;
static const int64_t kB22[22] = { 0, 1, -1, 2, -2, P31 - 1, -(P31 - 1), P31, -P31, P31 + 1, -(P31 + 1), P32, -P32,
                                  P61, -P61, P62 - 1, -(P62 - 1), P62, -P62, I64MAX, -I64MAX, I64MIN };
// coordinate values for the point-triple grid: the first --tset of them are used (8 = DESIGN.md's subset;
// from 9 values on some differences overflow and are rejected by the premise filter)
static const int64_t kT12[12] = { 0, 1, -1, P31, -(P31 + 1), P61, -P62, P62 - 1, P62, -P32, 2, P31 - 1 };
static const uint64_t kMulGrid[] = {
  0ull, 1ull, 2ull, 3ull, 0xFFFFull, 0x10000ull, 0x7FFFFFFFull, 0x80000000ull, 0x80000001ull, 0xFFFFFFFEull, 0xFFFFFFFFull,
  0x100000000ull, 0x100000001ull, 0x1FFFFFFFEull, 0x1FFFFFFFFull, 0x7FFFFFFF00000000ull, 0x7FFFFFFF7FFFFFFFull,
  0x7FFFFFFFFFFFFFFFull, 0x8000000000000000ull, 0x8000000000000001ull, 0x8000000080000000ull, 0x80000000FFFFFFFFull,
  0xFFFFFFFF00000000ull, 0xFFFFFFFF00000001ull, 0xFFFFFFFF80000000ull, 0xFFFFFFFEFFFFFFFFull, 0xFFFFFFFFFFFFFFFEull,
  0xFFFFFFFFFFFFFFFFull, 0xAAAAAAAAAAAAAAAAull, 0x5555555555555555ull, 0x0123456789ABCDEFull, 0xFEDCBA9876543210ull,
  0x2000000000000000ull, 0x4000000000000000ull, 0x3FFFFFFFFFFFFFFFull, 0x00000001FFFFFFFFull << 31, 0xFFFFFFFFull << 16,
  0x100000000ull - 0x10000ull, 0xFFFF0000FFFF0000ull, 0x0000FFFF0000FFFFull };
static const size_t kMulGridN = sizeof(kMulGrid) / sizeof(kMulGrid[0]);
static const uint64_t kChunk = 1024;

static const uint64_t kPipChunk = 64;   // polygons per chunk of the exhaustive PointInPolygon scope
struct GridLayout { uint64_t npae, ntri, nmul, npip, cpae, ctri, cmul, cpip; int tset; uint64_t chunks() const { return cpae + ctri + cmul + cpip; } };
static GridLayout grid_layout(int tset) {
  GridLayout g; g.tset = tset;
  g.npae = 22ull * 22 * 22 * 22;
  g.ntri = 1; for (int i = 0; i < 6; ++i) g.ntri *= (uint64_t)tset;
  g.nmul = kMulGridN * kMulGridN;
  g.npip = 16ull * 16 * 16 + 16ull * 16 * 16 * 16;   // all 3- and 4-vertex sequences on a 4x4 lattice
  g.cpae = (g.npae + kChunk - 1) / kChunk; g.ctri = (g.ntri + kChunk - 1) / kChunk; g.cmul = (g.nmul + kChunk - 1) / kChunk;
  g.cpip = (g.npip + kPipChunk - 1) / kPipChunk;
  return g;
}

// ================================================================================================ judges
// ---- Multiply
static void judge_mul(Ctx& ctx, const Case& c, bool from_replay) {
  const Paths64& T = c.P("T");
  long long calls = 0, hi_nonzero = 0, carry_heavy = 0;
  ctx.begin(c);
  for (const Path64& it : T) {
    if (it.size() != 1) continue;
    uint64_t a = (uint64_t)it[0].x, b = (uint64_t)it[0].y;
    UInt128Struct r = Multiply(a, b);
    u128 t = (u128)a * (u128)b;
    uint64_t tlo = (uint64_t)t, thi = (uint64_t)(t >> 64);
    ++calls;
    if (thi) ++hi_nonzero;
    if ((a >> 32) && (b >> 32) && (a & 0xFFFFFFFFull) && (b & 0xFFFFFFFFull)) ++carry_heavy;
    if (r.lo != tlo || r.hi != thi) {
      ctx.evaluated(calls);
      vio(ctx, "C18.multiply", { r.hi != thi ? (r.lo != tlo ? "lo_and_hi_wrong" : "hi_wrong") : "lo_wrong" }, reduced(c, "T", it),
        "Multiply(" + su64(a) + "," + su64(b) + ") = {lo " + su64(r.lo) + ", hi " + su64(r.hi) + "} exact {lo " + su64(tlo) + ", hi " + su64(thi) + "}");
      return;
    }
  }
  ctx.evaluated(calls);
  ctx.count("mul_calls", calls);
  ctx.count("mul_calls_hi_word_nonzero", hi_nonzero);
  ctx.count("mul_calls_all_four_partial_products", carry_heavy);
  if (!from_replay) ctx.note_case(c, hi_nonzero > 0 && carry_heavy > 0);
}

// ---- ProductsAreEqual
static void judge_pae(Ctx& ctx, const Case& c, bool from_replay) {
  const Paths64& T = c.P("T");
  long long calls = 0, eq = 0, eq_big = 0, neq_same_lo = 0, neq_same_hi = 0, neq_neg = 0, minarg = 0, zero_prod = 0;
  ctx.begin(c);
  for (const Path64& it : T) {
    if (it.size() != 2) continue;
    int64_t a = it[0].x, b = it[0].y, cc = it[1].x, d = it[1].y;
    i128 ab = (i128)a * (i128)b, cd = (i128)cc * (i128)d;
    bool truth = ab == cd;
    bool got = ProductsAreEqual(a, b, cc, d);
    ++calls;
    bool hasmin = a == I64MIN || b == I64MIN || cc == I64MIN || d == I64MIN;
    if (hasmin) ++minarg;
    if (truth) { ++eq; if (abs128(ab) >> 64) ++eq_big; if (ab == 0) ++zero_prod; }
    else {
      if ((uint64_t)(u128)abs128(ab) == (uint64_t)(u128)abs128(cd)) ++neq_same_lo;
      if ((uint64_t)((u128)abs128(ab) >> 64) == (uint64_t)((u128)abs128(cd) >> 64)) ++neq_same_hi;
      if (ab == -cd) ++neq_neg;
    }
    if (got != truth) {
      std::vector<std::string> tags = { got ? "reported_equal_but_differ" : "reported_unequal_but_equal", std::string("branch_") + C18_BRANCH };
      if (hasmin) tags.push_back("int64_min_argument");
      ctx.evaluated(calls);
      vio(ctx, "C18.products_equal", tags, reduced(c, "T", it),
        "ProductsAreEqual(" + std::to_string(a) + "," + std::to_string(b) + "," + std::to_string(cc) + "," + std::to_string(d) + ") = " +
        (got ? "true" : "false") + " but a*b = " + s128(ab) + ", c*d = " + s128(cd));
      return;
    }
  }
  ctx.evaluated(calls);
  ctx.count("pae_calls", calls);
  ctx.count(std::string("pae_calls_branch_") + C18_BRANCH, calls);
  ctx.count("pae_truth_equal", eq);
  ctx.count("pae_truth_equal_product_over_64_bits", eq_big);
  ctx.count("pae_truth_equal_zero_product", zero_prod);
  ctx.count("pae_truth_unequal_same_low_word", neq_same_lo);
  ctx.count("pae_truth_unequal_same_high_word", neq_same_hi);
  ctx.count("pae_truth_unequal_negated", neq_neg);
  ctx.count("pae_calls_with_int64_min_argument", minarg);
  if (!from_replay) ctx.note_case(c, eq > 0 && eq < calls);
}

// ---- CrossProductSign / IsCollinear
static void judge_tri(Ctx& ctx, const Case& c, bool from_replay) {
  const Paths64& T = c.P("T");
  long long calls = 0, rejected = 0, sgn_n[3] = { 0, 0, 0 }, big = 0, triples = 0;
  const i128 lim = (i128)I64MAX;
  ctx.begin(c);
  for (const Path64& it : T) {
    if (it.size() != 3) continue;
    const Point64& p1 = it[0]; const Point64& p2 = it[1]; const Point64& p3 = it[2];
    // the four differences the predicates are defined on; premise: representable, and not INT64_MIN (the portable
    // branch takes std::abs of them)
    i128 a = (i128)p2.x - p1.x, b = (i128)p3.y - p2.y, cc = (i128)p2.y - p1.y, d = (i128)p3.x - p2.x;
    if (abs128(a) > lim || abs128(b) > lim || abs128(cc) > lim || abs128(d) > lim) { ++rejected; continue; }
    i128 ab = a * b, cd = cc * d;                 // |.| < 2^126 each: exact
    int truth = (ab > cd) - (ab < cd);
    ++triples;
    ++sgn_n[truth + 1];
    if ((abs128(ab) >> 64) || (abs128(cd) >> 64)) ++big;
    int got = CrossProductSign(p1, p2, p3);
    ++calls;
    if (got != truth) {
      ctx.evaluated(calls);
      vio(ctx, "C18.cross_sign", { "expected_" + std::to_string(truth) + "_got_" + std::to_string(got), std::string("branch_") + C18_BRANCH },
        reduced(c, "T", it), "CrossProductSign(" + spt(p1) + "," + spt(p2) + "," + spt(p3) + ") = " + std::to_string(got) +
        " but (p2-p1)x(p3-p2): a*b = " + s128(ab) + ", c*d = " + s128(cd));
      return;
    }
    bool col = IsCollinear(p1, p2, p3);
    ++calls;
    if (col != (truth == 0)) {
      ctx.evaluated(calls);
      vio(ctx, "C18.is_collinear", { col ? "reported_collinear_but_not" : "reported_not_collinear_but_is", std::string("branch_") + C18_BRANCH },
        reduced(c, "T", it), "IsCollinear(" + spt(p1) + "," + spt(p2) + "," + spt(p3) + ") = " + (col ? "true" : "false") +
        " but a*b = " + s128(ab) + ", c*d = " + s128(cd));
      return;
    }
  }
  ctx.evaluated(calls);
  ctx.count("tri_calls", calls);
  ctx.count(std::string("tri_calls_branch_") + C18_BRANCH, calls);
  ctx.count("tri_triples_judged", triples);
  ctx.count("tri_rejected_difference_overflow", rejected);
  ctx.count("tri_truth_negative", sgn_n[0]);
  ctx.count("tri_truth_collinear", sgn_n[1]);
  ctx.count("tri_truth_positive", sgn_n[2]);
  ctx.count("tri_products_over_64_bits", big);
  if (!from_replay) ctx.note_case(c, sgn_n[1] > 0 && (sgn_n[0] > 0 || sgn_n[2] > 0));
}

// ---- PointInPolygon
enum { PIP_ON = 0, PIP_IN = 1, PIP_OUT = 2 };
static const char* kPipName[3] = { "on", "inside", "outside" };
static int pip_exact(const Path64& poly, const Point64& q) {
  size_t n = poly.size();
  bool inside = false;
  for (size_t i = 0; i < n; ++i) {
    const Point64& a = poly[i]; const Point64& b = poly[(i + 1) % n];
    i128 cr = (i128)(b.x - a.x) * (i128)(q.y - a.y) - (i128)(b.y - a.y) * (i128)(q.x - a.x);
    if (cr == 0 && std::min(a.x, b.x) <= q.x && q.x <= std::max(a.x, b.x) && std::min(a.y, b.y) <= q.y && q.y <= std::max(a.y, b.y))
      return PIP_ON;                                        // q on the closed edge ab (also the zero-length edge a==b==q)
    if ((a.y > q.y) != (b.y > q.y)) {                       // half-open rule: the edge crosses the line y = q.y
      bool right = (b.y > a.y) ? (cr > 0) : (cr < 0);       // ... strictly to the right of q
      if (right) inside = !inside;
    }
  }
  return inside ? PIP_IN : PIP_OUT;
}
static void judge_pip(Ctx& ctx, const Case& c, bool from_replay) {
  // POLY[i] is judged against the query points Q[i]
  const Paths64& PP = c.P("POLY"); const Paths64& QQ = c.P("Q");
  if (PP.size() != QQ.size()) return;
  const int64_t LIM = 1ll << 25;
  long long calls = 0, cls[3] = { 0, 0, 0 }, polys = 0;
  ctx.begin(c);
  for (size_t pi = 0; pi < PP.size(); ++pi) {
    const Path64& poly = PP[pi]; const Path64& Q = QQ[pi];
    // premises: >= 3 points, not contained in one horizontal line, |coord| <= 2^25
    bool horiz = true; for (auto& p : poly) if (p.y != poly[0].y) horiz = false;
    if (poly.size() < 3 || horiz) { ctx.count("pip_polygons_rejected_fewer_than_3_or_horizontal"); continue; }
    Paths64 both(1, poly); both.push_back(Q);
    if (max_abs_coord(both) > LIM) { ctx.count("pip_polygons_rejected_range"); continue; }
    ++polys;
    for (const Point64& q : Q) {
      int truth = pip_exact(poly, q);
      PointInPolygonResult r = PointInPolygon(q, poly);
      int got = r == PointInPolygonResult::IsOn ? PIP_ON : (r == PointInPolygonResult::IsInside ? PIP_IN : PIP_OUT);
      ++calls; ++cls[truth];
      if (got != truth) {
        Case w; w.kv = c.kv; w.kv.erase("bundle"); w.p64["POLY"] = Paths64(1, poly); w.p64["Q"] = Paths64(1, Path64(1, q));
        ctx.evaluated(calls);
        vio(ctx, "C18.point_in_polygon", { std::string("expected_") + kPipName[truth] + "_got_" + kPipName[got] }, w,
          "PointInPolygon(" + spt(q) + ") = " + kPipName[got] + " but the exact even-odd/on-edge test says " + kPipName[truth] +
          " (polygon of " + std::to_string(poly.size()) + " points)");
        return;
      }
    }
  }
  ctx.evaluated(calls);
  ctx.count("pip_calls", calls);
  ctx.count("pip_polygons", polys);
  ctx.count("pip_truth_on", cls[0]); ctx.count("pip_truth_inside", cls[1]); ctx.count("pip_truth_outside", cls[2]);
  if (!from_replay) ctx.note_case(c, (cls[0] > 0) + (cls[1] > 0) + (cls[2] > 0) >= 2);
}

// ---- GetSegmentIntersectPt
static const int kIsectMag[] = { 4, 8, 16, 20, 25, 26, 30, 35, 38, 40 };
static const int kIsectMagN = 10;
static int mag_class(int64_t M) { int bl = bitlen((i128)(M > 0 ? M - 1 : 0)); for (int i = 0; i < kIsectMagN; ++i) if (bl <= kIsectMag[i]) return kIsectMag[i]; return 99; }

static void judge_isect(Ctx& ctx, const Case& c, bool from_replay) {
  const Paths64& SS = c.P("SEG");
  const int64_t LIM = 1ll << 40;
  long long calls = 0, parallel = 0, judged_proper = 0, judged_touch = 0, notcross = 0, rejected = 0, exact_ip = 0;
  std::map<std::string, long long> mx;   // max error per class (micro-units)
  std::map<std::string, long long> hist;
  // The items of a bundle are independent; genuine (known) defect classes are frequent at large magnitudes, so a
  // violating item must not hide the rest of the bundle: every item is judged, and one violation is reported per
  // distinct (claim, tags) signature and bundle.
  std::unordered_set<std::string> reported;
  long long nviol = 0;
  auto report = [&](const std::string& claim, const std::vector<std::string>& tags, const Path64& it, const std::string& detail) {
    std::string sig = claim; for (auto& t : tags) sig += "|" + t;
    ++nviol;
    if (!reported.insert(sig).second) return;
    vio(ctx, claim, tags, reduced(c, "SEG", it), detail);
  };
  ctx.begin(c);
  for (const Path64& it : SS) {
    if (it.size() != 4) continue;
    const Point64& a = it[0]; const Point64& b = it[1]; const Point64& cpt = it[2]; const Point64& d = it[3];
    int64_t M = max_abs_coord(Paths64(1, it));
    if (M > LIM) { ++rejected; continue; }
    int64_t d1x = b.x - a.x, d1y = b.y - a.y, d2x = d.x - cpt.x, d2y = d.y - cpt.y, wx = cpt.x - a.x, wy = cpt.y - a.y;
    i128 det = (i128)d1x * d2y - (i128)d1y * d2x;        // |.| <= 2^83
    i128 tn = (i128)wx * d2y - (i128)wy * d2x;           // crossing = a + (tn/det) d1 = c + (un/det) d2
    i128 un = (i128)wx * d1y - (i128)wy * d1x;
    Point64 ip(I64MIN, I64MIN);
    bool ret = GetSegmentIntersectPt(a, b, cpt, d, ip);
    ++calls;
    int mc = mag_class(M);
    std::string mcs = "M2^" + std::to_string(mc);
    // (1) parallelism reported exactly
    if (ret != (det != 0)) {
      std::vector<std::string> tags;
      if (!ret) {
        // narrow class: the exact determinant is non-zero but smaller than one unit in the last place of the two
        // products whose difference the library evaluates in double
        i128 p1 = abs128((i128)d1y * d2x), p2 = abs128((i128)d2y * d1x);
        ld big = to_ld(std::max(p1, p2));
        tags.push_back(to_ld(abs128(det)) <= ldexpl(big, -52) ? "det_below_double_ulp" : "reported_parallel_but_not");
      } else tags.push_back("reported_crossing_but_parallel");
      tags.push_back(std::string("variant_") + C18_ISECT);
      tags.push_back(mcs);
      report("C18.isect_parallel", tags, it,
        "GetSegmentIntersectPt(" + spt(a) + spt(b) + " , " + spt(cpt) + spt(d) + ") returned " + (ret ? "true" : "false") +
        " but the exact determinant is " + s128(det) + " (products " + s128((i128)d1x * d2y) + " and " + s128((i128)d1y * d2x) + ")");
      continue;
    }
    if (det == 0) { ++parallel; ++hist["isect_parallel_" + mcs]; continue; }
    // (2) accuracy, premise: the crossing point lies on both closed segments
    i128 D = det, TN = tn, UN = un;
    if (D < 0) { D = -D; TN = -TN; UN = -UN; }
    if (TN < 0 || TN > D || UN < 0 || UN > D) { ++notcross; continue; }
    bool proper = TN > 0 && TN < D && UN > 0 && UN < D;
    if (proper) ++judged_proper; else ++judged_touch;
    // conditioning: sin(angle) = |det| / (|d1| |d2|)
    ld n1 = to_ld((i128)d1x * d1x + (i128)d1y * d1y), n2 = to_ld((i128)d2x * d2x + (i128)d2y * d2y);
    ld sin2 = to_ld(D) * to_ld(D) / (n1 * n2);
    bool ill = sin2 < ldexpl(1.0L, -40);
    const char* cond = ill ? "ill" : (sin2 < ldexpl(1.0L, -24) ? "mid" : "well");
    ld errx, erry; bool within;
    const int64_t far = 1ll << 42;
    if (ip.x > far || ip.x < -far || ip.y > far || ip.y < -far) { errx = fabsl((ld)ip.x - (ld)a.x); erry = fabsl((ld)ip.y - (ld)a.y); within = false; }
    else {
      i128 nx = (i128)(ip.x - a.x) * D - TN * (i128)d1x;    // |.| < 2^126
      i128 ny = (i128)(ip.y - a.y) * D - TN * (i128)d1y;
      within = abs128(nx) <= D && abs128(ny) <= D;          // exact: |ip - crossing| <= 1 on both axes
      errx = to_ld(abs128(nx)) / to_ld(D); erry = to_ld(abs128(ny)) / to_ld(D);
      if (nx == 0 && ny == 0) ++exact_ip;
    }
    ld err = std::max(errx, erry);
    {
      ld mic = err * 1e6L; long long v = mic > 9e18L ? (long long)9e18 : (long long)mic;
      std::string k = std::string("max_isect_err_micro_") + C18_ISECT + "_" + mcs + "_" + cond;
      auto& m = mx[k]; if (v > m) m = v;
    }
    ++hist[std::string("isect_judged_") + mcs + "_" + cond];
    if (!within) {
      // classifier tags (first tag = the class):
      //   ill_conditioned                   sin(angle) = |det|/(|d1||d2|) < 2^-20
      //   trunc_plus_rounding               otherwise, error <= 1 + M*2^-49 and M > 2^35
      //   trunc_plus_rounding_M_le_2^35     the same overshoot at M <= 2^35
      //   rounding_amplified_by_conditioning otherwise, error <= 1 + 4*M*2^-52/sin(angle): the forward error of
      //                                     evaluating t = num/det in double (relative error ~ 2^-52/sin) times the
      //                                     length scale M, on top of the truncation
      //   error_beyond_rounding_model       none of the above
      std::vector<std::string> tags;
      ld sinv = sqrtl(sin2);
      ld excess_ratio = (err - 1.0L) * sinv / ldexpl((ld)M, -52);
      bool tpr = err <= 1.0L + ldexpl((ld)M, -49) && std::string(C18_ISECT) == "default";   // the hp variant rounds to nearest
      if (ill) tags.push_back("ill_conditioned");
      else if (tpr && M > (1ll << 35)) tags.push_back("trunc_plus_rounding");
      else if (tpr) tags.push_back("trunc_plus_rounding_M_le_2^35");
      else if (excess_ratio <= 4.0L) tags.push_back("rounding_amplified_by_conditioning");
      else tags.push_back("error_beyond_rounding_model");
      tags.push_back(std::string("variant_") + C18_ISECT);
      tags.push_back(mcs);
      tags.push_back(std::string("cond_") + cond);
      { ld rm = excess_ratio * 1000.0L; long long v = rm > 9e18L ? (long long)9e18 : (long long)rm;
        auto& m = mx[std::string("max_isect_excess_over_1_times_sin_over_M_2^-52_milli_") + C18_ISECT + (ill ? "_ill" : "_notill")]; if (v > m) m = v; }
      char buf[240]; snprintf(buf, sizeof buf, "error (%.9Lg, %.9Lg), sin(angle) %.3Lg, M %lld, (error-1)*sin/(M*2^-52) = %.3Lg", errx, erry, sinv, (long long)M, excess_ratio);
      report("C18.isect_accuracy", tags, it,
        "GetSegmentIntersectPt(" + spt(a) + spt(b) + " , " + spt(cpt) + spt(d) + ") -> " + spt(ip) + " is more than one unit from the exact crossing: " + buf +
        "; exact t = " + s128(TN) + "/" + s128(D));
      continue;
    }
    // (3) on the first segment: inside its bounding box, and the line of the segment passes through the closed
    // unit square around ip (|cross| <= |dx|+|dy|), i.e. some point of the segment is within one unit per axis
    bool inbox = std::min(a.x, b.x) <= ip.x && ip.x <= std::max(a.x, b.x) && std::min(a.y, b.y) <= ip.y && ip.y <= std::max(a.y, b.y);
    i128 cr = (i128)d1x * (i128)(ip.y - a.y) - (i128)d1y * (i128)(ip.x - a.x);
    bool near_line = abs128(cr) <= (i128)iabs64(d1x) + (i128)iabs64(d1y);
    if (abs128(cr) > (i128)std::max(iabs64(d1x), iabs64(d1y))) ++hist["isect_ip_cross_above_max_norm_but_within_sum_norm"];
    if (!inbox || !near_line) {
      // class "<variant>_one_unit_outside_bounding_box": the point is within one unit per axis of the exact crossing
      // (checked above) but one unit outside the box of the first segment (seen in the hp variant, which does not
      // clamp to the segment: a crossing at an end point whose rounding error reaches half a unit)
      int64_t ox = std::max<int64_t>(0, std::max(std::min(a.x, b.x) - ip.x, ip.x - std::max(a.x, b.x)));
      int64_t oy = std::max<int64_t>(0, std::max(std::min(a.y, b.y) - ip.y, ip.y - std::max(a.y, b.y)));
      std::string cls = inbox ? "off_the_line" : ((ox <= 1 && oy <= 1) ? std::string(C18_ISECT) + "_one_unit_outside_bounding_box" : "outside_bounding_box");
      report("C18.isect_on_first_segment", { cls, std::string("variant_") + C18_ISECT, mcs, std::string("cond_") + cond },
        it, "GetSegmentIntersectPt(" + spt(a) + spt(b) + " , " + spt(cpt) + spt(d) + ") -> " + spt(ip) +
        " is not on the first segment: in bounding box " + (inbox ? "yes" : "no") + ", |cross| = " + s128(abs128(cr)) + " vs |dx|+|dy| = " + s128((i128)iabs64(d1x) + iabs64(d1y)));
      continue;
    }
  }
  ctx.evaluated(calls);
  ctx.count("isect_calls", calls);
  ctx.count("isect_violating_items", nviol);
  ctx.count(std::string("isect_calls_variant_") + C18_ISECT, calls);
  ctx.count("isect_exactly_parallel_inputs", parallel);
  ctx.count("isect_crossings_judged_proper", judged_proper);
  ctx.count("isect_crossings_judged_touching", judged_touch);
  ctx.count("isect_ip_is_exact_crossing", exact_ip);
  ctx.count("isect_not_crossing_accuracy_not_judged", notcross);
  ctx.count("isect_rejected_range", rejected);
  for (auto& e : hist) ctx.count(e.first, e.second);
  for (auto& e : mx) ctx.cmax(e.first, e.second);
  if (!from_replay) ctx.note_case(c, judged_proper > 0);
}

// ---- Area
static void judge_area(Ctx& ctx, const Case& c, bool from_replay) {
  const Paths64& PP = c.P("PATHS");
  long long calls = 0, nonzero = 0, odd = 0, even = 0, small = 0;
  // range premise of the oracle: sums and differences of two coordinates must not overflow int64 (|coord| <= 2^61)
  if (max_abs_coord(PP) > P61) { ctx.count("area_rejected_range"); return; }
  ctx.begin(c);
  ld tol_sum = 0, S_sum = 0; i128 ex_sum = 0; bool sum_ok = true;
  for (const Path64& p : PP) {
    size_t n = p.size();
    i128 S = 0, ex = 0; bool ovf = false;
    if (n >= 3) {
      for (size_t i = 0; i < n; ++i) {
        const Point64& u = p[i]; const Point64& v = p[(i + 1) % n];
        i128 term = ((i128)u.y + v.y) * ((i128)u.x - v.x);      // trapezoid term, |.| <= 2^124
        if (abs128(S) > ((i128)1 << 125) || abs128(ex) > ((i128)1 << 125)) ovf = true;
        S += abs128(term);
        ex += (i128)u.x * v.y - (i128)v.x * u.y;                 // independent formula: sum of x_i*y_j - x_j*y_i
      }
    }
    if (ovf) { ctx.count("area_paths_rejected_oracle_overflow"); sum_ok = false; continue; }
    double A = Area(p);
    ++calls;
    if (n < 3) ++small; else if (n & 1) ++odd; else ++even;
    if (ex != 0) ++nonzero;
    ld diff = 2.0L * (ld)A - to_ld(ex);
    ld tol = (ld)(n + 2) * ldexpl(to_ld(S), -52) + ldexpl(to_ld(S), -60);
    tol_sum += tol; S_sum += to_ld(S); ex_sum += ex;
    if (!(fabsl(diff) <= tol)) {
      ctx.evaluated(calls);
      char buf[200]; snprintf(buf, sizeof buf, "2*Area = %.17g, |difference| = %.6Lg, bound (n+2)*2^-52*sum|term| = %.6Lg", 2.0 * A, fabsl(diff), tol);
      Case w = reduced(c, "PATHS", p);
      vio(ctx, "C18.area", { n < 3 ? "fewer_than_3_points" : ((n & 1) ? "odd_point_count" : "even_point_count"), "single_path" }, w,
        "Area(path of " + std::to_string(n) + " points): exact doubled shoelace area " + s128(ex) + ", " + buf);
      return;
    }
  }
  if (sum_ok && !PP.empty()) {
    double A = Area(PP);
    ++calls;
    ld diff = 2.0L * (ld)A - to_ld(ex_sum);
    ld tol = tol_sum + (ld)(PP.size() + 1) * ldexpl(S_sum, -52) * 1.0001L;
    if (!(fabsl(diff) <= tol)) {
      ctx.evaluated(calls);
      char buf[200]; snprintf(buf, sizeof buf, "2*Area = %.17g, |difference| = %.6Lg, bound %.6Lg", 2.0 * A, fabsl(diff), tol);
      vio(ctx, "C18.area", { "paths_overload" }, c, "Area(paths of " + std::to_string(PP.size()) + " paths): exact doubled area " + s128(ex_sum) + ", " + buf);
      return;
    }
  }
  ctx.evaluated(calls);
  ctx.count("area_calls", calls);
  ctx.count("area_paths_nonzero_area", nonzero);
  ctx.count("area_paths_odd_count", odd); ctx.count("area_paths_even_count", even); ctx.count("area_paths_fewer_than_3", small);
  if (!from_replay) ctx.note_case(c, nonzero > 0);
}

static void judge(Ctx& ctx, const Case& c, bool from_replay) {
  std::string k = c.gets("kind");
  if (k == "mul") judge_mul(ctx, c, from_replay);
  else if (k == "pae") judge_pae(ctx, c, from_replay);
  else if (k == "tri") judge_tri(ctx, c, from_replay);
  else if (k == "pip") judge_pip(ctx, c, from_replay);
  else if (k == "isect") judge_isect(ctx, c, from_replay);
  else if (k == "area") judge_area(ctx, c, from_replay);
  else ctx.count("unknown_kind");
}

// ================================================================================================ generators
static Path64 P1(int64_t x, int64_t y) { return Path64(1, Point64(x, y)); }

// ---- Multiply
static uint32_t special_word(Rng& r) {
  static const uint32_t w[] = { 0u, 1u, 2u, 0xFFFFFFFFu, 0xFFFFFFFEu, 0x80000000u, 0x7FFFFFFFu, 0x80000001u, 0x10000u, 0xFFFFu, 0xFFFF0000u };
  int k = r.irange(0, 13);
  return k < 11 ? w[k] : (uint32_t)r.next();
}
static uint64_t gen_u64(Rng& r) {
  switch (r.irange(0, 4)) {
    case 0: return r.next();
    case 1: return ((uint64_t)special_word(r) << 32) | special_word(r);
    case 2: { int b = r.irange(1, 64); uint64_t v = r.next(); return b == 64 ? v : (v & ((1ull << b) - 1)); }
    case 3: return ~0ull - (uint64_t)r.range(0, 1 << 20);
    default: { int b = r.irange(0, 63); return (1ull << b) + (uint64_t)r.range(-2, 2); }
  }
}
static Case gen_mul(Rng& r, uint64_t, int mul) {
  Case c; c.set("kind", "mul"); c.seti("bundle", 1);
  Paths64 T;
  for (int i = 0; i < 64 * mul; ++i) T.push_back(P1((int64_t)gen_u64(r), (int64_t)gen_u64(r)));
  c.p64["T"] = T; return c;
}

static uint64_t inv_mod_2_64(uint64_t c) { uint64_t x = c; for (int i = 0; i < 6; ++i) x *= 2 - c * x; return x; }   // c odd

// ---- ProductsAreEqual
static Path64 pae_item(int64_t a, int64_t b, int64_t c, int64_t d) { Path64 p; p.emplace_back(a, b); p.emplace_back(c, d); return p; }
static Path64 gen_pae_item(Rng& r, std::map<std::string, long long>& cnt) {
  int pat = r.irange(0, 11);
  if (pat == 10) {                                      // a*b - c*d == +-2^w exactly, all values below 2^L (L from w/2 up)
    int64_t v[4]; int w = 0;
    if (wrap_twin_any(r, 63, v, &w)) { cnt["pae_gen_products_differ_by_exact_power_of_two"]++; if (w == 64) cnt["pae_gen_products_differ_by_exactly_2^64"]++; return pae_item(v[0], v[1], v[2], v[3]); }
    pat = 0;
  }
  if (pat == 11) {                                      // congruent modulo 2^64, otherwise unrelated
    cnt["pae_gen_products_congruent_mod_2^64"]++;
    uint64_t a = r.next(), b = r.next(), c = r.next() | 1, d = a * b * inv_mod_2_64(c);
    if (r.coin()) { int sh = r.irange(1, 40); a >>= sh; c = (c >> r.irange(1, 40)) | 1; d = a * b * inv_mod_2_64(c); }
    return pae_item((int64_t)a, (int64_t)b, (int64_t)c, (int64_t)d);
  }
  auto flip = [&](int64_t v) { return (r.coin() && v != I64MIN) ? -v : v; };
  if (pat <= 1) {                                       // random magnitudes
    cnt["pae_gen_random"]++;
    if (r.coin()) return pae_item((int64_t)r.next(), (int64_t)r.next(), (int64_t)r.next(), (int64_t)r.next());
    return pae_item(rbits(r, r.irange(0, 63)), rbits(r, r.irange(0, 63)), rbits(r, r.irange(0, 63)), rbits(r, r.irange(0, 63)));
  }
  if (pat <= 5) {                                       // equal by construction: a=pq, b=rs, c=pr, d=qs
    int bp = r.irange(0, 62), bq = r.irange(0, 62 - bp), br = r.irange(0, 62 - bp), bs = r.irange(0, 62 - std::max(bq, br));
    int64_t p = rexact(r, bp), q = rexact(r, bq), rr = rexact(r, br), s = rexact(r, bs);
    if (bp == 0) p = 1; if (bq == 0) q = 1; if (br == 0) rr = 1; if (bs == 0) s = 1;
    int64_t a = p * q, b = rr * s, c = p * rr, d = q * s;
    if (pat == 2) { cnt["pae_gen_equal_by_construction"]++; }
    else if (pat == 3) { cnt["pae_gen_equal_then_sign_flips"]++; a = flip(a); b = flip(b); c = flip(c); d = flip(d); }
    else {                                              // off by one unit in one factor
      cnt["pae_gen_equal_then_off_by_one"]++;
      int64_t* v[4] = { &a, &b, &c, &d }; int64_t& x = *v[r.irange(0, 3)];
      x += r.coin() ? 1 : -1;
      if (r.coin()) { a = flip(a); c = flip(c); }
    }
    if (r.coin()) { std::swap(a, b); }
    if (r.coin()) { std::swap(c, d); }
    if (r.coin()) { std::swap(a, c); std::swap(b, d); }
    return pae_item(a, b, c, d);
  }
  if (pat == 6) {                                       // differ only in the high word: (a-c)*b is a multiple of 2^64
    cnt["pae_gen_differ_only_in_high_word"]++;
    int k = r.irange(32, 61);
    int64_t b = (int64_t)(((uint64_t)r.range(0, (1ll << (62 - k)) - 1) * 2 + 1) << k);   // odd * 2^k  (< 2^63)
    int64_t a = rbits(r, 60), c = a + ((int64_t)r.range(1, 1 << 20) << (64 - k)) * (r.coin() ? 1 : -1);
    if (r.coin()) b = -b;
    return pae_item(a, b, c, b);
  }
  if (pat == 7) {                                       // differ only in the low word / only by a carry
    cnt["pae_gen_differ_only_in_low_word"]++;
    int64_t b = rbits(r, r.irange(1, 32)), a = rbits(r, r.irange(33, 62));
    int64_t c = a + (r.coin() ? 1 : -1);
    if (r.coin()) return pae_item(a, b, c, b);
    // same products of the 32-bit halves except for one carry: words from the special set
    uint64_t x = ((uint64_t)special_word(r) << 32) | special_word(r), y = ((uint64_t)special_word(r) << 32) | special_word(r);
    int64_t xa = (int64_t)(x >> 2), ya = (int64_t)(y >> 2);
    return pae_item(xa, ya, xa + (r.coin() ? 1 : 0), ya - (r.coin() ? 1 : 0));
  }
  if (pat == 8) {                                       // zeros, signs and extremes
    cnt["pae_gen_zero_sign_extreme"]++;
    int64_t x = rbits(r, r.irange(0, 63)), y = rbits(r, r.irange(0, 63));
    switch (r.irange(0, 9)) {
      case 0: return pae_item(0, x, y, 0);
      case 1: return pae_item(0, x, y, r.coin() ? 1 : x);
      case 2: return pae_item(x, y, -x, -y);
      case 3: return pae_item(x, y, -x, y);
      case 4: return pae_item(x, y, y, x);
      case 5: return pae_item(I64MIN, -1, I64MAX, 1);
      case 6: return pae_item(I64MIN, r.coin() ? 1 : -1, r.coin() ? 1 : -1, I64MIN);
      case 7: return pae_item(I64MIN, I64MIN, I64MAX, I64MAX);
      case 8: return pae_item(I64MIN, x, x, I64MIN);
      default: return pae_item(I64MAX, x, x, r.coin() ? I64MAX : -I64MAX);
    }
  }
  cnt["pae_gen_boundary_mix"]++;
  auto bv = [&]() { int64_t v = kB22[r.irange(0, 21)]; int64_t j = r.range(-2, 2); if ((j > 0 && v > I64MAX - j) || (j < 0 && v < I64MIN - j)) j = 0; return v + j; };
  return pae_item(bv(), bv(), bv(), bv());
}
static Case gen_pae(Rng& r, uint64_t, Ctx& ctx, int mul) {
  Case c; c.set("kind", "pae"); c.seti("bundle", 1);
  std::map<std::string, long long> cnt;
  Paths64 T; for (int i = 0; i < 64 * mul; ++i) T.push_back(gen_pae_item(r, cnt));
  for (auto& e : cnt) ctx.count(e.first, e.second);
  c.p64["T"] = T; return c;
}

// ---- point triples
static Path64 tri_item(Point64 a, Point64 b, Point64 c) { Path64 p; p.push_back(a); p.push_back(b); p.push_back(c); return p; }
static Path64 gen_tri_item(Rng& r, int B, std::map<std::string, long long>& cnt) {
  int pat = r.irange(0, 10);
  if (pat == 10) {                                      // cross product exactly +-2^w: zero in a w-bit word, not zero
    int64_t v[4]; int w = 0;
    if (B >= 9 && wrap_twin_any(r, std::min(B, 61), v, &w)) {
      cnt["tri_gen_cross_product_exact_power_of_two"]++; if (w == 64) cnt["tri_gen_cross_product_exactly_2^64"]++;
      // cross(p1,p2,p3) = (p2-p1).x*(p3-p2).y - (p2-p1).y*(p3-p2).x = a*b - c*d
      Point64 p1(rbits(r, std::min(B, 60)), rbits(r, std::min(B, 60)));
      Point64 p2(p1.x + v[0], p1.y + v[2]), p3(p2.x + v[3], p2.y + v[1]);
      return tri_item(p1, p2, p3);
    }
    pat = 6;
  }
  if (pat <= 5) {
    // collinear (or mirrored) by construction: p2 = p1 + k1*(dx,dy), p3 = p2 + k2*(dx,+-dy); |k*d| < 2^B, B <= 61
    int Bc = std::min(B, 61);
    int e = r.irange(0, Bc), kb = Bc - e;
    int64_t dx = r.chance(0.1) ? 0 : rexact(r, std::max(1, e)), dy = r.chance(0.1) ? 0 : rbits(r, e);
    if (e == 0) { dx = r.irange(-1, 1); dy = r.irange(-1, 1); }
    int64_t k1 = kb ? rexact(r, kb) : r.irange(-1, 1), k2 = kb ? rbits(r, kb) : r.irange(-1, 1);
    if (r.chance(0.05)) k2 = 0;
    if (r.chance(0.05)) k1 = 0;
    Point64 p1(rbits(r, std::min(Bc + 1, 60)), rbits(r, std::min(Bc + 1, 60)));
    Point64 p2(p1.x + k1 * dx, p1.y + k1 * dy);
    bool mirror = pat == 5;
    Point64 p3(p2.x + k2 * dx, p2.y + (mirror ? -k2 * dy : k2 * dy));
    if (pat <= 1) cnt["tri_gen_exactly_collinear"]++;
    else if (pat <= 4) {                                 // off by one unit
      cnt["tri_gen_collinear_off_by_one_unit"]++;
      Point64* v[3] = { &p1, &p2, &p3 }; Point64& q = *v[r.irange(0, 2)];
      int64_t delta = r.coin() ? 1 : -1;
      if (r.coin()) q.x += delta; else q.y += delta;
    } else cnt["tri_gen_mirrored_equal_magnitude_products"]++;
    return tri_item(p1, p2, p3);
  }
  if (pat <= 7) {
    cnt["tri_gen_random"]++;
    int b = std::min(B + 1, 62);
    return tri_item(Point64(rbits(r, b), rbits(r, b)), Point64(rbits(r, b), rbits(r, b)), Point64(rbits(r, b), rbits(r, b)));
  }
  cnt["tri_gen_boundary_mix"]++;
  auto bv = [&]() { int64_t v = kB22[r.irange(0, 21)]; int64_t j = r.range(-2, 2); if ((j > 0 && v > I64MAX - j) || (j < 0 && v < I64MIN - j)) j = 0; return v + j; };
  return tri_item(Point64(bv(), bv()), Point64(bv(), bv()), Point64(bv(), bv()));
}
static Case gen_tri(Rng& r, uint64_t sub, Ctx& ctx, int mul) {
  Case c; c.set("kind", "tri"); c.seti("bundle", 1);
  int B = 1 + (int)(sub % 62);
  c.seti("bits", B);
  std::map<std::string, long long> cnt;
  Paths64 T; for (int i = 0; i < 48 * mul; ++i) T.push_back(gen_tri_item(r, B, cnt));
  for (auto& e : cnt) ctx.count(e.first, e.second);
  ctx.count("tri_gen_bundles_bits_" + std::string(B < 10 ? "0" : "") + std::to_string(B / 10 * 10) + "s");
  c.p64["T"] = T; return c;
}

// ---- PointInPolygon
static void gen_pip_one(Rng& r, uint64_t sub, Ctx& ctx, Case& c) {
  static const int64_t scales[] = { 1, 1, 2, 3, 7, 1000, 1 << 10, 1 << 16, 1 << 20, 1 << 22 };
  int64_t s = scales[sub % 10];
  const int64_t LIM = 1ll << 25;
  // lattice polygon on 0..8 x 0..8
  int n = r.irange(3, 10);
  std::vector<Point64> L;
  auto rp = [&]() { return Point64(r.irange(0, 8), r.irange(0, 8)); };
  L.push_back(rp());
  int feat_h = 0, feat_rep = 0, feat_spike = 0;
  while ((int)L.size() < n) {
    int k = r.irange(0, 9);
    Point64 last = L.back();
    if (k == 0) { L.push_back(last); ++feat_rep; }                                        // repeated point
    else if (k <= 3) { L.push_back(Point64((int64_t)r.irange(0, 8), last.y)); ++feat_h; }         // horizontal edge (may backtrack / repeat)
    else if (k == 4 && L.size() >= 2) { L.push_back(L[L.size() - 2]); ++feat_spike; }    // spike a,b,a
    else if (k == 5) { L.push_back(Point64(last.x, (int64_t)r.irange(0, 8))); }                   // vertical edge
    else L.push_back(rp());
  }
  if (r.chance(0.1)) { L.push_back(L[0]); ++feat_rep; }                                  // explicitly closed
  if (r.chance(0.03)) { int64_t y = L[0].y; for (auto& p : L) p.y = y; }                 // horizontal line: outside the premise
  int64_t ox = r.range(-LIM, LIM - 8 * s), oy = r.range(-LIM, LIM - 8 * s);
  if (r.chance(0.2)) { ox = -4 * s; oy = -4 * s; }
  if (r.chance(0.1)) { ox = LIM - 8 * s; oy = -LIM; }
  Path64 poly; for (auto& p : L) poly.emplace_back(ox + s * p.x, oy + s * p.y);
  Path64 Q;
  for (int y = 0; y <= 8; ++y) for (int x = 0; x <= 8; ++x) Q.emplace_back(ox + s * x, oy + s * y);
  // half-lattice points, points on the edges that are not lattice points, and their unit neighbours
  if (s >= 2) {
    size_t m = L.size();
    for (size_t i = 0; i < m; ++i) {
      Point64 A = L[i], Bp = L[(i + 1) % m];
      int64_t DX = Bp.x - A.x, DY = Bp.y - A.y; int64_t g = gcd64(DX, DY);
      if (g == 0) continue;
      int64_t j = r.range(0, s * g);
      Point64 q(ox + s * A.x + j * (DX / g), oy + s * A.y + j * (DY / g));
      Q.push_back(q);
      static const int nx[4] = { 1, -1, 0, 0 }, ny[4] = { 0, 0, 1, -1 };
      int d = r.irange(0, 3);
      Point64 q2(q.x + nx[d], q.y + ny[d]);
      if (iabs64(q2.x) <= LIM && iabs64(q2.y) <= LIM) Q.push_back(q2);
    }
    for (int i = 0; i < 12; ++i) Q.emplace_back(clampi(ox + r.range(-s, 9 * s), -LIM, LIM), clampi(oy + r.range(-s, 9 * s), -LIM, LIM));
  }
  ctx.count("pip_gen_scale_" + std::to_string(s));
  ctx.count("pip_gen_horizontal_edges", feat_h); ctx.count("pip_gen_repeated_points", feat_rep); ctx.count("pip_gen_spikes", feat_spike);
  c.p64["POLY"].push_back(poly); c.p64["Q"].push_back(Q);
}
static Case gen_pip(Rng& r, uint64_t sub, Ctx& ctx, int mul) {
  Case c; c.set("kind", "pip"); c.seti("bundle", 1);
  for (int k = 0; k < mul; ++k) gen_pip_one(r, sub * (uint64_t)mul + (uint64_t)k, ctx, c);
  return c;
}

// ---- GetSegmentIntersectPt
static Path64 seg_item(Point64 a, Point64 b, Point64 c, Point64 d) { Path64 p; p.push_back(a); p.push_back(b); p.push_back(c); p.push_back(d); return p; }
static int sgn_orient(const Point64& a, const Point64& b, const Point64& p) {
  i128 v = (i128)(b.x - a.x) * (i128)(p.y - a.y) - (i128)(b.y - a.y) * (i128)(p.x - a.x); return (v > 0) - (v < 0);
}
static bool crosses_properly(const Point64& a, const Point64& b, const Point64& c, const Point64& d) {
  return sgn_orient(a, b, c) * sgn_orient(a, b, d) < 0 && sgn_orient(c, d, a) * sgn_orient(c, d, b) < 0;
}
static Path64 gen_isect_item(Rng& r, int m, std::map<std::string, long long>& cnt) {
  const int64_t M = 1ll << m, H = M / 2;
  auto rpt = [&](int64_t R) { return Point64(r.range(-R, R), r.range(-R, R)); };
  auto inr = [&](const Point64& p) { return iabs64(p.x) <= M && iabs64(p.y) <= M; };
  int pat = r.irange(0, 15);
  if (pat <= 4) {                                        // four random points; the crossing pairing if there is one
    Point64 p[4] = { rpt(M), rpt(M), rpt(M), rpt(M) };
    static const int pr[3][4] = { { 0, 1, 2, 3 }, { 0, 2, 1, 3 }, { 0, 3, 1, 2 } };
    int s0 = r.irange(0, 2);
    for (int k = 0; k < 3; ++k) {
      const int* q = pr[(s0 + k) % 3];
      if (crosses_properly(p[q[0]], p[q[1]], p[q[2]], p[q[3]])) { cnt["isect_gen_random_crossing"]++; return seg_item(p[q[0]], p[q[1]], p[q[2]], p[q[3]]); }
    }
    cnt["isect_gen_random_not_crossing"]++;
    return seg_item(p[0], p[1], p[2], p[3]);
  }
  if (pat <= 8) {                                        // nearly parallel long segments, offsets of k bits at the ends
    cnt["isect_gen_nearly_parallel"]++;
    Point64 a = rpt(M), b = rpt(M);
    if (r.coin()) { a = Point64(r.range(-M, -H), r.range(-M, M)); b = Point64(r.range(H, M), r.range(-M, M)); }
    int k = r.irange(0, std::max(1, m - 2));
    Point64 e1(rbits(r, k), rbits(r, k));
    Point64 e2(-e1.x + rbits(r, std::max(0, k - 2)), -e1.y + rbits(r, std::max(0, k - 2)));
    Point64 c(clampi(a.x + e1.x, -M, M), clampi(a.y + e1.y, -M, M)), d(clampi(b.x + e2.x, -M, M), clampi(b.y + e2.y, -M, M));
    return seg_item(a, b, c, d);
  }
  if (pat <= 10) {                                       // exactly parallel (or collinear): d1 = g1*(u,v), d2 = g2*(u,v)
    cnt["isect_gen_exactly_parallel"]++;
    int e = r.irange(0, m - 1);
    int64_t u = rbits(r, e), v = rbits(r, e);
    if (r.chance(0.1)) u = 0; if (r.chance(0.1)) v = 0;
    int64_t g1 = rbits(r, m - 1 - e), g2 = rbits(r, m - 1 - e);
    if (g1 == 0) g1 = 1; if (g2 == 0) g2 = -1;
    Point64 a = rpt(H), b(a.x + g1 * u, a.y + g1 * v);
    Point64 c = rpt(H);
    if (r.coin()) { int64_t j = r.range(-iabs64(g1), iabs64(g1)); c = Point64(clampi(a.x + j * u, -H, H), clampi(a.y + j * v, -H, H)); if (c.x != a.x + j * u || c.y != a.y + j * v) c = a; }
    Point64 d(c.x + g2 * u, c.y + g2 * v);
    return seg_item(a, b, c, d);
  }
  if (pat <= 12) {                                       // tiny exact determinant: neighbouring convergents
    // h/k convergents of a random continued fraction: (k1,h1) x (k0,h0) = +-1
    int64_t h0 = 1, k0 = 0, h1 = r.irange(0, 3), k1 = 1;
    int64_t lim = 1ll << std::max(2, m - 3);
    while (true) {
      int64_t q = r.chance(0.7) ? r.irange(1, 3) : r.irange(1, 1000);
      i128 h2 = (i128)q * h1 + h0, k2 = (i128)q * k1 + k0;
      if (h2 > lim || k2 > lim) break;
      h0 = h1; k0 = k1; h1 = (int64_t)h2; k1 = (int64_t)k2;
    }
    int64_t sx = r.coin() ? 1 : -1, sy = r.coin() ? 1 : -1;
    Point64 v1(sx * k1, sy * h1), v0(sx * k0, sy * h0);        // v1 x v0 = +-1
    if (r.coin()) { std::swap(v1.x, v1.y); std::swap(v0.x, v0.y); }
    int64_t g = r.chance(0.3) ? 1 : (r.coin() ? r.irange(2, 5) : r.range(2, 1 << std::min(20, std::max(2, m - 4))));
    i128 d2x = (i128)g * v0.x + v1.x, d2y = (i128)g * v0.y + v1.y;   // d1 = v1, d2 = g*v0 + v1: det = +-g
    if (abs128(d2x) > H || abs128(d2y) > H) { g = 1; d2x = (i128)v0.x + v1.x; d2y = (i128)v0.y + v1.y; }
    Point64 d1 = v1, d2((int64_t)d2x, (int64_t)d2y);
    Point64 a = rpt(H / 4);
    Point64 b(a.x + d1.x, a.y + d1.y);
    Point64 c, d;
    int64_t j = g > 1 ? r.range(1, g - 1) : 0;
    i128 cx = (i128)a.x - (i128)j * v0.x, cy = (i128)a.y - (i128)j * v0.y;  // proper crossing at t = u = j/g
    if (g > 1 && abs128(cx) <= M && abs128(cy) <= M) { cnt["isect_gen_tiny_det_proper_crossing"]++; c = Point64((int64_t)cx, (int64_t)cy); }
    else { cnt["isect_gen_tiny_det_shared_endpoint"]++; c = r.coin() ? a : Point64(b.x - d2.x, b.y - d2.y); }
    d = Point64(c.x + d2.x, c.y + d2.y);
    if (!inr(b) || !inr(c) || !inr(d)) { cnt["isect_gen_tiny_det_fallback"]++; return seg_item(a, Point64(a.x + 1, a.y), a, Point64(a.x, a.y + 1)); }
    if (r.coin()) return seg_item(c, d, a, b);
    return seg_item(a, b, c, d);
  }
  if (pat <= 14) {                                       // touching: an end point of one segment on the other, shared end points
    cnt["isect_gen_touching"]++;
    int e = r.irange(0, m - 1);
    int64_t u = rbits(r, e), v = rbits(r, e), g = rexact(r, std::max(1, m - 1 - e));
    if (u == 0 && v == 0) u = 1;
    Point64 a = rpt(H), b(a.x + g * u, a.y + g * v);
    int64_t j = r.range(0, iabs64(g)); if (r.chance(0.25)) j = 0; else if (r.chance(0.25)) j = iabs64(g);
    int64_t sg = g < 0 ? -1 : 1;
    Point64 c(a.x + sg * j * u, a.y + sg * j * v);       // on segment ab
    Point64 d = rpt(M);
    if (r.chance(0.3)) { Point64 f = rpt(M / 4); d = Point64(clampi(c.x + f.x, -M, M), clampi(c.y + f.y, -M, M)); }
    switch (r.irange(0, 3)) {
      case 0: return seg_item(a, b, c, d);
      case 1: return seg_item(a, b, d, c);
      case 2: return seg_item(c, d, a, b);
      default: return seg_item(d, c, b, a);
    }
  }
  // axis-parallel
  cnt["isect_gen_axis_parallel"]++;
  int64_t y = r.range(-M, M), x0 = r.range(-M, M), x1 = r.range(-M, M);
  Point64 a(x0, y), b(x1, y);
  int64_t xm = r.range(std::min(x0, x1), std::max(x0, x1));
  Point64 c, d;
  if (r.coin()) { c = Point64(xm, r.range(-M, y)); d = Point64(xm, r.range(y, M)); }
  else { c = rpt(M); d = Point64(clampi(2 * xm - c.x, -M, M), clampi(2 * y - c.y, -M, M)); }
  if (r.coin()) { std::swap(a.x, a.y); std::swap(b.x, b.y); std::swap(c.x, c.y); std::swap(d.x, d.y); }
  if (r.coin()) return seg_item(c, d, a, b);
  return seg_item(a, b, c, d);
}
static Case gen_isect(Rng& r, uint64_t sub, Ctx& ctx, int mul) {
  Case c; c.set("kind", "isect"); c.seti("bundle", 1);
  int m = kIsectMag[sub % kIsectMagN];
  c.seti("mag", m);
  std::map<std::string, long long> cnt;
  Paths64 S; for (int i = 0; i < 32 * mul; ++i) S.push_back(gen_isect_item(r, m, cnt));
  for (auto& e : cnt) ctx.count(e.first, e.second);
  c.p64["SEG"] = S; return c;
}

// ---- Area
static Case gen_area(Rng& r, uint64_t sub, Ctx& ctx, int mul) {
  Case c; c.set("kind", "area"); c.seti("bundle", 1);
  static const int mags[] = { 3, 10, 20, 26, 31, 40, 52, 59, 61 };
  int m = mags[sub % 9];
  c.seti("mag", m);
  ctx.count("area_gen_mag_2^" + std::to_string(m));
  const int64_t M = 1ll << m;
  int np = r.irange(1, 6 * mul);
  Paths64 PP;
  for (int k = 0; k < np; ++k) {
    int nmax = m > 59 ? 6 : 24;
    int n = r.chance(0.1) ? r.irange(0, 2) : r.irange(3, nmax);
    Path64 p;
    int pat = r.irange(0, 3);
    if (pat == 0) { for (int i = 0; i < n; ++i) p.emplace_back(r.range(-M, M), r.range(-M, M)); }
    else if (pat == 1) {                                 // star-shaped about a centre (simple polygon), either orientation
      int64_t cx = r.range(-M / 2, M / 2), cy = r.range(-M / 2, M / 2); double R = (double)(M / 2);
      double off = r.real(0, 6.283185307179586);
      for (int i = 0; i < n; ++i) { double a = off + 6.283185307179586 * (i + r.real(0.05, 0.95)) / std::max(1, n), rad = R * r.real(0.3, 1.0);
        p.emplace_back(clampi(cx + (int64_t)llround(rad * cos(a)), -M, M), clampi(cy + (int64_t)llround(rad * sin(a)), -M, M)); }
      if (r.coin()) std::reverse(p.begin(), p.end());
    } else if (pat == 2) {                               // small feature far from the origin: heavy cancellation
      int64_t f = 1ll << r.irange(1, std::max(1, m - 1));
      int64_t cx = (r.coin() ? 1 : -1) * (M - f), cy = (r.coin() ? 1 : -1) * (M - f);
      for (int i = 0; i < n; ++i) p.emplace_back(clampi(cx + r.range(-f, f), -M, M), clampi(cy + r.range(-f, f), -M, M));
    } else {                                             // rectilinear walk / repeated points
      Point64 q(r.range(-M, M), r.range(-M, M));
      for (int i = 0; i < n; ++i) { p.push_back(q); if (r.chance(0.15)) continue; if (i & 1) q.x = r.range(-M, M); else q.y = r.range(-M, M); }
    }
    PP.push_back(p);
  }
  c.p64["PATHS"] = PP; return c;
}

// ================================================================================================ driver
static std::vector<int> g_sched;   // kind schedule for --mode rand
enum { K_MUL, K_PAE, K_TRI, K_PIP, K_ISECT, K_AREA };
static void build_schedule(Ctx& ctx) {
  std::string ks = ctx.optstr("kinds", "mul,pae,tri,pip,isect,area");
  std::stringstream ss(ks); std::string k;
  while (std::getline(ss, k, ',')) {
    if (k == "mul") g_sched.insert(g_sched.end(), 1, K_MUL);
    else if (k == "pae") g_sched.insert(g_sched.end(), 3, K_PAE);
    else if (k == "tri") g_sched.insert(g_sched.end(), 3, K_TRI);
    else if (k == "pip") g_sched.insert(g_sched.end(), 3, K_PIP);
    else if (k == "isect") g_sched.insert(g_sched.end(), 4, K_ISECT);
    else if (k == "area") g_sched.insert(g_sched.end(), 2, K_AREA);
    else { fprintf(stderr, "mon_c18: unknown kind %s\n", k.c_str()); exit(2); }
  }
  if (g_sched.empty()) { fprintf(stderr, "mon_c18: empty --kinds\n"); exit(2); }
}

static void grid_case(Ctx& ctx, uint64_t i) {
  int tset = (int)ctx.optint("tset", ctx.quick() ? 10 : 12);
  if (tset < 2 || tset > 12) { fprintf(stderr, "mon_c18: --tset must be 2..12\n"); exit(2); }
  GridLayout g = grid_layout(tset);
  if (i >= g.chunks()) { ctx.count("grid_chunk_index_beyond_end"); return; }
  Case c; c.seti("bundle", 1); c.seti("grid_chunk", (long long)i);
  Paths64 T;
  const std::string cfg = ctx.cfg_name;
  if (i < g.cpae) {
    c.set("kind", "pae");
    uint64_t lo = i * kChunk, hi = std::min(g.npae, lo + kChunk);
    for (uint64_t t = lo; t < hi; ++t) {
      uint64_t v = t; int64_t x[4]; for (int k = 0; k < 4; ++k) { x[k] = kB22[v % 22]; v /= 22; }
      T.push_back(pae_item(x[0], x[1], x[2], x[3]));
    }
    ctx.count("grid_pae_tuples_done_" + cfg, (long long)(hi - lo));
  } else if (i < g.cpae + g.ctri) {
    c.set("kind", "tri");
    uint64_t lo = (i - g.cpae) * kChunk, hi = std::min(g.ntri, lo + kChunk);
    for (uint64_t t = lo; t < hi; ++t) {
      uint64_t v = t; int64_t x[6]; for (int k = 0; k < 6; ++k) { x[k] = kT12[v % (uint64_t)tset]; v /= (uint64_t)tset; }
      T.push_back(tri_item(Point64(x[0], x[1]), Point64(x[2], x[3]), Point64(x[4], x[5])));
    }
    ctx.count("grid_point_triples_done_" + cfg, (long long)(hi - lo));
  } else if (i < g.cpae + g.ctri + g.cmul) {
    c.set("kind", "mul");
    uint64_t lo = (i - g.cpae - g.ctri) * kChunk, hi = std::min(g.nmul, lo + kChunk);
    for (uint64_t t = lo; t < hi; ++t) T.push_back(P1((int64_t)kMulGrid[t % kMulGridN], (int64_t)kMulGrid[t / kMulGridN]));
    ctx.count("grid_multiply_pairs_done_" + cfg, (long long)(hi - lo));
  } else {
    // every 3- and 4-vertex sequence on the 4x4 lattice {0,2,4,6}^2 (scale 2, so that edge midpoints are lattice
    // points of the query lattice) against all 81 points of -1..7 x -1..7
    c.set("kind", "pip");
    uint64_t lo = (i - g.cpae - g.ctri - g.cmul) * kPipChunk, hi = std::min(g.npip, lo + kPipChunk);
    Path64 Q; for (int y = -1; y <= 7; ++y) for (int x = -1; x <= 7; ++x) Q.emplace_back((int64_t)x, (int64_t)y);
    Paths64 POLY, QQ;
    for (uint64_t t = lo; t < hi; ++t) {
      int nv = t < 4096 ? 3 : 4; uint64_t v = t < 4096 ? t : t - 4096;
      Path64 poly; for (int k = 0; k < nv; ++k) { poly.emplace_back((int64_t)(2 * (v % 4)), (int64_t)(2 * ((v / 4) % 4))); v /= 16; }
      POLY.push_back(poly); QQ.push_back(Q);
    }
    c.p64["POLY"] = POLY; c.p64["Q"] = QQ;
    ctx.count("grid_pip_polygons_done_" + cfg, (long long)(hi - lo));
  }
  if (c.gets("kind") != "pip") c.p64["T"] = T;
  ctx.count("grid_chunks_done_" + cfg);
  judge(ctx, c, false);
}

void vf_begin(Ctx& ctx) {
  if (!ctx.replay_path.empty()) return;
  if (ctx.optstr("mode", "rand") == "rand") build_schedule(ctx);
}

void vf_case(Ctx& ctx, uint64_t i) {
  if (ctx.optstr("mode", "rand") == "grid") { grid_case(ctx, i); return; }
  if (g_sched.empty()) build_schedule(ctx);
  int kind = g_sched[i % g_sched.size()];
  uint64_t sub = i / g_sched.size();
  // bundle size multiplier: thorough bundles are 4x larger (keeps the number of distinct-case hashes manageable)
  int mul = (int)ctx.optint("bundle", ctx.quick() ? 1 : 4);
  if (mul < 1) mul = 1;
  Case c;
  switch (kind) {
    case K_MUL: c = gen_mul(ctx.rng, sub, mul); break;
    case K_PAE: c = gen_pae(ctx.rng, sub, ctx, mul); break;
    case K_TRI: c = gen_tri(ctx.rng, sub, ctx, mul); break;
    case K_PIP: c = gen_pip(ctx.rng, sub, ctx, mul); break;
    case K_ISECT: c = gen_isect(ctx.rng, sub, ctx, mul); break;
    default: c = gen_area(ctx.rng, sub, ctx, mul); break;
  }
  judge(ctx, c, false);
}

void vf_replay(Ctx& ctx, const Case& c) { judge(ctx, c, true); }

void vf_end(Ctx& ctx) {
  if (!ctx.replay_path.empty() || ctx.only >= 0) return;
  // the expected sizes of the exhaustive scopes are reported once (shard 0) so that the orchestrator can compare
  if (ctx.optstr("mode", "rand") == "grid" && ctx.shard == 0) {
    GridLayout g = grid_layout((int)ctx.optint("tset", ctx.quick() ? 10 : 12));
    const std::string cfg = ctx.cfg_name;
    ctx.count("grid_pae_tuples_expected_" + cfg, (long long)g.npae);
    ctx.count("grid_point_triples_expected_" + cfg, (long long)g.ntri);
    ctx.count("grid_multiply_pairs_expected_" + cfg, (long long)g.nmul);
    ctx.count("grid_pip_polygons_expected_" + cfg, (long long)g.npip);
    ctx.count("grid_chunks_expected_" + cfg, (long long)g.chunks());
  }
}
