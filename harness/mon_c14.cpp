// mon_c14 — C14: independent objects can be used from different threads (ThreadSanitizer build).
// A case is one *round*: T threads released together, each running a script of library operations on its own
// objects (optionally all sharing one read-only ReuseableDataContainer64). Oracles: (1) any ThreadSanitizer report
// during the round (counted through the __tsan_on_report hook; reports themselves are on stderr), (2) every
// thread's result hash equals the hash of the same script run sequentially in the same process.
#include "c10_ops.h"
#include <thread>
#include <atomic>
#include <mutex>

using namespace vf;
using namespace c10;

static std::atomic<long long> g_tsan_reports{ 0 };
extern "C" void __tsan_on_report(void*) { g_tsan_reports.fetch_add(1, std::memory_order_relaxed); }

// co-running matrix, relaxed atomics only (they create no happens-before edge, so they cannot hide a race)
static std::atomic<int> g_running[NOPS + 1];
static std::atomic<int> g_corun[NOPS + 1][NOPS + 1];
static const int REUSE_SHARED = NOPS;     // pseudo family: clipper on the shared reusable container

struct Barrier {   // sense-reversing spin barrier
  std::atomic<int> count{ 0 }; std::atomic<int> sense{ 0 }; int n = 1;
  void wait() {
    int s = sense.load(std::memory_order_acquire);
    if (count.fetch_add(1, std::memory_order_acq_rel) + 1 == n) { count.store(0, std::memory_order_relaxed); sense.store(s ^ 1, std::memory_order_release); }
    else while (sense.load(std::memory_order_acquire) == s) std::this_thread::yield();
  }
};

struct Script { std::vector<Case> ops; };

// In this VM the kernel's load balancer sometimes leaves every new thread on its creator's CPU; real parallelism (and
// with it the variety of interleavings) is then lost. Each thread first moves to its own CPU and then takes the full
// mask back, so a working balancer stays free to move it.
#include <sched.h>
static void spread_this_thread(int t) {
  cpu_set_t all; CPU_ZERO(&all);
  if (sched_getaffinity(0, sizeof all, &all) != 0) return;
  std::vector<int> cpus; for (int k = 0; k < CPU_SETSIZE; ++k) if (CPU_ISSET(k, &all)) cpus.push_back(k);
  if (cpus.size() < 2) return;
  static std::atomic<unsigned> base{ 0 };
  static const unsigned b0 = base.fetch_add(7);
  cpu_set_t one; CPU_ZERO(&one); CPU_SET(cpus[(b0 + (unsigned)t) % cpus.size()], &one);
  if (sched_setaffinity(0, sizeof one, &one) == 0) sched_setaffinity(0, sizeof all, &all);
}

static uint64_t run_shared(const ReuseableDataContainer64& rd, const Case& c) {
  Acc a;
  Clipper64 cl; cl.PreserveCollinear(c.geti("pc") != 0); cl.ReverseSolution(c.geti("rev") != 0);
  cl.AddReuseableData(rd); cl.AddClip(c.P("C"));
  Paths64 sol, solo; if (!cl.Execute((ClipType)std::max<long long>(1, c.geti("ct")), (FillRule)c.geti("fr"), sol, solo)) ++a.exec_false;
  a.add(sol); a.add(solo);
  PolyTree64 t; if (!cl.Execute(ClipType::Xor, FillRule::EvenOdd, t)) ++a.exec_false; a.add(t);
  return a.h;
}

static uint64_t run_script(const Script& s, const ReuseableDataContainer64* shared, Barrier* lockstep, Rng* yr) {
  uint64_t h = 1469598103934665603ull;
  for (const Case& c : s.ops) {
    if (lockstep) lockstep->wait();
    int fam = shared && c.geti("use_shared") ? REUSE_SHARED : (int)c.geti("op");
    for (int f = 0; f <= NOPS; ++f) if (g_running[f].load(std::memory_order_relaxed) > 0) g_corun[fam][f].store(1, std::memory_order_relaxed);
    g_running[fam].fetch_add(1, std::memory_order_relaxed);
    uint64_t r;
    if (fam == REUSE_SHARED) r = run_shared(*shared, c);
    else { Acc a; run_op(c, a); r = a.h ^ (uint64_t)a.exec_false ^ ((uint64_t)a.clipper_exceptions << 32); }
    g_running[fam].fetch_sub(1, std::memory_order_relaxed);
    h = (h ^ r) * 1099511628211ull;
    if (yr && yr->chance(0.3)) std::this_thread::yield();
  }
  return h;
}

static void judge(Ctx& ctx, const Case& c, bool from_replay) {
  ctx.begin(c);
  const int T = (int)c.geti("T"), nops = (int)c.geti("nops"), mode = (int)c.geti("mode"); // 0 identical lock-step, 1 varied, 2 shared container, 3 lock-step same family / different data
  Rng r((uint64_t)c.geti("rseed"), 99);
  GenLimits lim; lim.maxexp_bool = 24; lim.maxexp_other = 20;
  // scripts
  std::vector<Script> scripts((size_t)T);
  auto gen_script = [&](Script& s) {
    for (int k = 0; k < nops; ++k) {
      int op = r.irange(0, NOPS - 1);
      Case oc = gen_op(r, op, lim);
      if (oc.getd("arc") > 0 && std::fabs(oc.getd("delta")) / oc.getd("arc") > 1e4) oc.setd("arc", std::fabs(oc.getd("delta")) / 1e4);
      if (mode == 2 && r.chance(0.5)) oc.seti("use_shared", 1);
      s.ops.push_back(oc);
    }
  };
  if (mode == 0) { gen_script(scripts[0]); for (int t = 1; t < T; ++t) scripts[(size_t)t] = scripts[0]; }   // own copy of the same data
  else if (mode == 3) {
    // lock-step, same entry-point family at every step but different data and parameters in every thread: state that is
    // shared between objects behind a cache key (memoised trigonometry, scratch buffers keyed by size...) is then hit by
    // different keys at the same moment; half of the rounds are "offset storms" (delta callback + round joins/ends)
    const bool storm = r.coin();
    for (int k = 0; k < nops; ++k) {
      int op = storm ? (int)OFFSET_OBJ : r.irange(0, NOPS - 1);
      for (int t = 0; t < T; ++t) {
        Case oc = gen_op(r, op, lim);
        if (storm) { oc.seti("variant", 4 | (oc.geti("variant") & 3)); oc.seti("usecb", r.chance(0.8)); oc.seti("jt", r.chance(0.7) ? 2 : r.irange(0, 3)); oc.seti("et", r.chance(0.5) ? 4 : r.irange(0, 4));
          oc.setd("delta", (double)r.irange(2, 60) * (r.coin() ? 1.0 : 1.37)); oc.setd("arc", r.coin() ? 0.0 : r.real(0.05, 2.0));
          oc.p64["S"] = Paths64{ gen::star_shaped(r, 0, 0, (double)r.irange(60, 900), r.irange(3, 9), 0.4, 1.0, r.coin()) }; }
        if (oc.getd("arc") > 0 && std::fabs(oc.getd("delta")) / oc.getd("arc") > 1e4) oc.setd("arc", std::fabs(oc.getd("delta")) / 1e4);
        scripts[(size_t)t].ops.push_back(oc);
      }
    }
  }
  else for (int t = 0; t < T; ++t) gen_script(scripts[(size_t)t]);
  // two identical shared containers: a FRESH one for the concurrent phase (so that any lazily initialised state of a
  // container is first touched by several threads at once) and another for the sequential reference
  Paths64 shp = gen::zoo_paths(r, 1 << 16, 5); shp.push_back(gen::star_shaped(r, 0, 0, 40000, 9));
  Paths64 sho{ gen::polyline(r, 0, 0, 50000, 5) };
  ReuseableDataContainer64 shared_conc, shared_seq;
  shared_conc.AddPaths(shp, PathType::Subject, false); shared_conc.AddPaths(sho, PathType::Subject, true);
  shared_seq.AddPaths(shp, PathType::Subject, false); shared_seq.AddPaths(sho, PathType::Subject, true);
  std::vector<uint64_t> ref((size_t)T), got((size_t)T);
  long long rep0 = g_tsan_reports.load();
  // concurrent run FIRST: a first-use initialisation anywhere in the library then happens under contention
  Barrier start; start.n = T; Barrier step; step.n = T;
  std::vector<std::thread> th;
  std::vector<Rng> yr; for (int t = 0; t < T; ++t) yr.emplace_back((uint64_t)c.geti("rseed"), 1000 + (uint64_t)t);
  for (int t = 0; t < T; ++t) th.emplace_back([&, t]() {
    spread_this_thread(t);
    start.wait();
    got[(size_t)t] = run_script(scripts[(size_t)t], mode == 2 ? &shared_conc : nullptr, (mode == 0 || mode == 3) ? &step : nullptr, &yr[(size_t)t]);
  });
  for (auto& x : th) x.join();
  // sequential reference afterwards
  for (int t = 0; t < T; ++t) ref[(size_t)t] = run_script(scripts[(size_t)t], mode == 2 ? &shared_seq : nullptr, nullptr, nullptr);
  long long reps = g_tsan_reports.load() - rep0;
  ctx.evaluated((long long)T * nops);
  ctx.count("rounds"); ctx.count("rounds_T" + std::to_string(T)); ctx.count("rounds_mode" + std::to_string(mode)); ctx.count("thread_ops_run", (long long)T * nops);
  if (reps > 0) { ctx.violation("C14.data_race", { "tsan_report", "mode" + std::to_string(mode) }, c, std::to_string(reps) + " ThreadSanitizer report(s) during this round (stacks on stderr)"); return; }
  for (int t = 0; t < T; ++t) if (ref[(size_t)t] != got[(size_t)t]) {
    ctx.violation("C14.sequential_equivalence", { "hash_mismatch", "mode" + std::to_string(mode) }, c, "thread " + std::to_string(t) + " of " + std::to_string(T) + " returned results that differ from the same script run sequentially");
    return;
  }
  if (!from_replay) ctx.note_case(c, T >= 2 && nops > 0);
}

void vf_case(Ctx& ctx, uint64_t i) {
  Case c; static const int Ts[] = { 2, 4, 8, 16 };
  c.seti("T", Ts[i % 4]); c.seti("mode", (long long)((i / 4) % 4)); c.seti("nops", ctx.rng.irange(10, 24));
  c.seti("rseed", (long long)(ctx.rng.next() >> 2));
  judge(ctx, c, false);
}
void vf_replay(Ctx& ctx, const Case& c) { judge(ctx, c, true); }

void vf_end(Ctx& ctx) {
  // co-running evidence: which families were observed running concurrently with which
  int self = 0;
  for (int f = 0; f <= NOPS; ++f) {
    std::string name = f == NOPS ? "reuse_shared" : kOpName[f];
    if (g_corun[f][f].load()) { ++self; ctx.count("selfconc_" + name); }
    int n = 0; for (int g = 0; g <= NOPS; ++g) n += g_corun[f][g].load();
    ctx.cmax("max_corun_partners_" + name, n);
  }
  ctx.count("families_seen_concurrent_with_themselves_in_some_worker", self);
  ctx.count("tsan_reports_total", g_tsan_reports.load());
}
