// fuzz_c10 — coverage-guided companion of mon_c10's hostile mode (clang libFuzzer + ASan + UBSan).
// The byte string is decoded into the same vf::Case that mon_c10 uses (family, parameters, paths) and executed with
// c10::run_op. With VF_DUMP_CASE=<path> in the environment the decoded Case is written to <path> as a mon_c10 witness
// before it is executed, so a crashing input found here replays through `./check C10 --replay`.
#define VF_NO_MAIN
#include "c10_ops.h"
#include <cstdint>
#include <cstddef>

using namespace vf;
using namespace c10;

struct Reader {
  const uint8_t* p; size_t n, i = 0;
  uint64_t u(int bytes) { uint64_t v = 0; for (int k = 0; k < bytes; ++k) { v = (v << 8) | (i < n ? p[i] : 0); ++i; } return v; }
  bool more() const { return i < n; }
};

static int64_t coord(Reader& r, int mode, int64_t R) {
  switch (mode) {
    case 0: return (int64_t)(int8_t)r.u(1);                                   // tiny: coincidences everywhere
    case 1: return (int64_t)(int16_t)r.u(2);
    case 2: case 4: { int64_t g = R / 8 ? R / 8 : 1; return (int64_t)(int8_t)r.u(1) % 9 * g; }   // lattice
    default: { int64_t v = (int64_t)r.u(8); if (R <= 0) return 0; v %= (R + 1); return v; }
  }
}
static Paths64 paths(Reader& r, int mode, int64_t R, int maxp) {
  Paths64 pp; int np = (int)(r.u(1) % (uint64_t)(maxp + 1));
  for (int k = 0; k < np && r.more(); ++k) {
    int nv = (int)(r.u(1) % 14); Path64 p;
    if (mode == 4) {   // axis-parallel walk on a small lattice: every vertex changes x or y only, alternately
      int64_t g = R / 8 ? R / 8 : 1; int64_t x = (int64_t)(r.u(1) % 9) * g, y = (int64_t)(r.u(1) % 9) * g; bool horz = r.u(1) & 1;
      p.emplace_back(x, y);
      for (int j = 1; j < nv; ++j) { int64_t v = (int64_t)(r.u(1) % 9) * g; if (horz) x = v; else y = v; p.emplace_back(x, y); horz = !horz; }
      pp.push_back(std::move(p));
      continue;
    }
    for (int j = 0; j < nv; ++j) { int64_t x = coord(r, mode, R), y = coord(r, mode, R); if (mode == 3) { if (r.u(1) & 1) x = -x; if (r.u(1) & 1) y = -y; } p.emplace_back(x, y); }
    pp.push_back(std::move(p));
  }
  return pp;
}

static Case decode(const uint8_t* data, size_t size) {
  Reader r{ data, size };
  Case c; int op = (int)(r.u(1) % NOPS); c.seti("op", op);
  int mode = (int)(r.u(1) % 5);
  bool boolean = is_boolean_family(op);
  int maxexp = boolean ? 62 : 40;
  bool isD = (op == BOOLD_PATHS || op == BOOLD_TREE || op == HELPERSD || op == INFLATED || op == RECTD || op == MINKD || op == UTILD || op == EXPORTD);
  if (isD) maxexp = boolean ? 52 : 40;
  int e = 2 + (int)(r.u(1) % (uint64_t)(maxexp - 1));
  int64_t R = (int64_t)1 << e;
  c.seti("R", R); c.seti("prec", (long long)(r.u(1) % 17) - 8);
  c.seti("ct", (long long)(r.u(1) % 5)); c.seti("fr", (long long)(r.u(1) % 4)); c.seti("pc", (long long)(r.u(1) & 1)); c.seti("rev", (long long)(r.u(1) & 1));
  c.seti("jt", (long long)(r.u(1) % 4)); c.seti("et", (long long)(r.u(1) % 5));
  static const double deltas[] = { 0.0, 0.4, -0.4, 0.5, 1.0, -1.0, 2.5, -3.0, 17.0, -40.0 };
  double delta = deltas[r.u(1) % 10]; if (r.u(1) & 1) delta = (double)std::min<int64_t>(R, (int64_t)1 << 30) * ((double)(int8_t)r.u(1) / 100.0);
  c.setd("delta", delta);
  static const double miters[] = { 0.0, 0.5, 1.0, 2.0, 5.0, 100.0 }; c.setd("miter", miters[r.u(1) % 6]);
  static const double arcs[] = { 0.0, 0.0, 0.25, 1.0, 1e9, 1e-13 }; double arc = arcs[r.u(1) % 6];
  if (arc > 0 && std::fabs(delta) / arc > 1e5) arc = std::fabs(delta) / 1e5;   // <= ~700 steps per circle: a 600-byte input must stay far below the per-input time limit even under ASan on a loaded machine
  c.setd("arc", arc);
  static const double epss[] = { 0.0, 0.5, 1.0, 2.5, 1e6 }; c.setd("eps", epss[r.u(1) % 5]);
  c.seti("closed", (long long)(r.u(1) & 1)); c.seti("variant", (long long)(r.u(1) % 8)); c.seti("usecb", (long long)(r.u(1) & 1));
  int64_t a = coord(r, mode, R), b = coord(r, mode, R), d = coord(r, mode, R), f = coord(r, mode, R);
  c.p64["rect"] = Paths64{ Path64{ Point64(std::min(a, b), std::min(d, f)), Point64(std::max(a, b), std::max(d, f)) } };
  c.p64["S"] = paths(r, mode, R, 4); c.p64["C"] = paths(r, mode, R, 4); c.p64["O"] = paths(r, mode, R, 2);
  if (R > ((int64_t)1 << 61)) c.set("_tags", "coords_above_2^61");   // same input-class tag as mon_c10's tag_case
  return c;
}

extern "C" int LLVMFuzzerTestOneInput(const uint8_t* data, size_t size) {
  if (size < 8) return 0;
  Case c = decode(data, size);
  static const char* dump = getenv("VF_DUMP_CASE");
  if (dump) {
    std::ofstream f(dump);
    f << "# witness decoded from a libFuzzer input by fuzz_c10\nkv _mon mon_c10\nkv _cfg asan_big\nkv _claim crash\nkv _opt_mode hostile\nkv _opt_maxexp_bool 62\nkv _opt_maxexp_other 40\n" << c.serialize();
  }
  Acc acc;
  run_op(c, acc);
  return 0;
}
