// mon_c03 — C03: closed solution paths are well formed.
//   S1 S2 S3 (structural) on EVERY closed solution: general-position scenes at all magnitudes, rectilinear scenes,
//   the degenerate zoo (with and without open subjects) and unfiltered random polygons;
//   G1..G7 (geometric) only when the inputs are in general position (exact filter, |coord| <= 2^40) or
//   axis-parallel (|coord| <= 2^40).  The checker itself lives in c03_solcheck.h.
#include "region.h"
#include "gen.h"
#include "c03_solcheck.h"
#include "clipper2/clipper.h"

using namespace vf;
using namespace Clipper2Lib;

static gen::GpCounters g_gc;
static const int64_t kGeoMax = (int64_t)1 << 40;   // G claims: rounding term of tol < 0.25
static const int64_t kBoxMax = (int64_t)1 << 52;   // S3 premise

static void add_tally(Ctx& ctx, const c03::Tally& t, bool geo) {
  ctx.count("s_paths_checked", t.paths);
  ctx.count("s_vertices_checked", t.vertices);
  ctx.count("s3_vertices_checked", t.bbox_vertices);
  if (!geo) return;
  ctx.count("g2g5_triples", t.triples);
  ctx.count("g5_collinear_triples_kept_pc_on", t.collinear_triples_pc_on);
  ctx.count("g3_edge_pairs", t.edge_pairs);
  ctx.count("g4_nest_pairs", t.nest_pairs);
  ctx.count("g4_nest_pairs_point_tested", t.nest_pairs_tested);
  ctx.count("g4_skipped_all_vertices_on_other_path", t.nest_skipped_all_on);
  ctx.count("g4_inconsistent_vertices_diag", t.nest_inconsistent);
  ctx.cmax("max_g4_depth", t.max_depth);
  ctx.count("g6_vertices", t.g6_vertices);
  ctx.count("g6_vertices_equal_input_vertex", t.g6_exact_input_vertex);
  ctx.count("g7_classifier_points_judged", t.region_points);
  ctx.count("g7_classifier_points_skipped_by_margin", t.region_points_skipped);
}

static void judge(Ctx& ctx, const Case& c, bool from_replay) {
  const Paths64& S = c.P("S"); const Paths64& C = c.P("C"); const Paths64& O = c.P("O");
  int ct = (int)c.geti("ct"), fr = (int)c.geti("fr");
  bool pc = c.geti("pc") != 0, rev = c.geti("rev") != 0;
  std::string cls = c.gets("cls", "zoo");
  Paths64 closed_in = concat(S, C);
  Paths64 in = concat(closed_in, O);
  int64_t M = max_abs_coord(in);

  // premise of the geometric part, decided from the witness itself
  bool geo = false;
  if (O.empty() && M <= kGeoMax) {
    if (cls == "gp") geo = !from_replay || general_position(closed_in, M);   // generator applied the same exact filter
    else if (cls == "rect") geo = c03::is_axis_parallel(closed_in);                   // exact: every edge horizontal or vertical
  }
  bool s3 = M <= kBoxMax;
  ld tol = tol_of(M);

  ctx.begin(c);
  Clipper64 clipper;
  clipper.PreserveCollinear(pc);
  clipper.ReverseSolution(rev);
  clipper.AddSubject(S);
  if (!O.empty()) clipper.AddOpenSubject(O);
  clipper.AddClip(C);
  Paths64 sol, sol_open;
  bool ok = O.empty() ? clipper.Execute((ClipType)ct, (FillRule)fr, sol) : clipper.Execute((ClipType)ct, (FillRule)fr, sol, sol_open);
  ctx.evaluated();
  if (!ok) ctx.count("execute_returned_false");

  const bool show = ctx.optint("show") != 0;     // triage aid: --show 1 prints the path sets to stderr
  auto dump = [&](const char* name, const Paths64& pp) {
    if (!show) return;
    fprintf(stderr, "%s: %zu paths\n", name, pp.size());
    for (auto& p : pp) { fprintf(stderr, "  [%zu, area2=%s]", p.size(), ldstr((ld)area2(p)).c_str()); for (auto& v : p) fprintf(stderr, " %lld,%lld", (long long)v.x, (long long)v.y); fprintf(stderr, "\n"); }
  };
  dump("S", S); dump("C", C); dump("O", O); dump("solution", sol);

  c03::Finding f; c03::Tally t;
  ctx.count("solutions_structural_checked");
  ctx.count(std::string("cls_") + cls);
  ctx.count("cfg_ct" + std::to_string(ct) + "_fr" + std::to_string(fr) + "_pc" + std::to_string(pc) + "_rev" + std::to_string(rev));
  if (s3) ctx.count("solutions_s3_checked");
  if (!sol.empty()) ctx.count("solutions_nonempty");

  bool good = c03::check_structural(sol, in, s3, f, t, "solution");
  if (good && geo) {
    ctx.count("solutions_geometric_checked");
    ctx.count(std::string("geo_") + cls);
    if (!sol.empty()) ctx.count(std::string("geo_nonempty_") + cls);
    good = c03::check_geometric(sol, in, pc, rev, tol, f, t);
    if (good && !sol.empty()) {
      // G7: feeding the solution back through Union returns the same set of paths. NonZero + the same
      // ReverseSolution flag reproduce the orientation convention of the first pass (outer = -1 when reversed).
      Clipper64 c2;
      c2.PreserveCollinear(pc);
      c2.ReverseSolution(rev);
      c2.AddSubject(sol);
      Paths64 re;
      bool ok2 = c2.Execute(ClipType::Union, FillRule::NonZero, re);
      ctx.count("g7_reunions");
      dump("reunion", re);
      if (!ok2) ctx.count("g7_execute_returned_false");
      // the re-union output is itself a closed solution: structural claims apply to it (its input is `sol`)
      good = c03::check_structural(re, sol, s3, f, t, "reunion");
      if (good) good = c03::compare_reunion(sol, re, f, t);
    }
  }
  add_tally(ctx, t, geo);
  if (!good) {
    // narrow class of the HI_PRECISION rounding defect (see findings/c03_hp_bbox_rounding.txt): the un-clamped
    // GetSegmentIntersectPt of that build lands a rounding error (at most 1 + M*2^-50 units, i.e. 1 below 2^50 and
    // 4 at 2^52) outside the box when |coord| is 2^44 or more. Anything farther out, at smaller coordinates or in
    // another build does not get the tag.
    if (f.claim == c03::kS3 && ctx.cfg_name == "hp" && M >= ((int64_t)1 << 44) && f.value >= 1 && f.value <= 1.0L + ldexpl((ld)M, -50))
      f.tags.insert(f.tags.begin(), "hp_build+outside_within_rounding+M_ge_2^44");
    f.tags.push_back("cls_" + cls);
    f.tags.push_back("build_" + ctx.cfg_name);
    ctx.violation(f.claim, f.tags, c, f.detail + " [cls=" + cls + " ct=" + std::to_string(ct) + " fr=" + std::to_string(fr) +
                  " pc=" + std::to_string(pc) + " rev=" + std::to_string(rev) + " M=" + std::to_string(M) + "]");
  }
  if (!from_replay) ctx.note_case(c, !sol.empty());   // non-trivial = at least one closed solution path
}

static const int kGpMag[] = { 5, 7, 10, 20, 30, 40, 5, 7, 10, 20, 30, 40, 52, 58, 61 };
static const int kZooMag[] = { 4, 5, 6, 8, 10, 16, 24, 32, 40, 48, 52, 52, 56, 61 };
static const char* const kClassCycle[] = { "gp", "rect", "gp", "zoo", "rect", "gp", "rand", "rect", "gp", "zoo" };

void vf_case(Ctx& ctx, uint64_t i) {
  Rng& r = ctx.rng;
  int combo = (int)(i % 64);
  uint64_t k = i / 64;
  std::string cls = kClassCycle[k % 10];
  uint64_t m = k / 10;
  // triage aids (not used by the registered jobs): --cls gp|rect|zoo|rand and --mag <exp> pin the class / magnitude
  if (!ctx.optstr("cls").empty()) cls = ctx.optstr("cls");
  const int magopt = (int)ctx.optint("mag", -1);
  Case c;
  c.set("cls", cls);
  c.seti("ct", 1 + (combo & 3)); c.seti("fr", (combo >> 2) & 3);
  c.seti("pc", (combo >> 4) & 1); c.seti("rev", (combo >> 5) & 1);
  if (cls == "gp") {
    int magexp = magopt >= 0 ? magopt : kGpMag[m % 15];
    gen::Scene sc = gen::gp_scene(r, g_gc, magexp);
    if (!sc.ok) { ctx.count("gp_gave_up"); return; }
    c.p64["S"] = sc.subj; c.p64["C"] = sc.clip;
    c.seti("mag", magexp); c.seti("shape", sc.shape);
    ctx.count("gp_mag_2^" + std::to_string(magexp));
    ctx.count("gp_shape_" + std::to_string(sc.shape));
  } else if (cls == "rect") {
    gen::RectScene rs = gen::rectilinear_scene(r, 8, r.chance(0.75) ? 4 : 6);
    gen::scale_paths(rs.subj, rs.s, rs.ox, rs.oy); gen::scale_paths(rs.clip, rs.s, rs.ox, rs.oy);
    c.p64["S"] = rs.subj; c.p64["C"] = rs.clip;
    c.seti("G", rs.G); c.seti("scale", rs.s);
    ctx.count("rect_scale_" + std::to_string(rs.s));
  } else if (cls == "zoo") {
    int e = magopt >= 0 ? magopt : kZooMag[m % 14];
    int64_t R = (int64_t)1 << e;
    c.p64["S"] = gen::zoo_paths(r, R, 5);
    c.p64["C"] = gen::zoo_paths(r, R, 4);
    if (r.chance(0.3)) {
      Paths64 o; int no = r.irange(1, 3);
      for (int q = 0; q < no; ++q) o.push_back(r.chance(0.3) ? gen::zoo_path(r, R) : gen::polyline(r, 0, 0, R, r.irange(2, 7)));
      c.p64["O"] = o;
      ctx.count("zoo_with_open_subjects");
    }
    c.seti("mag", e);
    ctx.count("zoo_mag_2^" + std::to_string(e));
  } else { // rand: unfiltered random polygons (coincidences galore at small magnitudes)
    int e = magopt >= 0 ? magopt : kZooMag[m % 14];
    int64_t R = (int64_t)1 << e;
    Paths64 s, cl; int ns = r.irange(1, 3), nc = r.irange(0, 3);
    int64_t off = e <= 10 ? 0 : R / 4;
    for (int q = 0; q < ns; ++q) s.push_back(gen::random_poly(r, r.range(-off, off), r.range(-off, off), R - off, r.irange(3, 16)));
    for (int q = 0; q < nc; ++q) cl.push_back(gen::random_poly(r, r.range(-off, off), r.range(-off, off), R - off, r.irange(3, 16)));
    c.p64["S"] = s; c.p64["C"] = cl;
    c.seti("mag", e);
    ctx.count("rand_mag_2^" + std::to_string(e));
  }
  judge(ctx, c, false);
}

void vf_replay(Ctx& ctx, const Case& c) { judge(ctx, c, true); }

void vf_end(Ctx& ctx) {
  ctx.count("gp_candidates_tried", g_gc.tries);
  ctx.count("gp_candidates_rejected", g_gc.rejected); ctx.count("gp_flat_dense_scanline_scenes", g_gc.flat); ctx.count("gp_scenes_with_crossing_a_hair_past_a_scanline", g_gc.tie); ctx.count("gp_scenes_with_a_corner_whose_cross_product_is_an_exact_power_of_two", g_gc.wrap);
}
