// mon_c07 — C07: open-path offsetting produces the stroke of the requested width and caps.
// Reference model in c07_stroke.h (union of per-segment rectangles, join shapes, caps); every verdict is taken at integer
// sample points outside the tolerance band t = arc + 2 + 0.001|delta| (+0.25 own margin), "covered" = winding(result,q) != 0.
//
// Claims
//   C07.stroke_lower    a point the property demands to be covered is not: own rectangle of a segment shrunk by t (all join
//                       and end types), Square-end prolongation shrunk by t, Round cap, and - joins not Bevel - every point
//                       within |delta| - t of the polyline (closed polyline for Joined), for Butt ends only away from the ends
//   C07.stroke_upper    a covered point farther than t from every piece of the model (rectangles grown by t, discs of radius
//                       k_j|delta| + t about join vertices, Round/Square caps) - contains "Butt: nothing beyond an end"
//   C07.reach           a covered point farther than k|delta| + t from every path, k = max(join factor, cap factor)
//   C07.sign_identity   InflatePaths(p, +delta) and InflatePaths(p, -delta) are not the identical list of paths
//   C07.direction       coverage of a point differs between the call on the paths and the call on the reversed paths, the
//                       point being farther than t + 1.25 from both result boundaries
//   C07.independence    paths pairwise farther apart than 4k|delta| + 4t + 16: coverage of a point differs between the joint
//                       call and the call on one path alone, the point being farther than 3 units from both result
//                       boundaries (C12's side-by-side rounding is a unit and stays inside that margin)
//   C07.single_point    the result around a 1-point path is consistent neither with the disc nor with the axis-parallel
//                       square of radius |delta| (within t)
//   C07.error_code      ClipperOffset::ErrorCode() != 0 on a valid input
//
// Classifier tags (narrow predicates over the witness, for known findings)
//   point_square_delta_ge_2^31              the violated path is a single point, join type not Round, ceil(|delta|) >= 2^31
//                                           (DoGroupOffset builds that square from `int d = (int)std::ceil(abs_delta)`)
//   isolated_not_reproduced_on_finer_grid   the same demand at the same point is met when the scene is centred and given on
//                                           a 1024x and a 257x finer grid (see finer_grid_tag): rounding coincidence of the
//                                           raw offset outlines that the clean-up union mis-fills; reproduced_on_finer_grid
//                                           otherwise (every scale-invariant defect of caps, joins, width, reach)
//   two_point_path_earlier_in_joined_group  classifier of the end_type_ defect fixed in /repo (must not occur any more)
//
// Notes on the oracle (bring-up)
//   * a 1-point path may come out as the disc or as the square: the property allows both, so the monitor demands the
//     intersection/union of the two and that one of the two shapes is consistent with all samples of the point.
//   * a 2-point path in a Joined group has two full-reversal joins; only its own rectangle (Round join: the stadium) is
//     demanded, and nothing beyond max(join factor, sqrt2)|delta| from its ends.
//   * the sample stream is seeded from the inputs and the configuration only and the failing point is stored in the
//     witness (qx, qy), so a witness replays at the very point it failed at.
#include "region.h"
#include "gen.h"
#include "c07_stroke.h"
#include "clipper2/clipper.h"
#include <time.h>

using namespace vf;
using namespace Clipper2Lib;
using namespace c07;

static const ld kMargin = 0.25L;

static std::string ptstr(const Point64& q) { return "(" + std::to_string(q.x) + "," + std::to_string(q.y) + ")"; }

static Paths64 run_offset(const Paths64& P, double delta, int jt, int et, double ml, double at, int api, int& err) {
  err = 0;
  if (api == 0) return InflatePaths(P, delta, (JoinType)jt, (EndType)et, ml, at);
  ClipperOffset co(ml, at);
  if (api == 1) co.AddPaths(P, (JoinType)jt, (EndType)et);
  else for (const Path64& p : P) co.AddPath(p, (JoinType)jt, (EndType)et);      // one group per path
  Paths64 R;
  co.Execute(delta, R);
  err = co.ErrorCode();
  return R;
}

// ------------------------------------------------------------------------------------------------ sample points
static void point_samples(Rng& g, const PathModel& m, const Params& pa, Samples& sp) {
  const ld D = pa.delta, e1 = pa.t + 1.25L, e3 = 3 * pa.t;
  const ld cx = (ld)m.p[0].x, cy = (ld)m.p[0].y;
  for (int k = 0; k < 8; ++k) {
    ld a = kPiL * (k + g.real(0.0, 1.0)) / 4;
    for (ld r : { D - e1, D + e1, D - e3 }) if (r > 0) sp.add(cx + r * cosl(a), cy + r * sinl(a));
  }
  for (int sx = -1; sx <= 1; sx += 2) for (int sy = -1; sy <= 1; sy += 2) {
    sp.add(cx + sx * 0.8L * D, cy + sy * 0.8L * D);                      // inside the square, outside the disc
    sp.add(cx + sx * (D - e1), cy + sy * (D - e1));
    sp.add(cx + sx * (D + e1), cy + sy * (D + e1) * g.real(0.0, 1.0));    // just outside a side of the square
    sp.add(cx + sx * (D + e1) * g.real(0.0, 1.0), cy + sy * (D + e1));
    sp.add(cx + sx * (D + e1 + 1), cy + sy * (D + e1 + 1));
  }
  for (int k = 0; k < 4; ++k) { ld a = kPiL * k / 2; sp.add(cx + (D - e1) * cosl(a), cy + (D - e1) * sinl(a)); sp.add(cx + (D + e1) * cosl(a), cy + (D + e1) * sinl(a)); }
  for (int k = 0; k < 12; ++k) sp.add(cx + g.real(-1.7, 1.7) * (D + e1), cy + g.real(-1.7, 1.7) * (D + e1));
}

static void end_samples(Rng& g, const Point64& E, ld ux, ld uy, const PathModel& m, const Params& pa, Samples& sp) {
  // (ux,uy): unit vector pointing beyond the end; lateral = (-uy, ux)
  const ld D = pa.delta, e1 = pa.t + 1.25L;
  const ld nx = -uy, ny = ux;
  auto put = [&](ld a, ld b) { sp.add((ld)E.x + a * ux + b * nx, (ld)E.y + a * uy + b * ny); };
  put(e1, 0);
  put(D - e1, 0); put(D + e1, 0);
  for (int s = -1; s <= 1; s += 2) {
    if (D > e1) { put(e1, s * (D - e1)); put(D - e1, s * (D - e1)); put(D + e1, s * (D - e1)); put(-e1, s * (D - e1)); }
    put(e1, s * (D + e1));
    put(0.75L * D, s * 0.75L * D);
    put(D + e1, s * (D + e1));
  }
  for (int k = 0; k < 2; ++k) {
    ld a = g.real(-1.45, 1.45);
    if (D > e1) put((D - e1) * cosl(a), (D - e1) * sinl(a));
    a = g.real(-1.45, 1.45);
    put((D + e1) * cosl(a), (D + e1) * sinl(a));
    a = g.real(-1.45, 1.45);
    put((m.k * D + e1) * cosl(a), (m.k * D + e1) * sinl(a));
  }
}

static void path_samples(Rng& g, const PathModel& m, const Params& pa, Samples& sp) {
  if (m.kind == K_POINT) { point_samples(g, m, pa, sp); return; }
  const ld D = pa.delta, e1 = pa.t + 1.25L, e3 = 3 * pa.t;
  const size_t n = m.p.size();
  const size_t nseg = m.kind == K_CLOSED ? n : n - 1;
  for (size_t i = 0; i < nseg; ++i) {
    const Point64& a = m.p[i]; const Point64& b = m.p[(i + 1) % n];
    ld dx = (ld)b.x - (ld)a.x, dy = (ld)b.y - (ld)a.y, len = sqrtl(dx * dx + dy * dy);
    dx /= len; dy /= len;
    ld nx = dy, ny = -dx;
    ld f = g.real(0.1, 0.9) * len;
    for (int s = -1; s <= 1; s += 2) {
      for (ld off : { D - e1, D + e1, D - e3, D + e3 }) if (off > 0) sp.add((ld)a.x + dx * f + s * nx * off, (ld)a.y + dy * f + s * ny * off);
      // corners of the segment's own rectangle shrunk by t, and the same corners just outside
      if (D > e1 && len > 2 * e1) {
        sp.add((ld)a.x + dx * e1 + s * nx * (D - e1), (ld)a.y + dy * e1 + s * ny * (D - e1));
        sp.add((ld)a.x + dx * (len - e1) + s * nx * (D - e1), (ld)a.y + dy * (len - e1) + s * ny * (D - e1));
      }
    }
    sp.add((ld)a.x + dx * f, (ld)a.y + dy * f);
  }
  // ends
  if (m.kind == K_OPEN || m.kind == K_TWO_JOINED) {
    { const Point64& a = m.p[0]; const Point64& b = m.p[1];
      ld dx = (ld)a.x - (ld)b.x, dy = (ld)a.y - (ld)b.y, len = sqrtl(dx * dx + dy * dy);
      end_samples(g, a, dx / len, dy / len, m, pa, sp); }
    { const Point64& a = m.p[n - 1]; const Point64& b = m.p[n - 2];
      ld dx = (ld)a.x - (ld)b.x, dy = (ld)a.y - (ld)b.y, len = sqrtl(dx * dx + dy * dy);
      end_samples(g, a, dx / len, dy / len, m, pa, sp); }
  }
  // joins
  if (m.has_joins) {
    size_t jb = m.kind == K_CLOSED ? 0 : 1, je = m.kind == K_CLOSED ? n : n - 1;
    for (size_t i = jb; i < je; ++i) {
      const Point64& v = m.p[i]; const Point64& u = m.p[(i + n - 1) % n]; const Point64& w = m.p[(i + 1) % n];
      ld ax = (ld)v.x - (ld)u.x, ay = (ld)v.y - (ld)u.y, al = sqrtl(ax * ax + ay * ay);
      ld bx = (ld)w.x - (ld)v.x, by = (ld)w.y - (ld)v.y, bl = sqrtl(bx * bx + by * by);
      ax /= al; ay /= al; bx /= bl; by /= bl;
      int sg = orient(u, v, w) >= 0 ? 1 : -1;          // left turn: the outer side is the right-hand side
      ld oax = sg * ay, oay = -sg * ax, obx = sg * by, oby = -sg * bx;
      ld ox = oax + obx, oy = oay + oby, ol = sqrtl(ox * ox + oy * oy);
      if (ol < 1e-9L) continue;
      ox /= ol; oy /= ol;
      std::vector<ld> rs = { D - e1, D + e1, 0.5L * (1 + pa.kj) * D };
      if (pa.kj > 1) { rs.push_back(pa.kj * D - e1); rs.push_back(pa.kj * D + e1); }
      for (ld r : rs) if (r > 0) sp.add((ld)v.x + ox * r, (ld)v.y + oy * r);
      for (int k = 0; k < 2; ++k) {
        ld f = k == 0 ? g.real(0.0, 1.0) : (g.coin() ? g.real(0.0, 0.1) : g.real(0.9, 1.0));
        ld fx = oax * (1 - f) + obx * f, fy = oay * (1 - f) + oby * f, fl = sqrtl(fx * fx + fy * fy);
        if (fl < 1e-9L) continue;
        fx /= fl; fy /= fl;
        if (D > e1) sp.add((ld)v.x + fx * (D - e1), (ld)v.y + fy * (D - e1));
        sp.add((ld)v.x + fx * (D + e1), (ld)v.y + fy * (D + e1));
      }
      sp.add((ld)v.x - ox * 0.5L * D, (ld)v.y - oy * 0.5L * D);
      sp.add((ld)v.x - ox * (D + e1), (ld)v.y - oy * (D + e1));
    }
  }
  // uniform in the inflated bounding box
  {
    ld e = m.k * D + e3 + 2;
    ld w = (ld)m.bx1 - (ld)m.bx0 + 2 * e, h = (ld)m.by1 - (ld)m.by0 + 2 * e;
    for (int k = 0; k < 24; ++k) sp.add((ld)m.bx0 - e + g.unit() * w, (ld)m.by0 - e + g.unit() * h);
  }
}

static void result_samples(Rng& g, const Paths64& R, Samples& sp) {
  size_t np = 0;
  for (const Path64& p : R) {
    size_t n = p.size(); if (n < 3) continue;
    if (++np > 10) break;
    ld sx = 0, sy = 0; for (auto& v : p) { sx += (ld)v.x; sy += (ld)v.y; }
    sp.add(sx / n, sy / n);
    for (int e = 0; e < 2; ++e) {
      size_t i = (size_t)g.range(0, (int64_t)n - 1);
      const Point64& a = p[i]; const Point64& b = p[(i + 1) % n];
      ld dx = (ld)b.x - (ld)a.x, dy = (ld)b.y - (ld)a.y, len = sqrtl(dx * dx + dy * dy);
      if (len == 0) continue;
      ld mx = 0.5L * ((ld)a.x + (ld)b.x), my = 0.5L * ((ld)a.y + (ld)b.y);
      sp.add(mx - 1.5L * dy / len, my + 1.5L * dx / len); sp.add(mx + 1.5L * dy / len, my - 1.5L * dx / len);
    }
  }
}

static bool pt_less(const Point64& a, const Point64& b) { return a.x != b.x ? a.x < b.x : a.y < b.y; }

// ------------------------------------------------------------------------------------------------ the oracle
static Params make_params(double delta_d, int jt, int et, double ml, double at) {
  Params pa; pa.jt = jt; pa.et = et; pa.delta = fabsl((ld)delta_d);
  const ld arc = at > 0 ? std::min(pa.delta, (ld)at) : pa.delta / 500;
  pa.t = arc + 2 + 0.001L * pa.delta; pa.tm = pa.t + kMargin;
  pa.kj = jt == JT_MITER ? std::max((ld)ml, kSqrt2) : (jt == JT_SQUARE ? kSqrt2 : 1.0L);
  return pa;
}

// Classifier for stroke violations. The clean-up union inside ClipperOffset mis-fills a face when a vertex of one raw
// offset outline happens to lie within a fraction of a unit of a non-incident outline edge (the general-position
// premise of C01 is not met by such outlines; the raw outlines have exact winding number 0 there). That is a coincidence
// on the integer grid: the same geometry given on a much finer grid (scene centred on the origin, then paths, |delta|
// and arc tolerance multiplied by s and by s/4+1, s = 1024 or the largest power of 4 keeping coordinates below 2^50;
// the sub-unit gap becomes hundreds of units) is offset correctly, whereas a wrong cap, join, width or reach is
// invariant under translation and scaling. The demand at the scaled point is at least as decisive as the original one
// (t grows less than proportionally).
static std::string finer_grid_tag(const Paths64& P, double delta_d, int jt, int et, double ml, double at, int api, const Point64& q, bool lower) {
  int64_t x0 = 0, y0 = 0, x1 = 0, y1 = 0; bool any = false; bounds(P, x0, y0, x1, y1, any);
  const int64_t cx = x0 / 2 + x1 / 2, cy = y0 / 2 + y1 / 2;
  Paths64 Pc = P; gen::translate(Pc, -cx, -cy);
  const Point64 qc(q.x - cx, q.y - cy);
  const ld M = std::max<ld>({ (ld)max_abs_coord(Pc), fabsl((ld)qc.x), fabsl((ld)qc.y), fabsl((ld)delta_d) * 8 });
  int64_t smax = 1024;
  while (smax > 1 && M * (ld)smax > 0x1p50L) smax /= 4;
  if (smax < 16) return "finer_grid_not_tried";
  int decisive = 0;
  for (int64_t sc : { smax, smax / 4 + 1 }) {
    Paths64 Ps = Pc; gen::scale_paths(Ps, sc);
    const Point64 qs(qc.x * sc, qc.y * sc);
    const double d2 = delta_d * (double)sc, at2 = at * (double)sc;
    Params pa = make_params(d2, jt, et, ml, at2);
    bool must_in = false, may = false, beyond = true;
    for (const Path64& p : Ps) {
      PathModel pm = make_model(p, pa);
      Eval e = eval_path(pm, pa, qs);
      if (e.must_in) must_in = true;
      if (e.may) may = true;
      if (!(e.d > pm.k * pa.delta + pa.tm)) beyond = false;
    }
    if (lower ? !must_in : !(beyond || !may)) continue;
    ++decisive;
    int err = 0;
    Paths64 R2 = run_offset(Ps, d2, jt, et, ml, at2, api, err);
    bool covered = winding(R2, qs) != 0;
    if (lower ? !covered : covered) return "reproduced_on_finer_grid";
  }
  return decisive == 2 ? "isolated_not_reproduced_on_finer_grid" : "finer_grid_not_decisive";
}

// The same classifier for the two comparison claims: does the coverage of the scaled point still differ between the two
// calls (paths A vs paths B) on the finer grid?
static std::string finer_grid_pair_tag(const Paths64& A, const Paths64& B, double delta_d, int jt, int et, double ml, double at, int api, const Point64& q) {
  int64_t x0 = 0, y0 = 0, x1 = 0, y1 = 0; bool any = false; bounds(A, x0, y0, x1, y1, any);
  const int64_t cx = x0 / 2 + x1 / 2, cy = y0 / 2 + y1 / 2;
  Paths64 Ac = A, Bc = B; gen::translate(Ac, -cx, -cy); gen::translate(Bc, -cx, -cy);
  const Point64 qc(q.x - cx, q.y - cy);
  const ld M = std::max<ld>({ (ld)max_abs_coord(Ac), (ld)max_abs_coord(Bc), fabsl((ld)qc.x), fabsl((ld)qc.y), fabsl((ld)delta_d) * 8 });
  int64_t smax = 1024;
  while (smax > 1 && M * (ld)smax > 0x1p50L) smax /= 4;
  if (smax < 16) return "finer_grid_not_tried";
  for (int64_t sc : { smax, smax / 4 + 1 }) {
    Paths64 As = Ac, Bs = Bc; gen::scale_paths(As, sc); gen::scale_paths(Bs, sc);
    const Point64 qs(qc.x * sc, qc.y * sc);
    int err = 0;
    Paths64 Ra = run_offset(As, delta_d * (double)sc, jt, et, ml, at * (double)sc, api, err);
    Paths64 Rb = run_offset(Bs, delta_d * (double)sc, jt, et, ml, at * (double)sc, api, err);
    if ((winding(Ra, qs) != 0) != (winding(Rb, qs) != 0)) return "reproduced_on_finer_grid";
  }
  return "isolated_not_reproduced_on_finer_grid";
}

static Case with_point(const Case& c, const Point64& q) { Case w = c; w.seti("qx", q.x); w.seti("qy", q.y); return w; }

static void judge(Ctx& ctx, const Case& c, bool from_replay) {
  const Paths64& P = c.P("S");
  const double delta_d = c.getd("delta");
  const int jt = (int)c.geti("jt"), et = (int)c.geti("et");
  const double ml = c.getd("ml", 2.0), at = c.getd("at", 0.0);
  const int api = (int)c.geti("api");
  if (jt < 0 || jt > 3 || et < ET_JOINED || et > ET_ROUND || !(delta_d == delta_d) || std::fabs(delta_d) < 1 || P.empty() || !(ml >= 0) || !(at >= 0)) { ctx.count("bad_case"); return; }

  // premises (exact, re-verified on replay)
  for (const Path64& p : P) {
    int pr = path_premise(p, et == ET_JOINED);
    if (pr != 0) { ctx.count(pr == 1 ? "premise_not_met_duplicates" : "premise_not_met_turning_angle"); return; }
  }

  const Params pa = make_params(delta_d, jt, et, ml, at);
  const ld D = pa.delta;
  const ld tm = pa.tm;
  std::vector<PathModel> M;
  for (const Path64& p : P) M.push_back(make_model(p, pa));
  const size_t m = M.size();
  ld kglob = 1; for (auto& pm : M) kglob = std::max(kglob, pm.k);
  bool distant = m > 1;
  const ld sep = 4 * kglob * D + 4 * tm + 16;
  for (size_t i = 0; i < m && distant; ++i) for (size_t j = i + 1; j < m; ++j) if (bbox_gap(M[i], M[j]) < sep) { distant = false; break; }
  const bool vacuous_lower = D <= tm;     // nothing can be demanded to be covered

  ctx.begin(c);
  int err = 0;
  Paths64 R = run_offset(P, delta_d, jt, et, ml, at, api, err);
  ctx.evaluated();
  if (err) { ctx.violation("C07.error_code", { "error_code" }, c, "ClipperOffset::ErrorCode() = " + std::to_string(err)); return; }
  if (from_replay && ctx.optint("show", 0)) {
    for (auto& p : R) { fprintf(stderr, "R %zu area2sign %d:", p.size(), sgn(area2(p))); for (auto& v : p) fprintf(stderr, " %lld,%lld", (long long)v.x, (long long)v.y); fprintf(stderr, "\n"); }
  }
  const std::vector<std::string> cfgtags = { kJtName[jt], std::string("end_") + kEtName[et] };

  // ---- +delta / -delta identity (exact)
  {
    Paths64 Rm = run_offset(P, -delta_d, jt, et, ml, at, api, err);
    ctx.evaluated();
    if (!same_paths(R, Rm)) {
      std::vector<std::string> tags = { "paths_differ" }; tags.insert(tags.end(), cfgtags.begin(), cfgtags.end());
      ctx.violation("C07.sign_identity", tags, c, "InflatePaths(delta=" + ldstr(delta_d) + ") returned " + std::to_string(R.size()) + " paths (hash " + std::to_string(hash_paths(R)) +
        "), InflatePaths(delta=" + ldstr(-delta_d) + ") returned " + std::to_string(Rm.size()) + " paths (hash " + std::to_string(hash_paths(Rm)) + ")");
      return;
    }
    ctx.count("sign_identity_checked");
  }

  // ---- reversed paths
  Paths64 Prev = P; gen::reverse_all(Prev);
  Paths64 Rrev = run_offset(Prev, delta_d, jt, et, ml, at, api, err);
  ctx.evaluated();
  const bool rev_exact = same_paths(canon_paths(R), canon_paths(Rrev));
  ctx.count(rev_exact ? "direction_results_identical" : "direction_results_differ_compared_by_region");

  // ---- stand-alone results of distant members
  std::vector<Paths64> Ralone(m);
  std::vector<char> alone_cmp(m, 0);     // 1: compare by region
  Samples sp_extra;                      // probes next to vertices that only one of the two results has
  std::vector<int> extra_owner;
  if (distant) {
    ctx.count("independence_calls_with_distant_members");
    // assign result paths of the joint call to the nearest member
    std::vector<Paths64> grp(m);
    for (const Path64& rp : R) {
      if (rp.empty()) continue;
      size_t best = 0; ld bd = std::numeric_limits<ld>::infinity();
      for (size_t i = 0; i < m; ++i) { ld d = bbox_dist(M[i], rp[0]); if (d < bd) { bd = d; best = i; } }
      grp[best].push_back(rp);
    }
    for (size_t i = 0; i < m; ++i) {
      Ralone[i] = run_offset(Paths64(1, P[i]), delta_d, jt, et, ml, at, api, err);
      ctx.evaluated();
      if (same_paths(canon_paths(grp[i]), canon_paths(Ralone[i]))) { ctx.count("independence_member_results_identical"); continue; }
      ctx.count("independence_member_results_differ_compared_by_region");
      alone_cmp[i] = 1;
      std::vector<Point64> va, vb, only;
      for (auto& p : grp[i]) va.insert(va.end(), p.begin(), p.end());
      for (auto& p : Ralone[i]) vb.insert(vb.end(), p.begin(), p.end());
      std::sort(va.begin(), va.end(), pt_less); std::sort(vb.begin(), vb.end(), pt_less);
      std::set_symmetric_difference(va.begin(), va.end(), vb.begin(), vb.end(), std::back_inserter(only), pt_less);
      size_t step = std::max<size_t>(1, only.size() / 24);
      for (size_t k = 0; k < only.size(); k += step)
        for (int d = 0; d < 4; ++d) { sp_extra.pts.emplace_back(only[k].x + (d == 0 ? 5 : d == 1 ? -5 : 0), only[k].y + (d == 2 ? 5 : d == 3 ? -5 : 0)); extra_owner.push_back((int)i); }
    }
  } else if (m > 1) ctx.count("calls_with_near_members_no_independence_claim");

  // ---- sample points
  // the sample stream depends on the inputs and the configuration only (not on bookkeeping keys of a witness file)
  uint64_t shash = hash_paths(P);
  { double vals[3] = { delta_d, ml, at }; for (double v : vals) { uint64_t b; memcpy(&b, &v, 8); shash = (shash ^ b) * 0x100000001b3ull; shash ^= shash >> 29; }
    shash = (shash ^ (uint64_t)(jt * 64 + et * 8 + api)) * 0x100000001b3ull; }
  Rng srng(shash, 0xc07);
  Samples sp;
  for (auto& pm : M) path_samples(srng, pm, pa, sp);
  {
    int64_t x0 = 0, y0 = 0, x1 = 0, y1 = 0; bool any = false; bounds(P, x0, y0, x1, y1, any);
    ld e = kglob * D + 3 * pa.t + 2, w = (ld)x1 - (ld)x0 + 2 * e, h = (ld)y1 - (ld)y0 + 2 * e;
    for (int k = 0; k < 16; ++k) sp.add((ld)x0 - e + srng.unit() * w, (ld)y0 - e + srng.unit() * h);
  }
  result_samples(srng, R, sp);
  const size_t cap = (size_t)ctx.optint("maxsamples", 420);
  if (sp.pts.size() > cap) { srng.shuffle(sp.pts); sp.pts.resize(cap); }
  if (c.has("qx") && c.has("qy")) sp.pts.insert(sp.pts.begin(), Point64((int64_t)c.geti("qx"), (int64_t)c.geti("qy")));   // the point a stored witness failed at
  const size_t n_regular = sp.pts.size();
  sp.pts.insert(sp.pts.end(), sp_extra.pts.begin(), sp_extra.pts.end());

  long long jin = 0, jout = 0, band = 0, on_edge = 0, wnot1 = 0;
  long long dir_agree = 0, dir_band = 0, ind_agree = 0, ind_band = 0;
  std::vector<char> disc_bad(m, 0), sq_bad(m, 0), pt_judged(m, 0);
  std::vector<std::string> disc_why(m), sq_why(m);
  std::vector<Eval> ev(m);
  for (size_t qi = 0; qi < sp.pts.size(); ++qi) {
    const Point64& q = sp.pts[qi];
    bool must_in = false, may = false, beyond = true, near_butt = false, near_join = false;
    size_t in_path = 0, nearest = 0; ld dnear = std::numeric_limits<ld>::infinity();
    for (size_t i = 0; i < m; ++i) {
      ev[i] = eval_path(M[i], pa, q);
      if (ev[i].must_in && !must_in) { must_in = true; in_path = i; }
      if (ev[i].may) may = true;
      if (!(ev[i].d > M[i].k * D + tm)) beyond = false;
      if (ev[i].near_butt_end) near_butt = true;
      if (ev[i].near_join) near_join = true;
      if (ev[i].d < dnear) { dnear = ev[i].d; nearest = i; }
    }
    bool onR = false;
    const int W = winding(R, q, &onR);
    const bool covered = W != 0;
    if (qi < n_regular) {
      if (onR) { ++on_edge; }
      else {
        if (covered && W != 1) ++wnot1;
        if (must_in) {
          ++jin;
          if (!covered) {
            const PathModel& pm = M[in_path];
            std::vector<std::string> tags = { ev[in_path].why_in, kJtName[jt], std::string("end_") + kEtName[et],
              pm.p.size() == 1 ? "path_1pt" : pm.p.size() == 2 ? "path_2pt" : "path_3plus_pts", m > 1 ? "several_paths" : "one_path" };
            // classifier of the defect "int d = (int)std::ceil(abs_delta)" in DoGroupOffset: the square of a single point
            // with a join type other than Round is built from a 32-bit int, which overflows for |delta| >= 2^31
            if (pm.kind == K_POINT && jt != JT_ROUND && ceill(D) >= 2147483648.0L) tags.push_back("point_square_delta_ge_2^31");
            // classifier of the (fixed) end_type_ defect: a 2-point path precedes this path in a Joined group
            if (et == ET_JOINED && pm.kind == K_CLOSED) { bool two_before = false; for (size_t j = 0; j < in_path; ++j) if (P[j].size() == 2) two_before = true; if (two_before) tags.push_back("two_point_path_earlier_in_joined_group"); }
            tags.push_back(finer_grid_tag(P, delta_d, jt, et, ml, at, api, q, true));
            ctx.violation("C07.stroke_lower", tags, with_point(c, q), "at " + ptstr(q) + " (rule " + ev[in_path].why_in + ", path #" + std::to_string(in_path) + " of " + std::to_string(m) + " with " +
              std::to_string(pm.p.size()) + " points, distance to it " + ldstr(ev[in_path].d) + ") must be covered: |delta| " + ldstr(D) + " t " + ldstr(pa.t) + " join " + kJtName[jt] + " end " + kEtName[et] +
              " ml " + ldstr(ml) + " arc_tol " + ldstr(at) + "; result winding 0");
            return;
          }
        } else if (beyond || !may) {
          ++jout;
          if (covered) {
            std::vector<std::string> tags = { beyond ? "beyond_reach" : (near_butt ? "beyond_butt_end" : "outside_every_piece"), kJtName[jt], std::string("end_") + kEtName[et],
              M[nearest].p.size() == 1 ? "path_1pt" : M[nearest].p.size() == 2 ? "path_2pt" : "path_3plus_pts", m > 1 ? "several_paths" : "one_path" };
            tags.push_back(finer_grid_tag(P, delta_d, jt, et, ml, at, api, q, false));
            ctx.violation(beyond ? "C07.reach" : "C07.stroke_upper", tags, with_point(c, q), "at " + ptstr(q) + " (nearest path #" + std::to_string(nearest) + " with " + std::to_string(M[nearest].p.size()) +
              " points at distance " + ldstr(dnear) + ", reach factor " + ldstr(M[nearest].k) + ") must not be covered: |delta| " + ldstr(D) + " t " + ldstr(pa.t) + " join " + kJtName[jt] + " end " + kEtName[et] +
              " ml " + ldstr(ml) + " arc_tol " + ldstr(at) + "; result winding " + std::to_string(W));
            return;
          }
        } else ++band;
        // single points: either admissible shape
        for (size_t i = 0; i < m; ++i) {
          if (M[i].kind != K_POINT) continue;
          bool others_may = false; for (size_t j = 0; j < m; ++j) if (j != i && ev[j].may) others_may = true;
          if (others_may) continue;
          if (ev[i].disc_says || ev[i].square_says) pt_judged[i] = 1;
          if (!disc_bad[i] && ((ev[i].disc_says == 1 && !covered) || (ev[i].disc_says == 2 && covered))) { disc_bad[i] = 1; disc_why[i] = ptstr(q) + (covered ? " covered" : " not covered") + " at distance " + ldstr(ev[i].d); }
          if (!sq_bad[i] && ((ev[i].square_says == 1 && !covered) || (ev[i].square_says == 2 && covered))) { sq_bad[i] = 1; sq_why[i] = ptstr(q) + (covered ? " covered" : " not covered"); }
        }
      }
      (void)near_join;
      // direction
      if (!rev_exact) {
        bool on2 = false; const bool cov2 = winding(Rrev, q, &on2) != 0;
        if (cov2 == covered) ++dir_agree;
        else {
          ld d1 = min_dist_to_edges(R, q), d2 = min_dist_to_edges(Rrev, q);
          if (d1 > pa.t + 1.25L && d2 > pa.t + 1.25L) {
            std::vector<std::string> tags = { covered ? "covered_only_forward" : "covered_only_reversed" }; tags.insert(tags.end(), cfgtags.begin(), cfgtags.end());
            tags.push_back(finer_grid_pair_tag(P, Prev, delta_d, jt, et, ml, at, api, q));
            ctx.violation("C07.direction", tags, with_point(c, q), "at " + ptstr(q) + " the result of the paths as given has winding " + std::to_string(W) + ", the result of the reversed paths is " + (cov2 ? "" : "not ") +
              "covering it; distances to the two result boundaries " + ldstr(d1) + " and " + ldstr(d2) + ", t " + ldstr(pa.t));
            return;
          }
          ++dir_band;
        }
      }
    }
    // independence: compare with the stand-alone result of the member whose neighbourhood q is in
    if (distant) {
      size_t own = qi < n_regular ? nearest : (size_t)extra_owner[qi - n_regular];
      if (alone_cmp[own] && (qi >= n_regular || bbox_dist(M[own], q) <= 2 * kglob * D + 2 * tm + 8)) {
        bool on2 = false; const int W2 = winding(Ralone[own], q, &on2);
        if ((W2 != 0) == covered) ++ind_agree;
        else {
          ld d1 = min_dist_to_edges(R, q), d2 = min_dist_to_edges(Ralone[own], q);
          if (d1 > 3 && d2 > 3) {
            std::vector<std::string> tags = { covered ? "covered_only_in_joint_call" : "covered_only_alone" }; tags.insert(tags.end(), cfgtags.begin(), cfgtags.end());
            bool two_before = false; for (size_t j = 0; j < own; ++j) if (P[j].size() == 2) two_before = true;
            if (et == ET_JOINED && two_before && P[own].size() >= 3) tags.push_back("two_point_path_earlier_in_joined_group");
            tags.push_back(finer_grid_pair_tag(P, Paths64(1, P[own]), delta_d, jt, et, ml, at, api, q));
            ctx.violation("C07.independence", tags, with_point(c, q), "at " + ptstr(q) + " the joint call (" + std::to_string(m) + " paths, pairwise farther apart than " + ldstr(sep) + ") has winding " + std::to_string(W) +
              " but path #" + std::to_string(own) + " (" + std::to_string(P[own].size()) + " points) offset alone has winding " + std::to_string(W2) + "; distances to the two result boundaries " + ldstr(d1) + " and " + ldstr(d2));
            return;
          }
          ++ind_band;
        }
      }
    }
  }
  // single points
  for (size_t i = 0; i < m; ++i) {
    if (M[i].kind != K_POINT || !pt_judged[i]) continue;
    if (disc_bad[i] && sq_bad[i]) {
      std::vector<std::string> tags = { "neither_disc_nor_square", kJtName[jt], std::string("end_") + kEtName[et], m > 1 ? "several_paths" : "one_path" };
      if (jt != JT_ROUND && ceill(D) >= 2147483648.0L) tags.push_back("point_square_delta_ge_2^31");
      ctx.violation("C07.single_point", tags, c, "1-point path #" + std::to_string(i) + " at " + ptstr(M[i].p[0]) + ", |delta| " + ldstr(D) + " t " + ldstr(pa.t) + ": not a disc (" + disc_why[i] +
        ") and not a square (" + sq_why[i] + ")");
      return;
    }
    if (ctx.optint("strictshape", 0) && (jt == JT_ROUND ? disc_bad[i] : sq_bad[i])) {   // diagnostic only (the property allows either shape)
      ctx.violation("C07.single_point", { "diagnostic_shape_other_than_join_type_convention" }, c, "1-point path #" + std::to_string(i) + ": disc? " + disc_why[i] + " square? " + sq_why[i]);
      return;
    }
    ctx.count(std::string("single_point_") + (jt == JT_ROUND ? "round_join" : "other_join") + (disc_bad[i] ? "_is_square" : sq_bad[i] ? "_is_disc" : "_shape_not_distinguished"));
  }

  ctx.count("samples_judged_must_be_covered", jin);
  ctx.count("samples_judged_must_not_be_covered", jout);
  ctx.count("samples_skipped_in_band", band);
  ctx.count("samples_on_a_result_edge_not_judged", on_edge);
  ctx.count("samples_covered_with_winding_not_1", wnot1);
  ctx.count("direction_samples_agree", dir_agree);
  ctx.count("direction_samples_differ_inside_band", dir_band);
  ctx.count("independence_samples_agree", ind_agree);
  ctx.count("independence_samples_differ_within_3_units_of_a_boundary", ind_band);
  ctx.count(std::string("cfg_") + kJtName[jt] + "_" + kEtName[et]);
  ctx.count(std::string("samples_judged_end_") + kEtName[et], jin + jout);
  ctx.count(std::string("samples_judged_join_") + kJtName[jt], jin + jout);
  ctx.count("api_" + std::to_string(api));
  ctx.count("paths_in_call_" + std::to_string(m));
  if (vacuous_lower) ctx.count("calls_with_t_ge_delta_lower_bound_vacuous");
  if (R.empty()) ctx.count("result_empty");
  if (!from_replay) {
    bool nontrivial = !R.empty() && jin + jout >= 50;
    ctx.note_case(c, nontrivial);
    if (jin + jout < 50) ctx.count("calls_with_fewer_than_50_samples_judged");
  }
}

// ------------------------------------------------------------------------------------------------ generator
struct GenCounters { long long tries = 0, rej_dups = 0, rej_angle = 0, fallback = 0; };
static GenCounters g_gc;

// one candidate polyline of n >= 2 points in real coordinates (any frame); fitted into the cell afterwards
static std::vector<std::pair<double, double>> raw_polyline(Rng& r, int n, int shape, double h, double delta) {
  std::vector<std::pair<double, double>> v;
  switch (shape) {
    case 0:   // uniform points (self-crossing frequent)
      for (int i = 0; i < n; ++i) v.push_back({ r.real(-h, h), r.real(-h, h) });
      break;
    case 1: { // walk with moderate turns
      double x = 0, y = 0, a = r.real(0, 2 * gen::kPi);
      for (int i = 0; i < n; ++i) { v.push_back({ x, y }); a += r.real(-1.8, 1.8); double L = h * r.real(0.2, 0.8); x += L * cos(a); y += L * sin(a); }
      break; }
    case 2: { // zigzag with sharp turns close to the limit
      double x = 0, y = 0, a = r.real(0, 2 * gen::kPi); int sg = r.coin() ? 1 : -1;
      for (int i = 0; i < n; ++i) { v.push_back({ x, y }); double turn = r.real(140, 169.5) * gen::kPi / 180; a += sg * turn; if (r.chance(0.8)) sg = -sg; double L = h * r.real(0.3, 1.0); x += L * cos(a); y += L * sin(a); }
      break; }
    case 3: { // lattice moves: axis-parallel and diagonal, collinear continuations
      static const int dx[8] = { 1, 1, 0, -1, -1, -1, 0, 1 }, dy[8] = { 0, 1, 1, 1, 0, -1, -1, -1 };
      double x = 0, y = 0; int dir = r.irange(0, 7);
      for (int i = 0; i < n; ++i) { v.push_back({ x, y }); int nd; do { nd = r.irange(0, 7); } while (nd == ((dir + 4) & 7)); dir = nd; int L = r.irange(1, 3); x += dx[dir] * L; y += dy[dir] * L; }
      break; }
    case 4: { // segments short against delta
      double x = 0, y = 0, a = r.real(0, 2 * gen::kPi);
      for (int i = 0; i < n; ++i) { v.push_back({ x, y }); a += r.real(-1.2, 1.2); double L = std::max(1.0, delta * r.real(0.05, 1.5)); x += L * cos(a); y += L * sin(a); }
      break; }
    default: { // spiral / loops about a centre
      double a = r.real(0, 2 * gen::kPi), da = r.real(0.7, 2.2) * (r.coin() ? 1 : -1), rad = r.real(0.15, 0.5);
      for (int i = 0; i < n; ++i) { v.push_back({ rad * cos(a), rad * sin(a) }); a += da * r.real(0.7, 1.3); rad *= r.real(0.9, 1.35); }
      break; }
  }
  return v;
}

static Path64 gen_path(Rng& r, int64_t cx, int64_t cy, double h, int n, double delta, bool closed) {
  if (n == 1) return Path64{ Point64(cx + r.range(-(int64_t)h, (int64_t)h), cy + r.range(-(int64_t)h, (int64_t)h)) };
  for (int attempt = 0; attempt < 40; ++attempt) {
    ++g_gc.tries;
    int shape = r.irange(0, 5);
    if (n == 2) shape = r.chance(0.5) ? 0 : 4;
    auto v = raw_polyline(r, n, shape, h, delta);
    double x0 = v[0].first, x1 = x0, y0 = v[0].second, y1 = y0;
    for (auto& p : v) { x0 = std::min(x0, p.first); x1 = std::max(x1, p.first); y0 = std::min(y0, p.second); y1 = std::max(y1, p.second); }
    double ext = std::max(x1 - x0, y1 - y0);
    if (!(ext > 0)) continue;
    double sc = 1.0;
    if (shape == 4) { if (ext > 2 * h) sc = 2 * h / ext; }                     // keep the lengths unless the cell is too small
    else if (n == 2 && r.chance(0.3)) sc = r.real(1.0, 6.0) / ext;             // very short single segment
    else sc = 2 * h * r.real(0.45, 1.0) / ext;
    double mx = 0.5 * (x0 + x1), my = 0.5 * (y0 + y1);
    Path64 p;
    for (auto& q : v) p.emplace_back(cx + (int64_t)llround((q.first - mx) * sc), cy + (int64_t)llround((q.second - my) * sc));
    int pr = path_premise(p, closed);
    if (pr == 0) return p;
    if (pr == 1) ++g_gc.rej_dups; else ++g_gc.rej_angle;
  }
  ++g_gc.fallback;
  int64_t hh = std::max<int64_t>(2, (int64_t)h);
  if (n >= 3) return Path64{ Point64(cx - hh / 2, cy - hh / 3), Point64(cx + hh / 2, cy - hh / 4), Point64(cx + hh / 5, cy + hh / 2) };
  return Path64{ Point64(cx - hh / 2, cy), Point64(cx + hh / 2, cy + hh / 3) };
}

static const double kSizes[] = { 50, 200, 1000, 16384, 1048576, 1073741824.0, 1099511627776.0 };
static const char* kSizeName[] = { "50", "200", "1000", "2^14", "2^20", "2^30", "2^40" };

void vf_case(Ctx& ctx, uint64_t i) {
  Rng& r = ctx.rng;
  const int jt = (int)(i % 4);
  const int et = ET_JOINED + (int)((i / 4) % 4);
  const int szi = (int)((i / 16) % 7);
  const double S = kSizes[szi], h = S / 2;
  const double ml = r.pick(std::vector<double>{ 1.0, 2.0, 5.0 });
  const int ati = r.irange(0, 2);

  // |delta| from 1 to 0.3 * size
  double ad; const char* dclass;
  double u = r.unit();
  if (u < 0.12) { ad = r.chance(0.4) ? r.pick(std::vector<double>{ 1.0, 1.5, 2.0, 3.0 }) : r.real(1.0, 4.0); dclass = "1_to_4"; }
  else if (u < 0.45) { ad = exp(r.real(0.0, log(0.3 * S))); dclass = "log_uniform"; }
  else { ad = r.real(0.02, 0.3) * S; dclass = "uniform_to_0.3_size"; }
  if (ati == 2 && ad < 0.04 * S && r.chance(0.8)) { ad = r.real(0.04, 0.3) * S; dclass = "uniform_to_0.3_size"; }   // keep 1%-of-size arcs below delta
  if (ad < 1) ad = 1;
  if (ad > 0.3 * S) ad = 0.3 * S;
  if (r.chance(0.3)) ad = std::max(1.0, floor(ad));
  // a fixed arc tolerance of 0.25 asks for millions of steps per circle when |delta| is huge: raised to |delta|/4096 there
  const double at = ati == 0 ? 0.0 : (ati == 1 ? std::max(0.25, ad / 4096.0) : 0.01 * S);
  const double delta = r.coin() ? ad : -ad;

  // paths
  int m = r.chance(0.3) ? 1 : r.irange(2, 5);
  const bool near = m > 1 && r.chance(0.2);
  const double kj = jt == JT_MITER ? std::max(ml, 1.4142135623730951) : (jt == JT_SQUARE ? 1.4142135623730951 : 1.0);
  const double kmax = std::max(kj, 1.4142135623730951);
  const double arc = at > 0 ? std::min(ad, at) : ad / 500, t = arc + 2 + 0.001 * ad;
  const int64_t pitch = (int64_t)ceil(S + 4 * kmax * ad + 4 * (t + 0.25) + 16) + 4;
  std::vector<int> cells = { 0, 1, 2, 3, 4, 5, 6, 7, 8 };
  r.shuffle(cells);
  const bool in_row = r.chance(0.3);       // members side by side: their y-ranges overlap
  Paths64 P;
  int n1 = 0, n2 = 0, n3 = 0;
  for (int k = 0; k < m; ++k) {
    int64_t cx, cy;
    if (near) { cx = r.range(-(int64_t)h, (int64_t)h); cy = r.range(-(int64_t)h, (int64_t)h); }
    else if (in_row) { cx = (int64_t)(k - m / 2) * pitch; cy = r.range(-(int64_t)(h / 2), (int64_t)(h / 2)); }
    else { cx = (int64_t)(cells[k] % 3 - 1) * pitch; cy = (int64_t)(cells[k] / 3 - 1) * pitch; }
    double un = r.unit();
    int n = un < 0.15 ? 1 : (un < 0.38 ? 2 : r.irange(3, 8));
    double hh = in_row && !near ? h / 2 : h;       // cy jitter of up to h/2 must stay inside the cell
    if (!near && in_row) { /* cell half-width h in x, the path itself within h/2 + jitter h/2 in y */ }
    Path64 p = gen_path(r, cx, cy, r.chance(0.25) ? hh * r.real(0.2, 1.0) : hh, n, ad, et == ET_JOINED);
    (p.size() == 1 ? n1 : p.size() == 2 ? n2 : n3)++;
    P.push_back(p);
  }
  // chained pieces: a polyline given as two consecutive paths that share the split vertex (the second path starts exactly
  // where the first one ends), or a 1-point path sitting on the previous path's last vertex - ordinary ways to hand
  // over a polyline in pieces; the stroke of the call is the union of the pieces' strokes
  if (r.chance(0.12)) {
    for (size_t k = 0; k < P.size(); ++k) if (P[k].size() >= 3) {
      size_t sp = (size_t)r.irange(1, (int)P[k].size() - 2);
      Path64 a(P[k].begin(), P[k].begin() + (long)sp + 1), b(P[k].begin() + (long)sp, P[k].end());
      if (et == ET_JOINED && (a.size() < 2 || b.size() < 2)) break;
      P[k] = a; P.insert(P.begin() + (long)k + 1, b); ctx.count("calls_with_chained_pieces"); break;
    }
  } else if (r.chance(0.05) && !P.empty() && !P[0].empty()) { P.insert(P.begin() + 1, Path64{ P[0].back() }); ctx.count("calls_with_point_on_previous_end"); }
  if (szi <= 5 && r.chance(0.2)) {
    int64_t room = ((int64_t)1 << 40);
    gen::translate(P, r.range(-room, room), r.range(-room, room));
    ctx.count("translated_far");
  }
  const int api = r.chance(0.7) ? 0 : r.irange(1, 2);

  Case c;
  c.p64["S"] = P;
  c.setd("delta", delta); c.seti("jt", jt); c.seti("et", et); c.setd("ml", ml); c.setd("at", at); c.seti("api", api);
  c.set("size", kSizeName[szi]);
  ctx.count(std::string("size_") + kSizeName[szi]);
  ctx.count(std::string("delta_class_") + dclass);
  ctx.count("miter_limit_" + std::to_string((int)ml));
  ctx.count("arc_tol_class_" + std::to_string(ati));
  ctx.count(std::string("mix_") + (n1 ? "p1" : "") + (n2 ? "p2" : "") + (n3 ? "pn" : ""));
  ctx.count("gen_paths_1pt", n1); ctx.count("gen_paths_2pt", n2); ctx.count("gen_paths_3plus", n3);
  if (ctx.optint("timing", 0)) {       // diagnostic only (--timing 1): slowest case of the worker on stderr
    static double worst = 0; struct timespec t0, t1; clock_gettime(CLOCK_MONOTONIC, &t0);
    judge(ctx, c, false);
    clock_gettime(CLOCK_MONOTONIC, &t1);
    double dt = (t1.tv_sec - t0.tv_sec) + 1e-9 * (t1.tv_nsec - t0.tv_nsec);
    if (dt > worst) { worst = dt; fprintf(stderr, "timing: case %llu took %.3f s (size %s delta %g jt %d et %d at %g paths %zu)\n", (unsigned long long)i, dt, kSizeName[szi], delta, jt, et, at, P.size()); }
    return;
  }
  judge(ctx, c, false);
}

void vf_replay(Ctx& ctx, const Case& c) { judge(ctx, c, true); }

void vf_end(Ctx& ctx) {
  ctx.count("gen_path_candidates", g_gc.tries);
  ctx.count("gen_rejected_duplicate_points", g_gc.rej_dups);
  ctx.count("gen_rejected_turning_angle_premise", g_gc.rej_angle);
  ctx.count("gen_fallback_paths", g_gc.fallback);
}
