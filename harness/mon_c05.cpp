// mon_c05 — C05: open subject paths are cut exactly at the boundary of the deciding region.
// Oracle: exact kept-interval model (c05_open.h): crossing parameters of every open segment with the relevant
// closed edges ordered exactly, membership of every sub-interval from exact winding numbers, kept length in long
// double. Judged: provenance of every open solution vertex/midpoint, membership of piece midpoints, coverage of
// the expected kept part, total length within 3 units per cut, closed region unchanged by adding the open
// subjects, all of it for paths and PolyTree execution.
#include "region.h"
#include "gen.h"
#include "c05_open.h"
#include "clipper2/clipper.h"

using namespace vf;
using namespace Clipper2Lib;

static gen::GpCounters g_gc;
static long long g_open_tries = 0, g_open_rejected = 0;

static const char* kCtName[] = { "none", "intersection", "union", "difference", "xor" };
static const char* kFrName[] = { "evenodd", "nonzero", "positive", "negative" };

static std::string ptstr(const Point64& p) { return "(" + std::to_string(p.x) + "," + std::to_string(p.y) + ")"; }
static std::string ptlstr(const PtL& p) { char b[96]; snprintf(b, sizeof b, "(%.3Lf,%.3Lf)", p.x, p.y); return b; }

static bool has_horizontal(const Paths64& O) {
  for (auto& p : O) for (size_t i = 0; i + 1 < p.size(); ++i) if (p[i].y == p[i + 1].y) return true;
  return false;
}

// Judge one open solution against the expectation. `how` = "paths" or "tree" (becomes a tag).
static bool judge_open(Ctx& ctx, const Case& c, const Paths64& S, const Paths64& C, const Paths64& O, const Paths64& rel,
                       const c05::Expect& ex, const Paths64& sol, int ct, int fr, int64_t M, ld tol, const std::string& how) {
  std::vector<std::string> base = { how, std::string("ct_") + kCtName[ct], std::string("fr_") + kFrName[fr] };
  if (has_horizontal(O)) base.push_back("open_has_horizontal_segment");
  if (c.geti("oo_relaxed")) base.push_back("oo_relaxed");
  if (M >= ((int64_t)1 << 50)) base.push_back("max_coord_ge_2^50");
  auto tags = [&](std::initializer_list<std::string> t) { std::vector<std::string> r(t); r.insert(r.end(), base.begin(), base.end()); return r; };
  const ld eps = 0.001L + ldexpl((ld)M, -55);

  // (1) provenance: every solution vertex and segment midpoint within 1.5 of an open subject segment
  long long prov = 0, worst_prov_milli = 0;
  for (auto& p : sol) {
    if (p.empty()) { ctx.violation("C05.provenance", tags({ "empty_solution_path" }), c, "open solution contains an empty path"); return false; }
    for (size_t i = 0; i < p.size(); ++i) {
      ld d = min_dist_to_edges(O, p[i], false);
      ++prov; worst_prov_milli = std::max(worst_prov_milli, (long long)(d * 1000));
      if (d > 1.5L + eps) {
        ctx.violation("C05.provenance", tags({ "vertex_off_subject" }), c, how + ": open solution vertex " + ptstr(p[i]) + " is " + ldstr(d) + " from the nearest open subject segment");
        return false;
      }
      if (i + 1 < p.size()) {
        PtL m{ 0.5L * ((ld)p[i].x + (ld)p[i + 1].x), 0.5L * ((ld)p[i].y + (ld)p[i + 1].y) };
        ld dm = c05::dist_ptl_open(O, m);
        ++prov; worst_prov_milli = std::max(worst_prov_milli, (long long)(dm * 1000));
        if (dm > 1.5L + eps) {
          ctx.violation("C05.provenance", tags({ "midpoint_off_subject" }), c, how + ": midpoint " + ptlstr(m) + " of open solution segment " + ptstr(p[i]) + "-" + ptstr(p[i + 1]) + " is " + ldstr(dm) + " from the nearest open subject segment");
          return false;
        }
      }
    }
  }
  ctx.count("provenance_points_judged", prov);
  ctx.count(worst_prov_milli < 500 ? "provenance_worst_lt_0.5" : worst_prov_milli < 1000 ? "provenance_worst_0.5_to_1" : worst_prov_milli < 1200 ? "provenance_worst_1_to_1.2" :
            worst_prov_milli < 1300 ? "provenance_worst_1.2_to_1.3" : worst_prov_milli < 1400 ? "provenance_worst_1.3_to_1.4" : worst_prov_milli <= 1500 ? "provenance_worst_1.4_to_1.5" : "provenance_worst_gt_1.5");

  // (2) membership of piece midpoints that clear the band of the relevant closed edges
  long long mj = 0, ms = 0;
  for (auto& p : sol)
    for (size_t i = 0; i + 1 < p.size(); ++i) {
      Point64 q((int64_t)llroundl(0.5L * ((ld)p[i].x + (ld)p[i + 1].x)), (int64_t)llroundl(0.5L * ((ld)p[i].y + (ld)p[i + 1].y)));
      if (min_dist_to_edges(rel, q) < tol + 2) { ++ms; continue; }   // tol+1 and 0.71 for rounding the midpoint
      ++mj;
      int wS = ct == CT_UNION ? winding(S, q) : 0, wC = winding(C, q);
      if (!c05::member(wS, wC, ct, fr)) {
        ctx.violation("C05.membership", tags({ "piece_in_excluded_region" }), c, how + ": midpoint " + ptstr(q) + " of open solution segment " + ptstr(p[i]) + "-" + ptstr(p[i + 1]) +
          " lies in the region that must be removed (subject winding " + std::to_string(wS) + ", clip winding " + std::to_string(wC) + "), " + ldstr(min_dist_to_edges(rel, q)) + " from the nearest deciding edge");
        return false;
      }
    }
  ctx.count("piece_midpoints_judged", mj);
  ctx.count("piece_midpoints_skipped_by_margin", ms);

  // (3) coverage: expected kept points (>= 3.25 along the path from any cut end of their run) within 1.5+3 of a piece
  long long kj = 0, ks = 0;
  for (auto& kp : ex.pts) {
    const c05::Run& r = ex.runs[kp.run];
    if ((r.cut0 && kp.arc - r.arc0 < 3.25L) || (r.cut1 && r.arc1 - kp.arc < 3.25L)) { ++ks; continue; }
    ++kj;
    ld d = c05::dist_ptl_open(sol, kp.p);
    if (d > 4.5L + eps) {
      bool shallow = (r.cut0 && kp.arc - r.arc0 < c05::shallow_allowance(r.sin0) + 0.25L) || (r.cut1 && r.arc1 - kp.arc < c05::shallow_allowance(r.sin1) + 0.25L);
      ctx.violation("C05.coverage", tags({ shallow ? "within_1.5_over_sine_of_crossing_angle" : (sol.empty() ? "open_solution_empty" : "kept_part_missing") }), c, how + ": point " + ptlstr(kp.p) + " of open subject path " + std::to_string(r.path) +
        " belongs to the part that must be kept (run of length " + ldstr(r.arc1 - r.arc0) + ", " + ldstr(std::min(kp.arc - r.arc0, r.arc1 - kp.arc)) + " along the path from its nearer end, sines of the crossing angles at its ends " +
        ldstr(r.sin0) + "/" + ldstr(r.sin1) + ") but the nearest open solution piece is " + ldstr(d) + " away");
      return false;
    }
  }
  ctx.count("kept_points_judged", kj);
  ctx.count("kept_points_skipped_near_cut", ks);

  // (4) total length within 3 units per cut
  ld got = c05::open_length(sol);
  size_t nseg = 0; for (auto& p : sol) nseg += p.size();
  ld slack = 0.001L + (ld)(nseg + (size_t)ex.segments) * ldexpl((ld)M, -58);
  ld err = fabsl(got - ex.kept_len);
  if (ex.cuts > 0) {
    ld pc = err / (ld)ex.cuts;
    ctx.count(pc < 0.5L ? "length_error_per_cut_lt_0.5" : pc < 1 ? "length_error_per_cut_0.5_to_1" : pc < 1.5L ? "length_error_per_cut_1_to_1.5" : pc < 2 ? "length_error_per_cut_1.5_to_2" : pc <= 3 ? "length_error_per_cut_2_to_3" : "length_error_per_cut_gt_3");
    ctx.count("cases_with_cuts_length_judged");
  } else { ctx.count(err < 1e-6L ? "length_exact_without_cuts" : "length_inexact_without_cuts"); }
  if (err > 3.0L * (ld)ex.cuts + slack) {
    // diagnostics: displacement of every expected cut to the nearest end point of a solution piece
    std::string diag; ld worst = -1; size_t wi = 0; ld minsin = 2; ld allowance = 0;
    for (size_t k = 0; k < ex.cutlist.size(); ++k) {
      const c05::Cut& cu = ex.cutlist[k];
      ld best = std::numeric_limits<ld>::infinity();
      for (auto& p : sol) if (!p.empty()) for (const Point64* e : { &p.front(), &p.back() }) {
        ld dx = cu.p.x - (ld)e->x, dy = cu.p.y - (ld)e->y; best = std::min(best, sqrtl(dx * dx + dy * dy)); }
      if (best > worst) { worst = best; wi = k; }
      minsin = std::min(minsin, cu.sin_angle); allowance += c05::shallow_allowance(cu.sin_angle);
    }
    if (!ex.cutlist.empty()) {
      const c05::Cut& cu = ex.cutlist[wi];
      diag = "; most displaced cut: exact " + ptlstr(cu.p) + " on open path " + std::to_string(cu.path) + " segment " + std::to_string(cu.seg) + " x closed edge " + ptstr(cu.c) + "-" + ptstr(cu.d) +
        ", sine of crossing angle " + ldstr(cu.sin_angle) + ", nearest solution piece end " + ldstr(worst) + " away; smallest sine over all cuts " + ldstr(minsin);
    }
    ctx.violation("C05.length", tags({ (ex.cuts > 0 && err <= allowance + slack) ? "within_1.5_over_sine_of_crossing_angle" : "beyond_1.5_over_sine_of_crossing_angle", got > ex.kept_len ? "too_long" : "too_short", ex.cuts == 0 ? "no_cuts" : "with_cuts" }), c, how + ": open solution length " + ldstr(got) + " exact kept length " + ldstr(ex.kept_len) +
      " difference " + ldstr(err) + " with " + std::to_string(ex.cuts) + " cuts (" + ldstr(ex.cuts ? err / ex.cuts : err) + " per cut)" + diag);
    return false;
  }
  return true;
}

// region comparison of two closed solutions at sample points that clear the band of the closed inputs
static bool same_region(Ctx& ctx, const Paths64& closed_in, const Paths64& a, const Paths64& b, ld tol, Point64* where, int* wa, int* wb) {
  Samples sp;
  event_samples(closed_in, { 3 * tol, 6 * tol, 20 * tol, 100 * tol }, sp);
  near_output_samples(a, { tol + 2, 3 * tol }, sp);
  near_output_samples(b, { tol + 2, 3 * tol }, sp);
  random_samples(ctx.rng, closed_in, 30, sp);
  long long judged = 0, skipped = 0;
  bool same = true;
  for (const Point64& q : sp.pts) {
    if (min_dist_to_edges(closed_in, q) < tol + 1) { ++skipped; continue; }
    ++judged;
    int x = winding(a, q), y = winding(b, q);
    if (x != y) { *where = q; *wa = x; *wb = y; same = false; break; }
  }
  ctx.count("closed_region_points_judged", judged);
  ctx.count("closed_region_points_skipped_by_margin", skipped);
  return same;
}

static void judge(Ctx& ctx, const Case& c, bool from_replay) {
  const Paths64& S = c.P("S"); const Paths64& C = c.P("C"); const Paths64& Oraw = c.P("O");
  int ct = (int)c.geti("ct"), fr = (int)c.geti("fr");
  bool pc = c.geti("pc") != 0, rev = c.geti("rev") != 0;
  int mode = (int)c.geti("mode");           // 0 geometric, 1 robustness (degenerate open paths, no geometric claims)
  bool relax = c.geti("oo_relaxed") != 0;
  if (ct < 1 || ct > 4 || fr < 0 || fr > 3) { ctx.count("bad_witness_configuration"); return; }
  Paths64 closed_in = concat(S, C);
  Paths64 all = concat(closed_in, Oraw);
  int64_t M = max_abs_coord(all);
  ld tol = tol_of(M);

  // premises (exact filter; the generator only emits cases that pass, a hand-made witness may not)
  Paths64 O;
  if (mode == 0) {
    O = c05::strip_dups_open(Oraw);
    c05::MixedStats ms;
    if (O.empty() || !c05::mixed_general_position(closed_in, O, M, &ms, relax)) { ctx.count("premise_rejected_in_judge"); return; }
  } else {
    for (auto& p : c05::strip_dups_open(Oraw)) if (p.size() >= 2) O.push_back(p);
  }

  ctx.begin(c);
  // loading route: the same inputs reach the clipper directly, through ReuseableDataContainer64 objects (which must
  // outlive Execute), or through a mixture, in different orders - the cut pieces may not depend on it
  const int route = (int)c.geti("route", 0);
  ReuseableDataContainer64 rd_closed, rd_open, rd_all;
  rd_closed.AddPaths(S, PathType::Subject, false); rd_closed.AddPaths(C, PathType::Clip, false);
  rd_open.AddPaths(Oraw, PathType::Subject, true);
  rd_all.AddPaths(S, PathType::Subject, false); rd_all.AddPaths(Oraw, PathType::Subject, true); rd_all.AddPaths(C, PathType::Clip, false);
  auto setup = [&](Clipper64& k, bool with_open) {
    k.PreserveCollinear(pc); k.ReverseSolution(rev);
    switch (with_open ? route : 0) {
      case 1: k.AddOpenSubject(Oraw); k.AddReuseableData(rd_closed); break;          // open direct, then a container without open paths
      case 2: k.AddReuseableData(rd_open); k.AddReuseableData(rd_closed); break;     // open container, then closed container
      case 3: k.AddReuseableData(rd_closed); k.AddOpenSubject(Oraw); break;          // closed container, then open direct
      case 4: k.AddReuseableData(rd_all); break;                                     // one container with everything
      case 5: k.AddClip(C); k.AddOpenSubject(Oraw); k.AddSubject(S); break;          // direct, other order
      default: k.AddSubject(S); if (with_open) k.AddOpenSubject(Oraw); k.AddClip(C); break;
    }
  };
  ctx.count("load_route_" + std::to_string(route));
  Paths64 solc, solo, sol0, solo_t, solc_t;
  bool ok1, ok2, ok3;
  { Clipper64 k; setup(k, true); ok1 = k.Execute((ClipType)ct, (FillRule)fr, solc, solo); }
  { Clipper64 k; setup(k, false); ok2 = k.Execute((ClipType)ct, (FillRule)fr, sol0); }
  { Clipper64 k; setup(k, true); PolyTree64 tree; ok3 = k.Execute((ClipType)ct, (FillRule)fr, tree, solo_t); solc_t = PolyTreeToPaths64(tree); }
  ctx.evaluated(3);
  if (!ok1 || !ok2 || !ok3) {
    ctx.violation("C05.execute_false", { !ok1 ? "paths_with_open" : (!ok2 ? "paths_without_open" : "tree_with_open") }, c, "Execute returned false");
    return;
  }
  ctx.count(std::string("cfg_") + kCtName[ct] + "_" + kFrName[fr] + "_pc" + std::to_string(pc) + "_rev" + std::to_string(rev));

  if (mode == 1) {
    // robustness sub-mode: empty / 1-point / all-duplicate open paths present; only "executes and returns true"
    // is claimed. What happened is recorded for the evidence.
    ctx.count("robustness_cases");
    Paths64 ref_o, ref_c;
    { Clipper64 k; k.PreserveCollinear(pc); k.ReverseSolution(rev); k.AddSubject(S); k.AddOpenSubject(O); k.AddClip(C);
      k.Execute((ClipType)ct, (FillRule)fr, ref_c, ref_o); }
    ctx.evaluated();
    ctx.count(same_paths(ref_o, solo) && same_paths(ref_c, solc) ? "robustness_same_result_as_without_degenerate_paths" : "robustness_result_differs_from_without_degenerate_paths");
    ctx.count(same_paths(solo, solo_t) ? "robustness_tree_open_equals_paths_open" : "robustness_tree_open_differs");
    if (!from_replay) ctx.note_case(c, false);
    return;
  }

  // ---- geometric mode
  Paths64 rel = ct == CT_UNION ? closed_in : C;
  c05::Expect ex = c05::expected_open(S, C, O, ct, fr);
  if (!ex.selfcheck_ok || ex.degenerate_contact) {
    // cannot happen under the general-position premise; if it does the oracle must not judge
    ctx.count(ex.degenerate_contact ? "oracle_degenerate_contact_skipped" : "oracle_selfcheck_failed_skipped");
    if (!from_replay) ctx.note_case(c, false);
    return;
  }
  ctx.count("open_segments", ex.segments);
  ctx.count("open_crossings_with_deciding_edges", ex.crossings);
  ctx.count("cuts_expected", ex.cuts);
  ctx.count("kept_runs_expected", (long long)ex.runs.size());
  if (ex.cuts == 0) ctx.count(ex.kept_len > 0 ? (ex.kept_len >= ex.total_len ? "cases_all_kept" : "cases_no_cut_partial") : "cases_nothing_kept");
  if (has_horizontal(O)) ctx.count("cases_with_horizontal_open_segment");
  for (auto& p : O) { if (p.size() == 2) ctx.count("two_point_open_paths"); ctx.count("open_paths"); }

  if (!judge_open(ctx, c, S, C, O, rel, ex, solo, ct, fr, M, tol, "paths")) return;
  if (same_paths(solo, solo_t)) ctx.count("tree_open_identical_to_paths_open");
  else {
    ctx.count("tree_open_differs_from_paths_open_judged_separately");
    if (!judge_open(ctx, c, S, C, O, rel, ex, solo_t, ct, fr, M, tol, "tree")) return;
  }

  // ---- closed solution: region unchanged by adding the open subjects
  std::vector<std::string> ctags = { std::string("ct_") + kCtName[ct], std::string("fr_") + kFrName[fr] };
  Paths64 k0 = canon_paths(sol0), k1 = canon_paths(solc), k2 = canon_paths(solc_t);
  Point64 w; int wa = 0, wb = 0;
  if (same_paths(k0, k1)) ctx.count("closed_paths_identical_with_and_without_open");
  else {
    ctx.count("closed_paths_differ_region_compared");
    if (!same_region(ctx, closed_in, solc, sol0, tol, &w, &wa, &wb)) {
      ctags.insert(ctags.begin(), "paths");
      ctx.violation("C05.closed_region_changed", ctags, c, "at " + ptstr(w) + " (" + ldstr(min_dist_to_edges(closed_in, w)) + " from the nearest closed input edge) the closed solution has winding " +
        std::to_string(wa) + " with the open subjects added and " + std::to_string(wb) + " without them");
      return;
    }
  }
  if (same_paths(k2, k1) || same_paths(k2, k0)) ctx.count("tree_closed_paths_identical");
  else {
    ctx.count("tree_closed_paths_differ_region_compared");
    if (!same_region(ctx, closed_in, solc_t, sol0, tol, &w, &wa, &wb)) {
      ctags.insert(ctags.begin(), "tree");
      ctx.violation("C05.closed_region_changed", ctags, c, "at " + ptstr(w) + " (" + ldstr(min_dist_to_edges(closed_in, w)) + " from the nearest closed input edge) the PolyTree solution has winding " +
        std::to_string(wa) + " with the open subjects added and the paths solution " + std::to_string(wb) + " without them");
      return;
    }
  }
  // ---- the closed-only overloads with open subjects loaded: Execute(ct, fr, Paths64&) and Execute(ct, fr, PolyTree64&)
  // have nowhere to put open pieces; their closed solution must be the one the four-argument call returns
  {
    Paths64 only_c; PolyTree64 only_t; bool oka, okb;
    { Clipper64 k; setup(k, true); oka = k.Execute((ClipType)ct, (FillRule)fr, only_c); }
    { Clipper64 k; setup(k, true); okb = k.Execute((ClipType)ct, (FillRule)fr, only_t); }
    ctx.evaluated(2);
    if (!oka || !okb) { ctx.violation("C05.execute_false", { !oka ? "closed_only_paths_overload" : "closed_only_tree_overload" }, c, "Execute returned false"); return; }
    ctx.count("closed_only_overloads_checked");
    Paths64 ka = canon_paths(only_c), kb = canon_paths(PolyTreeToPaths64(only_t));
    if (!same_paths(ka, k1)) {
      ctags.insert(ctags.begin(), "closed_only_paths_overload");
      ctx.violation("C05.closed_region_changed", ctags, c, "Execute(ct, fr, Paths64&) with open subjects loaded returns " + std::to_string(only_c.size()) + " closed paths that differ from the " + std::to_string(solc.size()) + " closed paths of Execute(ct, fr, closed, open)");
      return;
    }
    if (!same_paths(kb, k2)) {
      ctags.insert(ctags.begin(), "closed_only_tree_overload");
      ctx.violation("C05.closed_region_changed", ctags, c, "Execute(ct, fr, PolyTree64&) with open subjects loaded returns polygons that differ from those of Execute(ct, fr, tree, open)");
      return;
    }
  }
  if (!from_replay) ctx.note_case(c, ex.crossings > 0);
  if (ex.crossings == 0) ctx.count("cases_without_crossing_of_deciding_edges");
}

// ------------------------------------------------------------------ generator
static int64_t clampc(int64_t v, int64_t m) { return v < -m ? -m : (v > m ? m : v); }

static Path64 make_open(Rng& r, int kind, int64_t x0, int64_t y0, int64_t x1, int64_t y1, int64_t Mmax, const Paths64& closed, bool small) {
  int64_t w = x1 - x0, h = y1 - y0;
  int64_t cx = x0 + w / 2, cy = y0 + h / 2;
  int64_t R = std::max<int64_t>(std::max(w, h) / 2, 4);
  int64_t pad = R / 4 + 4;
  Path64 p;
  switch (kind) {
    case 0: p = gen::polyline(r, cx, cy, R + R / 5, r.irange(2, small ? 4 : 7)); break;
    case 1: { // chord through the scene, either direction
      bool vert = r.coin();
      Point64 a, b;
      if (!vert) { a = Point64(x0 - r.range(1, pad), r.range(y0 - pad, y1 + pad)); b = Point64(x1 + r.range(1, pad), r.range(y0 - pad, y1 + pad)); }
      else { a = Point64(r.range(x0 - pad, x1 + pad), y0 - r.range(1, pad)); b = Point64(r.range(x0 - pad, x1 + pad), y1 + r.range(1, pad)); }
      if (r.coin()) std::swap(a, b);
      p = { a, b };
      if (r.chance(0.3)) p.insert(p.begin() + 1, Point64(r.range(x0, x1), r.range(y0, y1)));
      break; }
    case 2: { // zigzag across the scene
      int n = r.irange(3, small ? 5 : 10); bool vert = r.coin();
      for (int i = 0; i < n; ++i) {
        int64_t along = (vert ? y0 : x0) + (int64_t)((double)(vert ? h : w) * (i + r.real(-0.3, 0.3)) / std::max(1, n - 1));
        int64_t lo = vert ? x0 : y0, hi = vert ? x1 : y1;
        int64_t across = r.chance(0.7) ? ((i & 1) ? hi + r.range(1, pad) : lo - r.range(1, pad)) : r.range(lo, hi);
        p.push_back(vert ? Point64(across, along) : Point64(along, across));
      }
      if (r.coin()) std::reverse(p.begin(), p.end());
      break; }
    case 3: { // small local polyline near a closed vertex (ends inside / outside regions, short pieces)
      const Path64& q = closed[(size_t)r.irange(0, (int)closed.size() - 1)];
      Point64 v = q[(size_t)r.irange(0, (int)q.size() - 1)];
      int64_t r0 = std::max<int64_t>(6, R / r.irange(3, 12));
      p = gen::polyline(r, v.x + r.range(-r0, r0), v.y + r.range(-r0, r0), r0, r.irange(2, 5));
      break; }
    case 4: { // axis-parallel staircase (horizontal and vertical open segments)
      int n = r.irange(2, small ? 4 : 7); bool horiz = r.coin();
      int64_t x = r.range(x0 - pad, x1 + pad), y = r.range(y0 - pad, y1 + pad);
      p.push_back(Point64(x, y));
      for (int i = 1; i < n; ++i) {
        int64_t d = r.range(3, R + R / 2) * (r.coin() ? 1 : -1);
        if (horiz) x += d; else y += d;
        p.push_back(Point64(x, y)); horiz = !horiz;
      }
      break; }
    case 6: { // chord crossing one closed edge at a shallow angle (sine 0.004..0.3)
      const Path64& q = closed[(size_t)r.irange(0, (int)closed.size() - 1)];
      size_t k = (size_t)r.irange(0, (int)q.size() - 1);
      Point64 c = q[k], d = q[(k + 1) % q.size()];
      double ex = (double)(d.x - c.x), ey = (double)(d.y - c.y), L = std::sqrt(ex * ex + ey * ey);
      if (L < 30) { p = gen::polyline(r, cx, cy, R + R / 5, 2); break; }
      double s = r.real(0.15, 0.85), sn = std::exp(r.real(std::log(0.004), std::log(0.3))) * (r.coin() ? 1 : -1), cs = std::sqrt(1 - sn * sn);
      double ux = (ex * cs - ey * sn) / L, uy = (ex * sn + ey * cs) / L;
      double lmin = 4.0 / std::fabs(sn), l1 = lmin + r.real(0, 0.6) * L, l2 = lmin + r.real(0, 0.6) * L;
      double X = (double)c.x + s * ex, Y = (double)c.y + s * ey;
      p = { Point64((int64_t)llround(X - ux * l1), (int64_t)llround(Y - uy * l1)), Point64((int64_t)llround(X + ux * l2), (int64_t)llround(Y + uy * l2)) };
      if (r.chance(0.3)) p.push_back(Point64(r.range(x0 - pad, x1 + pad), r.range(y0 - pad, y1 + pad)));
      if (r.coin()) std::reverse(p.begin(), p.end());
      break; }
    default: { // random polyline with one or two segments made horizontal
      p = gen::polyline(r, cx, cy, R + R / 5, r.irange(3, small ? 4 : 7));
      size_t k = (size_t)r.irange(0, (int)p.size() - 2); p[k + 1].y = p[k].y;
      if (r.chance(0.3)) { size_t k2 = (size_t)r.irange(0, (int)p.size() - 2); p[k2 + 1].y = p[k2].y; }
      break; }
  }
  for (auto& pt : p) { pt.x = clampc(pt.x, Mmax); pt.y = clampc(pt.y, Mmax); }
  return c05::strip_dups_open(p);
}

static const int kMags[] = { 5, 7, 10, 14, 20, 30, 40, 46 };
static const int kNumMags = 8;

void vf_case(Ctx& ctx, uint64_t i) {
  Rng& r = ctx.rng;
  int combo = (int)(i % 64);
  int maxexp = (int)ctx.optint("maxexp", 46);
  int magexp = std::min(kMags[(i / 64) % kNumMags], maxexp);
  if (ctx.optint("forcemag", 0) > 0) magexp = (int)ctx.optint("forcemag", 0);     // exploration only
  gen::Scene sc;
  const bool flat_lattice = (i % 10 == 3) && ctx.optint("forcemag", 0) == 0;
  if (flat_lattice) {
    // dense-scanline flat scenes: everything on a small y range (many vertices share few scanlines) and x stretched by
    // k, so open and closed edges are all nearly horizontal and cross at very shallow angles
    magexp = 30;
    static const int64_t ks[] = { 300, 1000, 3000, 10000 };
    const int64_t k = ks[r.irange(0, 3)]; const int64_t Y = r.irange(12, 60), X = r.irange(12, 60); const int64_t oy = r.coin() ? -2 * Y : 0;
    bool ok = false;
    for (int t = 0; t < 40 && !ok; ++t) {
      auto poly = [&](int n) { Path64 p; for (int q = 0; q < n; ++q) p.push_back(Point64(r.range(-X, X) * k + r.range(-k / 3, k / 3), r.range(-Y, Y) + oy)); strip_dups_closed(p); return p; };
      sc.subj.clear(); sc.clip.clear();
      int ns = r.irange(0, 2), nc = r.irange(1, 2);
      for (int q = 0; q < ns; ++q) sc.subj.push_back(poly(r.irange(3, 5)));
      for (int q = 0; q < nc; ++q) sc.clip.push_back(poly(r.irange(3, 5)));
      Paths64 all = concat(sc.subj, sc.clip);
      sc.M = max_abs_coord(all);
      ++g_gc.tries;
      if (general_position(all, sc.M)) ok = true; else ++g_gc.rejected;
    }
    if (!ok) { ctx.count("gp_gave_up"); return; }
    sc.ok = true; sc.shape = 9; sc.squash = (int)k; ctx.count("flat_lattice_scenes");
  } else {
    sc = gen::gp_scene(r, g_gc, magexp);
    if (!sc.ok) { ctx.count("gp_gave_up"); return; }
  }
  const int64_t Mmax = (int64_t)1 << magexp;
  bool small = magexp <= 7;
  bool relax = r.chance((double)ctx.optint("relax_permille", 250) / 1000.0);
  Paths64 S = sc.subj, C = sc.clip;
  // sometimes add an axis-parallel box (horizontal closed edges) if the closed set stays in general position
  if (r.chance(0.25)) {
    int64_t x0 = 0, y0 = 0, x1 = 0, y1 = 0; bool any = false; bounds(concat(S, C), x0, y0, x1, y1, any);
    int64_t bx0 = r.range(x0, x1), bx1 = r.range(x0, x1), by0 = r.range(y0, y1), by1 = r.range(y0, y1);
    if (bx0 > bx1) std::swap(bx0, bx1);
    if (by0 > by1) std::swap(by0, by1);
    if (bx1 - bx0 >= 4 && by1 - by0 >= 4) {
      Paths64 S2 = S, C2 = C; (r.chance(0.7) ? C2 : S2).push_back(gen::box(bx0, by0, bx1, by1, r.coin()));
      Paths64 cl = concat(S2, C2);
      if (general_position(cl, max_abs_coord(cl))) { S = S2; C = C2; ctx.count("scenes_with_added_box"); }
    }
  }
  Paths64 closed_in = concat(S, C);
  int64_t x0 = 0, y0 = 0, x1 = 0, y1 = 0; bool any = false; bounds(closed_in, x0, y0, x1, y1, any);
  int want = r.irange(1, small ? 2 : 4);
  Paths64 O; std::string kinds;
  for (int k = 0; k < want; ++k) {
    for (int t = 0; t < 12; ++t) {
      int kind = r.irange(0, 6);
      Path64 cand = make_open(r, kind, x0, y0, x1, y1, Mmax, closed_in, small);
      ++g_open_tries;
      if (cand.size() < 2) { ++g_open_rejected; continue; }
      Paths64 O2 = O; O2.push_back(cand);
      int64_t M = std::max(max_abs_coord(closed_in), max_abs_coord(O2));
      if (!c05::mixed_general_position(closed_in, O2, M, nullptr, relax)) { ++g_open_rejected; continue; }
      O.swap(O2); kinds += (char)('0' + kind); ctx.count("open_kind_" + std::to_string(kind));
      break;
    }
  }
  if (O.empty()) { ctx.count("no_open_path_accepted"); return; }
  // hostile scanline placement (sweep-line tie): nudge one end of an open segment in x until its crossing with a closed
  // edge lies a hair past the y of some existing vertex (|yc - s| < 1/|dx1-dx2|, not 0), so that the integer curr_x of the
  // two edges tie at scanline s and the crossing is discovered one scanbeam late
  if ((flat_lattice && r.chance(0.7)) || (!flat_lattice && r.chance(0.04))) {
    std::vector<int64_t> ys; for (auto* pp : { &closed_in, &O }) for (auto& p : *pp) for (auto& pt : p) ys.push_back(pt.y);
    bool done = false;
    for (int attempt = 0; attempt < 6 && !done; ++attempt) {
      Path64& op = O[(size_t)r.irange(0, (int)O.size() - 1)]; if (op.size() < 2) continue;
      size_t si = (size_t)r.irange(0, (int)op.size() - 2); const bool move_first = r.coin();
      const Path64& cp = closed_in[(size_t)r.irange(0, (int)closed_in.size() - 1)]; size_t ci = (size_t)r.irange(0, (int)cp.size() - 1);
      const Point64 c0 = cp[ci], c1 = cp[(ci + 1) % cp.size()];
      if (c0.y == c1.y) continue;
      const Point64 keep = op[move_first ? si + 1 : si]; const Point64 mv0 = op[move_first ? si : si + 1];
      auto yc_of = [&](int64_t mx) -> ld { Point64 a(mx, mv0.y); if (!proper_cross(a, keep, c0, c1)) return (ld)NAN; return line_cross(a, keep, c0, c1).y; };
      ld y_at0 = yc_of(mv0.x); if (!(y_at0 == y_at0)) continue;
      // nearest vertex y to the crossing
      int64_t s_best = ys[0]; for (int64_t y : ys) if (fabsl((ld)y - y_at0) < fabsl((ld)s_best - y_at0)) s_best = y;
      if (fabsl((ld)s_best - y_at0) > 8) continue;
      ld dxo = ((ld)keep.x - (ld)mv0.x) / std::max<ld>(1, fabsl((ld)keep.y - (ld)mv0.y)), dxc = ((ld)c1.x - (ld)c0.x) / ((ld)c1.y - (ld)c0.y);
      ld win = 1.0L / std::max<ld>(1.0L, fabsl(dxo - dxc));
      const int64_t W = std::max<int64_t>(64, (int64_t)llabs(keep.x - mv0.x) / 4);
      // yc is monotone in the moved x over the range where the crossing persists: bisect for yc = s_best, then scan nearby
      int64_t lo = mv0.x - W, hi = mv0.x + W; ld ylo = yc_of(lo), yhi = yc_of(hi);
      if (!(ylo == ylo) || !(yhi == yhi) || (ylo - s_best) * (yhi - s_best) > 0) continue;
      for (int it = 0; it < 80 && hi - lo > 1; ++it) { int64_t mid = lo + (hi - lo) / 2; ld ym = yc_of(mid); if (!(ym == ym)) break; if ((ylo - s_best) * (ym - s_best) <= 0) { hi = mid; yhi = ym; } else { lo = mid; ylo = ym; } }
      for (int64_t x = lo - 3; x <= hi + 3 && !done; ++x) {
        ld y = yc_of(x); if (!(y == y)) continue; ld e = fabsl(y - s_best);
        if (e > 0 && e < win) {
          Paths64 O2 = O; Path64& q = O2[(size_t)(&op - &O[0])]; q[move_first ? si : si + 1].x = x;
          int64_t M = std::max(max_abs_coord(closed_in), max_abs_coord(O2));
          if (c05::mixed_general_position(closed_in, O2, M, nullptr, relax)) { O.swap(O2); done = true; ctx.count("cases_with_crossing_a_hair_past_a_scanline"); }
        }
      }
    }
  }
  // anisotropic variant: stretch the whole case (closed and open paths) in x so that open and closed edges are both
  // nearly horizontal (|dx/dy| > 100): the sweep's flat-edge intersection repair is only reached by such scenes
  if (sc.squash == 0 && r.chance(0.2)) {
    static const int64_t ks[] = { 30, 200, 1500, 20000 };
    int64_t k = ks[r.irange(0, 3)];
    int64_t mx = std::max(max_abs_coord(closed_in), max_abs_coord(O));
    if (mx > 0 && mx <= ((int64_t)1 << std::min(maxexp, magexp <= 30 ? 36 : 46)) / k) {
      Paths64 S2 = S, C2 = C, O2 = O;
      for (auto* pp : { &S2, &C2, &O2 }) for (auto& p : *pp) for (auto& pt : p) pt.x *= k;
      Paths64 cl2 = concat(S2, C2); int64_t M2 = std::max(max_abs_coord(cl2), max_abs_coord(O2));
      if (general_position(cl2, max_abs_coord(cl2)) && c05::mixed_general_position(cl2, O2, M2, nullptr, relax)) {
        S.swap(S2); C.swap(C2); O.swap(O2); closed_in = cl2; bounds(closed_in, x0, y0, x1, y1, any = false); ctx.count("cases_stretched_in_x");
      } else ctx.count("stretch_rejected_by_general_position");
    }
  }
  int mode = (i % 29 == 11) ? 1 : 0;
  if (mode == 0 && r.chance(0.15)) {          // repeated points inside a polyline: same polyline
    Path64& p = O[(size_t)r.irange(0, (int)O.size() - 1)];
    size_t k = (size_t)r.irange(0, (int)p.size() - 1); p.insert(p.begin() + k, p[k]);
    ctx.count("cases_with_repeated_open_vertex");
  }
  if (mode == 1) {
    int nd = r.irange(1, 3);
    for (int k = 0; k < nd; ++k) {
      Path64 d;
      int what = r.irange(0, 3);
      Point64 a(r.range(x0, x1), r.range(y0, y1));
      if (what == 3 && !closed_in.empty()) { const Path64& q = closed_in[(size_t)r.irange(0, (int)closed_in.size() - 1)]; a = q[(size_t)r.irange(0, (int)q.size() - 1)]; }
      if (what == 1 || what == 3) d = { a }; else if (what == 2) d = Path64((size_t)r.irange(2, 4), a);
      O.insert(O.begin() + r.irange(0, (int)O.size()), d);
    }
  }
  Case c;
  c.p64["S"] = S; c.p64["C"] = C; c.p64["O"] = O;
  c.seti("ct", 1 + (combo & 3)); c.seti("fr", (combo >> 2) & 3);
  c.seti("pc", (combo >> 4) & 1); c.seti("rev", (combo >> 5) & 1);
  { static const int kRoute[] = { 0, 0, 0, 1, 2, 3, 4, 5 }; c.seti("route", kRoute[(i / 64 + i / 7) % 8]); }
  c.seti("mode", mode); c.seti("oo_relaxed", relax); c.seti("mag", magexp); c.seti("shape", sc.shape); c.set("kinds", kinds);
  ctx.count("mag_2^" + std::to_string(magexp));
  ctx.count("shape_" + std::to_string(sc.shape));
  judge(ctx, c, false);
}

void vf_replay(Ctx& ctx, const Case& c) { judge(ctx, c, true); }

void vf_end(Ctx& ctx) {
  ctx.count("gp_candidates_tried", g_gc.tries);
  ctx.count("gp_candidates_rejected", g_gc.rejected); ctx.count("gp_flat_dense_scanline_scenes", g_gc.flat); ctx.count("gp_scenes_with_crossing_a_hair_past_a_scanline", g_gc.tie); ctx.count("gp_scenes_with_a_corner_whose_cross_product_is_an_exact_power_of_two", g_gc.wrap);
  ctx.count("open_candidates_tried", g_open_tries);
  ctx.count("open_candidates_rejected", g_open_rejected);
}
