// mon_c11 — C11: execution always succeeds on valid input; invalid arguments are reported, never silently accepted.
//   --mode success : Execute()==true / export rc==0 on the hostile boolean workload, NoClip => empty solutions
//   --mode report  : every API with a precision / scale / coordinate-range / pair-count argument, valid and invalid
//                    values; "reported" = Clipper2Exception (exceptions build) or, with -fno-exceptions, non-zero
//                    error code where the API has one, else an empty result. Runs in builds plain, noexc and
//                    asan_fc (UBSan incl. float-cast-overflow: a silently accepted out-of-range coordinate is UB).
#include "gen.h"
#include "clipper2/clipper.h"
#include "clipper2/clipper.export.h"
#include <limits>

using namespace vf;
using namespace Clipper2Lib;

#if (defined(__cpp_exceptions) && __cpp_exceptions) || (defined(__EXCEPTIONS) && __EXCEPTIONS)
#define VF_EXC 1
#else
#define VF_EXC 0
#endif

struct Outcome { bool threw = false; bool other_exc = false; bool has_ec = false; int ec = 0; bool result_empty = true; std::string what; };

template <class F> static Outcome attempt(F f) {
  Outcome o;
#if VF_EXC
  try { f(o); }
  catch (const Clipper2Exception& e) { o.threw = true; o.what = e.what(); }
  catch (const std::exception& e) { o.other_exc = true; o.what = e.what(); }
#else
  f(o);
#endif
  return o;
}
static bool reported(const Outcome& o) {
#if VF_EXC
  return o.threw;
#else
  return o.has_ec ? o.ec != 0 : o.result_empty;
#endif
}

// small valid inputs (coordinates multiplied by `mag` for the range probes)
static PathsD subjD(double mag) { return PathsD{ PathD{ PointD(0.0, 0.0), PointD(10.0 * mag, 0.0), PointD(10.0 * mag, 10.0 * mag), PointD(0.0, 10.0 * mag) } }; }
static PathsD clipD(double mag) { return PathsD{ PathD{ PointD(5.0 * mag, 5.0 * mag), PointD(15.0 * mag, 5.0 * mag), PointD(15.0 * mag, 15.0 * mag), PointD(5.0 * mag, 15.0 * mag) } }; }

enum Api { A_CLIPPERD_SUBJ = 0, A_CLIPPERD_OPEN, A_CLIPPERD_CLIP, A_CLIPPERD_TREE, A_BOOLOP, A_INTERSECT, A_UNION2, A_DIFFERENCE, A_XOR, A_UNION1, A_BOOLOP_TREE,
  A_INFLATE, A_INFLATE_DELTA0, A_RECTCLIP_PATHS, A_RECTCLIP_PATH, A_RECTLINES_PATHS, A_RECTLINES_PATH, A_TRIMCOLLINEAR, A_MINKSUM, A_MINKDIFF,
  A_CHECKPREC, A_SCALEPATHS, A_SCALEPATH, A_NAPI };
static const char* const kApi[] = { "ClipperD_AddSubject", "ClipperD_AddOpenSubject", "ClipperD_AddClip", "ClipperD_tree", "BooleanOpD", "IntersectD", "UnionD2", "DifferenceD", "XorD", "UnionD1", "BooleanOpD_tree",
  "InflatePathsD", "InflatePathsD_delta0", "RectClipD_paths", "RectClipD_path", "RectClipLinesD_paths", "RectClipLinesD_path", "TrimCollinearD", "MinkowskiSumD", "MinkowskiDiffD",
  "CheckPrecisionRange", "ScalePaths", "ScalePath" };

static double api_scale(int api, int p);
// run API `api` with precision p on inputs of magnitude mag
static Outcome call_api(int api, int p, double mag) {
  return attempt([&](Outcome& o) {
    PathsD S = subjD(mag), C = clipD(mag);
    // the rectangle stays at a finite, in-range magnitude: only path coordinates are probed
    double rmag = mag; { double lim = std::ldexp(1.0, 40) / api_scale(api, p); if (!(rmag < lim)) rmag = lim; }
    RectD rect(2.0 * rmag, 2.0 * rmag, 8.0 * rmag, 8.0 * rmag);
    switch (api) {
      case A_CLIPPERD_SUBJ: case A_CLIPPERD_OPEN: case A_CLIPPERD_CLIP: case A_CLIPPERD_TREE: {
        ClipperD cl(p);
        if (api == A_CLIPPERD_OPEN) { cl.AddOpenSubject(S); cl.AddClip(clipD(1.0)); }
        else if (api == A_CLIPPERD_CLIP) { cl.AddSubject(subjD(1.0)); cl.AddClip(C); }
        else { cl.AddSubject(S); cl.AddClip(clipD(mag)); }
        if (api == A_CLIPPERD_TREE) { PolyTreeD t; PathsD op; cl.Execute(ClipType::Union, FillRule::NonZero, t, op); o.result_empty = t.Count() == 0; }
        else { PathsD sol, op; cl.Execute(ClipType::Union, FillRule::NonZero, sol, op); o.result_empty = sol.empty() && op.empty(); }
        o.has_ec = true; o.ec = cl.ErrorCode(); break; }
      case A_BOOLOP: o.result_empty = BooleanOp(ClipType::Union, FillRule::NonZero, S, C, p).empty(); break;
      case A_INTERSECT: o.result_empty = Intersect(S, C, FillRule::NonZero, p).empty(); break;
      case A_UNION2: o.result_empty = Union(S, C, FillRule::NonZero, p).empty(); break;
      case A_DIFFERENCE: o.result_empty = Difference(S, C, FillRule::NonZero, p).empty(); break;
      case A_XOR: o.result_empty = Xor(S, C, FillRule::NonZero, p).empty(); break;
      case A_UNION1: o.result_empty = Union(S, FillRule::NonZero, p).empty(); break;
      case A_BOOLOP_TREE: { PolyTreeD t; BooleanOp(ClipType::Union, FillRule::NonZero, S, C, t, p); o.result_empty = t.Count() == 0; break; }
      case A_INFLATE: o.result_empty = InflatePaths(S, 1.0 * (mag > 1e6 ? mag * 1e-3 : 1.0), JoinType::Miter, EndType::Polygon, 2.0, p, 0.0).empty(); break;
      case A_INFLATE_DELTA0: o.result_empty = InflatePaths(S, 0.0, JoinType::Miter, EndType::Polygon, 2.0, p, 0.0).empty(); break;
      case A_RECTCLIP_PATHS: o.result_empty = RectClip(rect, S, p).empty(); break;
      case A_RECTCLIP_PATH: o.result_empty = RectClip(rect, S[0], p).empty(); break;
      case A_RECTLINES_PATHS: o.result_empty = RectClipLines(rect, S, p).empty(); break;
      case A_RECTLINES_PATH: o.result_empty = RectClipLines(rect, S[0], p).empty(); break;
      case A_TRIMCOLLINEAR: o.result_empty = TrimCollinear(S[0], p, false).empty(); break;
      case A_MINKSUM: o.result_empty = MinkowskiSum(PathD{ PointD(0.0, 0.0), PointD(1.0, 0.0), PointD(0.0, 1.0) }, S[0], true, p).empty(); break;
      case A_MINKDIFF: o.result_empty = MinkowskiDiff(PathD{ PointD(0.0, 0.0), PointD(1.0, 0.0), PointD(0.0, 1.0) }, S[0], true, p).empty(); break;
      case A_CHECKPREC: { int pp = p, ec = 0; CheckPrecisionRange(pp, ec); o.has_ec = true; o.ec = ec; o.result_empty = false; break; }
      case A_SCALEPATHS: { int ec = 0; Paths64 r = ScalePaths<int64_t, double>(S, std::pow(10, p), ec); o.has_ec = true; o.ec = ec; o.result_empty = r.empty(); break; }
      case A_SCALEPATH: { int ec = 0; Path64 r = ScalePath<int64_t, double>(S[0], std::pow(10, p), ec); o.has_ec = true; o.ec = ec; o.result_empty = r.empty(); break; }
      default: break;
    }
  });
}
static bool api_takes_precision(int api) { return api != A_SCALEPATHS && api != A_SCALEPATH; }
static bool api_scales_coords(int api) { return api != A_CHECKPREC; }
// the scale an API applies to coordinates for precision p
static double api_scale(int api, int p) {
  if (api <= A_CLIPPERD_TREE || (api >= A_BOOLOP && api <= A_BOOLOP_TREE)) return std::pow(2.0, std::ilogb(std::pow(10, p)) + 1);
  return std::pow(10, p);
}

static const double kMaxCoord = (double)(INT64_MAX >> 2);

static void judge_report(Ctx& ctx, const Case& c, bool from_replay) {
  ctx.begin(c);
  const std::string kind = c.gets("kind");
  const char* build = VF_EXC ? "exc" : "noexc";
  auto bad = [&](const std::string& claim, const std::string& api, const std::string& detail) {
    ctx.violation(claim, { "api_" + api, "kind_" + kind, std::string("build_") + build, api + "@" + kind + "@" + build }, c, api + " (" + build + " build): " + detail);
  };
  ctx.evaluated();
  ctx.count("kind_" + kind);
  if (kind == "precision") {
    int api = (int)c.geti("api"), p = (int)c.geti("p");
    Outcome o = call_api(api, p, 1.0);
    bool valid = p >= -8 && p <= 8;
    ctx.count(valid ? "valid_precisions_tried" : "invalid_precisions_tried");
    if (o.other_exc) bad("C11.wrong_exception", kApi[api], "precision " + std::to_string(p) + " raised " + o.what);
    else if (!valid && !reported(o)) bad("C11.silently_accepted", kApi[api], "precision " + std::to_string(p) + " was accepted (no exception" + (VF_EXC ? "" : (o.has_ec ? ", error code 0" : ", non-empty result")) + ")");
    else if (valid && (o.threw || (o.has_ec && o.ec != 0))) bad("C11.valid_rejected", kApi[api], "valid precision " + std::to_string(p) + " was reported as an error: " + o.what);
  } else if (kind == "range") {
    int api = (int)c.geti("api"), p = (int)c.geti("p"), cls = (int)c.geti("cls");
    double scale = api_scale(api, p);
    // coordinates are 15*mag at most; choose mag so that 15*mag*scale sits at the wanted place relative to max_coord
    double mag;
    switch (cls) {
      case 0: mag = kMaxCoord * 0.90 / (15.0 * scale);                    // just inside: valid
        if (api >= A_INFLATE && api <= A_MINKDIFF) mag = std::ldexp(1.0, 39) / (15.0 * scale);   // offsetting etc. are only specified up to 2^40
        break;
      case 1: mag = kMaxCoord * 1.10 / (10.0 * scale); break;             // just outside (already the subject's 10*mag is outside)
      case 2: mag = 1e30 / scale; break;
      case 3: mag = std::numeric_limits<double>::infinity(); break;
      default: mag = kMaxCoord * 4.0 / (10.0 * scale); break;            // outside int64 altogether
    }
    ctx.count("range_class_" + std::to_string(cls));
    if (cls == 3 && (api == A_CLIPPERD_OPEN || api == A_CLIPPERD_CLIP)) { /* inf*0 style NaN in the other set is avoided: other set uses mag 1 */ }
    Outcome o = call_api(api, p, mag);
    bool valid = cls == 0;
    if (o.other_exc) bad("C11.wrong_exception", kApi[api], "coordinate class " + std::to_string(cls) + " raised " + o.what);
    else if (!valid && !reported(o)) bad("C11.silently_accepted", kApi[api], "coordinates with |x*scale| beyond INT64_MAX/4 (class " + std::to_string(cls) + ", precision " + std::to_string(p) + ") were accepted");
    else if (valid && (o.threw || (o.has_ec && o.ec != 0))) bad("C11.valid_rejected", kApi[api], "in-range coordinates were reported as an error: " + o.what);
  } else if (kind == "zeroscale") {
    int v = (int)c.geti("variant");
    Outcome o = attempt([&](Outcome& oo) {
      int ec = 0; PathsD S = subjD(1.0); Paths64 S64{ Path64{ Point64(0, 0), Point64(10, 0), Point64(10, 10) } };
      switch (v) {
        case 0: { auto r = ScalePaths<int64_t, double>(S, 0.0, ec); oo.result_empty = r.empty(); break; }
        case 1: { auto r = ScalePath<int64_t, double>(S[0], 0.0, ec); oo.result_empty = r.empty(); break; }
        case 2: { auto r = ScalePaths<int64_t, double>(S, 0.0, 1.0, ec); oo.result_empty = r.empty(); break; }
        case 3: { auto r = ScalePaths<int64_t, double>(S, 2.0, 0.0, ec); oo.result_empty = r.empty(); break; }
        case 4: { auto r = ScalePaths<double, int64_t>(S64, 0.0, ec); oo.result_empty = r.empty(); break; }
        case 5: { auto r = ScalePath<double, int64_t>(S64[0], 0.0, ec); oo.result_empty = r.empty(); break; }
        default: { auto r = ScalePath<int64_t, double>(S[0], 1.0, 0.0, ec); oo.result_empty = r.empty(); break; }
      }
      oo.has_ec = true; oo.ec = ec;
    });
    if (o.other_exc) bad("C11.wrong_exception", "ScalePath_zero", o.what);
    else if (!reported(o)) bad("C11.silently_accepted", "ScalePath_zero", "zero scale (variant " + std::to_string(v) + ") was accepted");
    // and a non-zero scale must not be reported
    Outcome ok = attempt([&](Outcome& oo) { int ec = 0; auto r = ScalePaths<int64_t, double>(subjD(1.0), 3.0, ec); oo.has_ec = true; oo.ec = ec; oo.result_empty = r.empty(); });
    if (ok.threw || ok.ec != 0) bad("C11.valid_rejected", "ScalePaths", "scale 3 reported as an error");
  } else if (kind == "oddcount") {
    int v = (int)c.geti("variant"); int n = (int)c.geti("n");
    Outcome o = attempt([&](Outcome& oo) {
      if (v == 0) { std::vector<int64_t> a; for (int k = 0; k < n; ++k) a.push_back(k * 3); oo.result_empty = MakePath(a).empty(); }
      else if (v == 1) { std::vector<int> a; for (int k = 0; k < n; ++k) a.push_back(k * 3); oo.result_empty = MakePath(a).empty(); }
      else if (v == 2) { std::vector<double> a; for (int k = 0; k < n; ++k) a.push_back(k * 1.5); oo.result_empty = MakePathD(a).empty(); }
      else { std::vector<int> a; for (int k = 0; k < n; ++k) a.push_back(k); oo.result_empty = MakePathD(a).empty(); }
    });
    bool valid = (n % 2) == 0;
    const char* nm = v < 2 ? "MakePath" : "MakePathD";
    if (o.other_exc) bad("C11.wrong_exception", nm, o.what);
    else if (!valid && !reported(o)) bad("C11.silently_accepted", nm, "an odd number of values (" + std::to_string(n) + ") was accepted");
    else if (valid && o.threw) bad("C11.valid_rejected", nm, "an even number of values was reported as an error");
  } else if (kind == "cboundary") {
    int fn = (int)c.geti("fn"), ct = (int)c.geti("ct"), fr = (int)c.geti("fr"), p = (int)c.geti("p");
    bool ct_bad = ct > 4, fr_bad = fr > 3, p_bad = p < -8 || p > 8;
    Paths64 S64{ Path64{ Point64(0, 0), Point64(10, 0), Point64(10, 10), Point64(0, 10) } }, C64{ Path64{ Point64(5, 5), Point64(15, 5), Point64(15, 15), Point64(5, 15) } };
    CPaths64 cs = CreateCPathsFromPathsT(S64), cc = CreateCPathsFromPathsT(C64);
    const double bm = (p < 0 && p >= -8) ? std::pow(10.0, -p) : 1.0;   // keep the scaled input non-degenerate for negative precision
    CPathsD ds = CreateCPathsDFromPathsD(subjD(bm)), dc = CreateCPathsDFromPathsD(clipD(bm));
    int rc = 0; bool isnull = false; bool is_int = fn < 4; bool any_bad;
    CPaths64 o1 = nullptr, o2 = nullptr; CPathsD d1 = nullptr, d2 = nullptr;
    CRectD cr{ 2.0 * bm, 2.0 * bm, 8.0 * bm, 8.0 * bm };
    Outcome o = attempt([&](Outcome&) {
      switch (fn) {
        case 0: rc = BooleanOp64((uint8_t)ct, (uint8_t)fr, cs, nullptr, cc, o1, o2, true, false); break;
        case 1: rc = BooleanOp_PolyTree64((uint8_t)ct, (uint8_t)fr, cs, nullptr, cc, o1, o2, true, false); break;
        case 2: rc = BooleanOpD((uint8_t)ct, (uint8_t)fr, ds, nullptr, dc, d1, d2, p, true, false); break;
        case 3: rc = BooleanOp_PolyTreeD((uint8_t)ct, (uint8_t)fr, ds, nullptr, dc, d1, d2, p, true, false); break;
        case 4: d1 = InflatePathsD(ds, 1.0 * bm, 3, 0, p, 2.0, 0.0, false); isnull = d1 == nullptr; break;
        case 5: d1 = InflatePathD(ds + 2, 1.0 * bm, 3, 0, p, 2.0, 0.0, false); isnull = d1 == nullptr; break;
        case 6: d1 = RectClipD(cr, ds, p); isnull = d1 == nullptr; break;
        default: d1 = RectClipLinesD(cr, dc, p); isnull = d1 == nullptr; break;   // dc starts inside the rectangle
      }
    });
    any_bad = is_int ? ((fn >= 2 ? p_bad : false) || ct_bad || fr_bad) : p_bad;
    static const char* const kFn[] = { "BooleanOp64", "BooleanOp_PolyTree64", "BooleanOpD", "BooleanOp_PolyTreeD", "InflatePathsD", "InflatePathD", "RectClipD", "RectClipLinesD" };
    if (o.threw || o.other_exc) bad("C11.wrong_exception", kFn[fn], "exception crossed the C boundary: " + o.what);
    else if (is_int) {
      if (any_bad && rc >= 0) bad("C11.silently_accepted", kFn[fn], "cliptype " + std::to_string(ct) + " fillrule " + std::to_string(fr) + " precision " + std::to_string(p) + " returned " + std::to_string(rc));
      else if (!any_bad && rc != 0) bad("C11.valid_rejected", kFn[fn], "valid arguments returned " + std::to_string(rc));
      if (any_bad) ctx.count("cboundary_rc_" + std::to_string(rc));
    } else {
      if (any_bad && !isnull) bad("C11.silently_accepted", kFn[fn], "precision " + std::to_string(p) + " gave a non-null result");
      else if (!any_bad && isnull) bad("C11.valid_rejected", kFn[fn], "valid precision " + std::to_string(p) + " gave null");
    }
    DisposeArray64(o1); DisposeArray64(o2); DisposeArrayD(d1); DisposeArrayD(d2);
    DisposeArray64(cs); DisposeArray64(cc); DisposeArrayD(ds); DisposeArrayD(dc);
  }
  if (!from_replay) ctx.note_case(c, true);
}

// ---------------------------------------------------------------- success part
// route: how the paths reach the clipper. 0 direct; 1 everything through one ReuseableDataContainer64; 2 subjects through a
// container, clip added directly afterwards; 3 clip directly, then the container last; 4 container, Clear(), then direct;
// 5 direct, and the call is made twice on the same object (the second call is the one judged as well)
template <class CL, class ADD>
static void load_route(CL& cl, ReuseableDataContainer64& rd, int route, const Paths64& S, const Paths64& O, const Paths64& C, ADD add_direct) {
  // (rd belongs to the caller: the clipper refers to the container's vertices, so it has to outlive Execute)
  switch (route) {
    case 1: rd.AddPaths(S, PathType::Subject, false); rd.AddPaths(O, PathType::Subject, true); rd.AddPaths(C, PathType::Clip, false); cl.AddReuseableData(rd); break;
    case 2: rd.AddPaths(S, PathType::Subject, false); rd.AddPaths(O, PathType::Subject, true); cl.AddReuseableData(rd); add_direct(false, false, true); break;
    case 3: add_direct(false, false, true); rd.AddPaths(S, PathType::Subject, false); rd.AddPaths(O, PathType::Subject, true); cl.AddReuseableData(rd); break;
    case 4: rd.AddPaths(C, PathType::Subject, false); rd.AddPaths(S, PathType::Clip, false); cl.AddReuseableData(rd); cl.Clear(); add_direct(true, true, true); break;
    default: add_direct(true, true, true); break;
  }
}
static void judge_success(Ctx& ctx, const Case& c, bool from_replay) {
  ctx.begin(c);
  const Paths64& S = c.P("S"); const Paths64& C = c.P("C"); const Paths64& O = c.P("O");
  int ct = (int)c.geti("ct"), fr = (int)c.geti("fr"), form = (int)c.geti("form"), route = (int)c.geti("route");
  bool pc = c.geti("pc") != 0, rev = c.geti("rev") != 0;
  if (form > 3) route = 0;
  auto bad = [&](const std::string& claim, const std::string& tag, const std::string& d) { ctx.violation(claim, { tag, "ct" + std::to_string(ct), "route" + std::to_string(route) }, c, d); };
  ctx.count("route_" + std::to_string(route));
  const bool noinput = S.empty() && C.empty() && O.empty();
  if (noinput) ctx.count("cases_without_any_input_path");
  ctx.evaluated(); ctx.count("form_" + std::to_string(form)); ctx.count("ct_" + std::to_string(ct));
  Outcome o = attempt([&](Outcome&) {
    switch (form) {
      case 0: { ReuseableDataContainer64 rd; Clipper64 cl; cl.PreserveCollinear(pc); cl.ReverseSolution(rev);
        load_route(cl, rd, route, S, O, C, [&](bool s, bool o, bool k) { if (s) cl.AddSubject(S); if (o) cl.AddOpenSubject(O); if (k) cl.AddClip(C); });
        // the output containers are not fresh: whatever they held must not survive the call
        Paths64 sol{ Path64{ Point64(1, 1), Point64(9, 1), Point64(9, 9) } }, solo{ Path64{ Point64(7, 7), Point64(8, 8) } }; bool ok = cl.Execute((ClipType)ct, (FillRule)fr, sol, solo);
        if (route == 5 && ok) ok = cl.Execute((ClipType)ct, (FillRule)fr, sol, solo);
        if (!ok) bad("C11.execute_false", "Clipper64_paths", "Execute returned false");
        else if ((ct == 0 || noinput) && (!sol.empty() || !solo.empty())) bad("C11.noclip_nonempty", "Clipper64_paths", ct == 0 ? "NoClip produced a solution" : "no input paths, yet the solution is not empty (stale container content)");
        break; }
      case 1: { ReuseableDataContainer64 rd; Clipper64 cl; cl.PreserveCollinear(pc); cl.ReverseSolution(rev);
        load_route(cl, rd, route, S, O, C, [&](bool s, bool o, bool k) { if (s) cl.AddSubject(S); if (o) cl.AddOpenSubject(O); if (k) cl.AddClip(C); });
        PolyTree64 t; t.AddChild(Path64{ Point64(1, 1), Point64(9, 1), Point64(9, 9) }); Paths64 solo{ Path64{ Point64(7, 7), Point64(8, 8) } };
        bool ok = cl.Execute((ClipType)ct, (FillRule)fr, t, solo);
        if (route == 5 && ok) ok = cl.Execute((ClipType)ct, (FillRule)fr, t, solo);
        if (!ok) bad("C11.execute_false", "Clipper64_tree", "Execute returned false");
        else if ((ct == 0 || noinput) && (t.Count() || !solo.empty())) bad("C11.noclip_nonempty", "Clipper64_tree", ct == 0 ? "NoClip produced a solution" : "no input paths, yet the solution is not empty (stale container content)");
        break; }
      case 2: case 3: { double div = c.getd("div", 1.0); int prec = (int)c.geti("prec");
        auto td = [&](const Paths64& pp) { PathsD r; for (auto& p : pp) { PathD q; for (auto& pt : p) q.emplace_back((double)pt.x / div, (double)pt.y / div); r.push_back(q); } return r; };
        ReuseableDataContainer64 rd; ClipperD cl(prec); cl.PreserveCollinear(pc); cl.ReverseSolution(rev);
        // (a container holds integer coordinates: for ClipperD they are the already scaled ones)
        load_route(cl, rd, route, S, O, C, [&](bool s, bool o, bool k) { if (s) cl.AddSubject(td(S)); if (o) cl.AddOpenSubject(td(O)); if (k) cl.AddClip(td(C)); });
        if (form == 2) { PathsD sol{ PathD{ PointD(1.0, 1.0), PointD(9.0, 1.0), PointD(9.0, 9.0) } }, solo{ PathD{ PointD(7.0, 7.0), PointD(8.0, 8.0) } }; bool ok = cl.Execute((ClipType)ct, (FillRule)fr, sol, solo);
          if (route == 5 && ok) ok = cl.Execute((ClipType)ct, (FillRule)fr, sol, solo);
          if (!ok) bad("C11.execute_false", "ClipperD_paths", "Execute returned false"); else if ((ct == 0 || noinput) && (!sol.empty() || !solo.empty())) bad("C11.noclip_nonempty", "ClipperD_paths", "NoClip or no input, yet the solution is not empty"); }
        else { PolyTreeD t; t.AddChild(PathD{ PointD(1.0, 1.0), PointD(9.0, 1.0), PointD(9.0, 9.0) }); PathsD solo{ PathD{ PointD(7.0, 7.0), PointD(8.0, 8.0) } }; bool ok = cl.Execute((ClipType)ct, (FillRule)fr, t, solo);
          if (route == 5 && ok) ok = cl.Execute((ClipType)ct, (FillRule)fr, t, solo);
          if (!ok) bad("C11.execute_false", "ClipperD_tree", "Execute returned false"); else if ((ct == 0 || noinput) && (t.Count() || !solo.empty())) bad("C11.noclip_nonempty", "ClipperD_tree", "NoClip or no input, yet the solution is not empty"); }
        if (cl.ErrorCode()) bad("C11.valid_rejected", "ClipperD", "error code " + std::to_string(cl.ErrorCode()) + " on in-range input");
        break; }
      default: { CPaths64 cs = CreateCPathsFromPathsT(S), cc = CreateCPathsFromPathsT(C), co = CreateCPathsFromPathsT(O), o1 = nullptr, o2 = nullptr;
        int rc = (form == 4) ? BooleanOp64((uint8_t)ct, (uint8_t)fr, cs, co, cc, o1, o2, pc, rev) : BooleanOp_PolyTree64((uint8_t)ct, (uint8_t)fr, cs, co, cc, o1, o2, pc, rev);
        if (rc != 0) bad("C11.execute_false", form == 4 ? "BooleanOp64" : "BooleanOp_PolyTree64", "export returned " + std::to_string(rc));
        else if (ct == 0) { bool nonempty = (form == 4) ? (o1 && o1[1] != 0) : (o1 != nullptr); if (nonempty || (o2 && o2[1] != 0)) bad("C11.noclip_nonempty", "export", "NoClip produced a solution"); }
        DisposeArray64(o1); DisposeArray64(o2); DisposeArray64(cs); DisposeArray64(cc); DisposeArray64(co);
        break; }
    }
  });
  if (o.threw || o.other_exc) bad("C11.valid_rejected", "exception", "exception on valid input: " + o.what);
  ctx.count("outputs_prefilled_before_execute");
  if (!from_replay) ctx.note_case(c, !S.empty() || !C.empty() || !O.empty());
}

static bool success_mode(Ctx& ctx) { return ctx.optstr("mode", "report") == "success"; }

void vf_case(Ctx& ctx, uint64_t i) {
  Rng& r = ctx.rng; Case c;
  if (success_mode(ctx)) {
    int form = (int)(i % 6); c.seti("form", form);
    int maxe = (form == 2 || form == 3) ? 50 : 62;
    int e = r.irange(2, maxe); if (r.chance(0.25)) e = maxe;
    int64_t R = (int64_t)1 << e; if (r.coin() && e > 3) R -= r.range(0, R / 4);
    auto mk = [&]() { Paths64 pp = gen::zoo_paths(r, R, 4); if (r.chance(0.5)) pp.push_back(gen::random_poly(r, 0, 0, R, r.irange(3, 12))); if (r.chance(0.2)) for (auto& p : pp) for (auto& pt : p) { if (r.chance(0.3)) pt.x = r.coin() ? R : -R; if (r.chance(0.3)) pt.y = r.coin() ? R : -R; } return pp; };
    c.p64["S"] = mk(); c.p64["C"] = mk(); c.p64["O"] = r.chance(0.4) ? gen::zoo_paths(r, R, 3) : Paths64();
    if (r.chance(0.03)) { c.p64["S"].clear(); c.p64["C"].clear(); c.p64["O"].clear(); }
    else if (r.chance(0.05)) {
      // nothing but degenerate paths: no path has a local minimum (points, two-point rings, flat rings, empty paths)
      auto deg = [&]() { Paths64 pp; int n = r.irange(0, 3); for (int k = 0; k < n; ++k) { int64_t x = r.range(-R, R), y = r.range(-R, R); switch (r.irange(0, 3)) {
        case 0: pp.push_back(Path64{ Point64(x, y) }); break; case 1: pp.push_back(Path64{ Point64(x, y), Point64(r.range(-R, R), y) }); break;
        case 2: pp.push_back(Path64{ Point64(x, y), Point64(r.range(-R, R), y), Point64(r.range(-R, R), y), Point64(x, y) }); break; default: pp.push_back(Path64()); break; } } return pp; };
      c.p64["S"] = deg(); c.p64["C"] = deg(); c.p64["O"] = r.coin() ? Paths64() : Paths64{ Path64{ Point64(r.range(-R, R), r.range(-R, R)) } };
      ctx.count("cases_with_degenerate_paths_only");
    }
    c.seti("route", r.chance(0.45) ? r.irange(1, 5) : 0);
    c.seti("ct", r.irange(0, 4)); c.seti("fr", r.irange(0, 3)); c.seti("pc", r.coin()); c.seti("rev", r.coin());
    int prec = r.irange(-8, 8); c.seti("prec", prec); c.setd("div", prec > 0 ? std::pow(10.0, prec) : 1.0);
    judge_success(ctx, c, false);
    return;
  }
  int k = (int)(i % 10);
  if (k < 4) { c.set("kind", "precision"); int api; do { api = r.irange(0, A_NAPI - 1); } while (!api_takes_precision(api)); c.seti("api", api);
    int p = r.irange(-20, 20); if (r.chance(0.3)) p = (int)r.pick(std::vector<int>{ -9, 9, -8, 8, 12, -100, 100, 0 }); c.seti("p", p); }
  else if (k < 7) { c.set("kind", "range"); int api; do { api = r.irange(0, A_NAPI - 1); } while (!api_scales_coords(api) || api == A_INFLATE_DELTA0 /* delta 0 returns the input unscaled */); c.seti("api", api); c.seti("p", r.irange(-8, 8)); c.seti("cls", r.irange(0, 4)); }
  else if (k == 7) { c.set("kind", "zeroscale"); c.seti("variant", r.irange(0, 6)); }
  else if (k == 8) { c.set("kind", "oddcount"); c.seti("variant", r.irange(0, 3)); c.seti("n", r.irange(0, 15)); }
  else { c.set("kind", "cboundary"); int fn = r.irange(0, 7); c.seti("fn", fn);
    int ct = r.irange(0, 4), fr = r.irange(0, 3), p = r.irange(-8, 8);
    int what = r.irange(0, 3);
    if (what == 0 && fn < 4) ct = r.irange(5, 255);
    if (what == 1 && fn < 4) fr = r.irange(4, 255);
    if (what == 2 || fn >= 4) { if (r.chance(0.7)) p = (int)r.pick(std::vector<int>{ -9, 9, 12, -100, 100, 1000, -1000, 2147483647 }); }
    if (ct == 0) ct = 1;
    c.seti("ct", ct); c.seti("fr", fr); c.seti("p", p); }
  judge_report(ctx, c, false);
}
void vf_replay(Ctx& ctx, const Case& c) { if (success_mode(ctx)) judge_success(ctx, c, true); else judge_report(ctx, c, true); }
