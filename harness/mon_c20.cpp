// mon_c20 — C20: path utilities keep their contracts (TrimCollinear, SimplifyPath, RamerDouglasPeucker,
// StripDuplicates, StripNearEqual, TranslatePath, Ellipse, Length, GetBounds), Path64 and PathD variants.
// --mode exh : indexable exhaustive enumeration of every path of 0..K points over the 4x4 lattice (K from the case
//              count: 69 905 cases = K 4, 1 118 481 cases = K 5), each as closed and open, eps in {0, 0.5, 1.5}
// --mode rnd : random paths up to 40 points (tiny lattices with collinear runs / repeats / spikes, the same
//              translated or scaled to magnitude 2^40, affine lattices and long thin strips at 2^40), eps in
//              {0, 0.5, 1, 2.5, 10}; every 8th case is an Ellipse case.
#include "c20_oracle.h"
#include "clipper2/clipper.h"

using namespace vf;
using namespace c20;
namespace CL = Clipper2Lib;

// ------------------------------------------------------------------------------------------------ helpers
static std::vector<double> parse_list(const std::string& s) {
  std::vector<double> v; const char* p = s.c_str();
  while (*p) { char* e; double d = strtod(p, &e); if (e == p) break; v.push_back(d); p = e; while (*p == ',' || *p == ' ') ++p; }
  return v;
}
static std::string fmt_list(const std::vector<double>& v) {
  std::string s; char b[64];
  for (size_t i = 0; i < v.size(); ++i) { snprintf(b, sizeof b, "%a", v[i]); s += (i ? "," : ""); s += b; }
  return s;
}
static std::string dstr(double v) { char b[64]; snprintf(b, sizeof b, "%.17g", v); return b; }

// P / 2^sh as doubles (exact)
static PathD to_d(const Path64& p, int sh) {
  PathD r; r.reserve(p.size()); double f = std::ldexp(1.0, -sh);
  for (auto& q : p) r.emplace_back((double)q.x * f, (double)q.y * f);
  return r;
}
// doubles * 2^sh back to integers; ok=false if a coordinate is not an integer after scaling
static Path64 from_d(const PathD& p, int sh, bool& ok) {
  Path64 r; r.reserve(p.size()); double f = std::ldexp(1.0, sh); ok = true;
  for (auto& q : p) {
    double x = q.x * f, y = q.y * f;
    if (x != std::nearbyint(x) || y != std::nearbyint(y) || std::fabs(x) > 9e18 || std::fabs(y) > 9e18) { ok = false; return r; }
    r.emplace_back((int64_t)x, (int64_t)y);
  }
  return r;
}

struct J {                      // one judged case
  Ctx& ctx; const Case& c; std::map<std::string, bool> done;
  // at most one violation per claim per case (a case bundles many calls)
  void viol(const std::string& claim, std::vector<std::string> tags, const std::string& detail) {
    if (done[claim]) return;
    done[claim] = true;
    ctx.violation("C20." + claim, tags, c, detail);
  }
};

// ------------------------------------------------------------------------------------------------ TrimCollinear
// r = result of trimming p (integer view), r2 = result of trimming r again
static void check_trim(J& j, const Path64& p, const Path64& r, const Path64& r2, bool closed, const char* variant) {
  Ctx& ctx = j.ctx;
  std::string oc = closed ? "closed" : "open";
  std::string ctxs = std::string(variant) + " TrimCollinear(" + oc + ") in " + pstr(p) + " out " + pstr(r);
  if (!is_subseq(r, p)) { j.viol("trim_subsequence", { variant, oc }, ctxs + ": not an order-preserving subsequence"); return; }
  if (!closed && !keeps_end_points(r, p)) {
    bool degenerate = p.size() < 3 && (p.size() < 2 || p[0] == p[1]);   // the branch that returns Path64() for open input
    j.viol("trim_endpoints", { degenerate ? "open_zero_length_input" : "endpoint_lost", variant }, ctxs + ": an end point of the open path is missing");
    return;
  }
  if (closed) {
    if (area2(r) != area2(p)) {
      j.viol("trim_area", { variant }, ctxs + ": doubled area " + ldstr(to_ld(area2(p))) + " became " + ldstr(to_ld(area2(r))));
      return;
    }
    ctx.count("trim_area_checked");
  }
  Path64 corners;
  if (corner_premise(p, closed, corners)) {
    ctx.count(closed ? "trim_premise_holds_closed" : "trim_premise_holds_open");
    long t = first_collinear_triple(r, closed);
    if (t >= 0) { j.viol("trim_corners", { "collinear_triple_left", variant, oc }, ctxs + ": vertices around index " + std::to_string(t) + " of the result are collinear"); return; }
    if (!same_path(r, corners)) { j.viol("trim_corners", { "not_the_corner_set", variant, oc }, ctxs + ": corner vertices are " + pstr(corners)); return; }
    if (!same_path(r2, r)) { j.viol("trim_idempotent", { variant, oc }, ctxs + ": trimming again gives " + pstr(r2)); return; }
    if (corners.size() < p.size()) ctx.count("trim_removed_something_under_premise");
  } else {
    ctx.count(closed ? "trim_premise_rejected_closed" : "trim_premise_rejected_open");
    if (!same_path(r2, r)) ctx.count("trim_not_idempotent_outside_premise(not judged)");
  }
}

static void run_trim(J& j, const Path64& p, bool closed, int prec) {
  Ctx& ctx = j.ctx;
  Path64 r = CL::TrimCollinear(p, !closed);
  Path64 r2 = CL::TrimCollinear(r, !closed);
  ctx.evaluated(2); ctx.count("calls_TrimCollinear64", 2);
  check_trim(j, p, r, r2, closed, "path64");

  // PathD variant: D = P / 2^prec (prec >= 0) or P * 10 (prec == -1); the library scales by 10^prec, so the
  // integer path it trims is X = P * 5^prec (resp. P): all exact below 2^53.
  int64_t mul = 1; for (int k = 0; k < prec; ++k) mul *= 5;
  double scale = std::pow(10.0, prec);
  PathD d; Path64 X; d.reserve(p.size()); X.reserve(p.size());
  for (auto& q : p) {
    if (prec >= 0) d.emplace_back(std::ldexp((double)q.x, -prec), std::ldexp((double)q.y, -prec));
    else d.emplace_back((double)q.x * 10.0, (double)q.y * 10.0);
    X.emplace_back(q.x * mul, q.y * mul);
  }
  PathD rd = CL::TrimCollinear(d, prec, !closed);
  PathD rd2 = CL::TrimCollinear(rd, prec, !closed);
  ctx.evaluated(2); ctx.count("calls_TrimCollinearD", 2);
  auto back = [&](const PathD& s, Path64& out) {
    out.clear();
    for (auto& q : s) {
      double x = q.x * scale, y = q.y * scale;
      double rx = std::nearbyint(x), ry = std::nearbyint(y);
      if (!(std::fabs(x - rx) <= 1e-3 && std::fabs(y - ry) <= 1e-3)) return false;
      out.emplace_back((int64_t)rx, (int64_t)ry);
    }
    return true;
  };
  Path64 R, R2;
  if (!back(rd, R) || !back(rd2, R2)) {
    j.viol("trim_subsequence", { "pathd", "not_on_precision_grid" }, "pathd TrimCollinear precision " + std::to_string(prec) + " in " + pstr(p) + ": a result coordinate is not a multiple of 10^-precision");
    return;
  }
  check_trim(j, X, R, R2, closed, "pathd");
}

// ------------------------------------------------------------------------------------------------ SimplifyPath
static void check_simplify(J& j, const Path64& p, const Path64& r, bool closed, int64_t eps4, const char* variant) {
  Ctx& ctx = j.ctx;
  std::string oc = closed ? "closed" : "open";
  std::string ctxs = std::string(variant) + " SimplifyPath(eps=" + dstr(eps4 / 4.0) + "," + oc + ") in " + pstr(p) + " out " + pstr(r);
  if (!is_subseq(r, p)) { j.viol("simplify_subsequence", { variant, oc }, ctxs + ": not an order-preserving subsequence"); return; }
  if (!closed && !keeps_end_points(r, p)) { j.viol("simplify_endpoints", { variant }, ctxs + ": an end point of the open path is missing"); return; }
  size_t n = r.size();
  if (n < 3) { ctx.count("simplify_result_under_3_points"); return; }
  for (size_t i = 0; i < n; ++i) {
    if (!closed && (i == 0 || i + 1 == n)) continue;
    int dc = dist_cmp(r[i], r[(i + n - 1) % n], r[(i + 1) % n], eps4);
    if (dc == DC_DEGEN) { ctx.count("simplify_vertices_skipped_neighbours_coincide"); continue; }
    if (dc == DC_AMBIG) { ctx.count("simplify_vertices_skipped_by_margin"); continue; }
    ctx.count("simplify_vertices_judged");
    if (dc == DC_NEAR) {
      std::vector<std::string> tags = { variant, oc };
      if (p.size() < 4) tags.insert(tags.begin(), "fewer_than_four_points");
      else tags.insert(tags.begin(), "removable_vertex_left");
      j.viol("simplify_no_removable", tags, ctxs + ": result vertex " + std::to_string(i) + " (" + std::to_string(r[i].x) + "," + std::to_string(r[i].y) + ") is within eps of the line through its neighbours");
      return;
    }
  }
}

static void run_simplify(J& j, const Path64& p, bool closed, int64_t eps4, int sh) {
  Ctx& ctx = j.ctx;
  double eps = eps4 / 4.0;
  Path64 r = CL::SimplifyPath(p, eps, closed);
  ctx.evaluated(); ctx.count("calls_SimplifyPath64");
  if (r.size() < p.size()) ctx.count("simplify_removed_something");
  check_simplify(j, p, r, closed, eps4, "path64");
  PathD d = to_d(p, sh);
  PathD rd = CL::SimplifyPath(d, std::ldexp(eps, -sh), closed);
  ctx.evaluated(); ctx.count("calls_SimplifyPathD");
  bool ok; Path64 R = from_d(rd, sh, ok);
  if (!ok) { j.viol("simplify_subsequence", { "pathd", "coordinate_changed" }, "pathd SimplifyPath in " + pstr(p) + ": a result coordinate is not an input coordinate"); return; }
  check_simplify(j, p, R, closed, eps4, "pathd");
}

// ------------------------------------------------------------------------------------------------ RamerDouglasPeucker
// Is there an order-preserving embedding of r into p (r.front()->0 and r.back()->n-1 when pinned) such that no
// removed vertex lying between two kept ones is certainly farther than eps from the line through them?
static bool rdp_some_embedding_ok(const Path64& p, const Path64& r, int64_t eps4, bool pinned) {
  size_t n = p.size(), m = r.size();
  if (m == 0) return true;
  std::vector<std::vector<char>> f(m, std::vector<char>(n, 0));
  for (size_t k = 0; k < n; ++k) f[0][k] = (p[k] == r[0]) && (!pinned || k == 0);
  for (size_t i = 1; i < m; ++i)
    for (size_t k = i; k < n; ++k) {
      if (!(p[k] == r[i])) continue;
      if (pinned && i + 1 == m && k != n - 1) continue;
      for (size_t k2 = i - 1; k2 < k && !f[i][k]; ++k2) {
        if (!f[i - 1][k2]) continue;
        bool ok = true;
        for (size_t q = k2 + 1; q < k && ok; ++q) if (dist_cmp(p[q], p[k2], p[k], eps4) == DC_FAR) ok = false;
        if (ok) f[i][k] = 1;
      }
    }
  for (size_t k = 0; k < n; ++k) if (f[m - 1][k] && (!pinned || m == 1 || k == n - 1)) return true;
  return false;
}

static void check_rdp(J& j, const Path64& p, const Path64& r, int64_t eps4, const char* variant) {
  Ctx& ctx = j.ctx;
  std::string ctxs = std::string(variant) + " RamerDouglasPeucker(eps=" + dstr(eps4 / 4.0) + ") in " + pstr(p, 40) + " out " + pstr(r, 40);
  bool fel = p.size() >= 2 && p.front() == p.back();      // classifier: input's first point equals its last point
  auto tags = [&](const char* what) {
    std::vector<std::string> t; if (fel) t.push_back("first_equals_last"); t.push_back(what); t.push_back(variant); return t; };
  if (!is_subseq(r, p)) { j.viol("rdp_subsequence", tags("not_subsequence"), ctxs + ": not an order-preserving subsequence"); return; }
  bool ends = keeps_end_points(r, p);
  if (!ends) j.viol("rdp_keeps_endpoints", tags("endpoint_lost"), ctxs + ": an end point of the path is missing");
  // embed r in p: with both ends kept pin r.back() to the last index, else greedy from the left
  size_t n = p.size();
  std::vector<char> kept(n, 0);
  { size_t k = 0;
    for (size_t i = 0; i < r.size(); ++i) {
      if (ends && i + 1 == r.size() && n >= 2) { kept[n - 1] = 1; break; }
      while (k < n && !(p[k] == r[i])) ++k;
      if (k < n) kept[k++] = 1;
    } }
  long prev = -1;
  std::vector<long> L(n, -1), R(n, -1);
  for (size_t i = 0; i < n; ++i) { L[i] = prev; if (kept[i]) prev = (long)i; }
  prev = -1;
  for (size_t i = n; i-- > 0;) { R[i] = prev; if (kept[i]) prev = (long)i; }
  for (size_t i = 0; i < n; ++i) {
    if (kept[i]) continue;
    if (L[i] < 0 || R[i] < 0) { ctx.count("rdp_removed_vertices_without_two_surviving_neighbours"); continue; }
    int dc = dist_cmp(p[i], p[L[i]], p[R[i]], eps4);
    if (dc == DC_DEGEN) { ctx.count("rdp_vertices_skipped_neighbours_coincide"); continue; }
    if (dc == DC_AMBIG) { ctx.count("rdp_vertices_skipped_by_margin"); continue; }
    ctx.count("rdp_removed_vertices_judged");
    if (dc == DC_FAR) {
      // with repeated points the greedy embedding need not be the one the library used: a violation only if
      // NO embedding of the result into the input (end points pinned when kept) satisfies the claim
      if (rdp_some_embedding_ok(p, r, eps4, ends)) { ctx.count("rdp_cases_settled_by_alternative_embedding"); return; }
      j.viol("rdp_removed_within_eps", tags("removed_vertex_too_far"), ctxs + ": removed vertex " + std::to_string(i) + " (" + std::to_string(p[i].x) + "," +
             std::to_string(p[i].y) + ") is farther than eps from the line through its surviving neighbours " + std::to_string(L[i]) + " and " + std::to_string(R[i]));
      return;
    }
  }
}

static void run_rdp(J& j, const Path64& p, int64_t eps4, int sh) {
  Ctx& ctx = j.ctx;
  double eps = eps4 / 4.0;
  Path64 r = CL::RamerDouglasPeucker(p, eps);
  ctx.evaluated(); ctx.count("calls_RamerDouglasPeucker64");
  if (r.size() < p.size()) ctx.count("rdp_removed_something");
  check_rdp(j, p, r, eps4, "path64");
  PathD d = to_d(p, sh);
  PathD rd = CL::RamerDouglasPeucker(d, std::ldexp(eps, -sh));
  ctx.evaluated(); ctx.count("calls_RamerDouglasPeuckerD");
  bool ok; Path64 R = from_d(rd, sh, ok);
  if (!ok) { j.viol("rdp_subsequence", { "pathd", "coordinate_changed" }, "pathd RamerDouglasPeucker in " + pstr(p) + ": a result coordinate is not an input coordinate"); return; }
  check_rdp(j, p, R, eps4, "pathd");
}

// ------------------------------------------------------------------------------------------------ Strip*
static void run_strip_duplicates(J& j, const Path64& p, bool closed, int sh) {
  Ctx& ctx = j.ctx;
  std::string oc = closed ? "closed" : "open";
  Path64 ref = ref_strip_duplicates(p, closed);
  Path64 r = p; CL::StripDuplicates(r, closed);
  PathD rd = to_d(p, sh); CL::StripDuplicates(rd, closed);
  ctx.evaluated(2); ctx.count("calls_StripDuplicates", 2);
  bool ok; Path64 R = from_d(rd, sh, ok);
  for (int v = 0; v < 2; ++v) {
    const Path64& got = v ? R : r; const char* variant = v ? "pathd" : "path64";
    std::string ctxs = std::string(variant) + " StripDuplicates(" + oc + ") in " + pstr(p) + " out " + pstr(got);
    if (v && !ok) { j.viol("strip_duplicates", { variant, "coordinate_changed" }, ctxs); return; }
    for (size_t i = 0; i + 1 < got.size(); ++i)
      if (got[i] == got[i + 1]) { j.viol("strip_duplicates", { "equal_neighbours_left", variant, oc }, ctxs + ": equal neighbours remain"); return; }
    if (closed && got.size() > 1 && got.front() == got.back()) { j.viol("strip_duplicates", { "last_equals_first", variant, oc }, ctxs + ": closed result ends on its first point"); return; }
    if (!same_path(got, ref)) { j.viol("strip_duplicates", { "differs_from_definition", variant, oc }, ctxs + ": expected " + pstr(ref)); return; }
  }
  if (ref.size() < p.size()) ctx.count("strip_duplicates_removed_something");
}

static void run_strip_near_equal(J& j, const Path64& p, bool closed, double dist, int sh) {
  Ctx& ctx = j.ctx;
  std::string oc = closed ? "closed" : "open";
  double T = dist * dist;
  bool amb; Path64 ref = ref_strip_near_equal(p, T, closed, amb);
  Path64 r = CL::StripNearEqual(p, T, closed);
  PathD rd = CL::StripNearEqual(to_d(p, sh), std::ldexp(T, -2 * sh), closed);
  ctx.evaluated(2); ctx.count("calls_StripNearEqual", 2);
  if (amb) { ctx.count("strip_near_equal_skipped_by_margin"); return; }
  bool ok; Path64 R = from_d(rd, sh, ok);
  for (int v = 0; v < 2; ++v) {
    const Path64& got = v ? R : r; const char* variant = v ? "pathd" : "path64";
    std::string ctxs = std::string(variant) + " StripNearEqual(max_dist_sqrd=" + dstr(T) + "," + oc + ") in " + pstr(p) + " out " + pstr(got);
    if (v && !ok) { j.viol("strip_near_equal", { variant, "coordinate_changed" }, ctxs); return; }
    if (!p.empty() && (got.empty() || !(got[0] == p[0]))) { j.viol("strip_near_equal", { "first_point_not_kept", variant, oc }, ctxs); return; }
    for (size_t i = 0; i + 1 < got.size(); ++i)
      if (near_cmp(got[i], got[i + 1], T) == 1) { j.viol("strip_near_equal", { "near_neighbours_left", variant, oc }, ctxs + ": consecutive kept points closer than the threshold"); return; }
    if (closed && got.size() > 1 && near_cmp(got.back(), got.front(), T) == 1) { j.viol("strip_near_equal", { "last_near_first", variant, oc }, ctxs + ": closed result ends near its first point"); return; }
    if (!same_path(got, ref)) { j.viol("strip_near_equal", { "differs_from_definition", variant, oc }, ctxs + ": expected " + pstr(ref)); return; }
  }
  ctx.count("strip_near_equal_judged", 2);
  if (ref.size() < p.size()) ctx.count("strip_near_equal_removed_something");
}

// ------------------------------------------------------------------------------------------------ Translate / Length / GetBounds
static void run_misc(J& j, const Path64& p, int64_t dx, int64_t dy, int sh) {
  Ctx& ctx = j.ctx;
  // TranslatePath
  Path64 t = CL::TranslatePath(p, dx, dy);
  PathD d = to_d(p, sh);
  double ddx = std::ldexp((double)dx, -sh), ddy = std::ldexp((double)dy, -sh);
  PathD td = CL::TranslatePath(d, ddx, ddy);
  ctx.evaluated(2); ctx.count("calls_TranslatePath", 2);
  bool bad = t.size() != p.size() || td.size() != p.size();
  for (size_t i = 0; !bad && i < p.size(); ++i) {
    if (t[i].x != p[i].x + dx || t[i].y != p[i].y + dy) bad = true;
    if (td[i].x != std::ldexp((double)(p[i].x + dx), -sh) || td[i].y != std::ldexp((double)(p[i].y + dy), -sh)) bad = true;
  }
  if (bad) j.viol("translate", {}, "TranslatePath by (" + std::to_string(dx) + "," + std::to_string(dy) + ") in " + pstr(p) + " out " + pstr(t));

  // Length
  for (int closed = 0; closed < 2; ++closed) {
    ld ref = ref_length(p, closed != 0);
    double l64 = CL::Length(p, closed != 0), ld_ = CL::Length(d, closed != 0);
    ctx.evaluated(2); ctx.count("calls_Length", 2);
    ld refd = ldexpl(ref, -sh);
    if (fabsl((ld)l64 - ref) > 1e-9L * ref || fabsl((ld)ld_ - refd) > 1e-9L * refd)
      j.viol("length", { closed ? "closed" : "open" }, "Length(" + std::string(closed ? "closed" : "open") + ") of " + pstr(p) + " = " + dstr(l64) + " / pathd " + dstr(ld_) + ", exact " + ldstr(ref) + " / " + ldstr(refd));
  }

  // GetBounds (single path: T, double-from-int64; paths: the path and its translate)
  if (p.empty()) { (void)CL::GetBounds(p); ctx.evaluated(); ctx.count("getbounds_empty_path_not_judged"); }
  else {
    int64_t x0 = p[0].x, x1 = p[0].x, y0 = p[0].y, y1 = p[0].y;
    for (auto& q : p) { x0 = std::min(x0, q.x); x1 = std::max(x1, q.x); y0 = std::min(y0, q.y); y1 = std::max(y1, q.y); }
    CL::Rect64 b = CL::GetBounds(p);
    CL::RectD bd = CL::GetBounds(d);
    CL::RectD bx = CL::GetBounds<double, int64_t>(p);
    Paths64 pp = { p, t };
    CL::Rect64 bp = CL::GetBounds(pp);
    CL::RectD bpx = CL::GetBounds<double, int64_t>(pp);
    ctx.evaluated(5); ctx.count("calls_GetBounds", 5);
    auto f = [&](int64_t v) { return std::ldexp((double)v, -sh); };
    bool ok = b.left == x0 && b.top == y0 && b.right == x1 && b.bottom == y1 &&
              bd.left == f(x0) && bd.top == f(y0) && bd.right == f(x1) && bd.bottom == f(y1) &&
              bx.left == (double)x0 && bx.top == (double)y0 && bx.right == (double)x1 && bx.bottom == (double)y1;
    int64_t X0 = std::min(x0, x0 + dx), X1 = std::max(x1, x1 + dx), Y0 = std::min(y0, y0 + dy), Y1 = std::max(y1, y1 + dy);
    ok = ok && bp.left == X0 && bp.top == Y0 && bp.right == X1 && bp.bottom == Y1 &&
         bpx.left == (double)X0 && bpx.top == (double)Y0 && bpx.right == (double)X1 && bpx.bottom == (double)Y1;
    if (!ok) j.viol("get_bounds", {}, "GetBounds of " + pstr(p) + " = (" + std::to_string(b.left) + "," + std::to_string(b.top) + "," + std::to_string(b.right) + "," + std::to_string(b.bottom) +
                    ") expected (" + std::to_string(x0) + "," + std::to_string(y0) + "," + std::to_string(x1) + "," + std::to_string(y1) + ") (or a PathD / Paths / double-from-int64 variant differs)");
  }
}

#include "c20_cases.h"
