// mon_c01 — C01: the closed solution of a boolean operation covers exactly the region the fill rule and clip
// type define (winding-number oracle at margin-filtered sample points + boundary confinement).
#include "region.h"
#include "gen.h"
#include "clipper2/clipper.h"

using namespace vf;
using namespace Clipper2Lib;

static gen::GpCounters g_gc;

struct Verdict { long long judged = 0, skipped = 0; };

static void judge(Ctx& ctx, const Case& c, bool from_replay) {
  const Paths64& S = c.P("S"); const Paths64& C = c.P("C");
  int ct = (int)c.geti("ct"), fr = (int)c.geti("fr");
  bool pc = c.geti("pc") != 0, rev = c.geti("rev") != 0;
  Paths64 in = concat(S, C);
  int64_t M = max_abs_coord(in);
  ld tol = tol_of(M);
  ctx.begin(c);

  Clipper64 clipper;
  clipper.PreserveCollinear(pc);
  clipper.ReverseSolution(rev);
  // loading route: the region may not depend on how and in which order the same paths are handed over (directly, path
  // by path, or through ReuseableDataContainer64 objects, which must outlive Execute)
  const int route = (int)c.geti("route", 0);
  ReuseableDataContainer64 rd_s, rd_c, rd_all;
  switch (route) {
    case 1: clipper.AddClip(C); clipper.AddSubject(S); break;
    case 2: rd_all.AddPaths(S, PathType::Subject, false); rd_all.AddPaths(C, PathType::Clip, false); clipper.AddReuseableData(rd_all); break;
    case 3: rd_c.AddPaths(C, PathType::Clip, false); clipper.AddSubject(S); clipper.AddReuseableData(rd_c); break;
    case 4: rd_s.AddPaths(S, PathType::Subject, false); rd_c.AddPaths(C, PathType::Clip, false); clipper.AddReuseableData(rd_c); clipper.AddReuseableData(rd_s); break;
    case 5: for (size_t k = S.size(); k-- > 0;) clipper.AddSubject(Paths64{ S[k] }); for (auto& p : C) clipper.AddClip(Paths64{ p }); break;
    default: clipper.AddSubject(S); clipper.AddClip(C); break;
  }
  ctx.count("load_route_" + std::to_string(route));
  Paths64 sol;
  bool ok = clipper.Execute((ClipType)ct, (FillRule)fr, sol);
  ctx.evaluated();
  if (!ok) { ctx.violation("C01.execute_false", { "execute_false" }, c, "Execute returned false"); return; }

  // sample points
  Samples sp;
  std::vector<ld> radii = { 3 * tol, 6 * tol, 20 * tol, 100 * tol };
  event_samples(in, radii, sp);
  near_output_samples(sol, { tol + 2, 3 * tol }, sp);
  random_samples(ctx.rng, in, 40, sp);
  if (M <= 64) lattice_samples(in, 3, sp);
  else if (M <= 1024) lattice_samples(in, 3, sp, std::max<int64_t>(1, M / 24));

  const ld thr = tol + 1;
  long long judged = 0, skipped = 0;
  for (const Point64& q : sp.pts) {
    if (min_dist_to_edges(in, q) < thr) { ++skipped; continue; }
    int expect = expected_cover(S, C, q, ct, fr, rev);
    bool on = false;
    int got = winding(sol, q, &on);
    ++judged;
    if (on) {
      ctx.violation("C01.confinement", { "sample_on_solution_edge" }, c,
        "a solution edge passes through (" + std::to_string(q.x) + "," + std::to_string(q.y) + ") which is farther than tol+1 from every input edge");
      break;
    }
    if (got != expect) {
      ctx.violation("C01.region", { expect == 0 ? "covered_but_should_not" : (got == 0 ? "not_covered" : "wrong_multiplicity") }, c,
        "at (" + std::to_string(q.x) + "," + std::to_string(q.y) + ") solution winding " + std::to_string(got) +
        " expected " + std::to_string(expect) + " dist_to_input " + ldstr(min_dist_to_edges(in, q)) + " tol " + ldstr(tol));
      break;
    }
  }
  // boundary confinement: vertices, midpoints and quarter points of solution edges within tol (+1.5 for the
  // integer rounding of the probe points) of some input edge
  long long bpts = 0;
  bool conf_bad = false;
  for (auto& p : sol) {
    size_t n = p.size();
    for (size_t i = 0; i < n && !conf_bad; ++i) {
      const Point64& a = p[i]; const Point64& b = p[(i + 1) % n];
      Point64 probes[4] = { a,
        Point64((int64_t)llroundl(0.5L * ((ld)a.x + (ld)b.x)), (int64_t)llroundl(0.5L * ((ld)a.y + (ld)b.y))),
        Point64((int64_t)llroundl(0.75L * (ld)a.x + 0.25L * (ld)b.x), (int64_t)llroundl(0.75L * (ld)a.y + 0.25L * (ld)b.y)),
        Point64((int64_t)llroundl(0.25L * (ld)a.x + 0.75L * (ld)b.x), (int64_t)llroundl(0.25L * (ld)a.y + 0.75L * (ld)b.y)) };
      for (int k = 0; k < 4; ++k) {
        ++bpts;
        ld d = min_dist_to_edges(in, probes[k]);
        if (d > tol + 1.5L) {
          ctx.violation("C01.confinement", { k == 0 ? "vertex_off_band" : "edge_point_off_band" }, c,
            "solution boundary point (" + std::to_string(probes[k].x) + "," + std::to_string(probes[k].y) + ") is " + ldstr(d) + " from the nearest input edge, tol " + ldstr(tol));
          conf_bad = true; break;
        }
      }
    }
    if (conf_bad) break;
  }
  ctx.count("points_judged", judged);
  ctx.count("points_skipped_by_margin", skipped);
  ctx.count("boundary_points_checked", bpts);
  ctx.count("cfg_ct" + std::to_string(ct) + "_fr" + std::to_string(fr) + "_pc" + std::to_string(pc) + "_rev" + std::to_string(rev));
  if (!from_replay) {
    bool nontrivial = c.geti("crossings") > 0 && judged >= 20 && c.geti("vacuous") == 0;
    ctx.note_case(c, nontrivial);
    if (c.geti("vacuous")) ctx.count("vacuous_scenes");
    if (judged < 20) ctx.count("scenes_with_fewer_than_20_points");
  }
}

// ---- deep winding: N nested contours of one orientation (winding numbers up to +-N) and a small clip polygon inside
// all of them; general position by construction (rings 9 units apart, no filter: it would be quadratic in 4N edges)
static void judge_deep(Ctx& ctx, const Case& c, bool from_replay) {
  const int N = (int)c.geti("N"); const bool cw = c.geti("cw") != 0; const int ct = (int)c.geti("ct"), fr = (int)c.geti("fr"); const bool rev = c.geti("rev") != 0;
  Paths64 S; S.reserve((size_t)N);
  for (int k = 0; k < N; ++k) { int64_t rad = 40 + 9 * (int64_t)k; Path64 p = gen::box(-rad - (k % 2), -rad, rad, rad + (k % 3), !cw); S.push_back(p); }
  Paths64 C = c.P("C");
  // bar variant: the clip polygon reaches from the centre through every ring to the outside, so that clip edges cross
  // subject edges at every winding depth (the sweep classifies wind counts at edge intersections)
  if (c.geti("bar") != 0) { const int64_t Rout = 40 + 9 * (int64_t)N; C = Paths64{ Path64{ Point64(-13, -11), Point64(Rout + 50, (int64_t)-9), Point64(Rout + 52, (int64_t)10), Point64(-11, 13) } }; ctx.count("deep_cases_with_clip_bar_across_all_rings"); }
  Case cc = c; cc.p64["S"] = Paths64();   // the witness stays small: S is rebuilt from N
  ctx.begin(c);
  Clipper64 clipper; clipper.ReverseSolution(rev); clipper.AddSubject(S); clipper.AddClip(C);
  Paths64 sol; bool ok = clipper.Execute((ClipType)ct, (FillRule)fr, sol);
  ctx.evaluated();
  if (!ok) { ctx.violation("C01.execute_false", { "deep_winding" }, c, "Execute returned false"); return; }
  std::vector<Point64> pts;
  for (int64_t d : { (int64_t)0, (int64_t)7, (int64_t)-9 }) pts.emplace_back(d, d / 2);                    // inside the clip polygon
  pts.emplace_back(25, 30); pts.emplace_back(-30, -22);                                                    // inside every ring, outside the clip
  for (int k : { 0, 1, 2, 3, N / 8, N / 4, N / 3, N / 2, N / 2 + 1, 3 * (N / 4), N - 4, N - 3, N - 2 }) if (k >= 0 && k + 1 < N) { int64_t rad = 40 + 9 * (int64_t)k + 5; pts.emplace_back(rad, (int64_t)1); pts.emplace_back((int64_t)-2, -rad); pts.emplace_back(-rad, (int64_t)3); }
  { int64_t rad = 40 + 9 * (int64_t)N + 20; pts.emplace_back(rad, (int64_t)0); pts.emplace_back((int64_t)0, -rad); }
  Paths64 in = concat(S, C); const ld tol = tol_of(max_abs_coord(in));
  long long judged = 0;
  for (const Point64& q : pts) {
    if (min_dist_to_edges(in, q) < tol + 1) continue;
    int expect = expected_cover(S, C, q, ct, fr, rev); bool on = false; int got = winding(sol, q, &on); ++judged;
    if (on || got != expect) { ctx.violation("C01.region", { "deep_winding", expect == 0 ? "covered_but_should_not" : (got == 0 ? "not_covered" : "wrong_multiplicity") }, c,
      "N=" + std::to_string(N) + " nested contours: at (" + std::to_string(q.x) + "," + std::to_string(q.y) + ") subject winding " + std::to_string(winding(S, q)) + ", solution winding " + std::to_string(got) + " expected " + std::to_string(expect)); return; }
  }
  ctx.count("deep_points_judged", judged); ctx.cmax("max_winding_depth", N);
  if (!from_replay) ctx.note_case(c, judged >= 10);
}

void vf_case(Ctx& ctx, uint64_t i) {
  if (ctx.optstr("mode", "gp") == "deep") {
    static const int quickN[] = { 70, 130, 260, 520, 1030, 2050, 4100 };
    const bool th = ctx.optint("deep_thorough", 0) != 0;
    Case c;
    if (!th) { c.seti("N", quickN[i % 7]); uint64_t v = i / 7;
      c.seti("cw", (long long)(v & 1)); c.seti("fr", (long long)((v >> 1) & 3)); c.seti("ct", 1 + (long long)((v >> 3) & 3)); c.seti("rev", (long long)((v >> 5) & 1)); c.seti("bar", (long long)((v >> 6) & 1)); }
    else {   // 27 expensive cases (the sweep is quadratic in the nesting depth): 8200 and 16390 rings x 3 winding-sensitive
      // fill rules x both orientations x {Intersection, Difference}; 32780 rings x 3 combinations
      if (i >= 27) return;
      c.seti("bar", (long long)((i / 3) & 1));
      if (i < 24) { c.seti("N", i < 12 ? 8200 : 16390); uint64_t v = i % 12; c.seti("fr", 1 + (long long)(v % 3)); c.seti("cw", (long long)((v / 3) & 1)); c.seti("ct", (v / 6) ? 3 : 1); c.seti("rev", 0); }
      else { static const int fr3[] = { 1, 3, 2 }, cw3[] = { 0, 1, 0 }, ct3[] = { 1, 1, 3 }; c.seti("N", 32780); c.seti("fr", fr3[i - 24]); c.seti("cw", cw3[i - 24]); c.seti("ct", ct3[i - 24]); c.seti("rev", 0); }
    }
    c.p64["C"] = Paths64{ Path64{ Point64(-13, -11), Point64(12, -9), Point64(14, 10), Point64(-11, 13) } };
    c.set("deep", "1");
    judge_deep(ctx, c, false);
    return;
  }
  int combo = (int)(i % 64);
  int magidx = (int)((i / 64) % gen::kNumMag);
  int maxexp = (int)ctx.optint("maxexp", 61);
  int magexp = std::min(gen::kMagExp[magidx], maxexp);
  gen::Scene sc = gen::gp_scene(ctx.rng, g_gc, magexp);
  if (!sc.ok) { ctx.count("gp_gave_up"); return; }
  Case c;
  c.p64["S"] = sc.subj; c.p64["C"] = sc.clip;
  c.seti("ct", 1 + (combo & 3)); c.seti("fr", (combo >> 2) & 3);
  c.seti("pc", (combo >> 4) & 1); c.seti("rev", (combo >> 5) & 1);
  { static const int kRoute[] = { 0, 0, 0, 1, 2, 3, 4, 5 }; c.seti("route", kRoute[(i / 64 + i / 5) % 8]); }
  c.seti("mag", magexp); c.seti("shape", sc.shape); c.seti("crossings", sc.crossings); c.seti("vacuous", sc.vacuous);
  ctx.count("mag_2^" + std::to_string(magexp));
  ctx.count("shape_" + std::to_string(sc.shape));
  if (sc.squash) { ctx.count("squashed_scenes"); c.seti("squash", sc.squash); }
  judge(ctx, c, false);
}

void vf_replay(Ctx& ctx, const Case& c) { if (c.has("deep")) judge_deep(ctx, c, true); else judge(ctx, c, true); }

void vf_end(Ctx& ctx) {
  ctx.count("gp_candidates_tried", g_gc.tries);
  ctx.count("gp_candidates_rejected", g_gc.rejected); ctx.count("gp_flat_dense_scanline_scenes", g_gc.flat); ctx.count("gp_scenes_with_crossing_a_hair_past_a_scanline", g_gc.tie); ctx.count("gp_scenes_with_a_corner_whose_cross_product_is_an_exact_power_of_two", g_gc.wrap);
}
