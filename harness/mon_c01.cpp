// mon_c01 — C01: the closed solution of a boolean operation covers exactly the region the fill rule and clip
// type define (winding-number oracle at margin-filtered sample points + boundary confinement).
#include "region.h"
#include "gen.h"
#include "clipper2/clipper.h"

using namespace vf;
using namespace Clipper2Lib;

static gen::GpCounters g_gc;

struct Verdict { long long judged = 0, skipped = 0; };

static void judge(Ctx& ctx, const Case& c, bool from_replay) {
  const Paths64& S = c.P("S"); const Paths64& C = c.P("C");
  int ct = (int)c.geti("ct"), fr = (int)c.geti("fr");
  bool pc = c.geti("pc") != 0, rev = c.geti("rev") != 0;
  Paths64 in = concat(S, C);
  int64_t M = max_abs_coord(in);
  ld tol = tol_of(M);
  ctx.begin(c);

  Clipper64 clipper;
  clipper.PreserveCollinear(pc);
  clipper.ReverseSolution(rev);
  clipper.AddSubject(S);
  clipper.AddClip(C);
  Paths64 sol;
  bool ok = clipper.Execute((ClipType)ct, (FillRule)fr, sol);
  ctx.evaluated();
  if (!ok) { ctx.violation("C01.execute_false", { "execute_false" }, c, "Execute returned false"); return; }

  // sample points
  Samples sp;
  std::vector<ld> radii = { 3 * tol, 6 * tol, 20 * tol, 100 * tol };
  event_samples(in, radii, sp);
  near_output_samples(sol, { tol + 2, 3 * tol }, sp);
  random_samples(ctx.rng, in, 40, sp);
  if (M <= 64) lattice_samples(in, 3, sp);
  else if (M <= 1024) lattice_samples(in, 3, sp, std::max<int64_t>(1, M / 24));

  const ld thr = tol + 1;
  long long judged = 0, skipped = 0;
  for (const Point64& q : sp.pts) {
    if (min_dist_to_edges(in, q) < thr) { ++skipped; continue; }
    int expect = expected_cover(S, C, q, ct, fr, rev);
    bool on = false;
    int got = winding(sol, q, &on);
    ++judged;
    if (on) {
      ctx.violation("C01.confinement", { "sample_on_solution_edge" }, c,
        "a solution edge passes through (" + std::to_string(q.x) + "," + std::to_string(q.y) + ") which is farther than tol+1 from every input edge");
      break;
    }
    if (got != expect) {
      ctx.violation("C01.region", { expect == 0 ? "covered_but_should_not" : (got == 0 ? "not_covered" : "wrong_multiplicity") }, c,
        "at (" + std::to_string(q.x) + "," + std::to_string(q.y) + ") solution winding " + std::to_string(got) +
        " expected " + std::to_string(expect) + " dist_to_input " + ldstr(min_dist_to_edges(in, q)) + " tol " + ldstr(tol));
      break;
    }
  }
  // boundary confinement: vertices, midpoints and quarter points of solution edges within tol (+1.5 for the
  // integer rounding of the probe points) of some input edge
  long long bpts = 0;
  bool conf_bad = false;
  for (auto& p : sol) {
    size_t n = p.size();
    for (size_t i = 0; i < n && !conf_bad; ++i) {
      const Point64& a = p[i]; const Point64& b = p[(i + 1) % n];
      Point64 probes[4] = { a,
        Point64((int64_t)llroundl(0.5L * ((ld)a.x + (ld)b.x)), (int64_t)llroundl(0.5L * ((ld)a.y + (ld)b.y))),
        Point64((int64_t)llroundl(0.75L * (ld)a.x + 0.25L * (ld)b.x), (int64_t)llroundl(0.75L * (ld)a.y + 0.25L * (ld)b.y)),
        Point64((int64_t)llroundl(0.25L * (ld)a.x + 0.75L * (ld)b.x), (int64_t)llroundl(0.25L * (ld)a.y + 0.75L * (ld)b.y)) };
      for (int k = 0; k < 4; ++k) {
        ++bpts;
        ld d = min_dist_to_edges(in, probes[k]);
        if (d > tol + 1.5L) {
          ctx.violation("C01.confinement", { k == 0 ? "vertex_off_band" : "edge_point_off_band" }, c,
            "solution boundary point (" + std::to_string(probes[k].x) + "," + std::to_string(probes[k].y) + ") is " + ldstr(d) + " from the nearest input edge, tol " + ldstr(tol));
          conf_bad = true; break;
        }
      }
    }
    if (conf_bad) break;
  }
  ctx.count("points_judged", judged);
  ctx.count("points_skipped_by_margin", skipped);
  ctx.count("boundary_points_checked", bpts);
  ctx.count("cfg_ct" + std::to_string(ct) + "_fr" + std::to_string(fr) + "_pc" + std::to_string(pc) + "_rev" + std::to_string(rev));
  if (!from_replay) {
    bool nontrivial = c.geti("crossings") > 0 && judged >= 20 && c.geti("vacuous") == 0;
    ctx.note_case(c, nontrivial);
    if (c.geti("vacuous")) ctx.count("vacuous_scenes");
    if (judged < 20) ctx.count("scenes_with_fewer_than_20_points");
  }
}

void vf_case(Ctx& ctx, uint64_t i) {
  int combo = (int)(i % 64);
  int magidx = (int)((i / 64) % gen::kNumMag);
  int maxexp = (int)ctx.optint("maxexp", 61);
  int magexp = std::min(gen::kMagExp[magidx], maxexp);
  gen::Scene sc = gen::gp_scene(ctx.rng, g_gc, magexp);
  if (!sc.ok) { ctx.count("gp_gave_up"); return; }
  Case c;
  c.p64["S"] = sc.subj; c.p64["C"] = sc.clip;
  c.seti("ct", 1 + (combo & 3)); c.seti("fr", (combo >> 2) & 3);
  c.seti("pc", (combo >> 4) & 1); c.seti("rev", (combo >> 5) & 1);
  c.seti("mag", magexp); c.seti("shape", sc.shape); c.seti("crossings", sc.crossings); c.seti("vacuous", sc.vacuous);
  ctx.count("mag_2^" + std::to_string(magexp));
  ctx.count("shape_" + std::to_string(sc.shape));
  if (sc.squash) { ctx.count("squashed_scenes"); c.seti("squash", sc.squash); }
  judge(ctx, c, false);
}

void vf_replay(Ctx& ctx, const Case& c) { judge(ctx, c, true); }

void vf_end(Ctx& ctx) {
  ctx.count("gp_candidates_tried", g_gc.tries);
  ctx.count("gp_candidates_rejected", g_gc.rejected);
}
