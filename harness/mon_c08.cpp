// mon_c08 — C08: RectClip equals intersection with the rectangle, path by path.
// Oracle: exact winding numbers of the input polygon and of the result at margin-filtered integer sample points,
// exact vertex provenance, exact "simple" and "edge along a side" premises (DESIGN.md section 3, C08).
#include "region.h"
#include "gen.h"
#include "c08_corner.h"
#include "clipper2/clipper.h"

using namespace vf;
using namespace Clipper2Lib;

namespace {

struct RB { int64_t l, t, r, b; };   // rectangle: left < right, top < bottom (y grows downwards in the library's naming)

inline bool in_closed(const RB& R, const Point64& p) { return p.x >= R.l && p.x <= R.r && p.y >= R.t && p.y <= R.b; }

// ------------------------------------------------------------------ exact premises
// "simple": no proper crossing, no touching, no fold-back, no zero-length edge (decided exactly).
static bool is_simple(const Path64& p) {
  size_t n = p.size();
  if (n < 3) return false;
  for (size_t i = 0; i < n; ++i) if (p[i] == p[(i + 1) % n]) return false;
  for (size_t i = 0; i < n; ++i) {                    // adjacent edges: only the shared vertex in common
    const Point64& a = p[i]; const Point64& b = p[(i + 1) % n]; const Point64& c = p[(i + 2) % n];
    if (cross(a, b, c) == 0 && dot(b, a, c) > 0) return false;   // c on the same side of b as a: fold-back
  }
  if (n == 3) return area2(p) != 0;
  for (size_t i = 0; i < n; ++i)
    for (size_t j = i + 2; j < n; ++j) {
      if (i == 0 && j == n - 1) continue;             // adjacent through the closing vertex
      if (segs_touch(p[i], p[(i + 1) % n], p[j], p[(j + 1) % n])) return false;
    }
  return true;
}

// "edge along a side": both end points on the side's line and overlap of positive length with the side.
static bool edge_along_side(const Path64& p, const RB& R) {
  size_t n = p.size();
  for (size_t i = 0; i < n; ++i) {
    const Point64& a = p[i]; const Point64& b = p[(i + 1) % n];
    if (a == b) continue;
    if (a.x == b.x && (a.x == R.l || a.x == R.r)) {
      if (std::max(std::min(a.y, b.y), R.t) < std::min(std::max(a.y, b.y), R.b)) return true;
    }
    if (a.y == b.y && (a.y == R.t || a.y == R.b)) {
      if (std::max(std::min(a.x, b.x), R.l) < std::min(std::max(a.x, b.x), R.r)) return true;
    }
  }
  return false;
}

// closed segment meets the closed rectangle (exact)
static bool seg_meets_rect(const Point64& a, const Point64& b, const RB& R) {
  if (in_closed(R, a) || in_closed(R, b)) return true;
  if (std::max(a.x, b.x) < R.l || std::min(a.x, b.x) > R.r || std::max(a.y, b.y) < R.t || std::min(a.y, b.y) > R.b) return false;
  Point64 c0(R.l, R.t), c1(R.r, R.t), c2(R.r, R.b), c3(R.l, R.b);
  return segs_touch(a, b, c0, c1) || segs_touch(a, b, c1, c2) || segs_touch(a, b, c2, c3) || segs_touch(a, b, c3, c0);
}

// every corner of the rectangle lies on the closed path (exact)
static bool all_corners_on_path(const Path64& p, const RB& R) {
  const Point64 cs[4] = { Point64(R.l, R.t), Point64(R.r, R.t), Point64(R.r, R.b), Point64(R.l, R.b) };
  size_t n = p.size();
  for (int k = 0; k < 4; ++k) {
    bool on = false;
    for (size_t i = 0; i < n && !on; ++i) on = on_segment(p[i], p[(i + 1) % n], cs[k]);
    if (!on) return false;
  }
  return true;
}
// the result is one path whose vertices are exactly the four corners
static bool result_is_rect(const Paths64& res, const RB& R) {
  if (res.size() != 1 || res[0].size() != 4) return false;
  int seen = 0;
  for (auto& v : res[0]) {
    if ((v.x != R.l && v.x != R.r) || (v.y != R.t && v.y != R.b)) return false;
    seen |= 1 << ((v.x == R.r ? 1 : 0) + (v.y == R.b ? 2 : 0));
  }
  return seen == 15;
}

static ld dist_to_path(const Path64& p, const Point64& q) {
  ld best = std::numeric_limits<ld>::infinity();
  size_t n = p.size();
  for (size_t i = 0; i < n; ++i) {
    const Point64& a = p[i]; const Point64& b = p[(i + 1) % n];
    // cheap exact reject: farther than best in x or y
    best = std::min(best, dist_pt_seg(a, b, q));
  }
  return best;
}

static std::string pstr(const Point64& p) { return "(" + std::to_string(p.x) + "," + std::to_string(p.y) + ")"; }

struct Tot {
  long long judged_in = 0, judged_out = 0, skip_near = 0, skip_band = 0, excl_samples = 0, excl_mismatch = 0;
};

// Judge the result `res` of RectClip(rect, {p}). Returns true when a violation was reported.
static bool judge_one(Ctx& ctx, const Case& c, const RB& R, const Path64& p, const Paths64& res, size_t pidx,
                      const Samples& base, Tot& tot, bool& interacts) {
  const size_t n = p.size();
  const std::string who = "polygon #" + std::to_string(pidx) + ": ";
  const bool simple = is_simple(p);
  const bool along = edge_along_side(p, R);
  const i128 a2 = area2(p);

  bool all_inside = true, any_meets = false;
  for (size_t i = 0; i < n; ++i) {
    if (!in_closed(R, p[i])) all_inside = false;
    if (!any_meets && seg_meets_rect(p[i], p[(i + 1) % n], R)) any_meets = true;
  }
  int64_t bx0 = p[0].x, bx1 = p[0].x, by0 = p[0].y, by1 = p[0].y;
  for (auto& v : p) { bx0 = std::min(bx0, v.x); bx1 = std::max(bx1, v.x); by0 = std::min(by0, v.y); by1 = std::max(by1, v.y); }
  const bool bounds_disjoint = bx1 < R.l || bx0 > R.r || by1 < R.t || by0 > R.b;
  interacts = !all_inside && !bounds_disjoint;
  ctx.count(simple ? "polygons_simple" : (along ? "polygons_selfint_with_edge_along_side(excluded_from_parity)" : "polygons_selfint_parity_judged"));
  if (simple && along) ctx.count("polygons_simple_with_edge_along_side");

  // ---- vertices: inside the rectangle within one unit; new vertices on the boundary within one unit.
  // (A new vertex more than 1 outside the rectangle is also more than 1 from its boundary: it is reported under
  //  new_vertex_on_boundary; inside_rect then speaks about input vertices copied into the result.)
  long long newv = 0;
  for (auto& rp : res) for (auto& v : rp) {
    int64_t ex = std::max<int64_t>(std::max(R.l - v.x, v.x - R.r), 0), ey = std::max<int64_t>(std::max(R.t - v.y, v.y - R.b), 0);
    bool is_input = false;
    for (auto& u : p) if (u == v) { is_input = true; break; }
    if (is_input) {
      if (ex > 1 || ey > 1) {
        ctx.violation("C08.inside_rect", { "input_vertex_outside_rect_in_result" }, c, who + "result vertex " + pstr(v) + " (an input vertex) is " + std::to_string(std::max(ex, ey)) + " units outside the rectangle");
        return true;
      }
      continue;
    }
    ++newv;
    int64_t db;   // distance to the rectangle boundary (inside: to the nearest side; outside: per-axis excess)
    if (ex > 0 || ey > 0) db = std::max(ex, ey);
    else db = std::min(std::min(v.x - R.l, R.r - v.x), std::min(v.y - R.t, R.b - v.y));
    if (db > 1) {
      // classifier of the known defect: the vertex is exactly the origin (a default-constructed Point64) and some input
      // edge passes within one unit of a rectangle corner, not through it, reaching >= 2^26 away (c08_corner.h)
      std::vector<std::string> tags = { (ex > 1 || ey > 1) ? "new_vertex_outside_rect" : "new_vertex_off_boundary" };
      if (v.x == 0 && v.y == 0 && c08::passes_near_corner(p, true, c08::RBox{ R.l, R.t, R.r, R.b })) tags = { "origin_vertex_from_corner_graze" };
      ctx.violation("C08.new_vertex_on_boundary", tags, c,
        who + "result vertex " + pstr(v) + " is not an input vertex and is " + std::to_string(db) + " units from the rectangle boundary");
      return true;
    }
  }
  ctx.count("result_vertices_new", newv);

  // ---- entirely inside: returned unchanged
  if (all_inside) {
    bool strictly = true;
    for (auto& v : p) if (v.x == R.l || v.x == R.r || v.y == R.t || v.y == R.b) strictly = false;
    ctx.count(strictly ? "inside_strict_checked" : "inside_touching_checked");
    if (res.size() != 1 || res[0].size() != n || !same_paths(res, Paths64{ p })) {
      ctx.violation("C08.inside_unchanged", { strictly ? "strictly_inside" : "inside_touching_boundary" }, c,
        who + "all vertices lie in the closed rectangle but the result is not the input path verbatim (" + std::to_string(res.size()) + " paths)");
      return true;
    }
  }
  // ---- entirely outside: vanishes. Judged when no edge comes within 2 units of the closed rectangle (margin: the
  // library computes with rounded intersection points, a polygon passing a corner at a sub-unit distance may be treated
  // as touching it) and the rectangle is not wound round.
  if (!any_meets) {
    RB R2{ R.l - 2, R.t - 2, R.r + 2, R.b + 2 };
    bool near = false;
    for (size_t i = 0; i < n && !near; ++i) near = seg_meets_rect(p[i], p[(i + 1) % n], R2);
    int wc = winding1(p, Point64(R.l, R.t));
    if (near) ctx.count("outside_within_2_units_not_judged");
    else if (wc == 0) {
      ctx.count("outside_checked");
      if (!res.empty()) {
        ctx.violation("C08.outside_vanishes", { bounds_disjoint ? "bounds_disjoint" : "bounds_overlap" }, c,
          who + "no edge comes within 2 units of the rectangle and the winding number over it is 0, but " + std::to_string(res.size()) + " paths were returned");
        return true;
      }
    } else ctx.count("encloses_rect_without_touching");
  }
  for (auto& rp : res) if (rp.size() < 3) ctx.count("result_paths_with_fewer_than_3_points(degenerate,not_a_violation)");

  // ---- region: winding numbers at sample points
  Samples sp = base;
  near_output_samples(res, { 3.0L, 9.0L }, sp);
  const bool judge_w = simple || !along;
  for (const Point64& q : sp.pts) {
    bool inside = q.x >= R.l + 2 && q.x <= R.r - 2 && q.y >= R.t + 2 && q.y <= R.b - 2;
    bool outside = q.x <= R.l - 2 || q.x >= R.r + 2 || q.y <= R.t - 2 || q.y >= R.b + 2;
    if (!inside && !outside) { ++tot.skip_band; continue; }
    if (dist_to_path(p, q) <= 2.000001L) { ++tot.skip_near; continue; }
    bool on = false;
    int wr = winding(res, q, &on);
    if (outside) {
      ++tot.judged_out;
      if (on || wr != 0) {
        ctx.violation("C08.outside_nothing", { on ? "result_edge_outside_rect" : "covers_outside_rect" }, c,
          who + "at " + pstr(q) + " (>= 2 outside the rectangle, > 2 from the path) the result has winding " + std::to_string(wr) + (on ? " and an edge through the point" : ""));
        return true;
      }
      continue;
    }
    int wi = winding1(p, q);
    if (!judge_w) {
      ++tot.excl_samples;
      if (on || ((wr ^ wi) & 1)) ++tot.excl_mismatch;
      continue;
    }
    ++tot.judged_in;
    if (on) {
      ctx.violation("C08.winding", { "result_edge_through_interior_sample", simple ? "simple" : "selfint" }, c,
        who + "a result edge passes through " + pstr(q) + " which is >= 2 inside the rectangle and > 2 from the input path");
      return true;
    }
    if (simple ? (wr != wi) : (((wr ^ wi) & 1) != 0)) {
      std::string kind = wi == 0 ? "covered_but_should_not" : (wr == 0 ? "not_covered" : "wrong_winding");
      std::vector<std::string> tags = { simple ? "simple" : "selfint_parity", kind };
      // classifier of the known defect: every corner of the rectangle lies on the input path (exactly), the rectangle is
      // not covered by the polygon (even winding), and the result is the rectangle itself
      if ((wi & 1) == 0 && all_corners_on_path(p, R) && result_is_rect(res, R)) tags = { "rect_returned_all_corners_on_path" };
      ctx.violation("C08.winding", tags, c,
        who + "at " + pstr(q) + " input winding " + std::to_string(wi) + ", result winding " + std::to_string(wr) +
        (simple ? " (simple polygon)" : " (self-intersecting, no edge along a side: parity)") + ", dist to path " + ldstr(dist_to_path(p, q)));
      return true;
    }
  }

  // ---- orientation (simple polygons). A simple polygon has winding s = +-1 inside and 0 outside, so a correct result
  // has total signed area s * Area(p ∩ rect): its sign must be the input's. Judged on the total, not per path: on
  // inputs whose edges graze a corner the library legitimately represents a notch that reaches a rectangle side as an
  // outer path plus an oppositely oriented hole path (TidyEdges split; region and winding numbers are correct), so a
  // per-path sign test would demand more than the property says. Result vertices may be one unit off the boundary,
  // so a total that is a sliver inside that band (|area| <= 2 * perimeter) carries no information: skipped, counted.
  if (simple && !res.empty()) {
    i128 ra = 0; ld per = 0; bool opposite_path = false;
    for (auto& rp : res) {
      i128 a = area2(rp); ra += a;
      if (a != 0 && ((a > 0) != (a2 > 0))) opposite_path = true;
      for (size_t i = 0; i < rp.size(); ++i) per += sqrtl(to_ld(dist2(rp[i], rp[(i + 1) % rp.size()])));
    }
    if (fabsl(to_ld(ra)) * 0.5L <= 2.0L * per) ctx.count(ra == 0 ? "orientation_skipped_zero_area" : "orientation_skipped_sliver_within_tolerance_band");
    else {
      ctx.count("orientation_checked");
      if (opposite_path) ctx.count("results_with_an_oppositely_oriented_path(hole_representation,not_a_violation)");
      if ((ra > 0) != (a2 > 0)) {
        ctx.violation("C08.orientation", { a2 > 0 ? "input_positive" : "input_negative" }, c,
          who + "simple input polygon and the total signed area of the result have opposite signs");
        return true;
      }
    }
  }
  return false;
}

static void judge(Ctx& ctx, const Case& c, bool from_replay) {
  const Paths64& RR = c.P("R"); const Paths64& P = c.P("P");
  if (RR.size() != 1 || RR[0].size() != 2 || P.empty()) return;
  RB R{ RR[0][0].x, RR[0][0].y, RR[0][1].x, RR[0][1].y };
  if (R.l >= R.r || R.t >= R.b) return;
  for (auto& p : P) if (p.size() < 3) return;
  Rect64 rect(R.l, R.t, R.r, R.b);
  ctx.begin(c);

  // sample points shared by the polygons of the case: derived from the case only, so a witness replays
  Rng srng(hash_paths(P) ^ (hash_paths(RR) * 0x9E3779B97F4A7C15ull), 77);   // not c.hash(): a witness carries extra keys
  Samples base;
  int64_t s = c.geti("lat_s"), ox = c.geti("lat_ox"), oy = c.geti("lat_oy"); int G = (int)c.geti("lat_G");
  const ld w = (ld)R.r - (ld)R.l, h = (ld)R.b - (ld)R.t;
  if (s >= 2 && (s % 2) == 0 && G > 0) {
    for (int j = -1; j <= G; ++j) for (int i = -1; i <= G; ++i)
      base.pts.emplace_back(ox + i * s + s / 2, oy + j * s + s / 2);             // all cell centres (+ one ring)
    if (s >= 8) for (int k = 0; k < 24; ++k)                                       // off-centre points of random cells
      base.pts.emplace_back(ox + srng.range(-1, G) * s + srng.range(1, s - 1), oy + srng.range(-1, G) * s + srng.range(1, s - 1));
  } else {
    for (int k = 0; k < 56; ++k) base.add((ld)R.l + srng.unit() * w, (ld)R.t + srng.unit() * h);
    for (int k = 0; k < 28; ++k) base.add((ld)R.l + (srng.unit() * 2 - 0.5) * w, (ld)R.t + (srng.unit() * 2 - 0.5) * h);
    random_samples(srng, P, 16, base);
  }
  // just inside / just outside every side and corner
  {
    const int64_t d[2] = { 2, 5 };
    for (int k = 0; k < 2; ++k) {
      int64_t xs[4] = { R.l - d[k], R.l + d[k], R.r - d[k], R.r + d[k] }, ys[4] = { R.t - d[k], R.t + d[k], R.b - d[k], R.b + d[k] };
      for (int a = 0; a < 4; ++a) for (int b = 0; b < 4; ++b) base.pts.emplace_back(xs[a], ys[b]);
      for (int a = 0; a < 4; ++a) { base.add((ld)xs[a], (ld)R.t + srng.unit() * h); base.add((ld)R.l + srng.unit() * w, (ld)ys[a]); }
    }
  }

  Tot tot;
  Paths64 cat;
  bool any_interacts = false;
  for (size_t i = 0; i < P.size(); ++i) {
    Paths64 res = (i & 1) ? RectClip(rect, P[i]) : RectClip(rect, Paths64{ P[i] });
    ctx.evaluated();
    ctx.count("polygons_judged");
    ctx.count("result_paths", (long long)res.size());
    if (res.size() > 1) ctx.count("polygons_split_into_several_paths");
    bool inter = false;
    if (judge_one(ctx, c, R, P[i], res, i, base, tot, inter)) return;
    any_interacts |= inter;
    cat.insert(cat.end(), res.begin(), res.end());
  }
  if (P.size() > 1) {
    RectClip64 rc(rect);
    Paths64 multi = rc.Execute(P);
    ctx.evaluated();
    ctx.count("multi_path_calls");
    if (!same_paths(multi, cat)) {
      ctx.violation("C08.path_by_path", { multi.size() == cat.size() ? "same_count_different_paths" : "different_count" }, c,
        "RectClip of " + std::to_string(P.size()) + " paths returned " + std::to_string(multi.size()) + " paths, the per-path results concatenated have " + std::to_string(cat.size()));
      return;
    }
  }
  ctx.count("samples_judged_inside", tot.judged_in);
  ctx.count("samples_judged_outside", tot.judged_out);
  ctx.count("samples_skipped_within_2_of_path", tot.skip_near);
  ctx.count("samples_skipped_boundary_band", tot.skip_band);
  ctx.count("excluded_class_samples(selfint+edge_along_side)", tot.excl_samples);
  ctx.count("excluded_class_parity_mismatches(not_judged)", tot.excl_mismatch);
  if (!from_replay) {
    bool nontrivial = any_interacts && (tot.judged_in + tot.judged_out) >= 10;
    ctx.note_case(c, nontrivial);
    if (!any_interacts) ctx.count("cases_decided_by_bounds_shortcut_only");
  }
}

// ------------------------------------------------------------------ generators
static const int64_t kLim = (int64_t)1 << 40;

// exact angular sort of lattice points (doubled coordinates) about a centre given in doubled coordinates
static void angular_sort(Path64& pts, int64_t cx2, int64_t cy2) {
  Path64 keep;
  for (auto& p : pts) if (2 * p.x != cx2 || 2 * p.y != cy2) keep.push_back(p);
  auto half = [&](const Point64& p) { int64_t vx = 2 * p.x - cx2, vy = 2 * p.y - cy2; return (vy > 0 || (vy == 0 && vx > 0)) ? 0 : 1; };
  std::sort(keep.begin(), keep.end(), [&](const Point64& a, const Point64& b) {
    int ha = half(a), hb = half(b);
    if (ha != hb) return ha < hb;
    int64_t ax = 2 * a.x - cx2, ay = 2 * a.y - cy2, bx = 2 * b.x - cx2, by = 2 * b.y - cy2;
    int64_t cr = ax * by - ay * bx;
    if (cr != 0) return cr > 0;
    return ax * ax + ay * ay < bx * bx + by * by;
  });
  pts.swap(keep);
}

static void strip_consecutive(Path64& p) { strip_dups_closed(p); }

struct LatScene { int G; int64_t s, ox, oy; int64_t x0, y0, x1, y1; };

static Path64 lattice_poly(Rng& r, const LatScene& L, int kind) {
  const int G = L.G;
  Path64 p;
  auto rndpt = [&]() { return Point64(r.range(0, G), r.range(0, G)); };
  auto bndpt = [&]() {   // lattice point on the rectangle boundary, corners favoured
    if (r.chance(0.35)) return Point64(r.coin() ? L.x0 : L.x1, r.coin() ? L.y0 : L.y1);
    if (r.coin()) return Point64(r.range(L.x0, L.x1), r.coin() ? L.y0 : L.y1);
    return Point64(r.coin() ? L.x0 : L.x1, r.range(L.y0, L.y1));
  };
  switch (kind) {
    case 0: { int n = r.irange(3, 14); for (int i = 0; i < n; ++i) p.push_back(rndpt()); break; }
    case 1: { int n = r.irange(3, 14); for (int i = 0; i < n; ++i) p.push_back(rndpt());
      angular_sort(p, r.range(0, 2 * G), r.range(0, 2 * G)); break; }
    case 2: { p = gen::rect_walk(r, G, r.irange(2, 10)); break; }
    case 3: { int n = r.irange(3, 12); for (int i = 0; i < n; ++i) p.push_back(r.chance(0.55) ? bndpt() : rndpt());
      if (r.chance(0.6)) angular_sort(p, L.x0 + L.x1 + r.range(-1, 1), L.y0 + L.y1 + r.range(-1, 1));
      break; }
    case 4: { int n = r.irange(3, 4); for (int i = 0; i < n; ++i) p.push_back(r.chance(0.3) ? bndpt() : rndpt()); break; }
    case 5: { // encloses the rectangle: points outside the open rectangle sorted about its centre
      int n = r.irange(4, 12);
      for (int i = 0; i < 4 * n && (int)p.size() < n; ++i) { Point64 q = rndpt(); if (q.x > L.x0 && q.x < L.x1 && q.y > L.y0 && q.y < L.y1) continue; p.push_back(q); }
      angular_sort(p, L.x0 + L.x1, L.y0 + L.y1); break; }
    case 7: { // U-notch exactly as wide as the rectangle: its walls run along two opposite sides, the rectangle lies in
      // the notch (outside the polygon) and all four corners are on the path
      bool tr = r.coin(), open_low = r.coin();
      int64_t a0 = tr ? L.y0 : L.x0, a1 = tr ? L.y1 : L.x1, b0 = tr ? L.x0 : L.y0, b1 = tr ? L.x1 : L.y1;
      if (a0 < 1 || a1 > G - 1) break;
      int64_t A0 = r.range(0, a0 - 1), A1 = r.range(a1 + 1, G);
      std::vector<std::pair<int64_t, int64_t>> q;
      if (open_low) { if (b1 > G - 1) break;
        int64_t top = r.range(0, b0), ny = r.range(b1, G - 1), bot = r.range(ny + 1, G);
        q = { { A0, top }, { a0, top }, { a0, ny }, { a1, ny }, { a1, top }, { A1, top }, { A1, bot }, { A0, bot } }; }
      else { if (b0 < 1) break;
        int64_t bot = r.range(b1, G), ny = r.range(1, b0), top = r.range(0, ny - 1);
        q = { { A0, bot }, { a0, bot }, { a0, ny }, { a1, ny }, { a1, bot }, { A1, bot }, { A1, top }, { A0, top } }; }
      for (auto& e : q) p.push_back(tr ? Point64(e.second, e.first) : Point64(e.first, e.second));
      break; }
    case 8: { // the four corners are vertices, with detours outside the rectangle between them
      Point64 cs[4] = { Point64(L.x0, L.y0), Point64(L.x1, L.y0), Point64(L.x1, L.y1), Point64(L.x0, L.y1) };
      std::vector<int> ord = { 0, 1, 2, 3 };
      if (r.chance(0.5)) r.shuffle(ord);
      for (int k : ord) {
        p.push_back(cs[k]);
        int m = r.irange(0, 2);
        for (int j = 0; j < m; ++j) for (int t = 0; t < 6; ++t) { Point64 v = rndpt(); if (v.x >= L.x0 && v.x <= L.x1 && v.y >= L.y0 && v.y <= L.y1) continue; p.push_back(v); break; }
      }
      break; }
    default: { // 6: lattice spiral round the rectangle centre
      int turns = r.irange(1, 4), per = r.irange(4, 6); int n = turns * per;
      double cx = 0.5 * (L.x0 + L.x1), cy = 0.5 * (L.y0 + L.y1), off = r.real(0, 6.28318);
      for (int i = 0; i < n; ++i) {
        double a = off + 6.283185307 * i / per, rad = G * (0.15 + 0.5 * (i + r.real(0, 0.4)) / n);
        p.push_back(Point64((int64_t)llround(cx + rad * cos(a)), (int64_t)llround(cy + rad * sin(a))));
      }
      for (auto& q : p) { q.x = std::min<int64_t>(std::max<int64_t>(q.x, 0), G); q.y = std::min<int64_t>(std::max<int64_t>(q.y, 0), G); }
      break; }
  }
  if (r.chance(0.9)) strip_consecutive(p);         // 10% keep repeated vertices (then never "simple")
  if (r.coin()) std::reverse(p.begin(), p.end());
  return p;
}

static const int64_t kLatScales[] = { 2, 4, 6, 10, 100, 1000, (int64_t)1 << 10, (int64_t)1 << 20, (int64_t)1 << 30, (int64_t)1 << 36 };

static bool gen_lattice(Ctx& ctx, Case& c) {
  Rng& r = ctx.rng;
  LatScene L;
  L.G = r.irange(3, 10);
  L.s = kLatScales[r.irange(0, 9)];
  int64_t room = kLim - L.s * (L.G + 1);
  L.ox = r.chance(0.4) ? 0 : r.range(-std::min<int64_t>(room, L.s * 1000), std::min<int64_t>(room, L.s * 1000) - L.s * L.G);
  L.oy = r.chance(0.4) ? 0 : r.range(-std::min<int64_t>(room, L.s * 1000), std::min<int64_t>(room, L.s * 1000) - L.s * L.G);
  if (r.chance(0.15)) { L.x0 = 0; L.y0 = 0; L.x1 = L.G; L.y1 = L.G; }
  else {
    L.x0 = r.range(0, L.G - 1); L.x1 = r.range(L.x0 + 1, L.G); L.y0 = r.range(0, L.G - 1); L.y1 = r.range(L.y0 + 1, L.G);
    if (r.chance(0.5) && L.G >= 4) { L.x0 = r.range(1, L.G - 2); L.x1 = r.range(L.x0 + 1, L.G - 1); L.y0 = r.range(1, L.G - 2); L.y1 = r.range(L.y0 + 1, L.G - 1); }
  }
  int k = r.chance(0.5) ? 1 : r.irange(2, 4);
  Paths64 P;
  for (int i = 0; i < k; ++i) {
    Path64 p;
    int kind = 0;
    for (int t = 0; t < 8 && p.size() < 3; ++t) {
      static const int kinds[] = { 0, 0, 1, 1, 1, 2, 2, 3, 3, 3, 4, 4, 5, 6, 7, 8 };
      kind = kinds[r.irange(0, 15)];
      p = lattice_poly(r, L, kind);
    }
    if (p.size() < 3) continue;
    ctx.count("gen_lattice_kind_" + std::to_string(kind));
    for (auto& q : p) { q.x = L.ox + q.x * L.s; q.y = L.oy + q.y * L.s; }
    P.push_back(p);
  }
  if (P.empty()) return false;
  c.p64["P"] = P;
  c.p64["R"] = Paths64{ Path64{ Point64(L.ox + L.x0 * L.s, L.oy + L.y0 * L.s), Point64(L.ox + L.x1 * L.s, L.oy + L.y1 * L.s) } };
  c.seti("lat_s", L.s); c.seti("lat_ox", L.ox); c.seti("lat_oy", L.oy); c.seti("lat_G", L.G);
  c.set("class", "lattice");
  ctx.count("scale_lattice_" + std::to_string(L.s));
  return true;
}

static const int kMag[] = { 6, 8, 10, 16, 24, 32, 38, 40 };

static bool gen_random(Ctx& ctx, Case& c, int cls) {
  Rng& r = ctx.rng;
  int e = kMag[r.irange(0, 7)];
  const int64_t M = (int64_t)1 << e;
  // rectangle: half sizes and centre so that everything stays within +-M
  int64_t hw = std::max<int64_t>(2, (int64_t)(M * r.real(0.02, 0.3))), hh = std::max<int64_t>(2, (int64_t)(M * r.real(0.02, 0.3)));
  if (r.chance(0.2)) hh = std::max<int64_t>(2, hw / r.irange(4, 40));       // thin rectangles
  int64_t cx = r.range(-M / 8, M / 8), cy = r.range(-M / 8, M / 8);
  if (cls == 0 && r.chance(0.3)) {                           // rectangle far from the origin (absolute coordinates >> its size)
    int sh = r.irange(2, 12);
    hw = std::max<int64_t>(2, hw >> sh); hh = std::max<int64_t>(2, hh >> sh);
    int64_t room = M - 8 * std::max(hw, hh) - 2;
    if (room > 0) { cx = r.coin() ? r.range(-room, room) : (r.coin() ? 1 : -1) * (room - r.range(0, room / 64));
                    cy = r.coin() ? r.range(-room, room) : (r.coin() ? 1 : -1) * (room - r.range(0, room / 64)); }
    ctx.count("gen_random_rect_far_from_origin");
  }
  RB R{ cx - hw, cy - hh, cx + hw, cy + hh };
  double diag = sqrt((double)hw * hw + (double)hh * hh);
  int k = r.chance(0.5) ? 1 : r.irange(2, 4);
  Paths64 P;
  for (int i = 0; i < k; ++i) {
    Path64 p;
    switch (cls) {
      case 1: { // encloses the rectangle (star-shaped about a point near its centre), sometimes with notches reaching in
        double Rr = std::min((double)M * 0.45, diag * r.real(1.3, 3.0));
        double rmin = r.chance(0.7) ? std::min(0.98, (diag * 1.05) / Rr) : r.real(0.3, 0.9);
        p = gen::star_shaped(r, cx + r.range(-hw / 4, hw / 4), cy + r.range(-hh / 4, hh / 4), Rr, r.irange(4, 14), rmin, 1.0, r.coin());
        break; }
      case 2: { // spiral winding round the rectangle up to 4 times
        int wv = r.irange(1, 4), per = r.irange(4, 8);
        double Rr = (double)M * r.real(0.2, 0.45);
        if (r.chance(0.5)) {   // rectangle inside the innermost loop (no crossing): shrink the rectangle
          double inner = Rr * 0.25 * cos(3.14159265 / per) * 0.9;
          double f = inner / (diag + 1);
          if (f < 1) { hw = std::max<int64_t>(2, (int64_t)(hw * f)); hh = std::max<int64_t>(2, (int64_t)(hh * f)); R = RB{ cx - hw, cy - hh, cx + hw, cy + hh }; diag = sqrt((double)hw * hw + (double)hh * hh); }
        }
        p = gen::spiral(r, cx + r.range(-hw / 3, hw / 3), cy + r.range(-hh / 3, hh / 3), Rr, wv, per);
        if (r.coin()) std::reverse(p.begin(), p.end());
        break; }
      default: { // general polygons
        double Rr = std::min((double)M * 0.45, diag * r.real(0.3, 2.5));
        int64_t px = cx + r.range(-(int64_t)(hw * 1.2), (int64_t)(hw * 1.2)), py = cy + r.range(-(int64_t)(hh * 1.2), (int64_t)(hh * 1.2));
        switch (r.irange(0, 3)) {
          case 0: p = gen::star_shaped(r, px, py, Rr, r.irange(3, 14), 0.25, 1.0, r.coin()); break;
          case 1: p = gen::random_poly(r, px, py, (int64_t)Rr, r.irange(3, 14)); break;
          case 2: { int nn = r.irange(5, 13); p = gen::star_polygon(r, px, py, Rr, nn, r.irange(2, std::max(2, nn / 2))); break; }
          default: p = gen::star_shaped(r, px, py, Rr, r.irange(3, 6), 0.6, 1.0, r.coin()); break;
        }
        if (r.chance(0.2)) {
          // shallow crossing: a triangle with one long edge nearly parallel to a side that crosses that side's line
          // (run : rise up to 2^32 : 1), third vertex anywhere
          bool horz_side = r.coin();
          int64_t side = horz_side ? (r.coin() ? R.t : R.b) : (r.coin() ? R.l : R.r);
          int64_t lo = horz_side ? R.l : R.t, hi = horz_side ? R.r : R.b, len = hi - lo;
          int64_t along = r.chance(0.7) ? r.range(lo, hi) : (r.coin() ? lo - r.range(0, len / 4 + 2) : hi + r.range(0, len / 4 + 2));
          int64_t rise = r.range(1, 1 + (r.chance(0.5) ? 16 : 4096));
          int64_t run = (int64_t)std::ldexp(r.real(1.0, 2.0), r.irange(4, std::max(5, e - 1)));
          int64_t t1 = r.range(0, 3), t2 = r.range(1, 3), shf = r.range(0, run - 1);
          int64_t sgn = r.coin() ? 1 : -1, sg2 = r.coin() ? 1 : -1;
          auto cl = [&](int64_t v) { return std::min(std::max(v, -M), M); };
          Point64 a, b;
          if (horz_side) { a = Point64(cl(along - sgn * (t1 * run + shf)), cl(side - sg2 * (t1 * rise + (shf ? 1 : 0)))); b = Point64(cl(along + sgn * t2 * run), cl(side + sg2 * t2 * rise)); }
          else { a = Point64(cl(side - sg2 * (t1 * rise + (shf ? 1 : 0))), cl(along - sgn * (t1 * run + shf))); b = Point64(cl(side + sg2 * t2 * rise), cl(along + sgn * t2 * run)); }
          Point64 third(cl(px + r.range(-(int64_t)Rr, (int64_t)Rr)), cl(py + r.range(-(int64_t)Rr, (int64_t)Rr)));
          p = Path64{ a, b, third };
          if (r.coin()) std::reverse(p.begin(), p.end());
          ctx.count("gen_shallow_crossing_triangles");
        }
        // sometimes snap a few vertices onto the rectangle's sides / corners (touching configurations off-lattice)
        if (r.chance(0.25)) for (auto& q : p) if (r.chance(0.3)) {
          switch (r.irange(0, 5)) { case 0: q.x = R.l; break; case 1: q.x = R.r; break; case 2: q.y = R.t; break; case 3: q.y = R.b; break;
            case 4: q = Point64(r.coin() ? R.l : R.r, r.coin() ? R.t : R.b); break; default: q.x = R.l; q.y = std::min(std::max(q.y, R.t), R.b); break; }
        }
        break; }
    }
    strip_consecutive(p);
    if (p.size() < 3) continue;
    bool ok = true;
    for (auto& q : p) if (q.x > kLim || q.x < -kLim || q.y > kLim || q.y < -kLim) ok = false;
    if (!ok) { ctx.count("gen_out_of_range_dropped"); continue; }
    P.push_back(p);
  }
  if (P.empty()) return false;
  c.p64["P"] = P;
  c.p64["R"] = Paths64{ Path64{ Point64(R.l, R.t), Point64(R.r, R.b) } };
  c.seti("lat_s", 0);
  c.set("class", cls == 1 ? "enclosing" : cls == 2 ? "spiral" : "general");
  ctx.count("mag_2^" + std::to_string(e));
  return true;
}

// adversarial: an edge whose line passes through a rectangle corner exactly or misses it by a tiny fraction of a unit,
// at magnitudes where double-precision cross products are rounded (c08_corner.h)
static bool gen_corner(Ctx& ctx, Case& c) {
  Rng& r = ctx.rng;
  static const int mags[] = { 12, 20, 28, 32, 36, 38, 40 };
  int e = mags[r.irange(0, 6)];
  const int64_t M = (int64_t)1 << e;
  int64_t hw = std::max<int64_t>(2, (int64_t)(M * r.real(0.02, 0.3))), hh = std::max<int64_t>(2, (int64_t)(M * r.real(0.02, 0.3)));
  int64_t cx = r.range(-M / 8, M / 8), cy = r.range(-M / 8, M / 8);
  RB R{ cx - hw, cy - hh, cx + hw, cy + hh };
  int k = r.chance(0.6) ? 1 : r.irange(2, 3);
  Paths64 P;
  for (int i = 0; i < k; ++i) {
    Point64 p1, p2; bool into; int offs;
    if (!c08::near_corner_segment(r, c08::RBox{ R.l, R.t, R.r, R.b }, M, p1, p2, into, offs)) continue;
    Path64 p{ p1, p2 };
    int extra = r.irange(1, 3);
    for (int j = 0; j < extra; ++j) {
      if (r.chance(0.25)) { Point64 q1, q2; bool i2; int o2; if (c08::near_corner_segment(r, c08::RBox{ R.l, R.t, R.r, R.b }, M, q1, q2, i2, o2)) { p.push_back(q1); p.push_back(q2); continue; } }
      p.push_back(r.chance(0.3) ? Point64(r.range(R.l, R.r), r.range(R.t, R.b)) : Point64(r.range(-M, M), r.range(-M, M)));
    }
    strip_consecutive(p);
    if (p.size() < 3) continue;
    ctx.count(into ? "gen_corner_into_interior" : "gen_corner_grazing");
    if (offs) ctx.count("gen_corner_with_sub_unit_offset");
    P.push_back(p);
  }
  if (P.empty()) return false;
  c.p64["P"] = P;
  c.p64["R"] = Paths64{ Path64{ Point64(R.l, R.t), Point64(R.r, R.b) } };
  c.seti("lat_s", 0);
  c.set("class", "corner");
  ctx.count("mag_2^" + std::to_string(e));
  return true;
}

// coiled SIMPLE polygons that contain the rectangle without touching it: a thick spiral arm (out along r(t), back along
// r(t) - w, w below the pitch, so the arm never overlaps itself) with a small rectangle inside the corridor, or a polygon
// whose head surrounds the rectangle and whose arm then coils round it. Seen from the rectangle such a path makes
// full turns in both senses before it closes - unlike convex or star-shaped enclosing polygons and unlike the
// self-intersecting spirals of class 2, for which only parity is demanded.
static bool gen_coiled(Ctx& ctx, Case& c) {
  Rng& r = ctx.rng;
  int e = kMag[r.irange(0, 7)]; if (e < 10) e = 10;
  const int64_t M = (int64_t)1 << e;
  for (int attempt = 0; attempt < 8; ++attempt) {
    const double turns = r.real(1.3, 3.6); const int per = r.irange(5, 14); const bool rectil = r.chance(0.3);
    const double Rout = (double)M * r.real(0.3, 0.9), pitch = Rout / (turns + 1.5), w = pitch * r.real(0.35, 0.8), r0 = pitch * r.real(1.1, 1.5);
    const double phase = r.real(0, 6.2831853); const double sgn = r.coin() ? 1.0 : -1.0;
    const int N = (int)(turns * per);
    Path64 outer, inner;
    for (int k = 0; k <= N; ++k) {
      double t = (double)k / per, a = phase + sgn * 6.283185307179586 * t;
      if (rectil) a = phase + sgn * 1.5707963267948966 * std::floor(4.0 * t + 0.5);          // staircase-like: right-angle turns
      double ro = r0 + pitch * t, ri = ro - w;
      outer.emplace_back((int64_t)llround(ro * std::cos(a)), (int64_t)llround(ro * std::sin(a)));
      inner.emplace_back((int64_t)llround(ri * std::cos(a)), (int64_t)llround(ri * std::sin(a)));
    }
    Path64 p = outer; for (size_t k = inner.size(); k-- > 0;) p.push_back(inner[k]);
    strip_consecutive(p);
    if (p.size() < 8) continue;
    // rectangle inside the corridor, at a random place along the arm (or near the inner end: "head")
    double ts = r.chance(0.3) ? r.real(0.05, 0.3) : r.real(0.3, turns - 0.3);
    double as = phase + sgn * 6.283185307179586 * ts, rs = r0 + pitch * ts - w / 2;
    int64_t cx = (int64_t)llround(rs * std::cos(as)), cy = (int64_t)llround(rs * std::sin(as));
    int64_t hw = std::max<int64_t>(1, (int64_t)(w * r.real(0.02, 0.12))), hh = std::max<int64_t>(1, (int64_t)(w * r.real(0.02, 0.12)));
    RB R{ cx - hw, cy - hh, cx + hw, cy + hh };
    // premise of this class, verified exactly: the polygon is simple, every corner of the rectangle is strictly inside it and
    // the path stays more than 2 units away from the rectangle
    bool simple = true;
    for (size_t a = 0; a < p.size() && simple; ++a) for (size_t b = a + 2; b < p.size(); ++b) {
      if (a == 0 && b == p.size() - 1) continue;
      if (segs_touch(p[a], p[(a + 1) % p.size()], p[b], p[(b + 1) % p.size()])) { simple = false; break; } }
    if (!simple) { ctx.count("coiled_candidate_not_simple"); continue; }
    bool ok = true;
    for (const Point64& q : { Point64(R.l, R.t), Point64(R.r, R.t), Point64(R.r, R.b), Point64(R.l, R.b) }) { bool on = false; if (winding1(p, q, &on) == 0 || on) ok = false; }
    Path64 rp{ Point64(R.l, R.t), Point64(R.r, R.t), Point64(R.r, R.b), Point64(R.l, R.b) };
    for (auto& v : p) if (min_dist_to_edges(Paths64{ rp }, v) < 3) ok = false;
    for (auto& v : rp) if (min_dist_to_edges(Paths64{ p }, v) < 3) ok = false;
    if (!ok) { ctx.count("coiled_candidate_rect_not_clear_inside"); continue; }
    // translate somewhere, rotate the start vertex, maybe reverse
    int64_t room = std::max<int64_t>(0, kLim - max_abs_coord(Paths64{ p }) - 1);
    int64_t tx = r.chance(0.5) ? 0 : r.range(-room, room), ty = r.chance(0.5) ? 0 : r.range(-room, room);
    for (auto& v : p) { v.x += tx; v.y += ty; }
    std::rotate(p.begin(), p.begin() + (long)r.range(0, (int64_t)p.size() - 1), p.end());
    if (r.coin()) std::reverse(p.begin(), p.end());
    Paths64 P{ p };
    if (r.chance(0.3)) P.push_back(gen::star_shaped(r, cx + tx, cy + ty, (double)std::max<int64_t>(4, std::min(hw, hh)) * 0.8, r.irange(3, 6), 0.5, 1.0, r.coin()));   // plus something inside the rectangle
    c.p64["P"] = P;
    c.p64["R"] = Paths64{ Path64{ Point64(R.l + tx, R.t + ty), Point64(R.r + tx, R.b + ty) } };
    c.seti("lat_s", 0); c.set("class", "coiled");
    ctx.count("mag_2^" + std::to_string(e));
    ctx.count("coiled_scenes_turns_" + std::to_string((int)turns));
    return true;
  }
  return false;
}

} // namespace

void vf_case(Ctx& ctx, uint64_t i) {
  Case c;
  int sel = (int)(i % 20);
  bool ok;
  if (sel < 11) ok = gen_lattice(ctx, c);
  else if (sel < 12) ok = gen_corner(ctx, c);
  else if (sel < 14) ok = gen_random(ctx, c, 1);
  else if (sel < 15) ok = gen_random(ctx, c, 2);
  else if (sel < 16) ok = gen_coiled(ctx, c);
  else ok = gen_random(ctx, c, 0);
  if (!ok) { ctx.count("gen_gave_up"); return; }
  ctx.count("class_" + c.gets("class"));
  judge(ctx, c, false);
}

void vf_replay(Ctx& ctx, const Case& c) { judge(ctx, c, true); }
