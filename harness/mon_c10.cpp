// mon_c10 — C10: no input can crash, hang or corrupt memory; allocation failure is survivable.
//   --mode hostile : every public entry point on the degenerate zoo under the sanitizer of the build, with a
//                    per-case leak check (live operator-new blocks before == after), heap ceiling and time watchdog
//   --mode oom     : allocation-failure enumeration: for every generated input, fail the k-th operator new for
//                    every k (first 400, then a stride that still covers the last 50); std::bad_alloc and only that
//                    must reach the caller and all objects are destroyed during unwinding under the sanitizer
// Sanitizer reports, hook aborts, signals and watchdogs kill the worker; the orchestrator turns that into C10.crash.
#include "c10_alloc.h"
#include "c10_ops.h"
#include <csignal>
#include <chrono>

using namespace vf;
using namespace c10;

static GenLimits g_lim;
static int g_time_limit = 120;

static void on_alarm(int) {
  static const char msg[] = "VF-WATCHDOG time limit exceeded\n";
  ssize_t w = write(2, msg, sizeof msg - 1); (void)w;
  _exit(97);
}

void vf_begin(Ctx& ctx) {
  g_lim.maxexp_bool = (int)ctx.optint("maxexp_bool", 29);
  g_lim.maxexp_other = (int)ctx.optint("maxexp_other", 29);
  g_lim.force_exp_bool = (int)ctx.optint("force_exp_bool", 0);
  g_time_limit = (int)ctx.optint("time_limit", 120);
  vfalloc::g_ceiling = (long long)ctx.optint("heap_mb", 1024) << 20;
  signal(SIGALRM, on_alarm);   // replaces the generic per-case handler of vf.h: same effect, limit re-armed per library call
  // warm up lazy one-time allocations of the C++ runtime (locale, iostream) so they are not mistaken for leaks
  { std::ostringstream os; os << 1.5 << 7 << "x"; Paths64 p{ Path64{ Point64(0, 0), Point64(1, 1) } }; os << p; }
}

static void tag_case(Case& c) {
  // input-class tags that known findings may refer to (kept in the witness as kv _tags)
  std::string t;
  const bool export_inflate = (c.geti("op") == EXPORT64 || c.geti("op") == EXPORTD) && (c.geti("variant") == 2 || c.geti("variant") == 3);
  if (c.geti("op") == OFFSET_OBJ || c.geti("op") == INFLATE64 || c.geti("op") == INFLATED || export_inflate) {
    bool has_empty = false; for (auto& p : c.P("S")) if (p.empty()) has_empty = true;
    for (auto& p : c.P("C")) if (p.empty()) has_empty = true;
    if (has_empty) t += "offset_group_contains_empty_path,";
  }
  if (c.geti("R") > ((int64_t)1 << 61)) t += "coords_above_2^61,";
  if (!t.empty()) { t.pop_back(); c.set("_tags", t); }
}

static void judge_hostile(Ctx& ctx, const Case& c, bool from_replay) {
  ctx.begin(c);
  if (c.geti("lattice", 0)) ctx.count("cases_on_a_degenerate_rectilinear_lattice");
  long long live0 = vfalloc::g_live_count;
  vfalloc::g_peak_bytes = vfalloc::g_live_bytes;
  long long base_bytes = vfalloc::g_live_bytes;
  Acc acc;
  alarm((unsigned)g_time_limit);
  auto t0 = std::chrono::steady_clock::now();
  bool other_exc = false; std::string what;
  try { run_op(c, acc); }
  catch (const std::bad_alloc&) { other_exc = true; what = "std::bad_alloc without injected failure"; }
  catch (const std::exception& e) { other_exc = true; what = std::string("std::exception: ") + e.what(); }
  catch (...) { other_exc = true; what = "unknown exception"; }
  alarm(0);
  const long long live1 = vfalloc::g_live_count;   // before the monitor itself allocates anything
  double ms = std::chrono::duration<double, std::milli>(std::chrono::steady_clock::now() - t0).count();
  ctx.evaluated();
  int op = (int)c.geti("op");
  ctx.count(std::string("op_") + kOpName[op]);
  ctx.count("clipper2_exceptions", acc.clipper_exceptions);
  ctx.cmax("max_case_ms", (long long)ms);
  ctx.cmax("max_case_peak_heap_kb", (vfalloc::g_peak_bytes - base_bytes) >> 10);
  if (other_exc) { ctx.violation("C10.unexpected_exception", { std::string("op_") + kOpName[op] }, c, what); return; }
  if (live1 != live0) {
    // confirm on a second run (one-time lazy initialisation cannot repeat)
    long long l0 = vfalloc::g_live_count; Acc a2;
    try { run_op(c, a2); } catch (...) {}
    long long l1 = vfalloc::g_live_count;
    if (l1 != l0) { ctx.violation("C10.leak", { std::string("op_") + kOpName[op] }, c, std::to_string(l1 - l0) + " operator-new blocks still live after every object of the call was destroyed"); return; }
    ctx.count("one_time_allocations_seen"); ctx.count(std::string("one_time_op_") + kOpName[op]);
  }
  if (!from_replay) {
    bool degenerate = false;
    for (auto* k : { "S", "C", "O" }) for (auto& p : c.P(k)) if (p.size() < 3) degenerate = true;
    ctx.note_case(c, true);
    if (degenerate) ctx.count("cases_with_empty_or_short_paths");
    int e = 0; int64_t R = c.geti("R"); while (R > 1) { R >>= 1; ++e; }
    ctx.count("Rexp_" + std::to_string((e / 10) * 10) + "s");
  }
}

static void judge_oom(Ctx& ctx, const Case& c, bool from_replay) {
  ctx.begin(c);
  c10::Acc acc;
  int op = (int)c.geti("op");
  // counting run
  vfalloc::count_begin();
  try { run_op(c, acc); } catch (...) { vfalloc::count_end(); ctx.violation("C10.unexpected_exception", { std::string("op_") + kOpName[op] }, c, "exception in counting run"); return; }
  long long N = vfalloc::count_end();
  ctx.evaluated();
  ctx.count(std::string("oom_op_") + kOpName[op]);
  ctx.cmax("max_allocations_in_one_operation", N);
  std::vector<long long> ks;
  long long only_k = c.geti("k", 0);
  if (only_k > 0) ks.push_back(only_k);
  else {
    for (long long k = 1; k <= N && k <= 400; ++k) ks.push_back(k);
    if (N > 400) {
      long long stride = std::max<long long>(1, (N - 450) / 100);
      for (long long k = 401; k <= N - 50; k += stride) ks.push_back(k);
      for (long long k = std::max<long long>(401, N - 49); k <= N; ++k) ks.push_back(k);
      ctx.count("oom_cases_with_strided_enumeration");
    }
  }
  long long fired = 0, fired_nothrow = 0;
  for (long long k : ks) {
    c10::Acc a2;
    bool bad = false, other = false; std::string what;
    vfalloc::arm(k);
    try { run_op(c, a2); }
    catch (const std::bad_alloc&) { bad = true; }
    catch (const std::exception& e) { other = true; what = e.what(); }
    catch (...) { other = true; what = "unknown"; }
    bool ft = vfalloc::g_fired_throw, fn = vfalloc::g_fired_nothrow;
    vfalloc::disarm();
    ctx.evaluated();
    if (ft) ++fired;
    if (fn) ++fired_nothrow;
    if (other || (ft && !bad)) {
      Case w = c; w.seti("k", k);
      ctx.violation(other ? "C10.oom_wrong_exception" : "C10.oom_swallowed", { std::string("op_") + kOpName[op] }, w,
        other ? ("allocation #" + std::to_string(k) + " failed and '" + what + "' reached the caller instead of std::bad_alloc")
              : ("allocation #" + std::to_string(k) + " failed with std::bad_alloc but the call returned normally"));
      return;
    }
  }
  ctx.count("oom_injections_fired", fired);
  ctx.count("oom_nothrow_injections_fired", fired_nothrow);
  if (!from_replay) ctx.note_case(c, N > 0);
}

static bool g_oom_mode(Ctx& ctx) { return ctx.optstr("mode", "hostile") == "oom"; }

void vf_case(Ctx& ctx, uint64_t i) {
  bool oom = g_oom_mode(ctx);
  int op = (int)(i % NOPS);
  // --mode lattice: nothing but boolean operations (PolyTree output three times out of four) on degenerate rectilinear
  // lattice scenes; they cost microseconds, so hundreds of thousands of them fit a quick run
  const bool lat = ctx.optstr("mode", "hostile") == "lattice";
  if (lat) { static const int ops[] = { BOOL64_TREE, BOOL64_TREE, BOOL64_PATHS, REUSE, BOOL64_TREE, EXPORT64, BOOL64_TREE, BOOL64_TREE }; op = ops[i % 8]; g_lim.force_lattice = true; }
  Case c = gen_op(ctx.rng, op, g_lim);
  if (lat && op == EXPORT64) c.seti("variant", 1);   // BooleanOp_PolyTree64
  if (c.getd("arc") > 0 && std::fabs(c.getd("delta")) / c.getd("arc") > 1e6) c.setd("arc", std::fabs(c.getd("delta")) / 1e6);
  tag_case(c);
  if (oom) {
    c10::g_skip_streams = true;
    // smaller inputs: the enumeration is quadratic in the allocation count
    judge_oom(ctx, c, false);
  } else judge_hostile(ctx, c, false);
}

void vf_replay(Ctx& ctx, const Case& c) {
  if (g_oom_mode(ctx)) { c10::g_skip_streams = true; judge_oom(ctx, c, true); }
  else judge_hostile(ctx, c, true);
}
