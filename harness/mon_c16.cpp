// mon_c16 — C16: the floating-point API is the integer API on scaled coordinates.
//
// Every PathsD entry point is run next to the corresponding 64-bit entry point on the inputs multiplied by the
// documented scale and rounded to nearest by the monitor's own arithmetic; the library's PathsD result must be,
// bit for bit, the 64-bit result mapped back (paths in order, open paths included, PolyTreeD node for node):
//   * ClipperD(p) / BooleanOp, Intersect, Union, Difference, Xor (PathsD, p): scale 2^e, e = smallest e with 2^e > 10^p,
//     computed here by integer arithmetic; x*2^e is exact in double, (double)v*2^-e is exact  -> no rounding freedom;
//   * InflatePaths, RectClip, RectClipLines, TrimCollinear, MinkowskiSum/Diff (D): scale 10^p (the double nearest to it);
//     delta and arc tolerance are multiplied by the same scale; mapped back with v*(1/scale).
// Premises (exact filters, counted when they reject): every scaled coordinate within +-2^52; no scaled coordinate on
// or (for the 10^p scale, whose product x*10^p is rounded once in double before it is rounded to an integer) within
// |t|*2^-51 + 2^-10 of a half-integer, so the verdict never depends on tie breaking or on that double rounding
// (products that are exact in double are judged up to the exact tie).
#include "gen.h"
#include <cmath>
#include <sys/wait.h>
#include <sys/resource.h>
#include "clipper2/clipper.h"

using namespace vf;
using namespace Clipper2Lib;

// ------------------------------------------------------------------------------------------------ own scale arithmetic
static double own_pow10(int p) {                    // the double nearest to 10^p, |p| <= 9 (10^9 < 2^53 is exact)
  double t = 1; for (int i = 0; i < std::abs(p); ++i) t *= 10.0;
  return p >= 0 ? t : 1.0 / t;                      // correctly rounded quotient of exact operands
}
static int own_pow2_exp(int p) {                    // smallest e with 2^e > 10^p, by integer arithmetic
  unsigned __int128 t = 1; for (int i = 0; i < std::abs(p); ++i) t *= 10;
  if (p >= 0) { int e = 0; while (((unsigned __int128)1 << e) <= t) ++e; return e; }
  int f = 0; while (((unsigned __int128)1 << (f + 1)) < t) ++f;   // largest f with 2^f < 10^|p|
  return -f;
}
struct Sc {
  bool pow2 = false; int p = 2, e = 0;
  double scale = 1, inv = 1;      // scale as a double, and the documented descaling factor 1/scale
  long double absP10 = 1;         // 10^|p|
};
static Sc make_sc(bool pow2, int p) {
  Sc s; s.pow2 = pow2; s.p = p; s.e = own_pow2_exp(p);
  s.absP10 = 1; for (int i = 0; i < std::abs(p); ++i) s.absP10 *= 10.0L;
  if (pow2) { s.scale = std::ldexp(1.0, s.e); s.inv = std::ldexp(1.0, -s.e); }
  else { s.scale = own_pow10(p); s.inv = 1.0 / s.scale; }
  return s;
}
enum { RC_OK = 0, RC_MAG = 1, RC_TIE = 2, RC_NONFINITE = 3 };
// nearest integer of x*scale (exact real product); RC_TIE when the property's "rounded to nearest" is not unambiguous
static int round_coord(const Sc& s, double x, int64_t& r, bool& frac) {
  if (!std::isfinite(x)) return RC_NONFINITE;
  if (x != 0 && std::fabs(x) < 0x1p-900) return RC_NONFINITE;   // keeps ldexp / products away from underflow
  auto from_exact = [&](double d) -> int {
    if (!(std::fabs(d) <= 0x1p52)) return RC_MAG;
    double f = std::floor(d), diff = d - f;         // exact
    if (diff == 0.5) return RC_TIE;
    r = (int64_t)f + (diff > 0.5 ? 1 : 0); frac = diff != 0; return RC_OK;
  };
  if (s.pow2) return from_exact(std::ldexp(x, s.e));
  if (s.p >= 0) {                                    // scale is an exact integer; is the double product exact too?
    double d = x * s.scale;
    if (std::isfinite(d) && std::fma(x, s.scale, -d) == 0.0) return from_exact(d);
  }
  long double t = s.p >= 0 ? (long double)x * s.absP10 : (long double)x / s.absP10;   // relative error <= 2^-63
  if (!(fabsl(t) <= 0x1p52L)) return RC_MAG;
  long double f = floorl(t), diff = t - f;
  long double margin = fabsl(t) * 0x1p-51L + 0x1p-10L;
  if (fabsl(diff - 0.5L) <= margin) return RC_TIE;
  r = (int64_t)f + (diff > 0.5L ? 1 : 0);
  frac = fabsl(t - (long double)r) > 0x1p-10L;
  return RC_OK;
}
struct Prem { long long coords = 0, frac = 0; int bad = 0; };
static bool to64(const Sc& s, const PathD& in, Path64& out, Prem& pr) {
  out.clear(); out.reserve(in.size());
  for (const PointD& q : in) {
    int64_t x = 0, y = 0; bool fx = false, fy = false;
    int a = round_coord(s, q.x, x, fx), b = round_coord(s, q.y, y, fy);
    if (a || b) { pr.bad = a ? a : b; return false; }
    pr.coords += 2; pr.frac += (fx ? 1 : 0) + (fy ? 1 : 0);
    Point64 pt; pt.x = x; pt.y = y;                 // plain member assignment: no library rounding involved
    out.push_back(pt);
  }
  return true;
}
static bool to64(const Sc& s, const PathsD& in, Paths64& out, Prem& pr) {
  out.clear(); out.reserve(in.size());
  for (const PathD& p : in) { Path64 q; if (!to64(s, p, q, pr)) return false; out.push_back(std::move(q)); }
  return true;
}
static inline double desc(const Sc& s, int64_t v) { return (double)v * s.inv; }
static inline bool biteq(double a, double b) { return memcmp(&a, &b, 8) == 0; }
static std::string dstr(double d) { char b[96]; snprintf(b, sizeof b, "%.17g(%a)", d, d); return b; }

static bool same_path(const Sc& s, const Path64& r, const PathD& g) {
  if (r.size() != g.size()) return false;
  for (size_t i = 0; i < r.size(); ++i) if (!biteq(desc(s, r[i].x), g[i].x) || !biteq(desc(s, r[i].y), g[i].y)) return false;
  return true;
}
struct Diff { bool same = true; std::string kind, detail; };
static Diff cmp_paths(const Sc& s, const Paths64& ref, const PathsD& got, const char* what) {
  Diff d;
  if (ref.size() != got.size()) { d.same = false; d.kind = "path_count_differs";
    d.detail = std::string(what) + ": reference has " + std::to_string(ref.size()) + " paths, PathsD result " + std::to_string(got.size()); return d; }
  for (size_t i = 0; i < ref.size(); ++i) {
    if (ref[i].size() != got[i].size()) { d.same = false; d.kind = "point_count_differs";
      d.detail = std::string(what) + " path " + std::to_string(i) + ": reference has " + std::to_string(ref[i].size()) + " points, PathsD result " + std::to_string(got[i].size()); return d; }
    for (size_t j = 0; j < ref[i].size(); ++j) {
      double ex = desc(s, ref[i][j].x), ey = desc(s, ref[i][j].y);
      if (!biteq(ex, got[i][j].x) || !biteq(ey, got[i][j].y)) { d.same = false; d.kind = "coordinate_differs";
        d.detail = std::string(what) + " path " + std::to_string(i) + " point " + std::to_string(j) + ": reference (" + std::to_string(ref[i][j].x) + "," + std::to_string(ref[i][j].y) +
          ") -> (" + dstr(ex) + "," + dstr(ey) + "), PathsD result (" + dstr(got[i][j].x) + "," + dstr(got[i][j].y) + ")"; return d; }
    }
  }
  return d;
}
// v*(1/10^p) against the exact quotient v/10^p. Not a theorem at 1 ulp (1/fl(1e-5) != 1e5: up to 1.81 ulp for |v| > 9e10),
// so the worst observed error is recorded and only > 2 ulp is a violation.
static double g_worst_ulp = 0;
static bool descale_accuracy(const Sc& s, const Paths64& ref, const PathsD& got, std::string& detail) {
  if (s.pow2) return true;
  for (size_t i = 0; i < ref.size(); ++i) for (size_t j = 0; j < ref[i].size(); ++j) for (int k = 0; k < 2; ++k) {
    int64_t v = k ? ref[i][j].y : ref[i][j].x; double o = k ? got[i][j].y : got[i][j].x;
    if (v == 0) continue;
    long double ex = s.p >= 0 ? (long double)v / s.absP10 : (long double)v * s.absP10;
    double ulp = std::fabs(std::nextafter(o, INFINITY) - o);
    double err = (double)(fabsl((long double)o - ex) / (long double)ulp);
    if (err > g_worst_ulp) g_worst_ulp = err;
    if (err > 2.0) { detail = "v=" + std::to_string(v) + " precision " + std::to_string(s.p) + ": v*(1/scale)=" + dstr(o) + " is " + std::to_string(err) + " ulp from v/scale"; return false; }
  }
  return true;
}

// ------------------------------------------------------------------------------------------------ known-defect classifier
static inline bool pts_really_close(const Point64& a, const Point64& b) { return std::llabs(a.x - b.x) < 2 && std::llabs(a.y - b.y) < 2; }
static bool small_open_triangle(const Path64& p) {
  return p.size() == 3 && (pts_really_close(p[0], p[1]) || pts_really_close(p[1], p[2]) || pts_really_close(p[0], p[2]));
}
// true iff `got` is `ref` (descaled, in order) with a non-empty set of small 3-point open paths removed and nothing else changed
static bool only_small_triangles_dropped(const Sc& s, const Paths64& ref, const PathsD& got, long long& dropped) {
  size_t j = 0; dropped = 0;
  for (size_t i = 0; i < ref.size(); ++i) {
    if (j < got.size() && same_path(s, ref[i], got[j])) { ++j; continue; }
    if (small_open_triangle(ref[i])) { ++dropped; continue; }
    return false;
  }
  return j == got.size() && dropped > 0;
}

// ------------------------------------------------------------------------------------------------ tree comparison
static bool cmp_tree(const Sc& s, const PolyPath64& a, const PolyPathD& b, long long& nodes, int& maxdepth, int depth, std::string& kind, std::string& detail) {
  ++nodes; if (depth > maxdepth) maxdepth = depth;
  if (!same_path(s, a.Polygon(), b.Polygon())) {
    kind = a.Polygon().size() != b.Polygon().size() ? "tree_polygon_point_count_differs" : "tree_polygon_coordinate_differs";
    detail = "polygon of a node at depth " + std::to_string(depth) + " differs (" + std::to_string(a.Polygon().size()) + " vs " + std::to_string(b.Polygon().size()) + " points)";
    if (!a.Polygon().empty() && !b.Polygon().empty())
      detail += "; first reference vertex (" + std::to_string(a.Polygon()[0].x) + "," + std::to_string(a.Polygon()[0].y) + ") -> (" + dstr(desc(s, a.Polygon()[0].x)) + "," + dstr(desc(s, a.Polygon()[0].y)) +
                "), PolyPathD has (" + dstr(b.Polygon()[0].x) + "," + dstr(b.Polygon()[0].y) + ")";
    return false;
  }
  if (a.Count() != b.Count()) { kind = "tree_child_count_differs";
    detail = "node at depth " + std::to_string(depth) + ": PolyPath64 has " + std::to_string(a.Count()) + " children, PolyPathD " + std::to_string(b.Count()); return false; }
  if (a.IsHole() != b.IsHole() || a.Level() != b.Level()) { kind = "tree_level_differs"; detail = "IsHole/Level differ at depth " + std::to_string(depth); return false; }
  for (size_t i = 0; i < a.Count(); ++i) if (!cmp_tree(s, *a.Child(i), *b.Child(i), nodes, maxdepth, depth + 1, kind, detail)) return false;
  return true;
}

// ------------------------------------------------------------------------------------------------ reference pre-screen
// On a few degenerate (rectilinear, coincident-edge) scenes per 10^5 the 64-bit PolyTree build itself overflows the
// stack (unbounded recursion in CheckSplitOwner; C04/C10 territory, same code for Clipper64 and ClipperD). The property
// compares with "the integer operation's result": where the integer operation has none, the case is rejected and
// counted. The 64-bit tree execution is therefore first run in a forked child.
template <class F> static bool reference_survives(F f) {
  pid_t pid = fork();
  if (pid < 0) return true;
  if (pid == 0) { struct rlimit rl; rl.rlim_cur = rl.rlim_max = 0; setrlimit(RLIMIT_CORE, &rl); f(); _exit(0); }
  int st = 0;
  if (waitpid(pid, &st, 0) != pid) return true;
  return WIFEXITED(st) && WEXITSTATUS(st) == 0;
}

// ------------------------------------------------------------------------------------------------ judge
static const char* kApiName[] = { "clipperd_paths", "clipperd_tree", "booleanop_d", "inflate_d", "rectclip_d", "rectcliplines_d", "trimcollinear_d", "minkowski_d" };
enum { A_CD_PATHS = 0, A_CD_TREE, A_BOOL, A_INFLATE, A_RECT, A_RECTLINES, A_TRIM, A_MINK, A_COUNT };

static size_t total_pts(const Paths64& pp) { size_t n = 0; for (auto& p : pp) n += p.size(); return n; }

static void judge(Ctx& ctx, const Case& c, bool from_replay) {
  const int api = (int)c.geti("api"), p = (int)c.geti("p");
  if (api < 0 || api >= A_COUNT || p < -8 || p > 8) { ctx.count("premise_bad_case"); return; }
  const bool pow2 = api <= A_BOOL;
  const Sc s = make_sc(pow2, p);
  const std::string an = kApiName[api];
  const PathsD& S = c.D("S"); const PathsD& C = c.D("C"); const PathsD& O = c.D("O");
  Prem pr; Paths64 S64, C64, O64, R64, PAT64;
  bool ok = to64(s, S, S64, pr) && to64(s, C, C64, pr) && to64(s, O, O64, pr) && to64(s, c.D("R"), R64, pr) && to64(s, c.D("PAT"), PAT64, pr);
  if (!ok) {
    ctx.count(pr.bad == RC_MAG ? "premise_rejected_scaled_coordinate_beyond_2^52" : pr.bad == RC_TIE ? "premise_rejected_half_integer_tie_or_near_tie" : "premise_rejected_nonfinite");
    ctx.count("cases_rejected_by_premise");
    if (!from_replay) ctx.note_case(c, false);
    return;
  }
  ctx.count("input_coordinates_rounded", pr.coords);
  ctx.count("input_coordinates_with_fraction_after_scaling", pr.frac);
  ctx.begin(c);
  const int ct = (int)c.geti("ct"), fr = (int)c.geti("fr");
  bool nonempty = false;      // reference result non-empty
  long long compared = 0;     // D-API executions compared
  bool skipped = false;

  auto fail = [&](const std::string& claim, std::vector<std::string> tags, const std::string& detail) {
    tags.push_back("api_" + an);
    ctx.violation(claim, tags, c, an + " precision " + std::to_string(p) + (pow2 ? " (scale 2^" + std::to_string(s.e) + ")" : " (scale 10^" + std::to_string(p) + ")") + ": " + detail);
  };
  // compares a free-function style result; returns false after reporting
  auto check_paths = [&](const std::string& claim, const Paths64& ref, const PathsD& got, const char* what) -> bool {
    ctx.evaluated(); ++compared;
    if (!ref.empty()) nonempty = true;
    ctx.count("result_points_compared", (long long)total_pts(ref));
    Diff d = cmp_paths(s, ref, got, what);
    if (!d.same) { fail(claim, { d.kind }, d.detail); return false; }
    std::string det;
    if (!descale_accuracy(s, ref, got, det)) { fail("C16.descale_accuracy", { "more_than_2_ulp" }, det); return false; }
    return true;
  };
  auto check_open = [&](const Paths64& ref, const PathsD& got, const char* mode) -> bool {
    if (!ref.empty()) { nonempty = true; ctx.count("open_result_paths_compared", (long long)ref.size()); }
    for (auto& q : ref) if (small_open_triangle(q)) ctx.count("reference_open_results_that_are_small_triangles");
    Diff d = cmp_paths(s, ref, got, "open paths");
    if (d.same) return true;
    long long dropped = 0;
    if (only_small_triangles_dropped(s, ref, got, dropped))
      fail("C16.clipperd_open_path_dropped", { "open_path_small_triangle_dropped", mode },   // own claim id: keeps the witness slots of C16.clipperd_open_paths free
           std::to_string(dropped) + " open 3-point result path(s) with two points less than 2 scaled units apart (in x and in y) returned by Clipper64 are missing from the ClipperD result; everything else is equal. " + d.detail);
    else fail("C16.clipperd_open_paths", { d.kind, mode }, d.detail);
    return false;
  };

  try {
    switch (api) {
      case A_CD_PATHS: case A_CD_TREE: {
        const bool pc = c.geti("pc") != 0, rev = c.geti("rev") != 0; const int ov = (int)c.geti("ov");
        ClipperD cd(p); Clipper64 c64;
        cd.PreserveCollinear(pc); cd.ReverseSolution(rev); c64.PreserveCollinear(pc); c64.ReverseSolution(rev);
        cd.AddSubject(S); c64.AddSubject(S64);
        if (!O.empty()) { cd.AddOpenSubject(O); c64.AddOpenSubject(O64); }
        cd.AddClip(C); c64.AddClip(C64);
        if (api == A_CD_PATHS) {
          PathsD dc, dopen; Paths64 rc, ropen; bool okd, ok64;
          // result containers are not always fresh: a caller may hand over vectors that still hold an earlier result
          if (c.geti("prefill", 0)) { dc = PathsD{ PathD{ PointD(1.0, 1.0), PointD(9.0, 1.0), PointD(9.0, 9.0) } }; dopen = PathsD{ PathD{ PointD(7.0, 7.0), PointD(8.0, 8.0) } };
            rc = Paths64{ Path64{ Point64(1, 1), Point64(9, 1), Point64(9, 9) } }; ropen = Paths64{ Path64{ Point64(7, 7), Point64(8, 8) } }; ctx.count("executions_into_prefilled_result_containers"); }
          if (ov == 0) { okd = cd.Execute((ClipType)ct, (FillRule)fr, dc, dopen); ok64 = c64.Execute((ClipType)ct, (FillRule)fr, rc, ropen); }
          else { dopen.clear(); ropen.clear();   /* closed-only overload: the open containers are not handed over */ okd = cd.Execute((ClipType)ct, (FillRule)fr, dc); ok64 = c64.Execute((ClipType)ct, (FillRule)fr, rc); }
          ctx.evaluated(); ++compared;
          if (okd != ok64) { fail("C16.clipperd_closed_paths", { "return_value_differs" }, "Execute returned " + std::to_string(okd) + ", Clipper64 " + std::to_string(ok64)); break; }
          if (!rc.empty()) nonempty = true;
          ctx.count("result_points_compared", (long long)(total_pts(rc) + total_pts(ropen)));
          Diff d = cmp_paths(s, rc, dc, "closed paths");
          if (!d.same) { fail("C16.clipperd_closed_paths", { d.kind, "exec_paths" }, d.detail); break; }
          if (!check_open(ropen, dopen, "exec_paths")) break;
        } else {
          if (!reference_survives([&]() { Clipper64 x; x.PreserveCollinear(pc); x.ReverseSolution(rev); x.AddSubject(S64); if (!O64.empty()) x.AddOpenSubject(O64); x.AddClip(C64);
                                          PolyTree64 t; Paths64 o; x.Execute((ClipType)ct, (FillRule)fr, t, o); })) {
            ctx.count("premise_rejected_reference_polytree_build_crashes"); skipped = true; break; }
          PolyTreeD td; PolyTree64 t64; PathsD dopen; Paths64 ropen; bool okd, ok64;
          if (c.geti("prefill", 0)) { td.AddChild(PathD{ PointD(1.0, 1.0), PointD(9.0, 1.0), PointD(9.0, 9.0) }); t64.AddChild(Path64{ Point64(1, 1), Point64(9, 1), Point64(9, 9) });
            dopen = PathsD{ PathD{ PointD(7.0, 7.0), PointD(8.0, 8.0) } }; ropen = Paths64{ Path64{ Point64(7, 7), Point64(8, 8) } }; ctx.count("executions_into_prefilled_result_containers"); }
          if (ov == 0) { okd = cd.Execute((ClipType)ct, (FillRule)fr, td, dopen); ok64 = c64.Execute((ClipType)ct, (FillRule)fr, t64, ropen); }
          else { dopen.clear(); ropen.clear(); okd = cd.Execute((ClipType)ct, (FillRule)fr, td); ok64 = c64.Execute((ClipType)ct, (FillRule)fr, t64); }
          ctx.evaluated(); ++compared;
          if (okd != ok64) { fail("C16.clipperd_tree", { "return_value_differs" }, "Execute returned " + std::to_string(okd) + ", Clipper64 " + std::to_string(ok64)); break; }
          long long nodes = 0; int maxdepth = 0; std::string kind, det;
          bool same = cmp_tree(s, t64, td, nodes, maxdepth, 0, kind, det);
          ctx.count("polytree_nodes_compared", nodes); ctx.cmax("max_polytree_depth", maxdepth);
          if (maxdepth >= 2) ctx.count("polytrees_with_depth_ge_2");
          if (t64.Count()) nonempty = true;
          if (!same) { fail("C16.clipperd_tree", { kind }, det); break; }
          if (!check_open(ropen, dopen, "exec_tree")) break;
        }
        break; }
      case A_BOOL: {
        Paths64 ref = BooleanOp((ClipType)ct, (FillRule)fr, S64, C64);
        if (!check_paths("C16.booleanop_d", ref, BooleanOp((ClipType)ct, (FillRule)fr, S, C, p), "BooleanOp")) break;
        bool good = true;
        switch (ct) {
          case CT_INTERSECTION: good = check_paths("C16.booleanop_d", ref, Intersect(S, C, (FillRule)fr, p), "Intersect"); break;
          case CT_UNION: good = check_paths("C16.booleanop_d", ref, Union(S, C, (FillRule)fr, p), "Union")
                             && check_paths("C16.booleanop_d", Union(S64, (FillRule)fr), Union(S, (FillRule)fr, p), "Union(subjects)"); break;
          case CT_DIFFERENCE: good = check_paths("C16.booleanop_d", ref, Difference(S, C, (FillRule)fr, p), "Difference"); break;
          case CT_XOR: good = check_paths("C16.booleanop_d", ref, Xor(S, C, (FillRule)fr, p), "Xor"); break;
          default: break;
        }
        if (!good) break;
        if (!reference_survives([&]() { PolyTree64 t; BooleanOp((ClipType)ct, (FillRule)fr, S64, C64, t); })) {
          ctx.count("premise_rejected_reference_polytree_build_crashes"); break; }
        PolyTreeD td; PolyTree64 t64;
        BooleanOp((ClipType)ct, (FillRule)fr, S, C, td, p); BooleanOp((ClipType)ct, (FillRule)fr, S64, C64, t64);
        ctx.evaluated(); ++compared;
        long long nodes = 0; int maxdepth = 0; std::string kind, det;
        bool same = cmp_tree(s, t64, td, nodes, maxdepth, 0, kind, det);
        ctx.count("polytree_nodes_compared", nodes);
        if (!same) { fail("C16.booleanop_d", { kind, "tree_overload" }, det); break; }
        break; }
      case A_INFLATE: {
        const double delta = c.getd("delta"), ml = c.getd("ml"), arc = c.getd("arc"); const int jt = (int)c.geti("jt"), et = (int)c.geti("et");
        PathsD got = InflatePaths(S, delta, (JoinType)jt, (EndType)et, ml, p, arc);
        Paths64 ref = InflatePaths(S64, delta * s.scale, (JoinType)jt, (EndType)et, ml, arc * s.scale);
        if (delta == 0) {
          // InflatePaths(PathsD, 0, ...) returns its argument unchanged, i.e. not rounded to the precision grid
          ctx.evaluated(); ++compared; if (!ref.empty()) nonempty = true;
          Diff d = cmp_paths(s, ref, got, "InflatePaths(delta=0)");
          bool unchanged = got.size() == S.size();
          for (size_t i = 0; unchanged && i < S.size(); ++i) { unchanged = got[i].size() == S[i].size();
            for (size_t j = 0; unchanged && j < S[i].size(); ++j) unchanged = biteq(got[i][j].x, S[i][j].x) && biteq(got[i][j].y, S[i][j].y); }
          if (!d.same) fail(unchanged ? "C16.inflate_d_delta0" : "C16.inflate_d", { unchanged ? "delta0_returns_unrounded_input" : d.kind }, d.detail);
          break;
        }
        check_paths("C16.inflate_d", ref, got, "InflatePaths");
        break; }
      case A_RECT: case A_RECTLINES: {
        if (R64.size() != 1 || R64[0].size() != 2 || c.D("R")[0].size() != 2) { ctx.count("premise_bad_case"); break; }
        const PathD& rp = c.D("R")[0];
        RectD rd(rp[0].x, rp[0].y, rp[1].x, rp[1].y);
        Rect64 r64(R64[0][0].x, R64[0][0].y, R64[0][1].x, R64[0][1].y);
        if (r64.IsEmpty() && !rd.IsEmpty()) ctx.count("rect_empty_only_after_scaling");
        if (api == A_RECT) check_paths("C16.rectclip_d", RectClip(r64, S64), RectClip(rd, S, p), "RectClip");
        else check_paths("C16.rectcliplines_d", RectClipLines(r64, S64), RectClipLines(rd, S, p), "RectClipLines");
        break; }
      case A_TRIM: {
        const bool open = c.geti("open") != 0;
        for (size_t i = 0; i < S.size(); ++i) {
          Paths64 ref{ TrimCollinear(S64[i], open) }; PathsD got{ TrimCollinear(S[i], p, open) };
          ctx.count("trim_points_removed", (long long)(S64[i].size() - ref[0].size()));
          if (!ref[0].empty()) nonempty = true; else { ref.clear(); if (got[0].empty()) got.clear(); }
          if (!check_paths("C16.trimcollinear_d", ref, got, "TrimCollinear")) break;
        }
        break; }
      case A_MINK: {
        const bool closed = c.geti("closed") != 0, sum = c.geti("sum") != 0;
        if (PAT64.size() != 1 || S64.size() != 1) { ctx.count("premise_bad_case"); break; }
        if (sum) check_paths("C16.minkowski_d", MinkowskiSum(PAT64[0], S64[0], closed), MinkowskiSum(c.D("PAT")[0], S[0], closed, p), "MinkowskiSum");
        else check_paths("C16.minkowski_d", MinkowskiDiff(PAT64[0], S64[0], closed), MinkowskiDiff(c.D("PAT")[0], S[0], closed, p), "MinkowskiDiff");
        break; }
    }
  } catch (const std::exception& ex) {
    fail(api == A_CD_PATHS ? "C16.clipperd_closed_paths" : api == A_CD_TREE ? "C16.clipperd_tree" : "C16." + an, { "exception" }, std::string("exception on in-range input: ") + ex.what());
  }
  if (skipped) { ctx.count("cases_rejected_by_premise"); if (!from_replay) ctx.note_case(c, false); return; }
  ctx.count("comparisons_" + an, compared);
  ctx.count("comparisons", compared);
  ctx.count("cases_judged");
  ctx.count("cfg_precision_" + std::to_string(p));
  if (api <= A_BOOL) ctx.count("cfg_" + an + "_ct" + std::to_string(ct) + "_fr" + std::to_string(fr));
  if (api == A_INFLATE) ctx.count("cfg_inflate_jt" + std::to_string(c.geti("jt")) + "_et" + std::to_string(c.geti("et")));
  if (!from_replay) {
    ctx.note_case(c, nonempty);
    if (!nonempty) ctx.count("cases_with_empty_reference_result");
    if (pr.frac > 0) ctx.count("cases_with_fraction_after_scaling");
  }
}

// ------------------------------------------------------------------------------------------------ generation
static gen::GpCounters g_gc;

struct Grid {           // decimal grid of the inputs: x = n / 10^k (k may be negative), n integer
  int k = 0; Sc s; long long nudged = 0, tie_neighbours = 0;
  double val(int64_t n) const { return k >= 0 ? (double)n / own_pow10(k) : (double)n * own_pow10(-k); }
  // the double nearest to the decimal n/10^k; n is moved up until the property's rounding premise holds
  Rng* rng = nullptr;   // when set: now and then hand out a 1-ulp neighbour of a rounding tie (power-of-two scales only)
  double coord(int64_t n) {
    if (rng && s.pow2 && rng->chance(0.03)) {
      // x*scale = (k + 0.5) -/+ 1 ulp exactly: "rounded to nearest" is unambiguous there, but a rounding routine that adds 0.5
      // and truncates (or otherwise mishandles the neighbourhood of a tie) gets it wrong; k = 0 and -1 are the classic cases
      int64_t kk = rng->chance(0.5) ? rng->range(-2, 1) : rng->range(-200000, 200000);
      double t = (double)kk + 0.5, t2 = std::nextafter(t, rng->coin() ? 1e300 : -1e300);
      double x = std::ldexp(t2, -s.e); int64_t r2; bool f2;
      if (round_coord(s, x, r2, f2) == RC_OK) { ++tie_neighbours; return x; }
    }
    for (int t = 0; t < 40; ++t) {
      double x = val(n); int64_t r; bool f;
      int st = round_coord(s, x, r, f);
      if (st != RC_TIE) return x;
      ++n; ++nudged;
    }
    return val(n);
  }
  PathD path(const Path64& p) { PathD q; q.reserve(p.size()); for (auto& pt : p) { PointD d; d.x = coord(pt.x); d.y = coord(pt.y); q.push_back(d); } return q; }
  PathsD paths(const Paths64& pp) { PathsD q; for (auto& p : pp) q.push_back(path(p)); return q; }
  // scaled units per grid step
  long double step() const { return (long double)s.scale * (k >= 0 ? 1.0L / powl(10.0L, k) : powl(10.0L, -k)); }
};

static const int kScaledMag[] = { 6, 8, 10, 14, 20, 30, 40, 46, 51 };

// choose precision, decimal digits and the bound of the integer grid so that scaled coordinates stay below 2^ms
static bool choose_grid(Rng& r, bool pow2, int p, int ms, int kbias, Grid& g, int64_t& Mn) {
  g.s = make_sc(pow2, p);
  std::vector<int> ks;
  for (int k = p - 2 + kbias; k <= p + 3 + kbias; ++k) if (k >= -8 && k <= 9) ks.push_back(k);
  r.shuffle(ks);
  for (int k : ks) {
    g.k = k;
    long double bound = ldexpl(1.0L, ms) / g.step();     // |n| <= bound  =>  |n/10^k * scale| <= 2^ms
    if (bound < 40.0L) continue;
    if (bound > 0x1p52L) bound = 0x1p52L;                // n itself stays exactly representable
    Mn = (int64_t)bound;
    return true;
  }
  return false;
}

static Paths64 shift(Paths64 pp, int64_t dx, int64_t dy) { gen::translate(pp, dx, dy); return pp; }

// closed boolean scene on the integer grid, |coord| <= Mn
static void bool_scene(Ctx& ctx, int64_t Mn, Paths64& subj, Paths64& clip, int& kind) {
  Rng& r = ctx.rng;
  kind = r.irange(0, 9);
  int64_t R = Mn, tx = 0, ty = 0;
  if (Mn > 4000 && r.chance(0.35)) {                      // moderate feature translated far away
    R = std::max<int64_t>(50, (int64_t)((double)Mn * std::pow(2.0, -r.real(2, 20))));
    tx = r.range(-(Mn - R), Mn - R); ty = r.range(-(Mn - R), Mn - R);
  }
  if (kind <= 4) {                                        // the seven shape classes, no general-position filter needed here
    gen::gp_candidate(r, r.irange(0, 6), (double)R * 0.9, subj, clip);
    if (R < 1500) { int64_t step = std::max<int64_t>(2, R / 20); gen::lattice_snap(r, subj, step, std::max<int64_t>(1, step / 4)); gen::lattice_snap(r, clip, step, std::max<int64_t>(1, step / 4)); }
  } else if (kind == 5) {                                 // general-position scene from the shared generator
    int me = 5; while (me < 52 && ((int64_t)1 << (me + 1)) <= R) ++me;
    gen::Scene sc = gen::gp_scene(r, g_gc, me, -1, 20);
    if (sc.ok) { subj = sc.subj; clip = sc.clip; } else { kind = 0; gen::gp_candidate(r, 1, (double)R * 0.9, subj, clip); }
    if (sc.ok) { tx = 0; ty = 0; R = Mn; }
  } else if (kind == 6) {                                 // degenerate zoo
    subj = gen::zoo_paths(r, R * 9 / 10, 4); clip = gen::zoo_paths(r, R * 9 / 10, 3);
  } else if (kind == 7) {                                 // star-shaped subjects against random polygons
    int ns = r.irange(1, 3);
    for (int i = 0; i < ns; ++i) subj.push_back(gen::star_shaped(r, r.range(-R / 3, R / 3), r.range(-R / 3, R / 3), (double)R * 0.6, r.irange(3, 12), 0.3, 1.0, r.coin()));
    clip.push_back(gen::random_poly(r, 0, 0, R * 9 / 10, r.irange(3, 10)));
  } else if (kind == 8) {                                 // nested rings: deep polytrees
    int d = r.irange(3, 7); bool alt = r.chance(0.8);
    for (int i = 0; i < d; ++i) subj.push_back(gen::ring(r, 0, 0, (double)R * 0.9 * (1.0 - (double)i / (d + 0.5)), r.irange(4, 9), alt ? (i % 2 == 0) : r.coin()));
    if (r.coin()) clip.push_back(gen::star_shaped(r, r.range(-R / 2, R / 2), r.range(-R / 2, R / 2), (double)R * 0.5, r.irange(3, 8), 0.4, 1.0, true));
  } else {                                                // rectilinear, touching and overlapping edges
    gen::RectScene rs = gen::rectilinear_scene(r, 8, 0);
    int64_t sfac = std::max<int64_t>(1, R / 10);
    subj = rs.subj; clip = rs.clip; gen::scale_paths(subj, sfac, -R / 2, -R / 2); gen::scale_paths(clip, sfac, -R / 2, -R / 2);
  }
  auto clampall = [&](Paths64& pp) { for (auto& q : pp) for (auto& pt : q) { pt.x = std::max(-R, std::min(R, pt.x)); pt.y = std::max(-R, std::min(R, pt.y)); } };
  clampall(subj); clampall(clip);
  subj = shift(subj, tx, ty); clip = shift(clip, tx, ty);
}

static void finish(Ctx& ctx, Case& c, Grid& g, int ms) {
  c.seti("p", g.s.p); c.seti("k", g.k); c.seti("ms", ms);
  ctx.count("gen_decimal_digits_" + std::to_string(g.k));
  ctx.count("gen_scaled_magnitude_2^" + std::to_string(ms));
  ctx.count("gen_coordinates_nudged_off_a_tie", g.nudged);
  ctx.count("gen_coordinates_one_ulp_from_a_tie", g.tie_neighbours);
  judge(ctx, c, false);
}

static int pick_precision(Rng& r) { return r.chance(0.15) ? 2 : r.irange(-8, 8); }

void vf_case(Ctx& ctx, uint64_t i) {
  Rng& r = ctx.rng;
  // api mix (per 100 cases): ClipperD paths 28, tree 19, small-triangle-biased 5, BooleanOp 10, Inflate 13, RectClip 7, RectClipLines 5, Trim 7, Minkowski 6
  static const int mix[] = { 28, 19, 5, 10, 13, 7, 5, 7, 6 };
  int slot = (int)(i % 100), cls = 0; for (int acc = 0; cls < 9; ++cls) { acc += mix[cls]; if (slot < acc) break; }
  const bool biased = cls == 2;
  int api = cls < 2 ? cls : biased ? (r.coin() ? A_CD_PATHS : A_CD_TREE) : cls - 1;
  const bool pow2 = api <= A_BOOL;
  int p = pick_precision(r);
  int ms = kScaledMag[r.irange(0, 8)];
  if (!pow2 && ms > 46 && r.coin()) ms = 46;
  Case c; c.seti("api", api);
  Grid g; int64_t Mn = 0; g.rng = &ctx.rng;
  bool okg;
  if (!pow2 && ms > 46) {
    // 10^p-scaled APIs near 2^52: the double product x*10^p has an absolute error of up to 1/2, so only inputs whose
    // product is exact can be judged there: integer-valued inputs (k <= 0) and p >= 0
    p = std::abs(p);
    g.s = make_sc(false, p); g.k = r.irange(-2, 0);
    long double b = ldexpl(1.0L, ms) / g.step();
    okg = b >= 40.0L;
    Mn = (int64_t)std::min<long double>(b, 0x1p52L / powl(10.0L, -g.k));
  } else okg = choose_grid(r, pow2, p, ms, biased ? 1 : 0, g, Mn);
  if (!okg) { ms = 30; okg = choose_grid(r, pow2, p, ms, 0, g, Mn); }
  if (!okg) { ctx.count("gen_no_grid"); return; }

  if (api <= A_BOOL) {
    c.seti("ct", r.chance(0.03) ? 0 : r.irange(1, 4)); c.seti("fr", r.irange(0, 3));
    c.seti("pc", r.coin()); c.seti("rev", r.coin()); c.seti("ov", r.chance(0.2) ? 1 : 0); c.seti("prefill", r.chance(0.4));
    Paths64 subj, clip, open; int kind = 0;
    if (!biased && r.chance(0.15)) {
      // features of a few scaled units: crossings round onto vertices and onto each other, so the engine's point rings
      // carry coincident and nearly coincident points when the result paths are built
      c.seti("scene", 101);
      long double su = g.step();
      int64_t Rt = std::max<int64_t>(2, (int64_t)llroundl((long double)r.irange(2, 40) / su));
      Rt = std::min(Rt, Mn);
      int64_t cx = r.coin() ? 0 : r.range(-(Mn - Rt), Mn - Rt), cy = r.coin() ? 0 : r.range(-(Mn - Rt), Mn - Rt);
      int ns = r.irange(0, 2), nc = r.irange(1, 2), no = api != A_BOOL ? r.irange(1, 3) : 0;
      for (int j = 0; j < ns; ++j) subj.push_back(gen::random_poly(r, cx, cy, Rt, r.irange(3, 6)));
      for (int j = 0; j < nc; ++j) clip.push_back(r.coin() ? gen::random_poly(r, cx, cy, Rt, r.irange(3, 6)) : gen::star_shaped(r, cx, cy, (double)Rt, r.irange(3, 8), 0.5, 1.0, r.coin()));
      for (int j = 0; j < no; ++j) open.push_back(gen::polyline(r, cx, cy, Rt, r.irange(2, 5)));
      auto clampall = [&](Paths64& pp) { for (auto& q : pp) for (auto& pt : q) { pt.x = std::max(-Mn, std::min(Mn, pt.x)); pt.y = std::max(-Mn, std::min(Mn, pt.y)); } };
      clampall(subj); clampall(clip); clampall(open);
    } else if (!biased) {
      bool_scene(ctx, Mn, subj, clip, kind);
      c.seti("scene", kind);
      if (api != A_BOOL && r.chance(0.6)) {
        int no = r.irange(1, 3);
        for (int j = 0; j < no; ++j) open.push_back(r.chance(0.15) ? gen::zoo_path(r, Mn * 9 / 10) : gen::polyline(r, 0, 0, Mn * 9 / 10, r.irange(2, 7)));
      }
    } else {
      // open 3-point polylines with two points 0..2.5 scaled units apart, mostly inside one clip polygon
      c.seti("scene", 100);
      long double su = g.step();
      int no = r.irange(1, 3);
      int64_t Rn = Mn;
      if (Mn > 4000 && r.coin()) Rn = std::max<int64_t>(2000, (int64_t)((double)Mn * std::pow(2.0, -r.real(1, 16))));
      for (int j = 0; j < no; ++j) {
        Point64 a = gen::P(r.range(-Rn / 2, Rn / 2), r.range(-Rn / 2, Rn / 2));
        auto off = [&]() { return (int64_t)llroundl((long double)r.real(-2.4, 2.4) / su); };
        int64_t ox = off(), oy = off(); if (ox == 0 && oy == 0) ox = (int64_t)std::max<long double>(1, llroundl(1.0L / su));
        Point64 b = gen::P(a.x + ox, a.y + oy);
        Point64 far = gen::P(a.x + r.range(-Rn / 3, Rn / 3), a.y + r.range(-Rn / 3, Rn / 3));
        Path64 o;
        switch (r.irange(0, 2)) { case 0: o = { a, b, far }; break; case 1: o = { far, a, b }; break; default: o = { a, far, b }; break; }
        open.push_back(o);
      }
      if (r.chance(0.85)) clip.push_back(gen::star_shaped(r, 0, 0, (double)Rn * 0.95, r.irange(4, 10), 0.92, 1.0, r.coin()));
      else clip.push_back(gen::random_poly(r, 0, 0, Rn * 9 / 10, r.irange(3, 8)));
      if (r.chance(0.3)) subj.push_back(gen::star_shaped(r, 0, 0, (double)Rn * 0.5, r.irange(3, 8), 0.4, 1.0, true));
      if (r.chance(0.7)) c.seti("ct", CT_INTERSECTION);
      c.seti("ov", 0);
    }
    c.pd["S"] = g.paths(subj); c.pd["C"] = g.paths(clip); if (!open.empty()) c.pd["O"] = g.paths(open);
  } else if (api == A_INFLATE) {
    int jt = r.irange(0, 3), et = r.irange(0, 4);
    c.seti("jt", jt); c.seti("et", et);
    Paths64 subj; int n = r.irange(1, 3);
    int64_t R = Mn / 2;      // leaves room for the offset
    int64_t Rf = R; int64_t tx = 0, ty = 0;
    if (R > 4000 && r.chance(0.4)) { Rf = std::max<int64_t>(50, (int64_t)((double)R * std::pow(2.0, -r.real(2, 20)))); tx = r.range(-(R - Rf), R - Rf); ty = r.range(-(R - Rf), R - Rf); }
    for (int j = 0; j < n; ++j) {
      int sk = r.irange(0, 9);
      if (et >= 1 && sk < 6) subj.push_back(gen::polyline(r, 0, 0, Rf, r.irange(2, 7)));
      else if (sk < 7) subj.push_back(gen::star_shaped(r, r.range(-Rf / 3, Rf / 3), r.range(-Rf / 3, Rf / 3), (double)Rf * 0.6, r.irange(3, 10), 0.3, 1.0, r.coin()));
      else if (sk < 9) subj.push_back(gen::random_poly(r, 0, 0, Rf, r.irange(3, 8)));
      else subj.push_back(gen::zoo_path(r, Rf));
    }
    subj = shift(subj, tx, ty);
    // delta in input units: a fraction of the feature size; sign random for polygons
    double feature_x = g.val(Rf);
    double delta = feature_x * std::pow(10.0, -r.real(0.6, 3.0)) * (r.coin() ? 1 : -1);
    if (r.chance(0.15)) delta = (double)r.irange(1, 40) / g.s.scale * (r.coin() ? 1 : -1) * r.real(0.3, 1.0);   // a few scaled units
    if (r.chance(0.01)) delta = 0;
    double arc = 0;
    double sd = std::fabs(delta) * g.s.scale;
    if (sd > 2000 || r.chance(0.4)) arc = std::fabs(delta) / r.real(15, 300);     // bounds the number of arc steps at large scaled deltas
    c.setd("delta", delta); c.setd("arc", arc); c.setd("ml", r.chance(0.4) ? 2.0 : r.real(1.0, 6.0));
    c.pd["S"] = g.paths(subj);
  } else if (api == A_RECT || api == A_RECTLINES) {
    Paths64 subj; int n = r.irange(1, 4); int64_t R = Mn;
    int64_t Rf = R; int64_t tx = 0, ty = 0;
    if (R > 4000 && r.chance(0.4)) { Rf = std::max<int64_t>(50, (int64_t)((double)R * std::pow(2.0, -r.real(2, 20)))); tx = r.range(-(R - Rf), R - Rf); ty = r.range(-(R - Rf), R - Rf); }
    for (int j = 0; j < n; ++j) {
      int sk = r.irange(0, 9);
      if (api == A_RECTLINES) subj.push_back(sk < 8 ? gen::polyline(r, 0, 0, Rf, r.irange(2, 9)) : gen::zoo_path(r, Rf));
      else if (sk < 4) subj.push_back(gen::star_shaped(r, r.range(-Rf / 3, Rf / 3), r.range(-Rf / 3, Rf / 3), (double)Rf * 0.6, r.irange(3, 12), 0.3, 1.0, r.coin()));
      else if (sk < 8) subj.push_back(gen::random_poly(r, 0, 0, Rf, r.irange(3, 10)));
      else subj.push_back(gen::zoo_path(r, Rf));
    }
    int64_t x0 = r.range(-Rf, Rf), x1 = r.range(-Rf, Rf), y0 = r.range(-Rf, Rf), y1 = r.range(-Rf, Rf);
    if (x0 > x1) std::swap(x0, x1); if (y0 > y1) std::swap(y0, y1);
    if (r.chance(0.05)) x1 = x0 + r.range(0, 2);              // may become empty after scaling
    if (x1 == x0) ++x1; if (y1 == y0) ++y1;
    if (r.chance(0.1) && !subj.empty() && subj[0].size() > 1) { x0 = std::min(subj[0][0].x, subj[0][1].x); x1 = std::max(subj[0][0].x, subj[0][1].x) + 1; }   // vertices on the sides
    subj = shift(subj, tx, ty);
    Path64 rp{ gen::P(x0 + tx, y0 + ty), gen::P(x1 + tx, y1 + ty) };
    PathD rd = g.path(rp);
    if (!(rd[0].x < rd[1].x) || !(rd[0].y < rd[1].y)) { ctx.count("gen_rect_degenerate"); return; }
    c.pd["R"] = PathsD{ rd };
    c.pd["S"] = g.paths(subj);
  } else if (api == A_TRIM) {
    bool open = r.coin(); c.seti("open", open);
    Paths64 subj; int n = r.irange(1, 3); int64_t R = Mn * 9 / 10;
    for (int j = 0; j < n; ++j) {
      int sk = r.irange(0, 9);
      if (sk < 3) subj.push_back(gen::zoo_path(r, R));
      else if (sk < 7) {   // polygon with extra collinear points on its edges (exactly collinear when the grid is coarser than the precision grid)
        // vertices are multiples of 6, so the inserted points at 1/2, 1/3, 2/3 of an edge are integer and exactly collinear
        Path64 base = gen::star_shaped(r, 0, 0, (double)std::max<int64_t>(4, R / 14), r.irange(3, 7), 0.4, 1.0, r.coin()), q;
        for (auto& pt : base) { pt.x *= 6; pt.y *= 6; }
        for (size_t a = 0; a < base.size(); ++a) {
          const Point64& u = base[a]; const Point64& v = base[(a + 1) % base.size()];
          q.push_back(u);
          int extra = r.irange(0, 2);
          for (int t = 1; t <= extra; ++t) q.push_back(gen::P(u.x + (v.x - u.x) / (extra + 1) * t, u.y + (v.y - u.y) / (extra + 1) * t));
          if (r.chance(0.1)) q.push_back(q.back());                                   // duplicate point
        }
        subj.push_back(q);
      } else if (sk < 9) { // axis-parallel walk: many exactly collinear runs
        Path64 w = gen::rect_walk(r, 6, r.irange(3, 10)); Paths64 tmp{ w }; gen::scale_paths(tmp, std::max<int64_t>(1, R / 8), -R / 2, -R / 2);
        Path64 q; for (size_t a = 0; a < tmp[0].size(); ++a) { q.push_back(tmp[0][a]); const Point64& v = tmp[0][(a + 1) % tmp[0].size()]; if (r.chance(0.4)) q.push_back(gen::P((tmp[0][a].x + v.x) / 2, (tmp[0][a].y + v.y) / 2)); }
        subj.push_back(q);
      } else subj.push_back(gen::random_poly(r, 0, 0, R, r.irange(3, 9)));
    }
    c.pd["S"] = g.paths(subj);
  } else {   // A_MINK
    c.seti("closed", r.coin()); c.seti("sum", r.coin());
    int64_t R = Mn / 3;
    Path64 pat = r.chance(0.7) ? gen::star_shaped(r, 0, 0, (double)std::max<int64_t>(8, R / r.range(2, 40)), r.irange(3, 6), 0.5, 1.0, r.coin())
                               : gen::box(-std::max<int64_t>(2, R / 50), -std::max<int64_t>(1, R / 70), std::max<int64_t>(2, R / 60), std::max<int64_t>(1, R / 40), r.coin());
    Path64 path = r.chance(0.6) ? gen::star_shaped(r, r.range(-R / 3, R / 3), r.range(-R / 3, R / 3), (double)R * 0.6, r.irange(3, 8), 0.4, 1.0, r.coin())
                : r.chance(0.8) ? gen::polyline(r, 0, 0, R, r.irange(2, 7)) : gen::zoo_path(r, R);
    if (path.empty()) path.push_back(gen::P(0, 0));
    c.pd["PAT"] = PathsD{ g.path(pat) }; c.pd["S"] = PathsD{ g.path(path) };
  }
  finish(ctx, c, g, ms);
}

void vf_replay(Ctx& ctx, const Case& c) { judge(ctx, c, true); }

void vf_begin(Ctx& ctx) {
  // platform assumption, recorded: std::pow(10, p) as the library calls it is the double nearest to 10^p, and
  // ilogb(10^p)+1 is the exponent of the smallest power of two above 10^p
  long long bad = 0;
  for (int p = -8; p <= 8; ++p) {
    if (std::pow(10, p) != own_pow10(p)) ++bad;
    if (std::ilogb(own_pow10(p)) + 1 != own_pow2_exp(p)) ++bad;
  }
  ctx.count("platform_pow10_or_ilogb_mismatches", bad);
}

void vf_end(Ctx& ctx) {
  ctx.cmax("max_descale_error_milli_ulp", (long long)std::llround(g_worst_ulp * 1000));
  ctx.count("gp_candidates_tried", g_gc.tries);
  ctx.count("gp_candidates_rejected", g_gc.rejected); ctx.count("gp_flat_dense_scanline_scenes", g_gc.flat); ctx.count("gp_scenes_with_crossing_a_hair_past_a_scanline", g_gc.tie); ctx.count("gp_scenes_with_a_corner_whose_cross_product_is_an_exact_power_of_two", g_gc.wrap);
}
